(* C20 - the cached cost/gas caps of every stored list bound its members
   (what makes txList.Filter's short cut sound): invariant CAPS. *)
From VF.C20 Require Import Model Lemmas ProofsWF ProofsWF2 ProofsWF3.
From Coq Require Import Arith Lia ZifyBool ZifyN ZifyNat Permutation.
Local Open Scope N_scope.

Ltac invq H := injection H; clear H; intros; subst.

(* list-level invariant: the caps bound the members, and the Flatten cache
   (if any) is the members sorted by nonce *)
Definition capok (l : txlist) : Prop :=
  (forall t, In t (litems l) -> t_cost t <= costcap l /\ t_gas t <= gascap l) /\ ccok (txs l).

Definition CAPS (p : pool) : Prop :=
  (forall a l, aget (pending p) a = Some l -> capok l) /\
  (forall a l, aget (queue p) a = Some l -> capok l).

Lemma capok_new s : capok (new_list s).
Proof. split; [intros t []|exact I]. Qed.

Lemma capok_add l t bump ins old l' : l_add l t bump = (ins, old, l') -> capok l -> capok l'.
Proof.
  unfold l_add. match goal with |- (if ?c then _ else _) = _ -> _ => destruct c end; intros H C; invq H; auto.
  destruct C as [C _]. split; [|exact I].
  intros x. unfold litems. cbn [txs costcap gascap]. rewrite sm_put_in. intros [->|[Hx _]].
  - destruct (N.ltb (costcap l) (t_cost t)) eqn:E1; destruct (N.ltb (gascap l) (t_gas t)) eqn:E2; lia.
  - destruct (C x Hx). destruct (N.ltb (costcap l) (t_cost t)) eqn:E1; destruct (N.ltb (gascap l) (t_gas t)) eqn:E2; lia.
Qed.

(* any operation that keeps the caps and only drops members *)
Lemma capok_sub l l' :
  costcap l' = costcap l -> gascap l' = gascap l -> (forall x, In x (litems l') -> In x (litems l)) ->
  ccok (txs l') -> capok l -> capok l'.
Proof. intros E1 E2 S K [C _]. split; auto. intros x Hx. rewrite E1, E2. apply C. auto. Qed.

Lemma capok_forward l th rm l' : l_forward l th = (rm, l') -> capok l -> capok l'.
Proof.
  intros F. pose proof (l_forward_spec _ _ _ _ F) as (_ & _ & K). unfold l_forward in F.
  destruct (sm_forward (txs l) th) eqn:E. intro C. invq F. apply (capok_sub l); auto.
  - intros x Hx. apply K in Hx. tauto.
  - cbn. eapply cc_forward; eauto. apply C.
Qed.
Lemma capok_cap l th d l' : uniq (litems l) -> l_cap l th = (d, l') -> capok l -> capok l'.
Proof.
  intros U F. pose proof (l_cap_spec _ _ _ _ U F) as (_ & K & _). unfold l_cap in F.
  destruct (sm_cap (txs l) th) eqn:E. intro C. invq F. apply (capok_sub l); auto.
  - intros x Hx. apply K. auto.
  - cbn. eapply cc_cap; eauto. apply C.
Qed.
Lemma capok_ready l s r l' : uniq (litems l) -> l_ready l s = (r, l') -> capok l -> capok l'.
Proof.
  intros U F. pose proof (l_ready_spec _ _ _ _ U F) as (_ & K & _). unfold l_ready in F.
  destruct (sm_ready (txs l) s) eqn:E. intro C. invq F. apply (capok_sub l); auto.
  - intros x Hx. apply K. auto.
  - cbn. eapply cc_ready; eauto. apply C.
Qed.
Lemma capok_remove l t ok inv l' : l_remove l t = (ok, inv, l') -> capok l -> capok l'.
Proof.
  intros F C. pose proof (l_remove_spec _ _ _ _ _ F) as (_ & Kf & Kt). unfold l_remove in F.
  destruct (sm_remove (txs l) (t_nonce t)) as [ok0 m1] eqn:E. destruct ok0; cbn [negb] in F.
  - assert (C1 : ccok m1) by (eapply cc_remove; eauto; apply C).
    destruct (strict l).
    + destruct (sm_filter m1 _) as [i m2] eqn:E2. invq F. apply (capok_sub l); auto.
      * intros x Hx. destruct (Kt eq_refl) as (_ & M & _). assert (In x (litems l) /\ t_nonce x <> t_nonce t) by (apply M; auto). tauto.
      * cbn. eapply cc_filter; eauto.
    + invq F. apply (capok_sub l); auto.
      intros x Hx. destruct (Kt eq_refl) as (_ & M & _). assert (In x (litems l) /\ t_nonce x <> t_nonce t) by (apply M; auto). tauto.
  - invq F. auto.
Qed.
Lemma capok_flatten l r l' : l_flatten l = (r, l') -> capok l -> capok l' /\ r = sort_nonce (litems l).
Proof.
  intros F C. destruct (l_flatten_items _ _ _ F) as (I & _ & E1 & E2). unfold l_flatten in F.
  destruct (sm_flatten (txs l)) eqn:E. invq F. destruct (cc_flatten _ _ _ E (proj2 C)) as [K1 K2].
  split; auto. apply (capok_sub l); auto. rewrite I. auto.
Qed.
Lemma capok_filter l c g rm inv l' : l_filter l c g = (rm, inv, l') -> capok l -> capok l'.
Proof.
  intros F C. pose proof (l_filter_spec _ _ _ _ _ _ F) as (_ & _ & _ & M & _ & _ & _ & _ & Sc & Lc).
  destruct (N.leb (costcap l) c && N.leb (gascap l) g) eqn:E.
  - destruct Sc as (_ & _ & ->); auto. lia.
  - destruct Lc as (E1 & E2 & R); [lia|]. split.
    + intros x Hx. rewrite E1, E2.
      assert (Hl : In x (litems l)) by (apply M; auto).
      destruct (too_costly c g x) eqn:T.
      * exfalso. assert (In x rm) by (apply R; auto).
        pose proof (l_filter_spec _ _ _ _ _ _ F) as (_ & _ & _ & _ & D & _). apply D in Hx. tauto.
      * unfold too_costly in T. lia.
    + unfold l_filter in F. rewrite E in F.
      destruct (sm_filter (txs l) _) as [removed m1] eqn:F1.
      assert (C1 : ccok m1) by (eapply cc_filter; eauto; apply C).
      destruct removed as [|t0 rest]; [injection F as <- <- <-; auto|].
      destruct (strict l); [|injection F as <- <- <-; auto].
      destruct (sm_filter m1 _) as [invalids m2] eqn:F2. injection F as <- <- <-. cbn. eapply cc_filter; eauto.
Qed.
(* and it really cleans: what stays is within the limits *)
Lemma filter_cleans l c g rm inv l' :
  l_filter l c g = (rm, inv, l') -> capok l ->
  forall x, In x (litems l') \/ In x inv -> t_cost x <= c /\ t_gas x <= g.
Proof.
  intros F [C _] x Hx. pose proof (l_filter_spec _ _ _ _ _ _ F) as (_ & _ & Hi & M & D & _ & _ & _ & Sc & Lc).
  destruct (N.leb (costcap l) c && N.leb (gascap l) g) eqn:E.
  - destruct Sc as (_ & -> & ->); [lia|]. destruct Hx as [Hx|[]]. destruct (C x Hx). lia.
  - destruct Lc as (_ & _ & R); [lia|]. destruct Hx as [Hx|Hx].
    + destruct (too_costly c g x) eqn:T; [|unfold too_costly in T; lia].
      exfalso. assert (In x rm) by (apply R; split; auto; apply M; auto). apply D in Hx. tauto.
    + apply Hi in Hx as [_ T]. unfold too_costly in T. lia.
Qed.

Lemma caps_ext p p' : pending p' = pending p -> queue p' = queue p -> CAPS p -> CAPS p'.
Proof. intros E1 E2 [C1 C2]. split; rewrite ?E1, ?E2; auto. Qed.
Lemma caps_put_q p a l : CAPS p -> capok l -> CAPS (put_q p a l).
Proof.
  intros [C1 C2] H. split; cbn [queue pending put_q set_queue]; auto.
  intros b l0. rewrite aget_aset. eqb_cases a b; eauto. intro E. inversion E; subst; auto.
Qed.
Lemma caps_put_p p a l : CAPS p -> capok l -> CAPS (put_p p a l).
Proof.
  intros [C1 C2] H. split; cbn [queue pending put_p set_pending]; auto.
  intros b l0. rewrite aget_aset. eqb_cases a b; eauto. intro E. inversion E; subst; auto.
Qed.
Lemma caps_del_q p a : CAPS p -> CAPS (set_queue p (adel (queue p) a)).
Proof.
  intros [C1 C2]. split; cbn [queue pending set_queue]; auto.
  intros b l. rewrite aget_adel. eqb_cases a b; eauto. discriminate.
Qed.
Lemma caps_del_p p a : CAPS p -> CAPS (set_pending p (adel (pending p) a)).
Proof.
  intros [C1 C2]. split; cbn [queue pending set_pending]; auto.
  intros b l. rewrite aget_adel. eqb_cases a b; eauto. discriminate.
Qed.
Lemma caps_all_remove_list rm : forall p, CAPS p -> CAPS (all_remove_list p rm).
Proof.
  intros p C. destruct (all_remove_list_fields rm p) as (E1 & E2 & _). eapply caps_ext; eauto.
Qed.

Lemma capok_qlist p a : CAPS p -> capok (qlist p a).
Proof. intros [_ C]. unfold qlist. destruct (aget (queue p) a) eqn:G; eauto. apply capok_new. Qed.
Lemma capok_plist p a : CAPS p -> capok (plist p a).
Proof. intros [C _]. unfold plist. destruct (aget (pending p) a) eqn:G; eauto. apply capok_new. Qed.

Lemma caps_enqueue p t : CAPS p -> CAPS (snd (enqueue_tx p t)).
Proof.
  intro C. unfold enqueue_tx. fold (qlist p (t_from t)).
  destruct (l_add (qlist p (t_from t)) t (price_bump (cfg p))) as [[ins old] q'] eqn:A.
  assert (C1 : CAPS (set_queue p (aset (queue p) (t_from t) q'))).
  { apply (caps_put_q p); auto. eapply capok_add; eauto. apply capok_qlist. auto. }
  destruct ins; cbn [negb snd]; auto.
  destruct old; destruct (all_get _ _); cbn; auto.
Qed.
Lemma caps_enqueue_all l : forall p, CAPS p -> CAPS (enqueue_all p l).
Proof. unfold enqueue_all. induction l; intros p C; cbn; auto. apply IHl. apply caps_enqueue. auto. Qed.

Lemma caps_promote p a t : CAPS p -> CAPS (snd (promote_tx p a t)).
Proof.
  intro C. unfold promote_tx. fold (plist p a).
  destruct (l_add (plist p a) t (price_bump (cfg p))) as [[ins old] l'] eqn:A.
  assert (C1 : CAPS (set_pending p (aset (pending p) a l'))).
  { apply (caps_put_p p); auto. eapply capok_add; eauto. apply capok_plist. auto. }
  destruct ins; cbn [negb snd].
  - destruct old; destruct (all_get _ _); cbn; auto.
  - cbn. auto.
Qed.
Lemma caps_promote_all a l : forall p, CAPS p -> CAPS (fold_left (fun p t => snd (promote_tx p a t)) l p).
Proof. induction l; intros p C; cbn; auto. apply IHl. apply caps_promote. auto. Qed.

Lemma caps_remove_tx p id : WF p -> CAPS p -> CAPS (remove_tx p id).
Proof.
  intros W C. unfold remove_tx. destruct (all_get p id) as [t|]; auto.
  cbn [pending queue all_remove set_all].
  destruct (aget (pending p) (t_from t)) as [pl|] eqn:GP.
  - destruct (l_remove pl t) as [[removed invalids] pl'] eqn:R.
    assert (Cl : capok pl') by (eapply capok_remove; eauto; eapply (proj1 C); eauto).
    destruct removed.
    + match goal with |- CAPS (set_pnonces ?X _) => apply (caps_ext X); auto end.
      apply caps_enqueue_all. destruct (l_empty pl').
      * apply (caps_ext (set_pending p (adel (pending p) (t_from t)))); auto. apply caps_del_p. auto.
      * apply (caps_ext (put_p p (t_from t) pl')); auto. apply caps_put_p; auto.
    + destruct (aget (queue p) (t_from t)) as [ql|] eqn:GQ; [|apply (caps_ext p); auto].
      destruct (l_remove ql t) as [[ok inv] ql'] eqn:R2.
      assert (Cq : capok ql') by (eapply capok_remove; eauto; eapply (proj2 C); eauto).
      destruct (l_empty ql').
      * apply (caps_ext (set_queue p (adel (queue p) (t_from t)))); auto. apply caps_del_q. auto.
      * apply (caps_ext (put_q p (t_from t) ql')); auto. apply caps_put_q; auto.
  - destruct (aget (queue p) (t_from t)) as [ql|] eqn:GQ; [|apply (caps_ext p); auto].
    destruct (l_remove ql t) as [[ok inv] ql'] eqn:R2.
    assert (Cq : capok ql') by (eapply capok_remove; eauto; eapply (proj2 C); eauto).
    destruct (l_empty ql').
    * apply (caps_ext (set_queue p (adel (queue p) (t_from t)))); auto. apply caps_del_q. auto.
    * apply (caps_ext (put_q p (t_from t) ql')); auto. apply caps_put_q; auto.
Qed.

Lemma caps_remove_txs l : forall p, WS p -> CAPS p -> CAPS (remove_txs p l).
Proof.
  unfold remove_txs. induction l as [|t r IH]; intros p W C; cbn [fold_left]; auto.
  apply IH; [apply ws_remove_tx; auto|apply caps_remove_tx; auto; apply W].
Qed.

Lemma caps_add_tx p t local : WS p -> CAPS p -> CAPS (snd (add_tx p t local)).
Proof.
  intros W C. unfold add_tx.
  destruct (all_get p (t_id t)); [auto|].
  destruct (negb (N.eqb (validate_tx p t local) E_ok)); [auto|].
  set (limit := global_slots (cfg p) + global_queue (cfg p)).
  set (full := N.leb limit (all_count p)).
  destruct (full && negb local && priced_underpriced p t); [auto|].
  set (p1 := if full then remove_txs p (priced_discard p (all_count p - (limit - 1))) else p).
  assert (C1 : CAPS p1) by (unfold p1; destruct full; auto; apply caps_remove_txs; auto).
  destruct (match aget (pending p1) (t_from t) with
            | Some l => if l_overlaps l t then Some l else None
            | None => None end) as [l|] eqn:OV.
  - destruct (aget (pending p1) (t_from t)) as [l0|] eqn:GP; [|discriminate].
    destruct (l_overlaps l0 t); [|discriminate]. inversion OV; subst l0. clear OV.
    destruct (l_add l t (price_bump (cfg p1))) as [[ins old] l'] eqn:A.
    destruct ins; cbn [negb snd]; auto.
    apply (caps_ext (put_p p1 (t_from t) l')); [destruct old; reflexivity|destruct old; reflexivity|].
    apply caps_put_p; auto. eapply capok_add; eauto. eapply (proj1 C1); eauto.
  - pose proof (caps_enqueue p1 t C1) as H. destruct (enqueue_tx p1 t) as [[replaced e] p2]. cbn [snd] in H.
    destruct (negb (N.eqb e E_ok)); cbn [snd]; auto.
    destruct (local && negb (is_local p2 (t_from t))); cbn [snd]; auto.
Qed.

Lemma caps_add_txs_locked l local : forall p, WS p -> CAPS p -> CAPS (snd (add_txs_locked p l local)).
Proof.
  induction l as [|t r IH]; intros p W C; cbn [add_txs_locked]; auto.
  pose proof (caps_add_tx p t local W C) as H1.
  pose proof (wf_add_tx p t local (proj1 W) (proj2 W)) as H2.
  destruct (add_tx p t local) as [[replaced e] p1]. cbn [snd] in H1. destruct H2 as (W1 & S1 & _).
  specialize (IH p1 (conj W1 S1) H1). destruct (add_txs_locked p1 r local) as [[errs dirty] p2]. auto.
Qed.

Lemma uniq_of_ws_q p a l : WS p -> aget (queue p) a = Some l -> uniq (litems l).
Proof. intros [W _] G. pose proof (w_uq _ _ W a) as U. rewrite (lst_some _ _ _ G) in U. auto. Qed.
Lemma uniq_of_ws_p p a l : WS p -> aget (pending p) a = Some l -> uniq (litems l).
Proof. intros [W _] G. pose proof (w_up _ _ W a) as U. rewrite (lst_some _ _ _ G) in U. auto. Qed.

Lemma caps_promote_account p a : WS p -> CAPS p -> CAPS (promote_account p a).
Proof.
  intros W C. unfold promote_account.
  destruct (aget (queue p) a) as [l|] eqn:G; auto.
  pose proof (uniq_of_ws_q _ _ _ W G) as Ul. assert (Cl : capok l) by (eapply (proj2 C); eauto).
  destruct (l_forward l (st_nonce (cur_state p) a)) as [fw l1] eqn:F.
  destruct (l_forward_uniq _ _ _ _ Ul F) as [_ Ul1]. pose proof (capok_forward _ _ _ _ F Cl) as Cl1.
  set (p1 := all_remove_list (put_q p a l1) fw).
  assert (C1 : CAPS p1) by (apply caps_all_remove_list, caps_put_q; auto).
  destruct (l_filter l1 (st_balance (cur_state p1) a) (max_gas p1)) as [[drops inv] l2] eqn:Fi.
  destruct (l_filter_uniq _ _ _ _ _ _ Ul1 Fi) as (_ & _ & Ul2). pose proof (capok_filter _ _ _ _ _ _ Fi Cl1) as Cl2.
  set (p2 := all_remove_list (put_q p1 a l2) drops).
  assert (C2 : CAPS p2) by (apply caps_all_remove_list, caps_put_q; auto).
  destruct (l_ready l2 (nc_get (pnonces p2) a)) as [readies l3] eqn:R.
  destruct (l_ready_uniq _ _ _ _ Ul2 R) as [_ Ul3]. pose proof (capok_ready _ _ _ _ Ul2 R Cl2) as Cl3.
  set (p4 := fold_left (fun p t => snd (promote_tx p a t)) readies (put_q p2 a l3)).
  assert (C4 : CAPS p4) by (apply caps_promote_all, caps_put_q; auto).
  destruct (if negb (is_local p4 a) then l_cap l3 (N.to_nat (account_queue (cfg p4))) else ([], l3)) as [caps l5] eqn:Cp.
  assert (Cl5 : capok l5).
  { destruct (negb (is_local p4 a)); [eapply capok_cap; eauto|invq Cp; auto]. }
  set (p5 := all_remove_list (put_q p4 a l5) caps).
  assert (C5 : CAPS p5) by (apply caps_all_remove_list, caps_put_q; auto).
  destruct (l_empty l5); auto. apply caps_del_q. auto.
Qed.

Lemma caps_fold (f : pool -> N -> pool) :
  (forall p a, WS p -> WS (f p a)) -> (forall p a, WS p -> CAPS p -> CAPS (f p a)) ->
  forall l p, WS p -> CAPS p -> CAPS (fold_left f l p).
Proof. intros H1 H2 l. induction l; intros p W C; cbn; auto. Qed.

Lemma caps_promote_executables l p : WS p -> CAPS p -> CAPS (promote_executables p l).
Proof.
  unfold promote_executables. apply caps_fold; [intros; apply ws_promote_account; auto|].
  intros; apply caps_promote_account; auto.
Qed.

Lemma caps_demote_account p a : WS p -> CAPS p -> CAPS (demote_account p a).
Proof.
  intros W C. unfold demote_account.
  destruct (aget (pending p) a) as [l|] eqn:G; auto.
  pose proof (uniq_of_ws_p _ _ _ W G) as Ul. assert (Cl : capok l) by (eapply (proj1 C); eauto).
  destruct (l_forward l (st_nonce (cur_state p) a)) as [olds l1] eqn:F.
  destruct (l_forward_uniq _ _ _ _ Ul F) as [_ Ul1]. pose proof (capok_forward _ _ _ _ F Cl) as Cl1.
  set (p1 := all_remove_list (put_p p a l1) olds).
  assert (C1 : CAPS p1) by (apply caps_all_remove_list, caps_put_p; auto).
  destruct (l_filter l1 (st_balance (cur_state p1) a) (max_gas p1)) as [[drops inv] l2] eqn:Fi.
  destruct (l_filter_uniq _ _ _ _ _ _ Ul1 Fi) as (_ & _ & Ul2). pose proof (capok_filter _ _ _ _ _ _ Fi Cl1) as Cl2.
  set (p2 := enqueue_all (all_remove_list (put_p p1 a l2) drops) inv).
  assert (C2 : CAPS p2) by (apply caps_enqueue_all, caps_all_remove_list, caps_put_p; auto).
  destruct (if negb (l_empty l2) && match sm_get (txs l2) (st_nonce (cur_state p) a) with None => true | Some _ => false end
            then l_cap l2 0 else ([], l2)) as [gapped l3] eqn:Cp.
  assert (H3 : capok l3 /\ uniq (litems l3)).
  { destruct (negb (l_empty l2) && _).
    - split; [eapply capok_cap; eauto|]. eapply l_cap_uniq; eauto.
    - invq Cp. auto. }
  destruct H3 as [Cl3 Ul3].
  set (p3 := enqueue_all (put_p p2 a l3) gapped).
  assert (C3 : CAPS p3) by (apply caps_enqueue_all, caps_put_p; auto).
  match goal with |- CAPS (match ?X with pair _ _ => _ end) =>
    destruct X as [[gapped2 l4] seen] eqn:C2' end.
  assert (Cl4 : capok l4).
  { destruct (negb (l_empty l3)); [destruct (gapfix (cfg p3))|].
    - cbn zeta in C2'. destruct (sm_filter (txs l3) _) as [inv0 m] eqn:SF. invq C2'.
      pose proof (sm_filter_spec _ _ _ _ SF) as [_ S2].
      apply (capok_sub l3); auto; [unfold litems; cbn [txs]; intros x Hx; apply S2 in Hx; tauto|].
      cbn [txs]. eapply cc_filter; eauto. apply Cl3.
    - cbn zeta in C2'. invq C2'. auto.
    - invq C2'. auto. }
  assert (C3' : CAPS (if seen then set_gap_seen p3 else p3)) by (destruct seen; auto; apply (caps_ext p3); auto).
  match goal with |- CAPS (if _ then _ else ?X) => set (p4 := X) end.
  assert (C4 : CAPS p4) by (apply caps_enqueue_all, caps_put_p; auto).
  destruct (l_empty l4); auto.
  apply (caps_ext (set_pending p4 (adel (pending p4) a))); auto. apply caps_del_p. auto.
Qed.

Lemma caps_demote_unexecutables p ord : WS p -> CAPS p -> CAPS (demote_unexecutables p ord).
Proof.
  unfold demote_unexecutables. apply caps_fold; [intros; apply ws_demote_account; auto|].
  intros; apply caps_demote_account; auto.
Qed.

Definition SC (p : pool) : Prop := WS p /\ CAPS p.

Lemma caps_shave_fold a caps : forall q,
  CAPS q -> CAPS (fold_left (fun p t => set_pnonces (all_remove p (t_id t)) (nc_set_if_lower (pnonces p) a (t_nonce t))) caps q).
Proof.
  induction caps as [|t r IH]; intros q Cq; cbn [fold_left]; auto.
Qed.

Lemma caps_shave p a : WS p -> CAPS p -> CAPS (shave p a).
Proof.
  intros W C. unfold shave. destruct (aget (pending p) a) as [l|] eqn:G; [|apply (caps_ext p); auto].
  destruct (l_empty l); [apply (caps_ext p); auto|].
  pose proof (uniq_of_ws_p _ _ _ W G) as Ul.
  destruct (l_cap l (N.to_nat (l_len l) - 1)) as [caps l'] eqn:Cp.
  apply caps_shave_fold. apply (caps_put_p p); auto. eapply capok_cap; eauto. eapply (proj1 C); eauto.
Qed.

Lemma sc_shave p a : SC p -> SC (shave p a).
Proof. intros [W C]. split; [apply ws_shave|apply caps_shave]; auto. Qed.

Lemma sc_shave_all l : forall p cnt,
  SC p -> SC (fst (fold_left (fun pc a => (shave (fst pc) a, snd pc - 1)) l (p, cnt))).
Proof. induction l; intros p cnt W; cbn; auto. apply IHl. apply sc_shave. auto. Qed.

Lemma sc_equalize fuel : forall p cnt prevs lp th, SC p -> SC (fst (equalize fuel p cnt prevs lp th)).
Proof.
  induction fuel as [|f IH]; intros p cnt prevs lp th W; cbn; auto.
  destruct (_ && _); cbn; auto.
  rewrite fold_shave_pair. apply IH. apply sc_shave_all. auto.
Qed.
Lemma sc_trunc_loop1 fuel spammers : forall p cnt offenders,
  SC p -> SC (fst (fst (trunc_loop1 fuel p cnt spammers offenders))).
Proof.
  induction spammers as [|o rest IH]; intros p cnt offenders W; cbn; auto.
  destruct (N.ltb _ cnt); cbn; auto.
  destruct offenders as [|o1 os].
  - apply IH. auto.
  - destruct (equalize fuel p cnt (o1 :: os) (last (o1 :: os) 0) (pend_len p o)) as [p' cnt'] eqn:E.
    apply IH. pose proof (sc_equalize fuel p cnt (o1 :: os) (last (o1 :: os) 0) (pend_len p o) W) as H.
    rewrite E in H. auto.
Qed.
Lemma sc_trunc_loop2 fuel : forall p cnt offenders, SC p -> SC (fst (trunc_loop2 fuel p cnt offenders)).
Proof.
  induction fuel as [|f IH]; intros p cnt offenders W; cbn; auto.
  destruct (_ && _); cbn; auto.
  rewrite fold_shave_pair. apply IH. apply sc_shave_all. auto.
Qed.
Lemma sc_truncate_pending p ord : SC p -> SC (truncate_pending p ord).
Proof.
  intro W. unfold truncate_pending. destruct (N.leb _ _); auto.
  match goal with |- context [trunc_loop1 ?f ?p0 ?c ?s ?o] =>
    pose proof (sc_trunc_loop1 f s p0 c o W) as H; destruct (trunc_loop1 f p0 c s o) as [[p1 c1] off] end.
  cbn in H. destruct off; auto. apply sc_trunc_loop2. auto.
Qed.

Lemma sc_remove_tx p id : SC p -> SC (remove_tx p id).
Proof. intros [W C]. split; [apply ws_remove_tx|apply caps_remove_tx]; auto. apply W. Qed.
Lemma sc_remove_txs p l : SC p -> SC (remove_txs p l).
Proof. intros [W C]. split; [apply ws_remove_txs|apply caps_remove_txs]; auto. Qed.

Lemma sc_flatten_q p a l flat l' : SC p -> aget (queue p) a = Some l -> l_flatten l = (flat, l') -> SC (put_q p a l').
Proof.
  intros [W C] G F. split; [eapply ws_flatten_q; eauto|]. apply caps_put_q; auto.
  eapply (proj1 (capok_flatten _ _ _ F _)). Unshelve. eapply (proj2 C); eauto.
Qed.
Lemma sc_flatten_p p a l flat l' : SC p -> aget (pending p) a = Some l -> l_flatten l = (flat, l') -> SC (put_p p a l').
Proof.
  intros [W C] G F. split; [eapply ws_flatten_p; eauto|]. apply caps_put_p; auto.
  eapply (proj1 (capok_flatten _ _ _ F _)). Unshelve. eapply (proj1 C); eauto.
Qed.

Lemma sc_ext p p' : pending p' = pending p -> queue p' = queue p -> all p' = all p -> SC p -> SC p'.
Proof. intros E1 E2 E3 [W C]. split; [apply (ws_ext p); auto|apply (caps_ext p); auto]. Qed.

Lemma sc_drop_last_n l : forall p drop, SC p -> SC (fst (drop_last_n p l drop)).
Proof.
  induction l as [|t r IH]; intros p drop W; cbn; auto.
  destruct (N.ltb 0 drop); cbn; auto. apply IH. apply sc_remove_tx. auto.
Qed.
Lemma sc_trunc_queue_loop addrs : forall p drop, SC p -> SC (trunc_queue_loop p addrs drop).
Proof.
  induction addrs as [|a rest IH]; intros p drop W; cbn; auto.
  destruct (N.ltb 0 drop); auto.
  destruct (aget (queue p) a) as [l|] eqn:G; [|apply (sc_ext p); auto].
  destruct (l_flatten l) as [flat l'] eqn:F.
  pose proof (sc_flatten_q _ _ _ _ _ W G F) as W1.
  destruct (N.leb (l_len l) drop).
  - apply IH. apply sc_remove_txs. auto.
  - pose proof (sc_drop_last_n (rev flat) _ drop W1) as H.
    destruct (drop_last_n _ (rev flat) drop) as [p2 d2]. apply IH. auto.
Qed.
Lemma sc_truncate_queue p ord : SC p -> SC (truncate_queue p ord).
Proof. intro W. unfold truncate_queue. destruct (N.leb _ _); auto. apply sc_trunc_queue_loop. auto. Qed.

Lemma sc_fix_nonce p a : SC p -> SC (fix_nonce p a).
Proof.
  intro W. unfold fix_nonce. destruct (aget (pending p) a) as [l|] eqn:G; auto.
  destruct (l_flatten l) as [flat l'] eqn:F. pose proof (sc_flatten_p _ _ _ _ _ W G F) as W1.
  destruct (rev flat); apply (sc_ext (put_p p a l')); auto.
Qed.
Lemma sc_fold (f : pool -> N -> pool) :
  (forall p a, SC p -> SC (f p a)) -> forall l p, SC p -> SC (fold_left f l p).
Proof. intros H l. induction l; intros p W; cbn; auto. Qed.

Lemma sc_add_txs_locked p l local : SC p -> SC (snd (add_txs_locked p l local)).
Proof. intros [W C]. split; [apply ws_add_txs_locked|apply caps_add_txs_locked]; auto. Qed.

Lemma sc_promote_executables l p : SC p -> SC (promote_executables p l).
Proof. intros [W C]. split; [apply ws_promote_executables|apply caps_promote_executables]; auto. Qed.
Lemma sc_demote_unexecutables p ord : SC p -> SC (demote_unexecutables p ord).
Proof. intros [W C]. split; [apply ws_demote_unexecutables|apply caps_demote_unexecutables]; auto. Qed.

Lemma sc_reset p old new : SC p -> SC (reset p old new).
Proof.
  intro W. unfold reset. destruct (reset_reinject (chain p) old new) as [re|]; auto.
  destruct (h_state new) as [s|]; auto.
  assert (W1 : SC (set_head_state p s (h_gaslimit new))) by (apply (sc_ext p); auto).
  pose proof (sc_add_txs_locked _ re false W1) as H.
  destruct (add_txs_locked _ re false) as [[e d] p']. auto.
Qed.

Lemma sc_run_reorg p rs dirty ord : SC p -> SC (run_reorg p rs dirty ord).
Proof.
  intro W. unfold run_reorg.
  destruct rs as [[old new]|].
  - apply sc_fold; [intros; apply sc_fix_nonce; auto|].
    apply sc_truncate_queue, sc_truncate_pending, sc_demote_unexecutables, sc_promote_executables, sc_reset. auto.
  - apply sc_fold; [intros; apply sc_fix_nonce; auto|].
    apply sc_truncate_queue, sc_truncate_pending, sc_promote_executables. auto.
Qed.

Lemma sc_set_price p price : SC p -> SC (set_price p price).
Proof. intro W. unfold set_price. apply sc_remove_txs. apply (sc_ext p); auto. Qed.

Lemma sc_evict p expired : SC p -> SC (evict p expired).
Proof.
  unfold evict. apply sc_fold. intros q a W. unfold evict_account.
  destruct (is_local q a); auto. destruct (existsb _ expired); auto.
  destruct (aget (queue q) a) as [l|] eqn:G; auto.
  destruct (l_flatten l) as [flat l'] eqn:F. apply sc_remove_txs. eapply sc_flatten_q; eauto.
Qed.

Lemma sc_pending_view_fold keys : forall out p,
  SC p ->
  SC (snd (fold_left (fun acc a =>
               let '(out, p) := acc in
               match aget (pending p) a with
               | None => (out, p)
               | Some l => let '(flat, l') := l_flatten l in
                           (out ++ [(a, flat)], set_pending p (aset (pending p) a l'))
               end) keys (out, p))).
Proof.
  induction keys as [|a r IH]; intros out p W; cbn [fold_left]; auto.
  destruct (aget (pending p) a) as [l|] eqn:G; auto.
  destruct (l_flatten l) as [flat l'] eqn:F. apply IH. eapply (sc_flatten_p p); eauto.
Qed.

Lemma sc_step p o : SC p -> SC (fst (step p o)).
Proof.
  intro W. destruct o; cbn [step].
  - cbn. apply (sc_ext p); auto.
  - pose proof (sc_add_txs_locked p l (eff_local p local) W) as H.
    destruct (add_txs_locked p l (eff_local p local)) as [[e d] p']. cbn [fst snd] in *. apply sc_run_reorg. auto.
  - pose proof (sc_add_txs_locked p l (eff_local p local) W) as H.
    destruct (add_txs_locked p l (eff_local p local)) as [[e d] p']. cbn [fst snd] in *. auto.
  - cbn [fst]. apply sc_run_reorg. auto.
  - cbn [fst]. apply sc_set_price. auto.
  - cbn [fst]. apply sc_evict. auto.
  - cbn [fst]. apply sc_remove_tx. auto.
  - unfold pending_view. pose proof (sc_pending_view_fold (akeys (pending p)) [] p W) as H.
    destruct (fold_left _ (akeys (pending p)) ([], p)) as [v p']. cbn [fst snd] in *. auto.
Qed.

Lemma sc_run ops : forall p, SC p -> SC (run p ops).
Proof. unfold run. induction ops; intros p W; cbn; auto. apply IHops. apply sc_step. auto. Qed.

Lemma sc_new_pool c g : SC (new_pool c g).
Proof.
  unfold new_pool. apply sc_reset. split.
  - split.
    + constructor; cbn; try tauto; try constructor; intros; try constructor; tauto.
    + split; cbn; discriminate.
  - split; cbn; discriminate.
Qed.
