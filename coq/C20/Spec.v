(* C20 - the predicates the property theorems are stated with (no proofs). *)
From VF.C20 Require Import Model.
Local Open Scope N_scope.

(* the transactions stored for account a in a view (pending or queue map) *)
Definition held (m : amap txlist) (a : N) : list tx :=
  match aget m a with Some l => items (txs l) | None => [] end.

(* Clause 1: the lookup is the disjoint union of the pending and the queued
   view, every transaction is filed under its sender, and per account one
   nonce names at most one pooled transaction. *)
Definition views_partition (p : pool) : Prop :=
  (forall t, In t (all p) -> In t (held (pending p) (t_from t)) \/ In t (held (queue p) (t_from t))) /\
  (forall a t, In t (held (pending p) a) \/ In t (held (queue p) a) -> In t (all p) /\ t_from t = a) /\
  (forall a t t', In t (held (pending p) a) -> In t' (held (queue p) a) -> t_nonce t <> t_nonce t') /\
  (forall a, NoDup (map t_nonce (held (pending p) a)) /\ NoDup (map t_nonce (held (queue p) a))) /\
  NoDup (map t_id (all p)).

(* Clause 2: the pending transactions of an account form a gap-free nonce
   sequence starting at the account's current nonce. *)
Definition pending_gapfree (p : pool) : Prop :=
  forall a t n, In t (held (pending p) a) -> st_nonce (cur_state p) a <= n < t_nonce t ->
                exists t', In t' (held (pending p) a) /\ t_nonce t' = n.

(* Clause 3: every pooled transaction is valid against the head the pool
   works on: nonce not below the account nonce, cost within the balance,
   gas within the block gas limit. *)
Definition pooled_valid (p : pool) : Prop :=
  forall t, In t (all p) ->
    st_nonce (cur_state p) (t_from t) <= t_nonce t /\
    t_value t + t_price t * t_gas t <= st_balance (cur_state p) (t_from t) /\
    t_gas t <= max_gas p.

(* Clause 4: queued transactions lie strictly above the pending ones. *)
Definition queued_above (p : pool) : Prop :=
  forall a t t', In t (held (pending p) a) -> In t' (held (queue p) a) -> t_nonce t < t_nonce t'.

(* Clause 5: the pool's next nonce (TxPool.Nonce) never runs ahead of the
   pending run: every nonce between the account nonce and it is pending. *)
Definition pool_nonce_sound (p : pool) : Prop :=
  forall a m, st_nonce (cur_state p) a <= m < nc_get (pnonces p) a ->
              exists t, In t (held (pending p) a) /\ t_nonce t = m.

(* Clause 6: Pending() hands out, per account, exactly the stored pending
   transactions in nonce order (the Flatten cache never goes stale). *)
Definition pending_api_exact (p : pool) : Prop :=
  (forall a flat, In (a, flat) (fst (pending_view p)) -> flat = sort_nonce (held (pending p) a)) /\
  (forall a, held (pending p) a <> [] -> exists flat, In (a, flat) (fst (pending_view p))).

(* Clause 7 (limits), exactly as truncatePending / truncateQueue guarantee
   it at the end of every runReorg critical section: either the pending total is
   within GlobalSlots or no remote account holds more than AccountSlots (its
   minimum allowance); either the queued total is within GlobalQueue or no
   remote account queues anything.  Local accounts are exempt from both. *)
Definition queue_len (p : pool) (a : N) : N :=
  match aget (queue p) a with Some l => l_len l | None => 0 end.
Definition limits_respected (c : config) (p : pool) : Prop :=
  (pending_count p <= global_slots c \/
   forall a, is_local p a = false -> pend_len p a <= account_slots c) /\
  (queued_count p <= global_queue c \/
   forall a, is_local p a = false -> queue_len p a = 0).

(* Clause 8: an account is treated as local (exempt from the limits, the price
   floor and eviction) only if it was configured as local or a submission of it
   flagged local was ACCEPTED (error nil) at some point of the history. *)
Fixpoint accepted_senders (l : list tx) (errs : list N) : list N :=
  match l, errs with
  | t :: r, e :: es => if N.eqb e E_ok then t_from t :: accepted_senders r es else accepted_senders r es
  | _, _ => []
  end.
(* the accounts whose local submission the op [o], run on pool [p], accepts *)
Definition local_accepts (p : pool) (o : op) : list N :=
  match o with
  | OAdd l local _ | OAddLocked l local =>
    if eff_local p local then accepted_senders l (fst (fst (add_txs_locked p l true))) else []
  | _ => []
  end.

(* Clause 9 (coalesced head changes): what the merged request of a burst of
   scheduler requests must be - the new head of the LAST reset request, the old
   head of the first one. *)
Fixpoint last_reset (rs : list req) : option hdr :=
  match rs with
  | [] => None
  | RReset _ n :: r => match last_reset r with Some x => Some x | None => Some n end
  | RPromote _ :: r => last_reset r
  end.
Fixpoint first_old (rs : list req) : option hdr :=
  match rs with
  | [] => None
  | RReset o _ :: _ => o
  | RPromote _ :: r => first_old r
  end.

(* the history used as witness of the listed finding and in the non-vacuity
   examples: head A mined nonces 3,4 of account 0; the pool takes 5,6,7 (and
   two transactions of account 1, one of them gapped); then the chain switches
   to A's sibling B, where account 0 is back at nonce 3 and cannot afford
   nonce 4 any more *)
Definition ex_cfg (fix_ : bool) : config := mkCfg 1 10 8 16 4 8 false [] fix_.
Definition ex_state (n b : N) : cstate := [(0, (n, b)); (1, (0, 1000000000))].
Definition ex_genesis : block := mkBlock (mkHdr 0 999999 0 100000 (Some (ex_state 3 10000000))) [].
Definition ex_tx (id from nonce price value : N) : tx := mkTx id from true nonce price 21000 value false 21000.
Definition ex_t3 := ex_tx 0 0 3 8 100.      Definition ex_t4 := ex_tx 1 0 4 8 5000000.
Definition ex_t5 := ex_tx 2 0 5 8 100.      Definition ex_t6 := ex_tx 3 0 6 8 100.
Definition ex_t7 := ex_tx 4 0 7 8 100.      Definition ex_u0 := ex_tx 5 1 0 9 0.
Definition ex_u2 := ex_tx 6 1 2 9 0.
Definition ex_hA : hdr := mkHdr 1 0 1 100000 (Some (ex_state 5 4000000)).
Definition ex_hB : hdr := mkHdr 2 0 1 100000 (Some (ex_state 3 1000000)).
Definition ex_ops : list op :=
  [ OBlock (mkBlock ex_hA [ex_t3; ex_t4]);
    OReorg (Some (Some (b_hdr ex_genesis), ex_hA)) None [0; 1];
    OAdd [ex_t5; ex_t6; ex_t7; ex_u0; ex_u2] false [0; 1];
    OBlock (mkBlock ex_hB []);
    OReorg (Some (Some ex_hA, ex_hB)) None [0; 1] ].
