(* C20 - part 4: effect of demoteUnexecutables (one account). *)
From VF.C20 Require Import Model Lemmas ProofsWF ProofsWF2 ProofsWF3 ProofsCaps ProofsNonce ProofsNonce2 ProofsNonce3.
From Coq Require Import Arith Lia ZifyBool ZifyN ZifyNat Permutation Sorted.
Local Open Scope N_scope.

Lemma requeue_frame p a l' drops back :
  let p' := enqueue_all (all_remove_list (put_p p a l') drops) back in
  pending p' = aset (pending p) a l' /\ same_rest p p' /\
  (forall x, In x (all p') -> In x back \/ In x (all p)).
Proof.
  cbn zeta. split; [|split].
  - rewrite enqueue_all_pending. destruct (all_remove_list_fields drops (put_p p a l')) as (E & _). rewrite E. auto.
  - eapply same_rest_trans; [|apply sr_enqueue_all]. eapply same_rest_trans; [|apply sr_all_remove_list].
    repeat split; auto.
  - intros x Hx. apply enqueue_all_all in Hx as [Hx|Hx]; auto. right.
    destruct (all_remove_list_fields drops (put_p p a l')) as (_ & _ & A). apply A in Hx. auto.
Qed.

Lemma run_from_covers fuel l next m :
  next <= m < next + N.of_nat (length (run_from fuel l next)) ->
  exists x, In x (run_from fuel l next) /\ t_nonce x = m.
Proof.
  intro H. assert (Hin : In m (map t_nonce (run_from fuel l next))) by (rewrite run_from_nonces; apply seqN_in; auto).
  apply in_map_iff in Hin as (x & E & Hx). eauto.
Qed.

Lemma demote_account_effect p a :
  WS p -> CAPS p ->
  let p' := demote_account p a in
  env_same p p' /\ pnonces p' = pnonces p /\ cfg p' = cfg p /\ (gap_seen p = true -> gap_seen p' = true) /\
  (forall x, In x (all p') -> In x (all p)) /\
  (forall b, b <> a -> (forall x, In x (lst (pending p') b) <-> In x (lst (pending p) b)) /\
                       (forall x, In x (lst (queue p') b) <-> In x (lst (queue p) b))) /\
  (forall x, In x (lst (pending p') a) -> In x (lst (pending p) a) /\ okv p x) /\
  (forall x, In x (lst (queue p') a) -> In x (lst (queue p) a) \/ (In x (lst (pending p) a) /\ okv p x)) /\
  (forall x, In x (lst (pending p) a) -> t_nonce x = sn p a -> okv p x -> In x (lst (pending p') a)) /\
  ((gapfix (cfg p) = true \/ gap_seen p' = false) ->
   forall t m, In t (lst (pending p') a) -> sn p a <= m < t_nonce t ->
               exists x, In x (lst (pending p') a) /\ t_nonce x = m).
Proof.
  intros WSp Cp. unfold demote_account.
  destruct (aget (pending p) a) as [l|] eqn:G.
  2:{ cbn zeta. split; [apply env_refl|]. split; auto. split; auto. split; auto. split; auto.
      split; [intros b _; split; intro x; tauto|].
      assert (LP0 : lst (pending p) a = []) by (unfold lst; rewrite G; auto). rewrite !LP0.
      split; [intros x []|]. split; [auto|]. split; [intros x []|]. intros _ t m []. }
  pose proof (lst_some _ _ _ G) as LP.
  pose proof (uniq_of_ws_p _ _ _ WSp G) as Ul. assert (Cl : capok l) by (eapply (proj1 Cp); eauto).
  assert (Sl : strict l = true) by (eapply (proj2 (proj2 WSp)); eauto).
  assert (Fa0 : forall x, In x (litems l) -> t_from x = a).
  { intros x Hx. eapply (w_pfrom _ _ (proj1 WSp)). rewrite LP. auto. }
  (* forward *)
  destruct (l_forward l (st_nonce (cur_state p) a)) as [olds l1] eqn:F.
  pose proof (l_forward_spec _ _ _ _ F) as (Es1 & Fr & Fk).
  destruct (l_forward_uniq _ _ _ _ Ul F) as [Uo Ul1]. pose proof (capok_forward _ _ _ _ F Cl) as Cl1.
  destruct (ws_p_drop p a l l1 olds WSp G) as (WS1 & G1 & Q1); auto.
  { intro x. rewrite Fr, Fk. split; [intro; destruct (N.ltb (t_nonce x) (st_nonce (cur_state p) a)) eqn:E; [right|left]; split; auto; lia|tauto]. }
  { intros x H1 H2. apply Fk in H1. apply Fr in H2. lia. }
  pose proof (sr_all_remove_list olds (put_p p a l1)) as SR1.
  pose proof (all_remove_list_fields olds (put_p p a l1)) as (P1f & _ & A1).
  set (p1 := all_remove_list (put_p p a l1) olds) in *.
  destruct SR1 as (Ec1 & Ecs1 & Emg1 & Epn1 & Elo1 & Egs1). cbn [cfg cur_state max_gas pnonces locals gap_seen put_p set_pending pending] in *.
  (* filter *)
  destruct (l_filter l1 (st_balance (cur_state p1) a) (max_gas p1)) as [[drops inv] l2] eqn:Fi.
  pose proof (l_filter_spec _ _ _ _ _ _ Fi) as (Es2 & Fdr & Finv & Fm & Fd & Fdi & _ & Fstr & _).
  destruct (l_filter_uniq _ _ _ _ _ _ Ul1 Fi) as (Ud & Ui & Ul2). pose proof (capok_filter _ _ _ _ _ _ Fi Cl1) as Cl2.
  pose proof (filter_cleans _ _ _ _ _ _ Fi Cl1) as Clean.
  destruct (ws_p_requeue p1 a l1 l2 drops inv WS1 G1) as (WS2 & G2 & Q2); auto.
  destruct (requeue_frame p1 a l2 drops inv) as (P2f & SR2 & A2).
  set (p2 := enqueue_all (all_remove_list (put_p p1 a l2) drops) inv) in *.
  destruct SR2 as (Ec2 & Ecs2 & Emg2 & Epn2 & Elo2 & Egs2).
  assert (Ok2 : forall x, In x (litems l2) \/ In x inv -> In x (litems l) /\ okv p x).
  { intros x Hx. assert (H1 : In x (litems l1)) by (apply Fm; tauto). apply Fk in H1 as [H1 H1'].
    split; auto. destruct (Clean x Hx) as [K1 K2].
    unfold okv, sn. rewrite (Fa0 x H1). rewrite Ecs1, Emg1 in *. repeat split; auto. }
  (* gap in front *)
  destruct (if negb (l_empty l2) && match sm_get (txs l2) (st_nonce (cur_state p) a) with None => true | Some _ => false end
            then l_cap l2 0 else ([], l2)) as [gapped l3] eqn:C.
  assert (H3 : strict l3 = strict l2 /\ (forall x, In x (litems l2) <-> In x (litems l3) \/ In x gapped) /\
               (forall x, In x (litems l3) -> ~ In x gapped) /\ uniq gapped /\ uniq (litems l3) /\
               (forall x, In x (litems l2) -> t_nonce x = st_nonce (cur_state p) a -> In x (litems l3))).
  { destruct (negb (l_empty l2) && _) eqn:Eg.
    - pose proof (l_cap_spec _ _ _ _ Ul2 C) as (E3 & M3 & D3 & _).
      destruct (l_cap_uniq _ _ _ _ Ul2 C). repeat split; auto; try apply M3.
      intros x Hx En. exfalso. apply andb_prop in Eg as [_ Eg].
      destruct (sm_get (txs l2) (st_nonce (cur_state p) a)) eqn:Sg; [discriminate|].
      eapply sm_get_none; eauto.
    - injection C as <- <-. repeat split; auto; cbn [In]; try tauto. constructor. }
  destruct H3 as (Es3 & M3 & D3 & Ug & Ul3 & Front3).
  destruct (ws_p_requeue p2 a l2 l3 [] gapped WS2 G2) as (WS3 & G3 & Q3); auto;
    try solve [constructor | intro x; rewrite M3; cbn [In]; tauto | intros x Hx; split; auto].
  destruct (requeue_frame p2 a l3 [] gapped) as (P3f & SR3 & A3).
  rewrite all_remove_list_nil in WS3, G3, Q3, P3f, SR3, A3.
  set (p3 := enqueue_all (put_p p2 a l3) gapped) in *.
  destruct SR3 as (Ec3 & Ecs3 & Emg3 & Epn3 & Elo3 & Egs3).
  (* repair / ghost flag: gap further up *)
  set (s := st_nonce (cur_state p) a) in *.
  remember (s + N.of_nat (length (run_from (length (items (txs l3))) (items (txs l3)) s))) as next eqn:Enext.
  match goal with |- context [match ?X with pair _ _ => _ end] =>
    destruct X as [[gapped2 l4] seen] eqn:C2 end.
  assert (H4 : strict l4 = strict l3 /\ (forall x, In x (litems l3) <-> In x (litems l4) \/ In x gapped2) /\
               (forall x, In x (litems l4) -> ~ In x gapped2) /\ uniq gapped2 /\ uniq (litems l4) /\
               (forall x, In x (litems l3) -> t_nonce x <= next -> In x (litems l4)) /\
               ((gapfix (cfg p3) = true \/ seen = false) -> forall x, In x (litems l4) -> t_nonce x <= next)).
  { destruct (negb (l_empty l3)) eqn:Ne; [destruct (gapfix (cfg p3)) eqn:Gf|].
    - cbn zeta in C2. destruct (sm_filter (txs l3) _) as [inv0 m] eqn:SF. injection C2 as <- <- <-.
      pose proof (sm_filter_spec _ _ _ _ SF) as [S1 S2]. destruct (sm_filter_uniq _ _ _ _ Ul3 SF) as [U1 U2].
      unfold litems. cbn [txs strict]. repeat split; auto.
      + intro Hx. destruct (N.ltb next (t_nonce x)) eqn:E; [right; apply S1|left; apply S2]; auto.
      + intros [Hx|Hx]; [apply S2 in Hx|apply S1 in Hx]; tauto.
      + intros x Hk Hd. apply S2 in Hk as [_ Hk]. apply S1 in Hd as [_ Hd]. congruence.
      + intros x Hx Hn. apply S2. split; auto. apply N.ltb_ge. exact Hn.
      + intros _ x Hx. apply S2 in Hx as [_ Hx]. apply N.ltb_ge in Hx. exact Hx.
    - cbn zeta in C2. injection C2 as <- <- <-. repeat split; auto; cbn [In]; try tauto; try constructor.
      intros [Hf|Hs] x Hx; [discriminate|].
      destruct (N.ltb next (t_nonce x)) eqn:E; [|apply N.ltb_ge in E; exact E]. exfalso.
      assert (existsb (fun t => N.ltb next (t_nonce t)) (items (txs l3)) = true) by (apply existsb_exists; eauto).
      congruence.
    - injection C2 as <- <- <-. repeat split; auto; cbn [In]; try tauto; try constructor.
      intros _ x Hx. exfalso. (* l3 is empty *)
      apply negb_false_iff, l_empty_items in Ne. rewrite Ne in Hx. destruct Hx. }
  destruct H4 as (Es4 & M4 & D4 & Ug2 & Ul4 & Keep4 & Cut4).
  assert (WS3' : WS (if seen then set_gap_seen p3 else p3)) by (destruct seen; auto; apply (ws_ext p3); auto).
  assert (G3' : aget (pending (if seen then set_gap_seen p3 else p3)) a = Some l3) by (destruct seen; auto).
  destruct (ws_p_requeue _ a l3 l4 [] gapped2 WS3' G3') as (WS4 & G4 & Q4); auto;
    try solve [constructor | intro x; rewrite M4; cbn [In]; tauto | intros x Hx; split; auto].
  destruct (requeue_frame (if seen then set_gap_seen p3 else p3) a l4 [] gapped2) as (P4f & SR4 & A4).
  rewrite all_remove_list_nil in WS4, G4, Q4, P4f, SR4, A4.
  set (p3' := if seen then set_gap_seen p3 else p3) in *.
  set (p4 := enqueue_all (put_p p3' a l4) gapped2) in *.
  destruct SR4 as (Ec4 & Ecs4 & Emg4 & Epn4 & Elo4 & Egs4).
  assert (E3' : cfg p3' = cfg p3 /\ cur_state p3' = cur_state p3 /\ max_gas p3' = max_gas p3 /\ pnonces p3' = pnonces p3 /\
                pending p3' = pending p3 /\ queue p3' = queue p3 /\ all p3' = all p3 /\
                gap_seen p3' = (if seen then true else gap_seen p3)).
  { unfold p3'. destruct seen; repeat split; auto. }
  destruct E3' as (Ec3' & Ecs3' & Emg3' & Epn3' & Ep3' & Eq3' & Ea3' & Egs3').
  (* chains *)
  assert (Sub32 : forall x, In x (litems l3) -> In x (litems l2)) by (intros x Hx; apply M3; auto).
  assert (Sub43 : forall x, In x (litems l4) -> In x (litems l3)) by (intros x Hx; apply M4; auto).
  assert (InP : forall x, In x (litems l2) \/ In x inv -> In x (lst (pending p) a) /\ okv p x).
  { intros x Hx. rewrite LP. apply Ok2. auto. }
  assert (PB : forall b, lst (pending p4) b = if N.eqb a b then litems l4 else lst (pending p) b).
  { intro b. rewrite P4f, lst_aset. destruct (N.eqb a b) eqn:E; auto.
    rewrite Ep3', P3f, lst_aset, E, P2f, lst_aset, E, P1f. cbn [pending put_p set_pending]. rewrite lst_aset, E. auto. }
  assert (QB : forall b x, In x (lst (queue p4) b) <->
                (b = a /\ (In x gapped2 \/ In x gapped \/ In x inv)) \/ In x (lst (queue p) b)).
  { intros b x. rewrite Q4, Eq3', Q3, Q2, Q1. cbn [queue put_p set_pending].
    assert (Fg2 : In x gapped2 -> t_from x = a) by (intro H; apply Fa0, Ok2; left; apply Sub32, M4; auto).
    assert (Fg : In x gapped -> t_from x = a) by (intro H; apply Fa0, Ok2; left; apply M3; auto).
    assert (Fi' : In x inv -> t_from x = a) by (intro H; apply Fa0, Ok2; auto).
    split.
    - intros [[H1 H2]|[[H1 H2]|[[H1 H2]|H]]]; auto; left; split; auto; rewrite H2; auto.
    - intros [[-> [H|[H|H]]]|H]; auto.
      + left. split; auto. symmetry. auto.
      + right. left. split; auto. symmetry. auto.
      + right. right. left. split; auto. symmetry. auto. }
  assert (FIN : forall pf, cur_state pf = cur_state p4 -> max_gas pf = max_gas p4 -> pnonces pf = pnonces p4 ->
                 cfg pf = cfg p4 -> gap_seen pf = gap_seen p4 -> all pf = all p4 -> queue pf = queue p4 ->
                 (forall b, lst (pending pf) b = if N.eqb a b then litems l4 else lst (pending p) b) ->
    env_same p pf /\ pnonces pf = pnonces p /\ cfg pf = cfg p /\ (gap_seen p = true -> gap_seen pf = true) /\
    (forall x, In x (all pf) -> In x (all p)) /\
    (forall b, b <> a -> (forall x, In x (lst (pending pf) b) <-> In x (lst (pending p) b)) /\
                         (forall x, In x (lst (queue pf) b) <-> In x (lst (queue p) b))) /\
    (forall x, In x (lst (pending pf) a) -> In x (lst (pending p) a) /\ okv p x) /\
    (forall x, In x (lst (queue pf) a) -> In x (lst (queue p) a) \/ (In x (lst (pending p) a) /\ okv p x)) /\
    (forall x, In x (lst (pending p) a) -> t_nonce x = sn p a -> okv p x -> In x (lst (pending pf) a)) /\
    ((gapfix (cfg p) = true \/ gap_seen pf = false) ->
     forall t m, In t (lst (pending pf) a) -> sn p a <= m < t_nonce t ->
                 exists x, In x (lst (pending pf) a) /\ t_nonce x = m)).
  { intros pf Ecs Emg Epn Ec Egs Ea Eq Pf.
    assert (Egs_all : gap_seen pf = (if seen then true else gap_seen p)).
    { rewrite Egs, Egs4. cbn [gap_seen put_p set_pending]. rewrite Egs3', Egs3. cbn [gap_seen put_p set_pending].
      rewrite Egs2, Egs1. auto. }
    split; [split; [rewrite Ecs, Ecs4; cbn [cur_state put_p set_pending]; rewrite Ecs3', Ecs3; cbn [cur_state put_p set_pending]; rewrite Ecs2, Ecs1; auto
                   |rewrite Emg, Emg4; cbn [max_gas put_p set_pending]; rewrite Emg3', Emg3; cbn [max_gas put_p set_pending]; rewrite Emg2, Emg1; auto]|].
    split; [rewrite Epn, Epn4; cbn [pnonces put_p set_pending]; rewrite Epn3', Epn3; cbn [pnonces put_p set_pending]; rewrite Epn2, Epn1; auto|].
    assert (Ecfg : cfg pf = cfg p).
    { rewrite Ec, Ec4. cbn [cfg put_p set_pending]. rewrite Ec3', Ec3. cbn [cfg put_p set_pending]. rewrite Ec2, Ec1. auto. }
    split; [exact Ecfg|].
    split; [intro H; rewrite Egs_all, H; destruct seen; auto|].
    split.
    { intros x Hx. rewrite Ea in Hx. apply A4 in Hx as [Hx|Hx].
      - eapply (w_pall _ _ (proj1 WSp)). apply InP. left. apply Sub32, M4. auto.
      - cbn [all put_p set_pending] in Hx. rewrite Ea3' in Hx. apply A3 in Hx as [Hx|Hx].
        + eapply (w_pall _ _ (proj1 WSp)). apply InP. left. apply M3. auto.
        + cbn [all put_p set_pending] in Hx. apply A2 in Hx as [Hx|Hx].
          * eapply (w_pall _ _ (proj1 WSp)). apply InP. auto.
          * apply A1 in Hx. auto. }
    split.
    { intros b Hb. assert (E : N.eqb a b = false) by (apply N.eqb_neq; congruence). split; intro x.
      - rewrite Pf, E. tauto.
      - rewrite Eq, QB. split; [intros [[H _]|H]; auto; congruence|auto]. }
    split.
    { intros x Hx. rewrite Pf, N.eqb_refl in Hx. apply InP. left. apply Sub32, Sub43. auto. }
    split.
    { intros x Hx. rewrite Eq in Hx. apply QB in Hx as [[_ [H|[H|H]]]|H]; auto; right; apply InP; auto;
        left; first [apply M3; auto; fail | apply Sub32, M4; auto]. }
    split.
    { intros x Hx En Ok. rewrite Pf, N.eqb_refl. rewrite LP in Hx. unfold sn in En. fold s in En.
      assert (H1 : In x (litems l1)) by (apply Fk; split; auto; fold s; rewrite En; apply N.le_refl).
      assert (H2 : In x (litems l2)).
      { apply Fm in H1 as [H1|[H1|H1]]; auto; exfalso.
        - apply Fdr in H1 as [_ T]. unfold too_costly in T. destruct Ok as (_ & O1 & O2).
          rewrite (Fa0 x Hx) in O1. rewrite Ecs1, Emg1 in T. clear -T O1 O2. lia.
        - destruct (l_filter_inv_above _ _ _ _ _ _ Fi x H1) as (y & Hy & Lt).
          apply Fdr in Hy as [Hy _]. apply Fk in Hy. fold s in Hy. clear -Hy Lt En. lia. }
      apply Keep4; [apply Front3; auto|]. rewrite Enext, En. clear. lia. }
    intros Hyp t m Ht Hm. rewrite Pf, N.eqb_refl in *. unfold sn in Hm. fold s in Hm.
    assert (Hc : gapfix (cfg p3) = true \/ seen = false).
    { destruct Hyp as [H|H]; [left|right].
      - rewrite Ec3. cbn [cfg put_p set_pending]. rewrite Ec2, Ec1. auto.
      - rewrite Egs_all in H. destruct seen; auto. }
    assert (Hle : t_nonce t <= next) by (apply Cut4; auto).
    assert (Hne : t_nonce t <> next) by (rewrite Enext; apply run_from_stops; auto; fold (litems l3); auto).
    destruct (run_from_covers (length (items (txs l3))) (items (txs l3)) s m) as (x & Hx & En); [rewrite <- Enext; clear -Hm Hle Hne; lia|].
    apply run_from_spec in Hx as [Hx Hr]. rewrite <- Enext in Hr. exists x. split; auto. apply Keep4; auto. clear -Hr En Hm Hle. lia. }
  destruct (l_empty l4) eqn:Em.
  - apply l_empty_items in Em. apply FIN; auto.
    intro b. cbn [pending set_beats set_pending]. rewrite lst_adel. destruct (N.eqb a b) eqn:E; auto.
    rewrite PB, E. auto.
  - apply FIN; auto.
Qed.
