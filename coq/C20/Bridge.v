(* C20 - facts about coq/gen/C20Locks.v (regenerated from core/tx_pool.go on
   every run): the lock discipline under which "one op of the model = one
   critical section of pool.mu" covers every access to the pool's shared
   fields, and the fingerprint of the eviction branch the hook replicates. *)
From Coq Require Import List String Bool.
From VF.gen Require Import C20Locks.
Import ListNotations.
Open Scope string_scope.

Definition entry := (string * bool * bool * list string * list string * list string * list string)%type.
Definition e_name (e : entry) := let '(n, _, _, _, _, _, _) := e in n.
Definition e_exported (e : entry) := let '(_, x, _, _, _, _, _) := e in x.
Definition e_go (e : entry) := let '(_, _, g, _, _, _, _) := e in g.
Definition e_fields_unlocked (e : entry) := let '(_, _, _, f, _, _, _) := e in f.
Definition e_calls_unlocked (e : entry) := let '(_, _, _, _, c, _, _) := e in c.

Fixpoint find_entry (t : list entry) (n : string) : option entry :=
  match t with
  | [] => None
  | e :: r => if String.eqb (e_name e) n then Some e else find_entry r n
  end.

(* does running this method touch a shared field at a moment where neither
   its own body nor (by construction of the table) its caller's holds pool.mu? *)
Fixpoint needs_lock (fuel : nat) (t : list entry) (e : entry) : bool :=
  match fuel with
  | O => true
  | S f =>
    negb (match e_fields_unlocked e with [] => true | _ => false end)
    || existsb (fun c => match find_entry t c with
                         | Some e' => needs_lock f t e'
                         | None => false      (* not a TxPool method of this file *)
                         end) (e_calls_unlocked e)
  end.

(* entry points: callable from other packages, or the body of a goroutine *)
Definition is_entry (e : entry) : bool := e_exported e || e_go e.

(* entry points tolerated outside the discipline: none.  (TransactionsNumber
   used to read pool.pending / pool.queue through stats() without the lock -
   fixes/C20_transactions_number_unlocked.md, repaired by commit 94b8c45; with
   the empty list a regression fails this file.) *)
Definition known_unlocked_entries : list string := [].

Definition discipline_ok (t : list entry) : bool :=
  forallb (fun e => negb (is_entry e) || negb (needs_lock (List.length t) t e)
                    || existsb (String.eqb (e_name e)) known_unlocked_entries) t.

Lemma lock_discipline_holds : discipline_ok c20_methods = true.
Proof. vm_compute. reflexivity. Qed.

(* spelled out: every entry point runs all its accesses to shared pool fields
   inside a pool.mu critical section *)
Lemma lock_discipline_forall :
  forall e, In e c20_methods -> is_entry e = true ->
            needs_lock (List.length c20_methods) c20_methods e = false \/ In (e_name e) known_unlocked_entries.
Proof.
  intros e Hin He. pose proof lock_discipline_holds as H. unfold discipline_ok in H.
  rewrite forallb_forall in H. specialize (H e Hin). rewrite He in H. cbn [negb orb] in H.
  match type of H with context [needs_lock ?a ?b ?c] => destruct (needs_lock a b c) eqn:N end; auto.
  cbn [negb orb] in H. right. apply existsb_exists in H as (x & Hx & E). apply String.eqb_eq in E. subst. auto.
Qed.

Lemma evict_branch_as_modelled : c20_evict_branch_as_modelled = true.
Proof. reflexivity. Qed.
