(* C20 - facts about coq/gen/C20Locks.v (regenerated from core/tx_pool.go on
   every run): the lock discipline under which "one op of the model = one
   critical section of pool.mu" covers every access to the pool's shared
   fields, and the fingerprint of the eviction branch the hook replicates. *)
From Coq Require Import List String Bool.
From VF.gen Require Import C20Locks.
Import ListNotations.
Open Scope string_scope.

Definition entry := (string * bool * bool * list string * list string * list string * list string)%type.
Definition e_name (e : entry) := let '(n, _, _, _, _, _, _) := e in n.
Definition e_exported (e : entry) := let '(_, x, _, _, _, _, _) := e in x.
Definition e_go (e : entry) := let '(_, _, g, _, _, _, _) := e in g.
Definition e_fields_unlocked (e : entry) := let '(_, _, _, f, _, _, _) := e in f.
Definition e_calls_unlocked (e : entry) := let '(_, _, _, _, c, _, _) := e in c.

Fixpoint find_entry (t : list entry) (n : string) : option entry :=
  match t with
  | [] => None
  | e :: r => if String.eqb (e_name e) n then Some e else find_entry r n
  end.

(* does running this method touch a shared field at a moment where neither
   its own body nor (by construction of the table) its caller's holds pool.mu? *)
Fixpoint needs_lock (fuel : nat) (t : list entry) (e : entry) : bool :=
  match fuel with
  | O => true
  | S f =>
    negb (match e_fields_unlocked e with [] => true | _ => false end)
    || existsb (fun c => match find_entry t c with
                         | Some e' => needs_lock f t e'
                         | None => false      (* not a TxPool method of this file *)
                         end) (e_calls_unlocked e)
  end.

(* entry points: callable from other packages, or the body of a goroutine *)
Definition is_entry (e : entry) : bool := e_exported e || e_go e.

(* entry points tolerated outside the discipline: none.  (TransactionsNumber
   used to read pool.pending / pool.queue through stats() without the lock -
   fixes/C20_transactions_number_unlocked.md, repaired by commit 94b8c45; with
   the empty list a regression fails this file.) *)
Definition known_unlocked_entries : list string := [].

Definition discipline_ok (t : list entry) : bool :=
  forallb (fun e => negb (is_entry e) || negb (needs_lock (List.length t) t e)
                    || existsb (String.eqb (e_name e)) known_unlocked_entries) t.

Lemma lock_discipline_holds : discipline_ok c20_methods = true.
Proof. vm_compute. reflexivity. Qed.

(* spelled out: every entry point runs all its accesses to shared pool fields
   inside a pool.mu critical section *)
Lemma lock_discipline_forall :
  forall e, In e c20_methods -> is_entry e = true ->
            needs_lock (List.length c20_methods) c20_methods e = false \/ In (e_name e) known_unlocked_entries.
Proof.
  intros e Hin He. pose proof lock_discipline_holds as H. unfold discipline_ok in H.
  rewrite forallb_forall in H. specialize (H e Hin). rewrite He in H. cbn [negb orb] in H.
  match type of H with context [needs_lock ?a ?b ?c] => destruct (needs_lock a b c) eqn:N end; auto.
  cbn [negb orb] in H. right. apply existsb_exists in H as (x & Hx & E). apply String.eqb_eq in E. subst. auto.
Qed.

(* ---- read-locked regions --------------------------------------------------- *)
(* pool.mu.RLock admits several holders at once, so a region that holds only
   the read lock must not write shared pool state - neither directly nor through
   anything it calls (lazy caches such as txSortedMap.Flatten's m.cache, heap
   and sort operations included).  Calls are resolved by name over the three
   pool files (an over-approximation); types with their own mutex (txLookup,
   txNoncer) synchronise their writes themselves and count as non-writing. *)
Definition fentry := (string * bool * list string)%type.
Fixpoint find_func (t : list fentry) (n : string) : option (bool * list string) :=
  match t with
  | [] => None
  | (m, w, cs) :: r => if String.eqb m n then Some (w, cs) else find_func r n
  end.
(* depth-first over the call names; a name already on the path adds nothing
   (recursion by name, e.g. txList.Len -> txSortedMap.Len) *)
Fixpoint may_write_from (fuel : nat) (t : list fentry) (seen : list string) (n : string) : bool :=
  match fuel with
  | O => true
  | S f => if existsb (String.eqb n) seen then false
           else match find_func t n with
                | Some (w, cs) => w || existsb (may_write_from f t (n :: seen)) cs
                | None => false        (* not defined in the pool files *)
                end
  end.
Definition may_write (fuel : nat) (t : list fentry) (n : string) : bool := may_write_from (S fuel) t [] n.

(* (region, callee) pairs tolerated although the name analysis flags them: none *)
Definition pinned_read_exceptions : list (string * string) := [].

Definition read_regions_ok (t : list fentry) (rs : list fentry) : bool :=
  forallb (fun r => let '(name, w, cs) := r in
             negb w &&
             forallb (fun c => negb (may_write (List.length t) t c)
                               || existsb (fun e => String.eqb (fst e) name && String.eqb (snd e) c) pinned_read_exceptions) cs) rs.

Lemma read_regions_do_not_write : read_regions_ok c20_funcs c20_read_regions = true.
Proof. vm_compute. reflexivity. Qed.

Lemma read_regions_forall :
  forall name w cs, In (name, w, cs) c20_read_regions ->
    w = false /\ forall c, In c cs -> may_write (List.length c20_funcs) c20_funcs c = false \/ In (name, c) pinned_read_exceptions.
Proof.
  intros name w cs Hin. pose proof read_regions_do_not_write as H. unfold read_regions_ok in H.
  rewrite forallb_forall in H. specialize (H _ Hin). cbn beta iota in H.
  apply andb_prop in H as [H1 H2]. split; [destruct w; auto; discriminate|].
  intros c Hc. rewrite forallb_forall in H2. specialize (H2 c Hc).
  match type of H2 with context [may_write ?a ?b ?x] => destruct (may_write a b x) eqn:M end; auto.
  cbn [negb orb] in H2. right. apply existsb_exists in H2 as ([n' c'] & Hx & E). apply andb_prop in E as [E1 E2].
  apply String.eqb_eq in E1. apply String.eqb_eq in E2. cbn in E1, E2. subst. auto.
Qed.

(* the analysis is not vacuous: it does see the lazy cache of Flatten and the
   write-locked users of it *)
Lemma flatten_is_seen_as_a_write : may_write (List.length c20_funcs) c20_funcs "Flatten" = true.
Proof. vm_compute. reflexivity. Qed.

Lemma evict_branch_as_modelled : c20_evict_branch_as_modelled = true.
Proof. reflexivity. Qed.

(* the two merging branches of scheduleReorgLoop read as Model.sched_merge states them *)
Lemma sched_merge_as_modelled : c20_sched_merge_as_modelled = true.
Proof. reflexivity. Qed.
