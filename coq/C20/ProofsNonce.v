(* C20 - the state-relative clauses: pooled transactions are valid against
   the current head (not stale, affordable, within the gas limit), pending
   lists are gap-free from the account nonce, the pool nonce never runs ahead.
   Part 1: definitions, the "cut" relation and the functions that are cuts. *)
From VF.C20 Require Import Model Lemmas ProofsWF ProofsWF2 ProofsWF3 ProofsCaps.
From Coq Require Import Arith Lia ZifyBool ZifyN ZifyNat Permutation.
Local Open Scope N_scope.

Definition sn (p : pool) (a : N) : N := st_nonce (cur_state p) a.
Definition nc (p : pool) (a : N) : N := nc_get (pnonces p) a.
Definition okv (p : pool) (t : tx) : Prop :=
  sn p (t_from t) <= t_nonce t /\ t_cost t <= st_balance (cur_state p) (t_from t) /\ t_gas t <= max_gas p.
Definition pn (p : pool) (a m : N) : Prop := exists t, In t (lst (pending p) a) /\ t_nonce t = m.

Definition VAL (p : pool) : Prop := forall t, In t (all p) -> okv p t.
Definition GAPFREE (p : pool) : Prop :=
  forall a t m, In t (lst (pending p) a) -> sn p a <= m < t_nonce t -> pn p a m.
Definition NC (p : pool) : Prop := forall a m, sn p a <= m < nc p a -> pn p a m.
Definition AFF0 (p : pool) : Prop :=
  forall a, sn p a < nc p a -> exists t, In t (lst (pending p) a) /\ t_nonce t = sn p a /\ okv p t.

Definition env_same (p p' : pool) : Prop := cur_state p' = cur_state p /\ max_gas p' = max_gas p.

Lemma okv_env p p' t : env_same p p' -> okv p t -> okv p' t.
Proof. intros [E1 E2]. unfold okv, sn. rewrite E1, E2. auto. Qed.
Lemma env_refl p : env_same p p. Proof. split; auto. Qed.
Lemma env_trans p q r : env_same p q -> env_same q r -> env_same p r.
Proof. intros [A B] [C D]. split; congruence. Qed.

(* ---- noncer facts --------------------------------------------------------- *)
Lemma nc_get_set n a v b : nc_get (nc_set n a v) b = if N.eqb a b then v else nc_get n b.
Proof. unfold nc_get, nc_set. cbn [Model.nonces fallback]. rewrite aget_aset. destruct (N.eqb a b); auto. Qed.
Lemma nc_get_set_if_lower n a v b :
  nc_get (nc_set_if_lower n a v) b = if N.eqb a b then N.min (nc_get n a) v else nc_get n b.
Proof.
  unfold nc_set_if_lower. destruct (N.leb (nc_get n a) v) eqn:E.
  - eqb_cases a b; auto. lia.
  - rewrite nc_get_set. eqb_cases a b; auto. lia.
Qed.

(* ---- cuts ----------------------------------------------------------------- *)
Definition below (B : option N) (m : N) : Prop := match B with Some b => m < b | None => True end.
Definition minB (x : N) (B : option N) : N := match B with Some b => N.min x b | None => x end.

Definition cut (p p' : pool) : Prop :=
  env_same p p' /\
  (forall x, In x (all p') -> In x (all p) \/ okv p x) /\
  forall a, exists B,
    (forall m, pn p' a m <-> pn p a m /\ below B m) /\
    nc p' a = minB (nc p a) B /\
    (forall t, In t (lst (pending p') a) -> In t (lst (pending p) a) \/ okv p t).

Lemma cut_refl p : cut p p.
Proof.
  split; [apply env_refl|]. split; [auto|]. intro a. exists None. cbn. repeat split; auto; tauto.
Qed.

(* pools that agree on what a cut looks at *)
Lemma cut_same p p' :
  env_same p p' -> (forall x, In x (all p') -> In x (all p)) -> pending p' = pending p -> pnonces p' = pnonces p ->
  cut p p'.
Proof.
  intros E A P N. split; auto. split; [auto|]. intro a. exists None. unfold pn, nc. rewrite P, N. cbn.
  repeat split; auto; tauto.
Qed.

Lemma cut_trans p q r : cut p q -> cut q r -> cut p r.
Proof.
  intros (E1 & A1 & C1) (E2 & A2 & C2). split; [eapply env_trans; eauto|]. split.
  - intros x Hx. destruct (A2 x Hx) as [H|H]; auto. right.
    destruct E1 as [e1 e2]. unfold okv, sn in *. rewrite e1, e2 in H. auto.
  - intro a. destruct (C1 a) as (B1 & P1 & N1 & T1). destruct (C2 a) as (B2 & P2 & N2 & T2).
    exists (match B1, B2 with Some x, Some y => Some (N.min x y) | Some x, None => Some x | None, y => y end).
    split; [|split].
    + intro m. rewrite P2, P1. destruct B1, B2; cbn; intuition lia.
    + rewrite N2, N1. destruct B1, B2; cbn; lia.
    + intros t Ht. destruct (T2 t Ht) as [H|H]; auto. right.
      destruct E1 as [e1 e2]. unfold okv, sn in *. rewrite e1, e2 in H. auto.
Qed.

Lemma cut_fold (f : pool -> N -> pool) (I : pool -> Prop) :
  (forall p a, I p -> I (f p a) /\ cut p (f p a)) ->
  forall l p, I p -> I (fold_left f l p) /\ cut p (fold_left f l p).
Proof.
  intros H l. induction l as [|a r IH]; intros p Ip; cbn; [split; auto; apply cut_refl|].
  destruct (H p a Ip) as [I1 C1]. destruct (IH _ I1) as [I2 C2]. split; auto. eapply cut_trans; eauto.
Qed.

(* what a cut preserves *)
Lemma cut_val p p' : cut p p' -> VAL p -> VAL p'.
Proof.
  intros (E & A & _) V x Hx. apply (okv_env p); auto. destruct (A x Hx); auto.
Qed.
Lemma cut_sn p p' a : cut p p' -> sn p' a = sn p a.
Proof. intros ([E _] & _). unfold sn. rewrite E. auto. Qed.
Lemma cut_gapfree p p' : cut p p' -> GAPFREE p -> GAPFREE p'.
Proof.
  intros C G a t m Ht Hm. rewrite (cut_sn _ _ a C) in Hm. destruct C as (_ & _ & C).
  destruct (C a) as (B & P & _ & _).
  assert (H : pn p' a (t_nonce t)) by (exists t; auto). apply P in H as [(t0 & H0 & E0) Hb].
  apply P. split.
  - eapply G; eauto. lia.
  - destruct B; cbn in *; auto. lia.
Qed.
Lemma cut_nc p p' : cut p p' -> NC p -> NC p'.
Proof.
  intros C G a m Hm. rewrite (cut_sn _ _ a C) in Hm. destruct C as (_ & _ & C).
  destruct (C a) as (B & P & N & _). rewrite N in Hm. apply P. split.
  - apply G. destruct B; cbn in *; lia.
  - destruct B; cbn in *; auto. lia.
Qed.
Lemma cut_aff0 p p' : WF p -> cut p p' -> AFF0 p -> AFF0 p'.
Proof.
  intros W C G a Hm. rewrite (cut_sn _ _ a C) in *. pose proof C as (E & _ & C').
  destruct (C' a) as (B & P & N & T). rewrite N in Hm.
  destruct (G a) as (t & Ht & En & Ok); [destruct B; cbn in *; lia|].
  assert (H : pn p' a (sn p a)).
  { apply P. split; [exists t; auto|]. destruct B; cbn in *; auto. lia. }
  destruct H as (t' & Ht' & En'). exists t'. split; auto. split; auto.
  apply (okv_env p); auto. destruct (T t' Ht') as [H|H]; auto.
  assert (t' = t) by (eapply (uniq_inj (lst (pending p) a)); eauto; [apply (w_up _ _ W)|congruence]).
  subst. auto.
Qed.

(* ---- frames --------------------------------------------------------------- *)
Definition same_rest (p p' : pool) : Prop :=
  cfg p' = cfg p /\ cur_state p' = cur_state p /\ max_gas p' = max_gas p /\ pnonces p' = pnonces p /\
  locals p' = locals p /\ gap_seen p' = gap_seen p.

Lemma same_rest_refl p : same_rest p p. Proof. repeat split; auto. Qed.
Lemma same_rest_trans p q r : same_rest p q -> same_rest q r -> same_rest p r.
Proof. intros (A&B&C&D&E&F) (A'&B'&C'&D'&E'&F'). repeat split; congruence. Qed.

Lemma sr_all_remove_list rm p : same_rest p (all_remove_list p rm).
Proof.
  revert p. unfold all_remove_list. induction rm as [|t r IH]; intro p; cbn; [apply same_rest_refl|].
  eapply same_rest_trans; [|apply IH]. repeat split; auto.
Qed.
Lemma sr_enqueue p t : same_rest p (snd (enqueue_tx p t)).
Proof.
  unfold enqueue_tx. destruct (l_add _ t _) as [[ins old] q']. destruct ins; cbn [negb snd].
  - destruct old; destruct (all_get _ _); repeat split; auto.
  - repeat split; auto.
Qed.
Lemma sr_enqueue_all l : forall p, same_rest p (enqueue_all p l).
Proof.
  unfold enqueue_all. induction l as [|t r IH]; intro p; cbn; [apply same_rest_refl|].
  eapply same_rest_trans; [apply sr_enqueue|apply IH].
Qed.
Lemma enqueue_all_all l : forall p x, In x (all (enqueue_all p l)) -> In x l \/ In x (all p).
Proof.
  unfold enqueue_all. induction l as [|t r IH]; intros p x Hx; cbn in *; auto.
  apply IH in Hx as [Hx|Hx]; auto.
  unfold enqueue_tx in Hx. destruct (l_add _ t _) as [[ins old] q']. destruct ins; cbn [negb snd] in Hx; auto.
  assert (K : forall p0, In x (all (match all_get p0 (t_id t) with None => all_add p0 t | Some _ => p0 end)) -> x = t \/ In x (all p0)).
  { intros p0 H. destruct (all_get p0 (t_id t)); auto. apply all_add_in in H as [->|[H _]]; auto. }
  apply K in Hx as [->|Hx]; auto. right.
  destruct old; [apply all_remove_in in Hx as [Hx _]|]; auto.
Qed.
Lemma enqueue_all_pending l : forall p, pending (enqueue_all p l) = pending p.
Proof.
  unfold enqueue_all. induction l as [|t r IH]; intro p; cbn; auto. rewrite IH.
  unfold enqueue_tx. destruct (l_add _ t _) as [[ins old] q']. destruct ins; cbn [negb snd]; auto.
  destruct old; destruct (all_get _ _); auto.
Qed.

(* ---- removeTx is a cut ---------------------------------------------------- *)
Lemma cut_remove_tx p id : WF p -> ST p -> cut p (remove_tx p id).
Proof.
  intros W S. unfold remove_tx. destruct (all_get p id) as [t|] eqn:G; [|apply cut_refl].
  apply all_get_some in G as [Tin Tid]. subst id.
  pose proof W as W0. dwf W0.
  cbn [pending queue all_remove set_all].
  destruct (aget (pending p) (t_from t)) as [pl|] eqn:GP.
  - destruct (l_remove pl t) as [[removed invalids] pl'] eqn:R.
    pose proof (l_remove_spec _ _ _ _ _ R) as (Rs & Rf & Rt).
    destruct removed.
    + destruct (Rt eq_refl) as (_ & Rm & Rd & _ & Rstrict). clear Rf Rt.
      assert (Sp : strict pl = true) by (eapply S; eauto).
      match goal with |- cut p (set_pnonces (enqueue_all ?X invalids) _) => set (p2 := X) end.
      assert (P2 : forall b, lst (pending p2) b = if N.eqb (t_from t) b then litems pl' else lst (pending p) b).
      { intro b. unfold p2. destruct (l_empty pl') eqn:Em.
        - cbn [pending set_beats set_pending all_remove set_all]. rewrite lst_adel.
          apply l_empty_items in Em. rewrite Em. auto.
        - cbn [pending set_pending all_remove set_all]. rewrite lst_aset. auto. }
      assert (SR : same_rest p (enqueue_all p2 invalids)).
      { eapply same_rest_trans; [|apply sr_enqueue_all]. unfold p2. destruct (l_empty pl'); repeat split; auto. }
      destruct SR as (_ & Ecs & Emg & Epn & _).
      split; [split; cbn [cur_state max_gas set_pnonces]; auto|]. split.
      * intros x Hx. cbn [all set_pnonces] in Hx. apply enqueue_all_all in Hx as [Hx|Hx].
        -- left. eapply Wpa. rewrite (lst_some _ _ _ GP).
           assert (In x (litems pl) /\ t_nonce x <> t_nonce t) by (apply Rm; auto). tauto.
        -- left. unfold p2 in Hx. destruct (l_empty pl'); cbn in Hx; apply filter_In in Hx; tauto.
      * intro a. unfold pn, nc. cbn [pending pnonces set_pnonces]. rewrite enqueue_all_pending, Epn.
        eqb_cases (t_from t) a.
        -- exists (Some (t_nonce t)). cbn [below minB]. split; [|split].
           ++ intro m. rewrite P2, N.eqb_refl, (lst_some _ _ _ GP). split.
              ** intros (x & Hx & En). assert (In x (litems pl) /\ t_nonce x <> t_nonce t) by (apply Rm; auto).
                 split; [exists x; tauto|]. destruct (Rstrict Sp x) as [_ H1]. specialize (H1 Hx). lia.
              ** intros [(x & Hx & En) Hm]. exists x. split; auto.
                 destruct (proj1 (Rm x)) as [H1|H1]; auto; [split; auto; lia|].
                 destruct (Rstrict Sp x) as [H2 _]. specialize (H2 H1). lia.
           ++ rewrite nc_get_set_if_lower, N.eqb_refl. auto.
           ++ intros x. rewrite P2, N.eqb_refl, (lst_some _ _ _ GP). intro Hx. left.
              assert (In x (litems pl) /\ t_nonce x <> t_nonce t) by (apply Rm; auto). tauto.
        -- exists None. cbn [below minB]. split; [|split].
           ++ intro m. rewrite P2. apply N.eqb_neq in E. rewrite E. tauto.
           ++ rewrite nc_get_set_if_lower. apply N.eqb_neq in E. rewrite E. auto.
           ++ intro x. rewrite P2. apply N.eqb_neq in E. rewrite E. auto.
    + (* queue path: pending untouched *)
      assert (K : forall X, (X = p \/ exists q, X = set_queue p q) -> cut p (all_remove X (t_id t))).
      { intros X HX. apply cut_same.
        - destruct HX as [->|[q ->]]; split; auto.
        - intros x Hx. apply all_remove_in in Hx as [Hx _]. destruct HX as [->|[q ->]]; auto.
        - destruct HX as [->|[q ->]]; auto.
        - destruct HX as [->|[q ->]]; auto. }
      destruct (aget (queue p) (t_from t)) as [ql|]; [|apply (K p); auto].
      destruct (l_remove ql t) as [[ok inv] ql']. destruct (l_empty ql').
      * apply (K (set_queue p (adel (queue p) (t_from t)))). right. eauto.
      * apply (K (set_queue p (aset (queue p) (t_from t) ql'))). right. eauto.
  - assert (K : forall X, (X = p \/ exists q, X = set_queue p q) -> cut p (all_remove X (t_id t))).
    { intros X HX. apply cut_same.
      - destruct HX as [->|[q ->]]; split; auto.
      - intros x Hx. apply all_remove_in in Hx as [Hx _]. destruct HX as [->|[q ->]]; auto.
      - destruct HX as [->|[q ->]]; auto.
      - destruct HX as [->|[q ->]]; auto. }
    destruct (aget (queue p) (t_from t)) as [ql|]; [|apply (K p); auto].
    destruct (l_remove ql t) as [[ok inv] ql']. destruct (l_empty ql').
    * apply (K (set_queue p (adel (queue p) (t_from t)))). right. eauto.
    * apply (K (set_queue p (aset (queue p) (t_from t) ql'))). right. eauto.
Qed.
