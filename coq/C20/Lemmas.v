(* C20 - basic facts about the model's data structures: association maps,
   insertion sort, txSortedMap / txList operations (membership level). *)
From VF.C20 Require Import Model.
From Coq Require Import Arith Lia ZifyBool ZifyN ZifyNat Permutation.
Local Open Scope N_scope.

(* inversion of [(e1, e2, ..) = (x1, x2, ..)] replacing the variables on the right *)
Ltac invp H :=
  repeat match type of H with
         | (_, _) = (_, _) => let H1 := fresh in let H2 := fresh in
                              injection H as H1 H2; try (rewrite <- H2 in *; clear H2); invp H1
         | _ = ?x => first [ is_var x; subst x | idtac ]
         end.

Ltac fin := try solve [ cbn in *; intuition (auto; try congruence; try lia) ].

(* ---- amap ---------------------------------------------------------------- *)
Section AmapFacts.
  Context {V : Type}.
  Implicit Types (m : amap V) (k : N).

  Lemma aget_adel_eq m k : aget (adel m k) k = None.
  Proof.
    unfold adel. induction m as [|[k' v] r IH]; cbn; auto.
    destruct (N.eqb k' k) eqn:E; cbn; auto. rewrite E. auto.
  Qed.
  Lemma aget_adel_neq m k k' : k <> k' -> aget (adel m k) k' = aget m k'.
  Proof.
    intro H. unfold adel. induction m as [|[k0 v] r IH]; cbn; auto.
    destruct (N.eqb k0 k) eqn:E; cbn.
    - apply N.eqb_eq in E. subst. destruct (N.eqb k k') eqn:E2; auto. apply N.eqb_eq in E2. congruence.
    - rewrite IH. auto.
  Qed.
  Lemma aget_aset_eq m k v : aget (aset m k v) k = Some v.
  Proof. unfold aset. cbn. rewrite N.eqb_refl. auto. Qed.
  Lemma aget_aset_neq m k k' v : k <> k' -> aget (aset m k v) k' = aget m k'.
  Proof.
    intro H. unfold aset. cbn. destruct (N.eqb k k') eqn:E.
    - apply N.eqb_eq in E. congruence.
    - apply aget_adel_neq; auto.
  Qed.
  Lemma aget_aset m k k' v : aget (aset m k v) k' = if N.eqb k k' then Some v else aget m k'.
  Proof.
    destruct (N.eqb k k') eqn:E.
    - apply N.eqb_eq in E. subst. apply aget_aset_eq.
    - apply aget_aset_neq. intro. subst. rewrite N.eqb_refl in E. discriminate.
  Qed.
  Lemma aget_adel m k k' : aget (adel m k) k' = if N.eqb k k' then None else aget m k'.
  Proof.
    destruct (N.eqb k k') eqn:E.
    - apply N.eqb_eq in E. subst. apply aget_adel_eq.
    - apply aget_adel_neq. intro. subst. rewrite N.eqb_refl in E. discriminate.
  Qed.
  Lemma aget_in_keys m k v : aget m k = Some v -> In k (akeys m).
  Proof.
    induction m as [|[k' v'] r IH]; cbn; try discriminate.
    destruct (N.eqb k' k) eqn:E; intro H.
    - apply N.eqb_eq in E. auto.
    - right. auto.
  Qed.
  Lemma aget_some_in m k v : aget m k = Some v -> In (k, v) m.
  Proof.
    induction m as [|[k' v'] r IH]; cbn; try discriminate.
    destruct (N.eqb k' k) eqn:E; intro H.
    - apply N.eqb_eq in E. inversion H. subst. auto.
    - right. auto.
  Qed.
End AmapFacts.

(* ---- insertion sort ------------------------------------------------------ *)
Section SortFacts.
  Context {A : Type} (le : A -> A -> bool).
  Lemma ins_perm x l : Permutation (ins le x l) (x :: l).
  Proof.
    induction l as [|y r IH]; cbn; auto.
    destruct (le x y); auto.
    rewrite IH. apply perm_swap.
  Qed.
  Lemma isort_perm l : Permutation (isort le l) l.
  Proof.
    induction l as [|x r IH]; cbn; auto.
    rewrite ins_perm. auto.
  Qed.
  Lemma isort_in l x : In x (isort le l) <-> In x l.
  Proof. split; apply Permutation_in; [|symmetry]; apply isort_perm. Qed.
  Lemma isort_length l : length (isort le l) = length l.
  Proof. apply Permutation_length, isort_perm. Qed.
End SortFacts.

Lemma sort_nonce_in l x : In x (sort_nonce l) <-> In x l.
Proof. apply isort_in. Qed.

(* ---- generic list facts -------------------------------------------------- *)
Lemma NoDup_app_iff {A} (l1 l2 : list A) :
  NoDup (l1 ++ l2) <-> NoDup l1 /\ NoDup l2 /\ (forall x, In x l1 -> ~ In x l2).
Proof.
  induction l1 as [|a r IH]; cbn.
  - split; [intro H; repeat split; auto; constructor | tauto].
  - split.
    + intro H. inversion H as [|? ? Hn Hr]; subst. apply IH in Hr as (H1 & H2 & H3).
      repeat split; auto.
      * constructor; auto. intro. apply Hn. apply in_or_app. auto.
      * intros x [->|Hx]; auto. intro. apply Hn. apply in_or_app. auto.
    + intros (H1 & H2 & H3). inversion H1; subst. constructor.
      * intro Hin. apply in_app_or in Hin as [|Hin]; auto. eapply H3; eauto.
      * apply IH. repeat split; auto.
  Qed.

Lemma NoDup_map_filter {A B} (f : A -> B) (g : A -> bool) l :
  NoDup (map f l) -> NoDup (map f (filter g l)).
Proof.
  induction l as [|a r IH]; cbn; auto.
  intro H. inversion H; subst. destruct (g a); cbn; auto.
  constructor; auto. intro Hin. apply H2. apply in_map_iff in Hin as (x & Hx & Hin).
  apply filter_In in Hin as [Hin _]. apply in_map_iff. eauto.
Qed.

Lemma NoDup_map_inj_in {A B} (f : A -> B) l x y :
  NoDup (map f l) -> In x l -> In y l -> f x = f y -> x = y.
Proof.
  induction l as [|a r IH]; cbn; [tauto|].
  intros H [->|Hx] [->|Hy] E; auto; inversion H; subst.
  - exfalso. apply H2. rewrite E. apply in_map. auto.
  - exfalso. apply H2. rewrite <- E. apply in_map. auto.
  - eapply IH; eauto.
Qed.

Lemma firstn_skipn_in {A} n (l : list A) x : In x l <-> In x (firstn n l) \/ In x (skipn n l).
Proof. rewrite <- (firstn_skipn n l) at 1. apply in_app_iff. Qed.

Lemma find_some_in {A} (f : A -> bool) l x : find f l = Some x -> In x l /\ f x = true.
Proof. apply find_some. Qed.

Lemma find_none_all {A} (f : A -> bool) l : find f l = None -> forall x, In x l -> f x = false.
Proof. apply find_none. Qed.

(* ---- txSortedMap --------------------------------------------------------- *)
Definition nonces (l : list tx) : list N := map t_nonce l.
Definition uniq (l : list tx) : Prop := NoDup (nonces l).

Lemma uniq_inj l x y : uniq l -> In x l -> In y l -> t_nonce x = t_nonce y -> x = y.
Proof. apply NoDup_map_inj_in. Qed.
Lemma uniq_filter l f : uniq l -> uniq (filter f l).
Proof. apply NoDup_map_filter. Qed.
Lemma uniq_perm l l' : Permutation l l' -> uniq l -> uniq l'.
Proof. intros H. apply Permutation_NoDup. apply Permutation_map. auto. Qed.
Lemma uniq_nodup l : uniq l -> NoDup l.
Proof. apply NoDup_map_inv. Qed.

Lemma sm_get_some m n t : sm_get m n = Some t -> In t (items m) /\ t_nonce t = n.
Proof. unfold sm_get. intro H. apply find_some in H as [H1 H2]. apply N.eqb_eq in H2. auto. Qed.
Lemma sm_get_none m n : sm_get m n = None -> forall t, In t (items m) -> t_nonce t <> n.
Proof.
  unfold sm_get. intros H t Hin E. eapply find_none in H; eauto. cbn in H. apply N.eqb_neq in H. auto.
Qed.
Lemma sm_get_in m t : uniq (items m) -> In t (items m) -> sm_get m (t_nonce t) = Some t.
Proof.
  intros U Hin. destruct (sm_get m (t_nonce t)) eqn:E.
  - apply sm_get_some in E as [H1 H2]. f_equal. eapply uniq_inj; eauto.
  - exfalso. eapply sm_get_none; eauto.
Qed.

Lemma sm_put_in m t x :
  In x (items (sm_put m t)) <-> x = t \/ (In x (items m) /\ t_nonce x <> t_nonce t).
Proof.
  unfold sm_put. cbn. rewrite filter_In. split.
  - intros [->|[H1 H2]]; auto. right. split; auto. apply negb_true_iff, N.eqb_neq in H2. auto.
  - intros [->|[H1 H2]]; auto. right. split; auto. apply negb_true_iff, N.eqb_neq. auto.
Qed.
Lemma sm_put_uniq m t : uniq (items m) -> uniq (items (sm_put m t)).
Proof.
  intro U. unfold sm_put, uniq, nonces. cbn. constructor.
  - intro Hin. apply in_map_iff in Hin as (x & Hx & Hin). apply filter_In in Hin as [_ Hin].
    apply negb_true_iff, N.eqb_neq in Hin. auto.
  - apply NoDup_map_filter. auto.
Qed.

Lemma sm_forward_spec m th rm m' :
  sm_forward m th = (rm, m') ->
  (forall x, In x rm <-> In x (items m) /\ t_nonce x < th) /\
  (forall x, In x (items m') <-> In x (items m) /\ th <= t_nonce x).
Proof.
  unfold sm_forward. intro H; invp H. cbn. split; intro x.
  - rewrite sort_nonce_in, filter_In. split; intros [H1 H2]; split; auto; lia.
  - rewrite filter_In. split; intros [H1 H2]; split; auto; lia.
Qed.

Lemma sm_filter_spec m f rm m' :
  sm_filter m f = (rm, m') ->
  (forall x, In x rm <-> In x (items m) /\ f x = true) /\
  (forall x, In x (items m') <-> In x (items m) /\ f x = false).
Proof.
  unfold sm_filter. destruct (filter f (items m)) as [|a r] eqn:E; intro H; invp H.
  - split; intro x.
    + cbn. split; [tauto|]. intros [H1 H2]. assert (In x (filter f (items m))) by (apply filter_In; auto).
      rewrite E in H. auto.
    + split; [|tauto]. intro H. split; auto. destruct (f x) eqn:F; auto.
      assert (In x (filter f (items m))) by (apply filter_In; auto). rewrite E in H0. destruct H0.
  - split; intro x.
    + rewrite <- E. apply filter_In.
    + cbn. rewrite filter_In. split; intros [H1 H2]; split; auto.
      * apply negb_true_iff in H2. auto.
      * apply negb_true_iff. auto.
Qed.

Lemma sm_cap_spec m th d m' :
  uniq (items m) -> sm_cap m th = (d, m') ->
  (forall x, In x (items m) <-> In x (items m') \/ In x d) /\
  (forall x, In x (items m') -> ~ In x d) /\
  (length (items m') <= th \/ d = [])%nat /\ length (items m') = Nat.min th (length (items m)).
Proof.
  intros U. unfold sm_cap. destruct (Nat.leb (length (items m)) th) eqn:E; intro H; invp H.
  - apply Nat.leb_le in E. split; [intro x; cbn; tauto|]. split; [intros x _ []|].
    split; [right; auto|]. rewrite Nat.min_r; auto.
  - apply Nat.leb_gt in E. cbn.
    assert (P : Permutation (sort_nonce (items m)) (items m)) by apply isort_perm.
    assert (U' : NoDup (sort_nonce (items m))).
    { apply uniq_nodup. eapply uniq_perm; [symmetry; eauto|auto]. }
    repeat split.
    + intro Hin. apply (Permutation_in _ (Permutation_sym P)) in Hin.
      apply (firstn_skipn_in th) in Hin as [|]; auto. right. apply -> in_rev. auto.
    + intros [Hin|Hin]; apply (Permutation_in _ P).
      * apply (firstn_skipn_in th). auto.
      * apply (firstn_skipn_in th). right. apply in_rev. auto.
    + intros x H1 H2. apply in_rev in H2.
      rewrite <- (firstn_skipn th (sort_nonce (items m))) in U'.
      apply NoDup_app_iff in U' as (_ & _ & U'). eapply U'; eauto.
    + left. rewrite firstn_length. lia.
    + rewrite firstn_length. unfold sort_nonce. rewrite isort_length. auto.
Qed.

Lemma sm_remove_spec m n ok m' :
  sm_remove m n = (ok, m') ->
  (forall x, In x (items m') <-> In x (items m) /\ t_nonce x <> n) /\
  (ok = true <-> exists t, In t (items m) /\ t_nonce t = n).
Proof.
  unfold sm_remove. destruct (sm_get m n) eqn:E; intro H; invp H.
  - apply sm_get_some in E as [E1 E2]. split.
    + intro x. cbn. rewrite filter_In. split; intros [H1 H2]; split; auto.
      * apply negb_true_iff, N.eqb_neq in H2. auto.
      * apply negb_true_iff, N.eqb_neq. auto.
    + split; auto. intros _. eauto.
  - split.
    + intro x. split; [|tauto]. intro H. split; auto. eapply sm_get_none; eauto.
    + split; [discriminate|]. intros (t & H1 & H2). exfalso. eapply sm_get_none; eauto.
Qed.

(* run_from *)
Lemma run_from_spec fuel l next x :
  In x (run_from fuel l next) -> In x l /\ next <= t_nonce x < next + N.of_nat (length (run_from fuel l next)).
Proof.
  revert next. induction fuel as [|f IH]; cbn; [tauto|].
  intro next. destruct (find (fun t => N.eqb (t_nonce t) next) l) as [t|] eqn:E; cbn; [|tauto].
  apply find_some in E as [E1 E2]. apply N.eqb_eq in E2.
  intros [->|Hin].
  - split; auto. lia.
  - apply IH in Hin as [H1 H2]. split; auto. lia.
Qed.

Lemma run_from_complete fuel l next x :
  uniq l -> In x l -> next <= t_nonce x < next + N.of_nat (length (run_from fuel l next)) ->
  In x (run_from fuel l next).
Proof.
  intros U Hin. revert next. induction fuel as [|f IH]; cbn; [intros; lia|].
  intro next. destruct (find (fun t => N.eqb (t_nonce t) next) l) as [t|] eqn:E; cbn; [|intros; lia].
  apply find_some in E as [E1 E2]. apply N.eqb_eq in E2.
  intro H. destruct (N.eq_dec (t_nonce x) next) as [Hn|Hn].
  - left. eapply uniq_inj; eauto. congruence.
  - right. apply IH. lia.
Qed.

(* the run stops at the first missing nonce (given enough fuel) *)
Lemma run_from_stops fuel l next :
  uniq l -> (length l <= fuel)%nat ->
  forall t, In t l -> t_nonce t <> next + N.of_nat (length (run_from fuel l next)).
Proof.
  intros U. revert l U next. induction fuel as [|f IH]; intros l U next Hlen t Hin.
  - destruct l; cbn in *; [tauto|lia].
  - cbn. destruct (find (fun t => N.eqb (t_nonce t) next) l) as [t0|] eqn:E; cbn.
    + (* continue: reason on the list without t0 to consume fuel *)
      apply find_some in E as [E1 E2]. apply N.eqb_eq in E2.
      set (l' := filter (fun x => negb (N.eqb (t_nonce x) next)) l).
      assert (Hrun : forall k n, next < n -> run_from k l n = run_from k l' n).
      { induction k as [|k IHk]; cbn; auto. intros n Hn.
        assert (Hf : find (fun t1 => N.eqb (t_nonce t1) n) l = find (fun t1 => N.eqb (t_nonce t1) n) l').
        { unfold l'. clear -Hn. induction l as [|a r IHr]; cbn; auto.
          destruct (N.eqb (t_nonce a) n) eqn:E1; destruct (N.eqb (t_nonce a) next) eqn:E2; cbn; try rewrite E1; auto; lia. }
        rewrite Hf. destruct (find _ l'); auto. f_equal. apply IHk. lia. }
      rewrite Hrun by lia.
      assert (Hl' : (length l' <= f)%nat).
      { assert (Permutation l (t0 :: l')).
        { unfold l'. clear -U E1 E2. revert U E1. induction l as [|a r IHr]; cbn; [tauto|].
          intros U [->|Hin].
          - rewrite E2, N.eqb_refl. cbn. constructor.
            assert (filter (fun x => negb (N.eqb (t_nonce x) next)) r = r) as ->; auto.
            inversion U; subst. clear -H1. induction r as [|b r IHr]; cbn; auto.
            destruct (N.eqb (t_nonce b) (t_nonce t0)) eqn:E; cbn.
            + exfalso. apply H1. left. lia.
            + f_equal. apply IHr. intro. apply H1. right. auto.
          - inversion U; subst. destruct (N.eqb (t_nonce a) (t_nonce t0)) eqn:E; cbn.
            + exfalso. apply H1. apply in_map_iff. exists t0. split; auto. lia.
            + rewrite (IHr H2 Hin) at 1. apply perm_swap. }
        apply Permutation_length in H. cbn in H. lia. }
      destruct (N.eq_dec (t_nonce t) next) as [Hn|Hn]; [lia|].
      assert (In t l') by (unfold l'; apply filter_In; split; auto; apply negb_true_iff, N.eqb_neq; auto).
      specialize (IH l' (uniq_filter _ _ U) (next + 1) Hl' t H). lia.
    + eapply find_none in E; eauto. cbn in E. lia.
Qed.

Lemma min_nonce_spec l :
  match min_nonce l with
  | None => l = []
  | Some n => (exists t, In t l /\ t_nonce t = n) /\ forall t, In t l -> n <= t_nonce t
  end.
Proof.
  induction l as [|a r IH]; cbn; auto.
  destruct (min_nonce r) as [n|].
  - destruct IH as [(t & H1 & H2) H3]. split.
    + destruct (N.leb (t_nonce a) n) eqn:E.
      * exists a. split; auto. lia.
      * exists t. split; auto. lia.
    + intros x [->|Hx]; [lia|]. specialize (H3 _ Hx). lia.
  - subst. split; [exists a; auto|]. intros x [->|[]]. lia.
Qed.

Lemma sm_ready_spec m start r m' :
  uniq (items m) -> sm_ready m start = (r, m') ->
  (forall x, In x (items m) <-> In x (items m') \/ In x r) /\
  (forall x, In x (items m') -> ~ In x r) /\
  (r <> [] -> exists lo, lo <= start /\ (forall x, In x (items m) -> lo <= t_nonce x) /\
     (forall x, In x r <-> In x (items m) /\ t_nonce x < lo + N.of_nat (length r)) /\
     (forall x, In x (items m) -> t_nonce x <> lo + N.of_nat (length r)) /\
     (exists x, In x r /\ t_nonce x = lo)).
Proof.
  intro U. unfold sm_ready. pose proof (min_nonce_spec (items m)) as M.
  destruct (min_nonce (items m)) as [lo|]; [|intro H; invp H; repeat split; cbn [In]; try tauto; auto].
  destruct M as [(t0 & Ht0 & Hlo) Hmin].
  destruct (N.ltb start lo) eqn:E; intro H; invp H.
  - repeat split; cbn [In]; try tauto; auto.
  - set (r := run_from (length (items m)) (items m) lo) in *. cbn.
    assert (R1 : forall x, In x r <-> In x (items m) /\ t_nonce x < lo + N.of_nat (length r)).
    { intro x. split.
      - intro Hin. apply run_from_spec in Hin as [H1 H2]. split; auto. fold r in H2. lia.
      - intros [H1 H2]. apply run_from_complete; auto. }
    repeat split.
    + intro Hin. destruct (N.ltb (t_nonce x) (lo + N.of_nat (length r))) eqn:E2.
      * right. apply R1. split; auto. lia.
      * left. apply filter_In. split; auto. apply negb_true_iff. lia.
    + intros [Hin|Hin]; [apply filter_In in Hin; tauto | apply R1 in Hin; tauto].
    + intros x H1 H2. apply filter_In in H1 as [H1 H3]. apply R1 in H2 as [_ H2].
      specialize (Hmin _ H1). apply negb_true_iff in H3. lia.
    + intros _. exists lo. split; [lia|]. split; [auto|]. split; [apply R1|]. split.
      * intros x Hx. apply run_from_stops; auto.
      * exists t0. split; auto.
        unfold r. destruct (items m) as [|a l] eqn:EI; [destruct Ht0|]. cbn [length run_from].
        destruct (find (fun t => N.eqb (t_nonce t) lo) (a :: l)) eqn:F.
        -- apply find_some in F as [F1 F2]. left. eapply uniq_inj; eauto. lia.
        -- eapply find_none in F; eauto. cbn in F. lia.
Qed.

Lemma sm_flatten_items m r m' : sm_flatten m = (r, m') -> items m' = items m.
Proof. unfold sm_flatten. destruct (cache m); intro H; inversion H; subst; auto. Qed.

(* ---- txList -------------------------------------------------------------- *)
Definition litems (l : txlist) : list tx := items (txs l).

Lemma l_add_spec l t bump ins old l' :
  l_add l t bump = (ins, old, l') ->
  (ins = false -> l' = l /\ old = None) /\
  (ins = true -> old = sm_get (txs l) (t_nonce t) /\ strict l' = strict l /\
     forall x, In x (litems l') <-> x = t \/ (In x (litems l) /\ t_nonce x <> t_nonce t)).
Proof.
  unfold l_add. match goal with |- (if ?c then _ else _) = _ -> _ => destruct c end;
    intro H; invp H.
  - split; auto. discriminate.
  - split; [discriminate|]. intros _. repeat split; auto. apply sm_put_in. apply sm_put_in.
Qed.

Lemma l_add_uniq l t bump ins old l' :
  l_add l t bump = (ins, old, l') -> uniq (litems l) -> uniq (litems l').
Proof.
  unfold l_add. match goal with |- (if ?c then _ else _) = _ -> _ => destruct c end;
    intro H; invp H; auto. apply sm_put_uniq.
Qed.

Lemma l_forward_spec l th rm l' :
  l_forward l th = (rm, l') ->
  strict l' = strict l /\
  (forall x, In x rm <-> In x (litems l) /\ t_nonce x < th) /\
  (forall x, In x (litems l') <-> In x (litems l) /\ th <= t_nonce x).
Proof.
  unfold l_forward. destruct (sm_forward (txs l) th) as [rm0 m] eqn:E. intro H; invp H.
  split; auto. eapply sm_forward_spec; eauto.
Qed.

Lemma lowest_nonce_spec l acc :
  lowest_nonce l acc <= acc /\ (forall t, In t l -> lowest_nonce l acc <= t_nonce t) /\
  (lowest_nonce l acc = acc \/ exists t, In t l /\ t_nonce t = lowest_nonce l acc).
Proof.
  revert acc. induction l as [|a r IH]; intro acc; cbn.
  - split; [lia|]. split; [tauto|auto].
  - destruct (IH (N.min acc (t_nonce a))) as (H1 & H2 & H3). split; [|split].
    + lia.
    + intros t [->|Ht]; [lia|auto].
    + destruct H3 as [H3|(t & Ht & H3)].
      * destruct (N.leb acc (t_nonce a)) eqn:E; [left; lia|right; exists a; split; auto; lia].
      * right. eauto.
Qed.

Definition too_costly (c g : N) (t : tx) : bool := N.ltb c (t_cost t) || N.ltb g (t_gas t).

Lemma l_filter_spec l c g rm inv l' :
  l_filter l c g = (rm, inv, l') ->
  strict l' = strict l /\
  (forall x, In x rm -> In x (litems l) /\ too_costly c g x = true) /\
  (forall x, In x inv -> In x (litems l) /\ too_costly c g x = false) /\
  (forall x, In x (litems l) <-> In x (litems l') \/ In x rm \/ In x inv) /\
  (forall x, In x (litems l') -> ~ In x rm /\ ~ In x inv) /\
  (forall x, In x rm -> ~ In x inv) /\
  (strict l = false -> inv = []) /\
  (* strict: what stays is below every removed one, invalids are above the lowest removed *)
  (strict l = true -> forall x y, In x (litems l') -> In y rm -> t_nonce x <= t_nonce y) /\
  (* short cut taken *)
  ((costcap l <= c /\ gascap l <= g) -> rm = [] /\ inv = [] /\ l' = l) /\
  (~ (costcap l <= c /\ gascap l <= g) ->
     costcap l' = c /\ gascap l' = g /\ forall x, In x rm <-> In x (litems l) /\ too_costly c g x = true).
Proof.
  unfold l_filter, too_costly.
  destruct (N.leb (costcap l) c && N.leb (gascap l) g) eqn:E.
  - intro H; invp H. repeat split; fin.
  - destruct (sm_filter (txs l) (fun t => N.ltb c (t_cost t) || N.ltb g (t_gas t))) as [removed m1] eqn:F1.
    pose proof (sm_filter_spec _ _ _ _ F1) as [S1 S2].
    assert (NE : ~ (costcap l <= c /\ gascap l <= g)) by lia.
    destruct removed as [|t0 rest] eqn:ER.
    + intro H; invp H. unfold litems. cbn [txs strict costcap gascap].
      assert (K : forall x, In x (items (txs l)) -> In x (items m1)).
      { intros x Hx. apply S2. split; auto. destruct (N.ltb c (t_cost x) || N.ltb g (t_gas x)) eqn:T; auto.
        exfalso. apply (S1 x). auto. }
      assert (K2 : forall x, In x (items m1) -> In x (items (txs l))) by (intros x Hx; apply S2 in Hx; tauto).
      split; [destruct (strict l); auto|].
      destruct (strict l); (split; [intros x []|]); (split; [intros x []|]);
        (split; [intro x; cbn [In]; split; [auto|intros [|[[]|[]]]; auto]|]);
        (split; [intros x _; cbn [In]; tauto|]); (split; [intros x []|]); (split; [auto|]);
        (split; [intros _ x y _ []|]); (split; [tauto|]); intros _; (split; [auto|]); (split; [auto|]);
        intro x; (split; [intros []|intros [Hx Hc]; apply (S1 x); auto]).
    + destruct (strict l) eqn:ES.
      * destruct (sm_filter m1 (fun t => N.ltb (lowest_nonce (t0 :: rest) (t_nonce t0)) (t_nonce t))) as [invalids m2] eqn:F2.
        pose proof (sm_filter_spec _ _ _ _ F2) as [S3 S4].
        intro H; invp H. unfold litems. cbn [txs strict costcap gascap].
        pose proof (lowest_nonce_spec (t0 :: rest) (t_nonce t0)) as (L1 & L2 & L3).
        split; [auto|]. split; [intros x Hx; apply S1; auto|].
        split; [intros x Hx; apply S3 in Hx as [Hx _]; apply S2 in Hx; auto|].
        split.
        { intro x. split.
          - intro Hx. destruct (N.ltb c (t_cost x) || N.ltb g (t_gas x)) eqn:T.
            + right. left. apply S1. auto.
            + assert (In x (items m1)) by (apply S2; auto).
              destruct (N.ltb (lowest_nonce (t0 :: rest) (t_nonce t0)) (t_nonce x)) eqn:T2.
              * right. right. apply S3. auto.
              * left. apply S4. auto.
          - intros [Hx|[Hx|Hx]].
            + apply S4 in Hx as [Hx _]. apply S2 in Hx. tauto.
            + apply S1 in Hx. tauto.
            + apply S3 in Hx as [Hx _]. apply S2 in Hx. tauto. }
        split.
        { intros x Hx. split.
          - intro Hr. apply S4 in Hx as [Hx _]. apply S2 in Hx as [_ Hx]. apply S1 in Hr as [_ Hr]. congruence.
          - intro Hi. apply S4 in Hx as [_ Hx]. apply S3 in Hi as [_ Hi]. congruence. }
        split.
        { intros x Hr Hi. apply S1 in Hr as [_ Hr]. apply S3 in Hi as [Hi _]. apply S2 in Hi as [_ Hi]. congruence. }
        split; [discriminate|].
        split.
        { intros _ x y Hx Hy. apply S4 in Hx as [_ Hx]. specialize (L2 _ Hy). lia. }
        split; [tauto|]. intros _. split; [auto|]. split; [auto|]. apply S1.
      * intro H; invp H. unfold litems. cbn [txs strict costcap gascap].
        split; [auto|]. split; [intros x Hx; apply S1; auto|].
        split; [intros x []|].
        split.
        { intro x. split.
          - intro Hx. destruct (N.ltb c (t_cost x) || N.ltb g (t_gas x)) eqn:T.
            + right. left. apply S1. auto.
            + left. apply S2. auto.
          - intros [Hx|[Hx|[]]].
            + apply S2 in Hx. tauto.
            + apply S1 in Hx. tauto. }
        split.
        { intros x Hx. split; [|intros []].
          intro Hr. apply S2 in Hx as [_ Hx]. apply S1 in Hr as [_ Hr]. congruence. }
        split; [intros x _ []|].
        split; [auto|]. split; [discriminate|].
        split; [tauto|]. intros _. split; [auto|]. split; [auto|]. apply S1.
Qed.

Lemma l_cap_spec l th d l' :
  uniq (litems l) -> l_cap l th = (d, l') ->
  strict l' = strict l /\
  (forall x, In x (litems l) <-> In x (litems l') \/ In x d) /\
  (forall x, In x (litems l') -> ~ In x d) /\
  length (litems l') = Nat.min th (length (litems l)).
Proof.
  intro U. unfold l_cap. destruct (sm_cap (txs l) th) as [d0 m] eqn:E. intro H; invp H.
  split; auto. pose proof (sm_cap_spec _ _ _ _ U E) as (H1 & H2 & H3 & H4). auto.
Qed.

Lemma l_remove_spec l t ok inv l' :
  l_remove l t = (ok, inv, l') ->
  strict l' = strict l /\
  (ok = false -> inv = [] /\ l' = l /\ forall x, In x (litems l) -> t_nonce x <> t_nonce t) /\
  (ok = true ->
     (exists x, In x (litems l) /\ t_nonce x = t_nonce t) /\
     (forall x, In x (litems l) /\ t_nonce x <> t_nonce t <-> In x (litems l') \/ In x inv) /\
     (forall x, In x (litems l') -> ~ In x inv) /\
     (strict l = false -> inv = []) /\
     (strict l = true -> forall x, (In x inv -> t_nonce t < t_nonce x) /\ (In x (litems l') -> t_nonce x < t_nonce t))).
Proof.
  unfold l_remove. destruct (sm_remove (txs l) (t_nonce t)) as [ok0 m1] eqn:E.
  pose proof (sm_remove_spec _ _ _ _ E) as [S1 S2].
  destruct ok0; cbn [negb].
  - destruct (strict l) eqn:ES.
    + destruct (sm_filter m1 (fun x => N.ltb (t_nonce t) (t_nonce x))) as [inv0 m2] eqn:F.
      pose proof (sm_filter_spec _ _ _ _ F) as [S3 S4].
      intro H; invp H. unfold litems; cbn [txs strict]. split; [auto|]. split; [discriminate|].
      intros _. split; [apply S2; auto|]. split.
      { intro x. split.
        - intros [H1 H2]. assert (In x (items m1)) by (apply S1; auto).
          destruct (N.ltb (t_nonce t) (t_nonce x)) eqn:T; [right; apply S3|left; apply S4]; auto.
        - intros [H|H]; [apply S4 in H as [H _]|apply S3 in H as [H _]]; apply S1 in H; tauto. }
      split.
      { intros x H1 H2. apply S4 in H1 as [_ H1]. apply S3 in H2 as [_ H2]. congruence. }
      split; [discriminate|]. intros _ x. split.
      * intro Hx. apply S3 in Hx as [_ Hx]. lia.
      * intro Hx. apply S4 in Hx as [Hx Hy]. apply S1 in Hx. lia.
    + intro H; invp H. unfold litems; cbn [txs strict]. split; [auto|]. split; [discriminate|].
      intros _. split; [apply S2; auto|]. split.
      { intro x. split.
        - intros H. left. apply S1. auto.
        - intros [H|[]]. apply S1 in H. tauto. }
      split; [intros x _ []|]. split; [auto|discriminate].
  - intro H; invp H. split; [auto|]. split; [|discriminate].
    intros _. split; [auto|]. split; [auto|]. intros x Hx Hn. assert (false = true); [|discriminate].
    apply S2. eauto.
Qed.

Lemma l_ready_spec l start r l' :
  uniq (litems l) -> l_ready l start = (r, l') ->
  strict l' = strict l /\
  (forall x, In x (litems l) <-> In x (litems l') \/ In x r) /\
  (forall x, In x (litems l') -> ~ In x r) /\
  (r <> [] -> exists lo, lo <= start /\ (forall x, In x (litems l) -> lo <= t_nonce x) /\
     (forall x, In x r <-> In x (litems l) /\ t_nonce x < lo + N.of_nat (length r)) /\
     (forall x, In x (litems l) -> t_nonce x <> lo + N.of_nat (length r)) /\
     (exists x, In x r /\ t_nonce x = lo)).
Proof.
  intro U. unfold l_ready. destruct (sm_ready (txs l) start) as [r0 m] eqn:E.
  intro H; invp H. split; auto. apply (sm_ready_spec _ _ _ _ U E).
Qed.

Lemma l_flatten_items l r l' : l_flatten l = (r, l') -> litems l' = litems l /\ strict l' = strict l /\ costcap l' = costcap l /\ gascap l' = gascap l.
Proof.
  unfold l_flatten. destruct (sm_flatten (txs l)) as [r0 m] eqn:E. intro H; invp H.
  unfold litems; cbn. repeat split; auto. eapply sm_flatten_items; eauto.
Qed.

(* ---- outputs of the list operations have pairwise distinct nonces -------- *)
Lemma uniq_app_inv l1 l2 : uniq (l1 ++ l2) -> uniq l1 /\ uniq l2.
Proof. unfold uniq, nonces. rewrite map_app. intro H. apply NoDup_app_iff in H. tauto. Qed.

Lemma run_from_uniq fuel l next : uniq (run_from fuel l next).
Proof.
  revert next. induction fuel as [|f IH]; intro next; cbn; [constructor|].
  destruct (find (fun t => N.eqb (t_nonce t) next) l) as [t|] eqn:E; [|constructor].
  apply find_some in E as [E1 E2]. unfold uniq, nonces. cbn. constructor; [|apply IH].
  intro Hin. apply in_map_iff in Hin as (x & Hx & Hin). apply run_from_spec in Hin as [_ Hin]. lia.
Qed.

Lemma sm_forward_uniq m th rm m' : uniq (items m) -> sm_forward m th = (rm, m') -> uniq rm /\ uniq (items m').
Proof.
  unfold sm_forward. intros U H; invp H. cbn. split.
  - eapply uniq_perm; [symmetry; apply isort_perm|]. apply uniq_filter; auto.
  - apply uniq_filter; auto.
Qed.
Lemma sm_filter_uniq m f rm m' : uniq (items m) -> sm_filter m f = (rm, m') -> uniq rm /\ uniq (items m').
Proof.
  unfold sm_filter. intro U. destruct (filter f (items m)) eqn:E; intro H; invp H; cbn.
  - split; auto. constructor.
  - split; [rewrite <- E|]; apply uniq_filter; auto.
Qed.
Lemma sm_cap_uniq m th d m' : uniq (items m) -> sm_cap m th = (d, m') -> uniq d /\ uniq (items m').
Proof.
  unfold sm_cap. intro U. destruct (Nat.leb (length (items m)) th); intro H; invp H; cbn.
  - split; auto. constructor.
  - assert (U' : uniq (sort_nonce (items m))) by (eapply uniq_perm; [symmetry; apply isort_perm|auto]).
    rewrite <- (firstn_skipn th (sort_nonce (items m))) in U'. apply uniq_app_inv in U' as [U1 U2].
    split; auto. eapply uniq_perm; [apply Permutation_rev|auto].
Qed.
Lemma sm_remove_uniq m n ok m' : uniq (items m) -> sm_remove m n = (ok, m') -> uniq (items m').
Proof.
  unfold sm_remove. intro U. destruct (sm_get m n); intro H; invp H; cbn; auto. apply uniq_filter; auto.
Qed.
Lemma sm_ready_uniq m s r m' : uniq (items m) -> sm_ready m s = (r, m') -> uniq r /\ uniq (items m').
Proof.
  unfold sm_ready. intro U. destruct (min_nonce (items m)); [|intro H; invp H; split; auto; constructor].
  destruct (N.ltb s n); intro H; invp H; cbn.
  - split; auto. constructor.
  - split; [apply run_from_uniq|apply uniq_filter; auto].
Qed.

Lemma l_forward_uniq l th rm l' : uniq (litems l) -> l_forward l th = (rm, l') -> uniq rm /\ uniq (litems l').
Proof.
  unfold l_forward. intro U. destruct (sm_forward (txs l) th) eqn:E. intro H; invp H.
  eapply sm_forward_uniq; eauto.
Qed.
Lemma l_filter_uniq l c g rm inv l' :
  uniq (litems l) -> l_filter l c g = (rm, inv, l') -> uniq rm /\ uniq inv /\ uniq (litems l').
Proof.
  unfold l_filter. intro U. destruct (N.leb (costcap l) c && N.leb (gascap l) g).
  - intro H; invp H. repeat split; auto; constructor.
  - destruct (sm_filter (txs l) _) as [removed m1] eqn:F1.
    destruct (sm_filter_uniq _ _ _ _ U F1) as [U1 U2].
    destruct removed as [|t0 rest].
    + intro H; invp H. repeat split; auto; constructor.
    + destruct (strict l).
      * destruct (sm_filter m1 _) as [inv0 m2] eqn:F2. destruct (sm_filter_uniq _ _ _ _ U2 F2) as [U3 U4].
        intro H; invp H. auto.
      * intro H; invp H. repeat split; auto; constructor.
Qed.
Lemma l_cap_uniq l th d l' : uniq (litems l) -> l_cap l th = (d, l') -> uniq d /\ uniq (litems l').
Proof.
  unfold l_cap. intro U. destruct (sm_cap (txs l) th) eqn:E. intro H; invp H. eapply sm_cap_uniq; eauto.
Qed.
Lemma l_ready_uniq l s r l' : uniq (litems l) -> l_ready l s = (r, l') -> uniq r /\ uniq (litems l').
Proof.
  unfold l_ready. intro U. destruct (sm_ready (txs l) s) eqn:E. intro H; invp H. eapply sm_ready_uniq; eauto.
Qed.
Lemma l_remove_uniq l t ok inv l' : uniq (litems l) -> l_remove l t = (ok, inv, l') -> uniq inv /\ uniq (litems l').
Proof.
  unfold l_remove. intro U. destruct (sm_remove (txs l) (t_nonce t)) as [ok0 m1] eqn:E.
  pose proof (sm_remove_uniq _ _ _ _ U E) as U1. destruct ok0; cbn [negb].
  - destruct (strict l).
    + destruct (sm_filter m1 _) as [i m2] eqn:F. intro H; invp H. eapply sm_filter_uniq; eauto.
    + intro H; invp H. split; auto. constructor.
  - intro H; invp H. split; auto. constructor.
Qed.

(* ---- sort_nonce sorts; Cap drops the highest nonces ----------------------- *)
From Coq Require Import Sorted.

Lemma ins_sorted x l :
  StronglySorted (fun a b => t_nonce a <= t_nonce b) l ->
  StronglySorted (fun a b => t_nonce a <= t_nonce b) (ins by_nonce x l).
Proof.
  induction l as [|y r IH]; intro S; cbn.
  - constructor; constructor.
  - unfold by_nonce at 1. destruct (N.leb (t_nonce x) (t_nonce y)) eqn:E.
    + constructor; auto. inversion S; subst. constructor; [lia|].
      eapply Forall_impl; [|eauto]. cbn. intros. lia.
    + inversion S; subst. constructor; auto.
      assert (P : Permutation (ins by_nonce x r) (x :: r)) by apply ins_perm.
      apply (Permutation_Forall (Permutation_sym P)). constructor; auto. lia.
Qed.
Lemma sort_nonce_sorted l : StronglySorted (fun a b => t_nonce a <= t_nonce b) (sort_nonce l).
Proof. unfold sort_nonce. induction l; cbn; [constructor|apply ins_sorted; auto]. Qed.

Lemma sorted_split k (s : list tx) :
  StronglySorted (fun a b => t_nonce a <= t_nonce b) s ->
  forall x y, In x (firstn k s) -> In y (skipn k s) -> t_nonce x <= t_nonce y.
Proof.
  revert k. induction s as [|a r IH]; intros k S x y Hx Hy.
  - destruct k; cbn in *; tauto.
  - destruct k; cbn in *; [tauto|]. inversion S; subst. destruct Hx as [->|Hx].
    + rewrite Forall_forall in H2. apply H2. rewrite <- (firstn_skipn k r). apply in_or_app. auto.
    + eapply IH; eauto.
Qed.

Lemma l_cap_order l th d l' :
  uniq (litems l) -> l_cap l th = (d, l') ->
  forall x y, In x (litems l') -> In y d -> t_nonce x < t_nonce y.
Proof.
  intros U C. pose proof (l_cap_spec _ _ _ _ U C) as (_ & M & D & _).
  unfold l_cap in C. destruct (sm_cap (txs l) th) as [d0 m] eqn:E. invp C.
  unfold sm_cap in E. destruct (Nat.leb (length (items (txs l))) th); invp E; [intros x y _ []|].
  intros x y Hx Hy. unfold litems in Hx. cbn in Hx. apply in_rev in Hy.
  pose proof (sorted_split th _ (sort_nonce_sorted (items (txs l))) x y Hx Hy) as Le.
  destruct (N.eq_dec (t_nonce x) (t_nonce y)) as [En|En]; [|lia]. exfalso.
  assert (x = y).
  { eapply (uniq_inj (litems l)); eauto; apply M; [left|right]; auto. apply -> in_rev. auto. }
  subst. eapply D; eauto. apply -> in_rev. auto.
Qed.

(* ---- the Flatten cache ----------------------------------------------------- *)
Definition nle (a b : tx) : Prop := t_nonce a <= t_nonce b.

Lemma ins_head x s : Forall (nle x) s -> StronglySorted nle s -> ins by_nonce x s = x :: s.
Proof.
  intros F _. destruct s as [|y r]; cbn; auto. inversion F; subst. unfold by_nonce, nle in *.
  destruct (N.leb (t_nonce x) (t_nonce y)) eqn:E; auto. lia.
Qed.
Lemma sort_sorted_id s : StronglySorted nle s -> sort_nonce s = s.
Proof.
  unfold sort_nonce. induction s as [|a r IH]; intro S; cbn; auto. inversion S; subst.
  rewrite IH by auto. apply ins_head; auto.
Qed.

Lemma filter_ins f x s :
  StronglySorted nle s ->
  filter f (ins by_nonce x s) = if f x then ins by_nonce x (filter f s) else filter f s.
Proof.
  induction s as [|y r IH]; intro S; cbn.
  - destruct (f x); auto.
  - inversion S; subst. unfold by_nonce at 1. destruct (N.leb (t_nonce x) (t_nonce y)) eqn:E; cbn.
    + destruct (f x) eqn:Fx; auto. destruct (f y) eqn:Fy; cbn.
      * unfold by_nonce at 1. rewrite E. auto.
      * (* x is below everything that survives *)
        symmetry. apply ins_head.
        -- apply Forall_forall. intros z Hz. apply filter_In in Hz as [Hz _].
           rewrite Forall_forall in H2. specialize (H2 z Hz). unfold nle in *. lia.
        -- clear -H1. induction H1; cbn; [constructor|]. destruct (f a); auto. constructor; auto.
           apply Forall_forall. intros z Hz. apply filter_In in Hz as [Hz _]. rewrite Forall_forall in H. auto.
    + rewrite IH by auto. destruct (f y) eqn:Fy; destruct (f x) eqn:Fx; cbn; auto.
      unfold by_nonce at 2. rewrite E. auto.
Qed.
Lemma sort_filter f l : sort_nonce (filter f l) = filter f (sort_nonce l).
Proof.
  unfold sort_nonce. induction l as [|a r IH]; cbn; auto.
  rewrite filter_ins by apply sort_nonce_sorted. destruct (f a); cbn; auto. rewrite IH. auto.
Qed.

Lemma sorted_filter_ge th s :
  StronglySorted nle s ->
  filter (fun t => negb (N.ltb (t_nonce t) th)) s = skipn (length (filter (fun t => N.ltb (t_nonce t) th) s)) s.
Proof.
  induction s as [|a r IH]; intro S; cbn; auto. inversion S; subst.
  destruct (N.ltb (t_nonce a) th) eqn:E; cbn; auto.
  assert (K : forall z, In z r -> N.ltb (t_nonce z) th = false).
  { intros z Hz. rewrite Forall_forall in H2. specialize (H2 z Hz). unfold nle in H2. lia. }
  assert (filter (fun t => N.ltb (t_nonce t) th) r = []) as ->.
  { clear -K. induction r as [|b r IH]; cbn; auto. rewrite K by (left; auto). apply IH. intros. apply K. right. auto. }
  cbn. f_equal. clear -K. induction r as [|b r IH]; cbn; auto. rewrite K by (left; auto). cbn. f_equal.
  apply IH. intros. apply K. right. auto.
Qed.

Lemma sorted_firstn k s : StronglySorted nle s -> StronglySorted nle (firstn k s).
Proof.
  revert k. induction s as [|a r IH]; intros k S; destruct k; cbn; try constructor.
  - inversion S; subst. auto.
  - inversion S; subst. apply Forall_forall. intros z Hz. rewrite Forall_forall in H2. apply H2.
    rewrite <- (firstn_skipn k r). apply in_or_app. auto.
Qed.

Definition ccok (m : smap) : Prop :=
  match cache m with Some c => c = sort_nonce (items m) | None => True end.

Lemma cc_put m t : ccok (sm_put m t). Proof. exact I. Qed.
Lemma cc_forward m th rm m' : sm_forward m th = (rm, m') -> ccok m -> ccok m'.
Proof.
  unfold sm_forward, ccok. intro H. invp H. cbn. destruct (cache m) as [c|]; auto. intros ->.
  rewrite sort_filter, (sorted_filter_ge th _ (sort_nonce_sorted (items m))). f_equal.
  rewrite <- sort_filter. unfold sort_nonce. rewrite isort_length. auto.
Qed.
Lemma cc_filter m f rm m' : sm_filter m f = (rm, m') -> ccok m -> ccok m'.
Proof. unfold sm_filter. destruct (filter f (items m)); intro H; invp H; auto. intros _. exact I. Qed.
Lemma cc_cap m th d m' : sm_cap m th = (d, m') -> ccok m -> ccok m'.
Proof.
  unfold sm_cap. destruct (Nat.leb (length (items m)) th) eqn:L; intro H; invp H; auto.
  unfold ccok. cbn. destruct (cache m) as [c|]; auto. intros ->.
  rewrite (sort_sorted_id (firstn th (sort_nonce (items m)))) by (apply sorted_firstn, sort_nonce_sorted).
  f_equal. rewrite rev_length, skipn_length. unfold sort_nonce. rewrite isort_length.
  apply Nat.leb_gt in L. lia.
Qed.
Lemma cc_remove m n ok m' : sm_remove m n = (ok, m') -> ccok m -> ccok m'.
Proof. unfold sm_remove. destruct (sm_get m n); intro H; invp H; auto. intros _. exact I. Qed.
Lemma cc_ready m s r m' : sm_ready m s = (r, m') -> ccok m -> ccok m'.
Proof.
  unfold sm_ready. destruct (min_nonce (items m)); [|intro H; invp H; auto].
  destruct (N.ltb s n); intro H; invp H; auto. intros _. exact I.
Qed.
Lemma cc_flatten m r m' : sm_flatten m = (r, m') -> ccok m -> ccok m' /\ r = sort_nonce (items m).
Proof.
  unfold sm_flatten, ccok. destruct (cache m) eqn:E; intro H; invp H; cbn.
  - rewrite E. auto.
  - auto.
Qed.

(* strict Filter: every invalidated transaction lies above some removed one *)
Lemma l_filter_inv_above l c g rm inv l' :
  l_filter l c g = (rm, inv, l') -> forall x, In x inv -> exists y, In y rm /\ t_nonce y < t_nonce x.
Proof.
  unfold l_filter. destruct (N.leb (costcap l) c && N.leb (gascap l) g); [intro H; invp H; intros x []|].
  destruct (sm_filter (txs l) _) as [removed m1] eqn:F1.
  destruct removed as [|t0 rest]; [intro H; invp H; intros x []|].
  destruct (strict l); [|intro H; invp H; intros x []].
  destruct (sm_filter m1 _) as [invalids m2] eqn:F2. intro H; invp H.
  pose proof (sm_filter_spec _ _ _ _ F2) as [S3 _]. intros x Hx. apply S3 in Hx as [_ Hx].
  pose proof (lowest_nonce_spec (t0 :: rest) (t_nonce t0)) as (_ & _ & [E|(y & Hy & E)]).
  - exists t0. split; [left; auto|]. lia.
  - exists y. split; auto. lia.
Qed.
