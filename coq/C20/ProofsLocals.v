(* C20 - an account is treated as local only if it was configured as local or a
   local submission of it was accepted. *)
From VF.C20 Require Import Model Spec Lemmas ProofsWF ProofsWF2 ProofsWF3 ProofsCaps ProofsNonce ProofsNonce2 ProofsNonce3 ProofsNonce4 ProofsNonce5 ProofsTotal.
From Coq Require Import Arith Lia ZifyBool ZifyN ZifyNat Permutation Sorted.
Local Open Scope N_scope.

(* ---- the locals set is only touched by add ------------------------------------ *)
Lemma lo_all_remove_list rm p : locals (all_remove_list p rm) = locals p.
Proof. apply sr_all_remove_list. Qed.
Lemma lo_enqueue_all l p : locals (enqueue_all p l) = locals p.
Proof. apply sr_enqueue_all. Qed.

Lemma lo_remove_tx p id : locals (remove_tx p id) = locals p.
Proof.
  unfold remove_tx. destruct (all_get p id) as [t|]; auto.
  cbn [pending queue all_remove set_all].
  destruct (aget (pending p) (t_from t)) as [pl|].
  - destruct (l_remove pl t) as [[removed invalids] pl']. destruct removed.
    + cbn [locals set_pnonces]. rewrite lo_enqueue_all. destruct (l_empty pl'); auto.
    + destruct (aget (queue p) (t_from t)) as [ql|]; auto.
      destruct (l_remove ql t) as [[ok inv] ql']. destruct (l_empty ql'); auto.
  - destruct (aget (queue p) (t_from t)) as [ql|]; auto.
    destruct (l_remove ql t) as [[ok inv] ql']. destruct (l_empty ql'); auto.
Qed.
Lemma lo_remove_txs l : forall p, locals (remove_txs p l) = locals p.
Proof. unfold remove_txs. induction l; intro p; cbn; auto. rewrite IHl. apply lo_remove_tx. Qed.

Lemma lo_shave p a : locals (shave p a) = locals p.
Proof.
  unfold shave. destruct (aget (pending p) a) as [l|]; auto. destruct (l_empty l); auto.
  destruct (l_cap l _) as [caps l'].
  assert (K : forall q, locals (fold_left (fun p t => set_pnonces (all_remove p (t_id t)) (nc_set_if_lower (pnonces p) a (t_nonce t))) caps q) = locals q).
  { induction caps; intro q; cbn; auto. rewrite IHcaps. auto. }
  rewrite K. auto.
Qed.
Lemma lo_shave_all l : forall p cnt,
  locals (fst (fold_left (fun pc a => (shave (fst pc) a, snd pc - 1)) l (p, cnt))) = locals p.
Proof. induction l; intros p cnt; cbn; auto. rewrite IHl. apply lo_shave. Qed.
Lemma lo_equalize fuel : forall p cnt prevs lp th, locals (fst (equalize fuel p cnt prevs lp th)) = locals p.
Proof.
  induction fuel as [|f IH]; intros p cnt prevs lp th; cbn; auto.
  destruct (_ && _); cbn; auto. rewrite fold_shave_pair, IH. apply lo_shave_all.
Qed.
Lemma lo_trunc_loop1 fuel spammers : forall p cnt offenders,
  locals (fst (fst (trunc_loop1 fuel p cnt spammers offenders))) = locals p.
Proof.
  induction spammers as [|o rest IH]; intros p cnt offenders; cbn; auto.
  destruct (N.ltb _ cnt); cbn; auto.
  destruct offenders as [|o1 os]; [apply IH|].
  destruct (equalize fuel p cnt (o1 :: os) (last (o1 :: os) 0) (pend_len p o)) as [p' cnt'] eqn:E.
  rewrite IH. pose proof (lo_equalize fuel p cnt (o1 :: os) (last (o1 :: os) 0) (pend_len p o)) as H. rewrite E in H. auto.
Qed.
Lemma lo_trunc_loop2 fuel : forall p cnt offenders, locals (fst (trunc_loop2 fuel p cnt offenders)) = locals p.
Proof.
  induction fuel as [|f IH]; intros p cnt offenders; cbn; auto.
  destruct (_ && _); cbn; auto. rewrite fold_shave_pair, IH. apply lo_shave_all.
Qed.
Lemma lo_truncate_pending p ord : locals (truncate_pending p ord) = locals p.
Proof.
  unfold truncate_pending. destruct (N.leb _ _); auto.
  match goal with |- context [trunc_loop1 ?f ?p0 ?c ?s ?o] =>
    pose proof (lo_trunc_loop1 f s p0 c o) as H; destruct (trunc_loop1 f p0 c s o) as [[p1 c1] off] end.
  cbn in H. destruct off; auto. rewrite lo_trunc_loop2. auto.
Qed.
Lemma lo_drop_last_n l : forall p drop, locals (fst (drop_last_n p l drop)) = locals p.
Proof.
  induction l as [|t r IH]; intros p drop; cbn; auto.
  destruct (N.ltb 0 drop); cbn; auto. rewrite IH. apply lo_remove_tx.
Qed.
Lemma lo_trunc_queue_loop addrs : forall p drop, locals (trunc_queue_loop p addrs drop) = locals p.
Proof.
  induction addrs as [|a rest IH]; intros p drop; cbn; auto.
  destruct (N.ltb 0 drop); auto. destruct (aget (queue p) a) as [l|]; auto.
  destruct (l_flatten l) as [flat l']. destruct (N.leb (l_len l) drop).
  - rewrite IH, lo_remove_txs. auto.
  - pose proof (lo_drop_last_n (rev flat) (set_queue p (aset (queue p) a l')) drop) as H.
    destruct (drop_last_n _ (rev flat) drop) as [p2 d2]. rewrite IH. auto.
Qed.
Lemma lo_truncate_queue p ord : locals (truncate_queue p ord) = locals p.
Proof. unfold truncate_queue. destruct (N.leb _ _); auto. apply lo_trunc_queue_loop. Qed.
Lemma lo_fix_nonce p a : locals (fix_nonce p a) = locals p.
Proof.
  unfold fix_nonce. destruct (aget (pending p) a) as [l|]; auto.
  destruct (l_flatten l) as [flat l']. destruct (rev flat); auto.
Qed.
Lemma lo_fold_fix l : forall p, locals (fold_left fix_nonce l p) = locals p.
Proof. induction l; intro p; cbn; auto. rewrite IHl. apply lo_fix_nonce. Qed.


Lemma lo_demote_account p a : locals (demote_account p a) = locals p.
Proof.
  unfold demote_account. destruct (aget (pending p) a) as [l|]; auto.
  destruct (l_forward l _) as [olds l1]. destruct (l_filter l1 _ _) as [[drops inv] l2].
  destruct (if _ && _ then l_cap l2 0 else ([], l2)) as [gapped l3].
  match goal with |- locals (match ?X with pair _ _ => _ end) = _ => destruct X as [[gapped2 l4] seen] end.
  assert (E : forall q, locals (if seen then set_gap_seen q else q) = locals q) by (intro q; destruct seen; auto).
  destruct (l_empty l4); cbn [locals set_beats set_pending]; rewrite lo_enqueue_all; cbn [locals put_p set_pending];
    rewrite E, lo_enqueue_all; cbn [locals put_p set_pending]; rewrite lo_enqueue_all, lo_all_remove_list;
    cbn [locals put_p set_pending]; rewrite lo_all_remove_list; auto.
Qed.
Lemma lo_fold (f : pool -> N -> pool) : (forall p a, locals (f p a) = locals p) -> forall l p, locals (fold_left f l p) = locals p.
Proof. intros H l. induction l; intro p; cbn; auto. rewrite IHl. apply H. Qed.

(* add: the only place where an account becomes local - and only on acceptance
   of a submission flagged local *)
Lemma lo_add_tx p t local :
  forall a, In a (locals (snd (add_tx p t local))) ->
            In a (locals p) \/ (a = t_from t /\ local = true /\ snd (fst (add_tx p t local)) = E_ok).
Proof.
  intro a. unfold add_tx. destruct (all_get p (t_id t)); [cbn; auto|].
  destruct (negb _); [cbn; auto|].
  match goal with |- context [if ?c then (false, E_underpriced, p) else _] => destruct c end; [cbn; auto|].
  match goal with |- context [if ?c then remove_txs p ?l else p] => set (p1 := if c then remove_txs p l else p) end.
  assert (F1 : locals p1 = locals p) by (unfold p1; match goal with |- locals (if ?c then _ else _) = _ => destruct c end; auto; apply lo_remove_txs).
  destruct (match aget (pending p1) (t_from t) with Some l => if l_overlaps l t then Some l else None | None => None end) as [l|].
  - destruct (l_add l t _) as [[ins old] l']. destruct ins; cbn [negb snd fst].
    + destruct old; cbn [locals all_add all_remove set_all set_pending]; rewrite F1; auto.
    + rewrite F1. auto.
  - pose proof (sr_enqueue p1 t) as SR. destruct (enqueue_tx p1 t) as [[replaced e] p2]. cbn [snd] in SR.
    destruct SR as (_ & _ & _ & _ & L2 & _).
    destruct (N.eqb e E_ok) eqn:Ee; cbn [negb snd fst]; [|rewrite L2, F1; auto].
    destruct local; cbn [andb]; [|rewrite L2, F1; auto].
    destruct (negb (is_local p2 (t_from t))); cbn [snd fst locals set_locals]; rewrite ?L2, F1.
    + intros [<-|H]; auto.
    + auto.
Qed.

Lemma lo_add_txs_locked l local : forall p a,
  In a (locals (snd (add_txs_locked p l local))) ->
  In a (locals p) \/ (local = true /\ In a (accepted_senders l (fst (fst (add_txs_locked p l local))))).
Proof.
  induction l as [|t r IH]; intros p a; cbn [add_txs_locked]; [cbn; auto|].
  pose proof (lo_add_tx p t local a) as H1.
  destruct (add_tx p t local) as [[rep e] p1]. cbn [fst snd] in H1.
  specialize (IH p1 a). destruct (add_txs_locked p1 r local) as [[errs d] p2]. cbn [fst snd] in *.
  intro H. destruct (IH H) as [H2|[H2 H3]].
  - destruct (H1 H2) as [H4|(-> & -> & ->)]; auto. right. split; auto. cbn. left. auto.
  - right. split; auto. cbn [accepted_senders]. destruct (N.eqb e E_ok); [right|]; auto.
Qed.

Lemma lo_reset p old new a : In a (locals (reset p old new)) -> In a (locals p).
Proof.
  unfold reset. destruct (reset_reinject _ old new) as [re|]; auto. destruct (h_state new) as [s|]; auto.
  pose proof (lo_add_txs_locked re false (set_head_state p s (h_gaslimit new)) a) as H.
  destruct (add_txs_locked (set_head_state p s (h_gaslimit new)) re false) as [[e d] p']. cbn [fst snd] in *.
  intro Ha. destruct (H Ha) as [H1|[H1 _]]; [exact H1|discriminate].
Qed.

Lemma lo_run_reorg p rs dirty ord a : In a (locals (run_reorg p rs dirty ord)) -> In a (locals p).
Proof.
  unfold run_reorg. destruct rs as [[old new]|].
  - rewrite lo_fold_fix, lo_truncate_queue, lo_truncate_pending. unfold demote_unexecutables, promote_executables.
    rewrite (lo_fold _ lo_demote_account), (lo_fold _ locals_promote_account). apply lo_reset.
  - rewrite lo_fold_fix, lo_truncate_queue, lo_truncate_pending. unfold promote_executables.
    rewrite (lo_fold _ locals_promote_account). auto.
Qed.

Lemma lo_step p o a : In a (locals (fst (step p o))) -> In a (locals p) \/ In a (local_accepts p o).
Proof.
  destruct o; cbn [step local_accepts].
  - cbn. auto.
  - pose proof (lo_add_txs_locked l (eff_local p local) p a) as H.
    destruct (eff_local p local) eqn:El;
      destruct (add_txs_locked p l _) as [[e d] p1]; cbn [fst snd] in *; intro Ha; apply lo_run_reorg in Ha;
      destruct (H Ha) as [H1|[H1 H2]]; auto; discriminate.
  - pose proof (lo_add_txs_locked l (eff_local p local) p a) as H.
    destruct (eff_local p local) eqn:El;
      destruct (add_txs_locked p l _) as [[e d] p1]; cbn [fst snd] in *; intro Ha;
      destruct (H Ha) as [H1|[H1 H2]]; auto; discriminate.
  - cbn [fst]. intro Ha. left. eapply lo_run_reorg; eauto.
  - cbn [fst]. unfold set_price. rewrite lo_remove_txs. auto.
  - cbn [fst]. unfold evict. intro Ha. left. revert Ha.
    assert (G : forall keys q, locals (fold_left (evict_account expired) keys q) = locals q).
    { induction keys as [|k r IH]; intro q; cbn [fold_left]; auto. rewrite IH. unfold evict_account.
      destruct (is_local q k); auto. destruct (existsb _ expired); auto. destruct (aget (queue q) k) as [l0|]; auto.
      destruct (l_flatten l0) as [flat l']. rewrite lo_remove_txs. auto. }
    rewrite G. auto.
  - cbn [fst]. rewrite lo_remove_tx. auto.
  - unfold pending_view.
    assert (G : forall keys out q, locals (snd (fold_left (fun acc a0 =>
               let '(out, p) := acc in
               match aget (pending p) a0 with
               | None => (out, p)
               | Some l => let '(flat, l') := l_flatten l in
                           (out ++ [(a0, flat)], set_pending p (aset (pending p) a0 l'))
               end) keys (out, q))) = locals q).
    { induction keys as [|k r IH]; intros out q; cbn [fold_left]; auto.
      destruct (aget (pending q) k) as [l0|]; [|apply IH]. destruct (l_flatten l0) as [flat l']. rewrite IH. auto. }
    specialize (G (akeys (pending p)) [] p).
    destruct (fold_left _ (akeys (pending p)) ([], p)) as [v p']. cbn [fst snd] in *. rewrite G. auto.
Qed.

(* over a whole history *)
Lemma locals_only_from_accepted ops : forall p a,
  In a (locals (run p ops)) ->
  In a (locals p) \/ exists pre o post, ops = pre ++ o :: post /\ In a (local_accepts (run p pre) o).
Proof.
  unfold run. induction ops as [|o r IH]; intros p a Ha; cbn [fold_left] in Ha; auto.
  destruct (IH _ _ Ha) as [H|(pre & o' & post & E & H)].
  - destruct (lo_step p o a H) as [H1|H1]; auto. right. exists [], o, r. split; auto.
  - right. exists (o :: pre), o', post. split; [rewrite E; auto|]. exact H.
Qed.

Lemma locals_new_pool c g a : In a (locals (new_pool c g)) -> In a (cfg_locals c).
Proof. unfold new_pool. intro H. apply lo_reset in H. exact H. Qed.
