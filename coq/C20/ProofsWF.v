(* C20 - the pool's views partition the lookup: invariant WF and its
   preservation by every function of the model. *)
From VF.C20 Require Import Model Lemmas.
From Coq Require Import Arith Lia ZifyBool ZifyN ZifyNat Permutation.
Local Open Scope N_scope.

Definition lst (m : amap txlist) (a : N) : list tx :=
  match aget m a with Some l => litems l | None => [] end.

Lemma lst_aset m a l b : lst (aset m a l) b = if N.eqb a b then litems l else lst m b.
Proof. unfold lst. rewrite aget_aset. destruct (N.eqb a b); auto. Qed.
Lemma lst_adel m a b : lst (adel m a) b = if N.eqb a b then [] else lst m b.
Proof. unfold lst. rewrite aget_adel. destruct (N.eqb a b); auto. Qed.
Lemma lst_some m a l : aget m a = Some l -> lst m a = litems l.
Proof. unfold lst. intros ->. auto. Qed.

(* [fl]: transactions that are in the lookup but (momentarily) in no list *)
Record WFx (fl : list tx) (p : pool) : Prop := mkWF {
  w_pfrom : forall a t, In t (lst (pending p) a) -> t_from t = a;
  w_qfrom : forall a t, In t (lst (queue p) a) -> t_from t = a;
  w_pall : forall a t, In t (lst (pending p) a) -> In t (all p);
  w_qall : forall a t, In t (lst (queue p) a) -> In t (all p);
  w_fall : forall t, In t fl -> In t (all p);
  w_cover : forall t, In t (all p) ->
            In t (lst (pending p) (t_from t)) \/ In t (lst (queue p) (t_from t)) \/ In t fl;
  w_ids : NoDup (map t_id (all p));
  w_up : forall a, uniq (lst (pending p) a);
  w_uq : forall a, uniq (lst (queue p) a);
  w_dpq : forall a t t', In t (lst (pending p) a) -> In t' (lst (queue p) a) -> t_nonce t <> t_nonce t';
  w_fnd : NoDup fl;
  w_ff : forall t t', In t fl -> In t' fl -> t_from t = t_from t' -> t_nonce t = t_nonce t' -> t = t';
  w_fp : forall t t', In t fl -> In t' (lst (pending p) (t_from t)) -> t_nonce t <> t_nonce t';
  w_fq : forall t t', In t fl -> In t' (lst (queue p) (t_from t)) -> t_nonce t <> t_nonce t'
}.
Definition WF := WFx [].

Lemma wf_ext fl p p' :
  pending p' = pending p -> queue p' = queue p -> all p' = all p -> WFx fl p -> WFx fl p'.
Proof. intros E1 E2 E3 [? ? ? ? ? ? ? ? ? ? ? ? ? ?]. constructor; rewrite ?E1, ?E2, ?E3; auto. Qed.

Lemma wf_perm fl fl' p : (forall x, In x fl <-> In x fl') -> NoDup fl' -> WFx fl p -> WFx fl' p.
Proof.
  intros E N [? ? ? ? ? ? ? ? ? ? ? ? ? ?]. constructor; auto.
  - intros t Ht. apply w_fall0. apply E. auto.
  - intros t Ht. destruct (w_cover0 t Ht) as [|[|]]; auto. right. right. apply E. auto.
  - intros t t' H1 H2. apply w_ff0; apply E; auto.
  - intros t t' H1. apply w_fp0. apply E. auto.
  - intros t t' H1. apply w_fq0. apply E. auto.
Qed.

Ltac eqb_cases a b :=
  let E := fresh "E" in
  destruct (N.eqb a b) eqn:E; [apply N.eqb_eq in E; try subst | apply N.eqb_neq in E].

Lemma ids_inj A x y : NoDup (map t_id A) -> In x A -> In y A -> t_id x = t_id y -> x = y.
Proof. apply NoDup_map_inj_in. Qed.

(* ---- T1: a list shrinks, what left it floats ------------------------------ *)
Lemma wf_shrink_q fl p a l l' rm :
  WFx fl p -> aget (queue p) a = Some l ->
  (forall x, In x (litems l) <-> In x (litems l') \/ In x rm) ->
  (forall x, In x (litems l') -> ~ In x rm) ->
  uniq rm -> uniq (litems l') ->
  WFx (rm ++ fl) (put_q p a l').
Proof.
  intros W G S D Ur Ul. pose proof (lst_some _ _ _ G) as L. destruct W.
  assert (Sub : forall b x, In x (lst (queue (put_q p a l')) b) -> In x (lst (queue p) b)).
  { intros b x. cbn. rewrite lst_aset. eqb_cases a b; auto. rewrite L. intro. apply S. auto. }
  assert (Rm : forall x, In x rm -> In x (lst (queue p) a)) by (intros x Hx; rewrite L; apply S; auto).
  constructor; cbn [pending put_q set_queue all].
  - auto.
  - intros b t Ht. apply Sub in Ht. eauto.
  - auto.
  - intros b t Ht. apply Sub in Ht. eauto.
  - intros t Ht. apply in_app_or in Ht as [Ht|Ht]; eauto.
  - intros t Ht. destruct (w_cover0 t Ht) as [H|[H|H]]; auto.
    + cbn. rewrite lst_aset. eqb_cases a (t_from t).
      * rewrite L in H. apply S in H as [H|H]; auto. right. right. apply in_or_app. auto.
      * auto.
    + right. right. apply in_or_app. auto.
  - auto.
  - auto.
  - intro b. cbn. rewrite lst_aset. eqb_cases a b; auto.
  - intros b t t' H1 H2. apply Sub in H2. eauto.
  - apply NoDup_app_iff. split; [apply uniq_nodup; auto|]. split; auto.
    intros x H1 H2. apply Rm in H1. pose proof (w_qfrom0 _ _ H1) as F. subst a.
    eapply w_fq0; eauto.
  - intros t t' H1 H2 F N. apply in_app_or in H1 as [H1|H1]; apply in_app_or in H2 as [H2|H2]; auto.
    + eapply (uniq_inj rm); eauto.
    + exfalso. apply Rm in H1. pose proof (w_qfrom0 _ _ H1). subst a. rewrite F in H1.
      eapply w_fq0; eauto.
    + exfalso. apply Rm in H2. pose proof (w_qfrom0 _ _ H2). subst a. rewrite <- F in H2.
      eapply w_fq0; eauto.
  - intros t t' H1 H2. apply in_app_or in H1 as [H1|H1]; eauto.
    apply Rm in H1. pose proof (w_qfrom0 _ _ H1). subst a. intro N. eapply w_dpq0; eauto.
  - intros t t' H1 H2. apply in_app_or in H1 as [H1|H1].
    + pose proof (Rm _ H1) as H3. pose proof (w_qfrom0 _ _ H3). subst a.
      cbn in H2. rewrite lst_aset, N.eqb_refl in H2. intro N.
      assert (t = t').
      { eapply uniq_inj; [apply (w_uq0 (t_from t))| | |]; eauto. rewrite L. apply S. auto. }
      subst t'. eapply D; eauto.
    + apply Sub in H2. eauto.
Qed.

Lemma wf_shrink_p fl p a l l' rm :
  WFx fl p -> aget (pending p) a = Some l ->
  (forall x, In x (litems l) <-> In x (litems l') \/ In x rm) ->
  (forall x, In x (litems l') -> ~ In x rm) ->
  uniq rm -> uniq (litems l') ->
  WFx (rm ++ fl) (put_p p a l').
Proof.
  intros W G S D Ur Ul. pose proof (lst_some _ _ _ G) as L. destruct W.
  assert (Sub : forall b x, In x (lst (pending (put_p p a l')) b) -> In x (lst (pending p) b)).
  { intros b x. cbn. rewrite lst_aset. eqb_cases a b; auto. rewrite L. intro. apply S. auto. }
  assert (Rm : forall x, In x rm -> In x (lst (pending p) a)) by (intros x Hx; rewrite L; apply S; auto).
  constructor; cbn [queue put_p set_pending all].
  - intros b t Ht. apply Sub in Ht. eauto.
  - auto.
  - intros b t Ht. apply Sub in Ht. eauto.
  - auto.
  - intros t Ht. apply in_app_or in Ht as [Ht|Ht]; eauto.
  - intros t Ht. destruct (w_cover0 t Ht) as [H|[H|H]]; auto.
    + cbn. rewrite lst_aset. eqb_cases a (t_from t).
      * rewrite L in H. apply S in H as [H|H]; auto. right. right. apply in_or_app. auto.
      * auto.
    + right. right. apply in_or_app. auto.
  - auto.
  - intro b. cbn. rewrite lst_aset. eqb_cases a b; auto.
  - auto.
  - intros b t t' H1 H2. apply Sub in H1. eauto.
  - apply NoDup_app_iff. split; [apply uniq_nodup; auto|]. split; auto.
    intros x H1 H2. apply Rm in H1. pose proof (w_pfrom0 _ _ H1) as F. subst a.
    eapply w_fp0; eauto.
  - intros t t' H1 H2 F N. apply in_app_or in H1 as [H1|H1]; apply in_app_or in H2 as [H2|H2]; auto.
    + eapply (uniq_inj rm); eauto.
    + exfalso. apply Rm in H1. pose proof (w_pfrom0 _ _ H1). subst a. rewrite F in H1.
      eapply w_fp0; eauto.
    + exfalso. apply Rm in H2. pose proof (w_pfrom0 _ _ H2). subst a. rewrite <- F in H2.
      eapply w_fp0; eauto.
  - intros t t' H1 H2. apply in_app_or in H1 as [H1|H1].
    + pose proof (Rm _ H1) as H3. pose proof (w_pfrom0 _ _ H3). subst a.
      cbn in H2. rewrite lst_aset, N.eqb_refl in H2. intro N.
      assert (t = t').
      { eapply uniq_inj; [apply (w_up0 (t_from t))| | |]; eauto. rewrite L. apply S. auto. }
      subst t'. eapply D; eauto.
    + apply Sub in H2. eauto.
  - intros t t' H1 H2. apply in_app_or in H1 as [H1|H1]; eauto.
    apply Rm in H1. pose proof (w_pfrom0 _ _ H1). subst a. intro N. eapply w_dpq0; eauto.
Qed.

(* ---- T2: floating transactions leave the lookup --------------------------- *)
Lemma all_remove_in p id x : In x (all (all_remove p id)) <-> In x (all p) /\ t_id x <> id.
Proof.
  unfold all_remove. cbn. rewrite filter_In. split; intros [H1 H2]; split; auto.
  - apply negb_true_iff, N.eqb_neq in H2. auto.
  - apply negb_true_iff, N.eqb_neq. auto.
Qed.

Lemma wf_all_remove fl p t : WFx (t :: fl) p -> WFx fl (all_remove p (t_id t)).
Proof.
  intro W. destruct W.
  assert (Tin : In t (all p)) by (apply w_fall0; left; auto).
  assert (K : forall x, In x (all p) -> x <> t -> In x (all (all_remove p (t_id t)))).
  { intros x Hx Hn. apply all_remove_in. split; auto. intro E. apply Hn. eapply ids_inj; eauto. }
  inversion w_fnd0; subst.
  constructor; cbn [pending queue all_remove set_all].
  - auto.
  - auto.
  - intros a x Hx. apply K; eauto. intros ->. pose proof (w_pfrom0 _ _ Hx). subst a.
    eapply w_fp0; [left; eauto| |]; eauto.
  - intros a x Hx. apply K; eauto. intros ->. pose proof (w_qfrom0 _ _ Hx). subst a.
    eapply w_fq0; [left; eauto| |]; eauto.
  - intros x Hx. apply K; [apply w_fall0; right; auto|]. intros ->. auto.
  - intros x Hx. apply all_remove_in in Hx as [Hx Hn].
    destruct (w_cover0 x Hx) as [H|[H|[H|H]]]; auto. subst. congruence.
  - cbn. apply NoDup_map_filter. auto.
  - auto.
  - auto.
  - auto.
  - auto.
  - intros x y H3 H4. apply w_ff0; right; auto.
  - intros x y H3. apply w_fp0. right. auto.
  - intros x y H3. apply w_fq0. right. auto.
Qed.

Lemma wf_all_remove_list rm : forall fl p, WFx (rm ++ fl) p -> WFx fl (all_remove_list p rm).
Proof.
  unfold all_remove_list. induction rm as [|t r IH]; intros fl p W; cbn; auto.
  apply IH. apply wf_all_remove. auto.
Qed.

Lemma all_remove_list_fields rm : forall p,
  pending (all_remove_list p rm) = pending p /\ queue (all_remove_list p rm) = queue p /\
  (forall x, In x (all (all_remove_list p rm)) -> In x (all p)).
Proof.
  unfold all_remove_list. induction rm as [|t r IH]; intro p; cbn; auto.
  destruct (IH (all_remove p (t_id t))) as (H1 & H2 & H3). repeat split; auto.
  intros x Hx. apply H3 in Hx. apply all_remove_in in Hx. tauto.
Qed.

(* ---- T3/T4: a floating transaction enters a list -------------------------- *)
Lemma all_get_in p t : NoDup (map t_id (all p)) -> In t (all p) -> all_get p (t_id t) = Some t.
Proof.
  intros N Hin. unfold all_get. destruct (find _ (all p)) as [x|] eqn:E.
  - apply find_some in E as [E1 E2]. apply N.eqb_eq in E2. f_equal. eapply ids_inj; eauto.
  - eapply find_none in E; eauto. cbn in E. rewrite N.eqb_refl in E. discriminate.
Qed.

Definition qlist (p : pool) (a : N) : txlist :=
  match aget (queue p) a with Some l => l | None => new_list false end.
Definition plist (p : pool) (a : N) : txlist :=
  match aget (pending p) a with Some l => l | None => new_list true end.
Lemma qlist_items p a : litems (qlist p a) = lst (queue p) a.
Proof. unfold qlist, lst. destruct (aget (queue p) a); auto. Qed.
Lemma plist_items p a : litems (plist p a) = lst (pending p) a.
Proof. unfold plist, lst. destruct (aget (pending p) a); auto. Qed.

(* l_add of a transaction whose nonce is not in the list *)
Lemma l_add_fresh l t bump :
  (forall x, In x (litems l) -> t_nonce x <> t_nonce t) ->
  exists l', l_add l t bump = (true, None, l') /\ strict l' = strict l /\
             (forall x, In x (litems l') <-> x = t \/ In x (litems l)).
Proof.
  intro F.
  assert (G : sm_get (txs l) (t_nonce t) = None).
  { destruct (sm_get (txs l) (t_nonce t)) eqn:G; auto. apply sm_get_some in G as [G1 G2].
    exfalso. eapply F; eauto. }
  unfold l_add. rewrite G. eexists. split; [reflexivity|]. split; auto.
  intro x. unfold litems at 1. cbn [txs]. rewrite sm_put_in. split; intros [H|H]; auto; tauto.
Qed.

Lemma wf_enqueue_floating fl p t :
  WFx (t :: fl) p ->
  exists p', enqueue_tx p t = (false, E_ok, p') /\ WFx fl p' /\
             pending p' = pending p /\ all p' = all p /\
             (forall b x, In x (lst (queue p') b) <-> (b = t_from t /\ x = t) \/ In x (lst (queue p) b)).
Proof.
  intro W. pose proof W as W0. destruct W.
  assert (Tin : In t (all p)) by (apply w_fall0; left; auto).
  assert (F : forall x, In x (litems (qlist p (t_from t))) -> t_nonce x <> t_nonce t).
  { intros x Hx E. rewrite qlist_items in Hx. eapply w_fq0; [left; eauto| |]; eauto. }
  destruct (l_add_fresh _ t (price_bump (cfg p)) F) as (l' & A & St & I).
  unfold enqueue_tx. fold (qlist p (t_from t)). rewrite A. cbn [negb].
  assert (G : all_get (set_queue p (aset (queue p) (t_from t) l')) (t_id t) = Some t).
  { apply (all_get_in (set_queue p (aset (queue p) (t_from t) l'))); auto. }
  rewrite G. eexists. split; [reflexivity|].
  assert (Q : forall b x, In x (lst (aset (queue p) (t_from t) l') b) <-> (b = t_from t /\ x = t) \/ In x (lst (queue p) b)).
  { intros b x. rewrite lst_aset. eqb_cases (t_from t) b.
    - rewrite I, qlist_items. tauto.
    - split; auto. intros [[-> _]|]; auto. congruence. }
  split; [|cbn; auto].
  inversion w_fnd0; subst.
  constructor; cbn [pending queue all set_queue].
  - auto.
  - intros b x Hx. apply Q in Hx as [[-> ->]|Hx]; eauto.
  - auto.
  - intros b x Hx. apply Q in Hx as [[-> ->]|Hx]; eauto.
  - intros x Hx. apply w_fall0. right. auto.
  - intros x Hx. destruct (w_cover0 x Hx) as [H|[H|[H|H]]]; auto.
    + right. left. apply Q. auto.
    + subst. right. left. apply Q. auto.
  - auto.
  - auto.
  - intro b. rewrite lst_aset. eqb_cases (t_from t) b; auto.
    eapply l_add_uniq; eauto. rewrite qlist_items. auto.
  - intros b x y Hx Hy. apply Q in Hy as [[-> ->]|Hy]; eauto.
    intro E. eapply w_fp0; [left; eauto| |]; eauto.
  - auto.
  - intros x y Hx Hy. apply w_ff0; right; auto.
  - intros x y Hx. apply w_fp0. right. auto.
  - intros x y Hx Hy. apply Q in Hy as [[Hf ->]|Hy].
    + intro E. assert (x = t) by (apply w_ff0; [right|left|auto|auto]; auto). subst. auto.
    + eapply w_fq0; [right|]; eauto.
Qed.

Lemma wf_enqueue_all l : forall fl p,
  WFx (l ++ fl) p ->
  WFx fl (enqueue_all p l) /\ pending (enqueue_all p l) = pending p /\ all (enqueue_all p l) = all p /\
  (forall b x, In x (lst (queue (enqueue_all p l)) b) <-> (In x l /\ b = t_from x) \/ In x (lst (queue p) b)).
Proof.
  unfold enqueue_all. induction l as [|t r IH]; intros fl p W; cbn [fold_left app].
  - split; [auto|]. split; [auto|]. split; [auto|]. intros b x. cbn [In]. tauto.
  - cbn in W. destruct (wf_enqueue_floating _ _ _ W) as (p' & E & W' & Ep & Ea & Q).
    rewrite E. cbn [snd]. destruct (IH _ _ W') as (W2 & Ep2 & Ea2 & Q2).
    split; auto. split; [congruence|]. split; [congruence|].
    intros b x. rewrite Q2, Q. cbn [In]. split.
    + intros [[H1 H2]|[[H1 H2]|H]]; auto. subst. auto.
    + intros [[[H1|H1] H2]|H]; auto. subst. auto.
Qed.

Lemma wf_promote_floating fl p t :
  WFx (t :: fl) p ->
  exists p', promote_tx p (t_from t) t = (true, p') /\ WFx fl p' /\
             queue p' = queue p /\ all p' = all p /\
             (forall b x, In x (lst (pending p') b) <-> (b = t_from t /\ x = t) \/ In x (lst (pending p) b)) /\
             cfg p' = cfg p /\ cur_state p' = cur_state p /\ max_gas p' = max_gas p /\ locals p' = locals p /\
             gas_price p' = gas_price p /\ chain p' = chain p /\ panicked p' = panicked p /\
             pnonces p' = nc_set (pnonces p) (t_from t) (t_nonce t + 1).
Proof.
  intro W. pose proof W as W0. destruct W.
  assert (Tin : In t (all p)) by (apply w_fall0; left; auto).
  assert (F : forall x, In x (litems (plist p (t_from t))) -> t_nonce x <> t_nonce t).
  { intros x Hx E. rewrite plist_items in Hx. eapply w_fp0; [left; eauto| |]; eauto. }
  destruct (l_add_fresh _ t (price_bump (cfg p)) F) as (l' & A & St & I).
  unfold promote_tx. fold (plist p (t_from t)). rewrite A. cbn [negb].
  assert (G : all_get (set_pending p (aset (pending p) (t_from t) l')) (t_id t) = Some t).
  { apply (all_get_in (set_pending p (aset (pending p) (t_from t) l'))); auto. }
  rewrite G. eexists. split; [reflexivity|].
  assert (Q : forall b x, In x (lst (aset (pending p) (t_from t) l') b) <-> (b = t_from t /\ x = t) \/ In x (lst (pending p) b)).
  { intros b x. rewrite lst_aset. eqb_cases (t_from t) b.
    - rewrite I, plist_items. tauto.
    - split; auto. intros [[-> _]|]; auto. congruence. }
  split; [|cbn; repeat split; auto; apply Q].
  inversion w_fnd0; subst.
  constructor; cbn [pending queue all set_pending set_beats set_clock set_pnonces].
  - intros b x Hx. apply Q in Hx as [[-> ->]|Hx]; eauto.
  - auto.
  - intros b x Hx. apply Q in Hx as [[-> ->]|Hx]; eauto.
  - auto.
  - intros x Hx. apply w_fall0. right. auto.
  - intros x Hx. destruct (w_cover0 x Hx) as [H|[H|[H|H]]]; auto.
    + left. apply Q. auto.
    + subst. left. apply Q. auto.
  - auto.
  - intro b. rewrite lst_aset. eqb_cases (t_from t) b; auto.
    eapply l_add_uniq; eauto. rewrite plist_items. auto.
  - auto.
  - intros b x y Hx Hy. apply Q in Hx as [[-> ->]|Hx]; eauto.
    eapply w_fq0; [left; eauto|]; eauto.
  - auto.
  - intros x y Hx Hy. apply w_ff0; right; auto.
  - intros x y Hx Hy. apply Q in Hy as [[Hf ->]|Hy].
    + intro E. assert (x = t) by (apply w_ff0; [right|left|auto|auto]; auto). subst. auto.
    + eapply w_fp0; [right|]; eauto.
  - intros x y Hx. apply w_fq0. right. auto.
Qed.

(* ---- T5: dropping an empty list ------------------------------------------- *)
Lemma wf_del_q fl p a : WFx fl p -> lst (queue p) a = [] -> WFx fl (set_queue p (adel (queue p) a)).
Proof.
  intros W E.
  assert (K : forall b, lst (adel (queue p) a) b = lst (queue p) b).
  { intro b. rewrite lst_adel. eqb_cases a b; auto. }
  destruct W. constructor; cbn [pending queue all set_queue]; intros; rewrite ?K in *; eauto.
Qed.
Lemma wf_del_p fl p a : WFx fl p -> lst (pending p) a = [] -> WFx fl (set_pending p (adel (pending p) a)).
Proof.
  intros W E.
  assert (K : forall b, lst (adel (pending p) a) b = lst (pending p) b).
  { intro b. rewrite lst_adel. eqb_cases a b; auto. }
  destruct W. constructor; cbn [pending queue all set_pending]; intros; rewrite ?K in *; eauto.
Qed.

Lemma l_empty_items l : l_empty l = true <-> litems l = [].
Proof.
  unfold l_empty, l_len, sm_len, litems. destruct (items (txs l)); cbn [length]; split; intro H; auto; try discriminate;
    try (apply N.eqb_eq in H; lia).
Qed.
