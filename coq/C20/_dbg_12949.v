(* C20 - basic facts about the model's data structures: association maps,
   insertion sort, txSortedMap / txList operations (membership level). *)
From VF.C20 Require Import Model.
From Coq Require Import Lia ZifyBool ZifyN ZifyNat Permutation.
Local Open Scope N_scope.

(* ---- amap ---------------------------------------------------------------- *)
Section AmapFacts.
  Context {V : Type}.
  Implicit Types (m : amap V) (k : N).

  Lemma aget_adel_eq m k : aget (adel m k) k = None.
  Proof.
    unfold adel. induction m as [|[k' v] r IH]; cbn; auto.
    destruct (N.eqb k' k) eqn:E; cbn; auto. rewrite E. auto.
  Qed.
  Lemma aget_adel_neq m k k' : k <> k' -> aget (adel m k) k' = aget m k'.
  Proof.
    intro H. unfold adel. induction m as [|[k0 v] r IH]; cbn; auto.
    destruct (N.eqb k0 k) eqn:E; cbn.
    - apply N.eqb_eq in E. subst. destruct (N.eqb k k') eqn:E2; auto. apply N.eqb_eq in E2. congruence.
    - rewrite IH. auto.
  Qed.
  Lemma aget_aset_eq m k v : aget (aset m k v) k = Some v.
  Proof. unfold aset. cbn. rewrite N.eqb_refl. auto. Qed.
  Lemma aget_aset_neq m k k' v : k <> k' -> aget (aset m k v) k' = aget m k'.
  Proof.
    intro H. unfold aset. cbn. destruct (N.eqb k k') eqn:E.
    - apply N.eqb_eq in E. congruence.
    - apply aget_adel_neq; auto.
  Qed.
  Lemma aget_aset m k k' v : aget (aset m k v) k' = if N.eqb k k' then Some v else aget m k'.
  Proof.
    destruct (N.eqb k k') eqn:E.
    - apply N.eqb_eq in E. subst. apply aget_aset_eq.
    - apply aget_aset_neq. intro. subst. rewrite N.eqb_refl in E. discriminate.
  Qed.
  Lemma aget_adel m k k' : aget (adel m k) k' = if N.eqb k k' then None else aget m k'.
  Proof.
    destruct (N.eqb k k') eqn:E.
    - apply N.eqb_eq in E. subst. apply aget_adel_eq.
    - apply aget_adel_neq. intro. subst. rewrite N.eqb_refl in E. discriminate.
  Qed.
  Lemma aget_in_keys m k v : aget m k = Some v -> In k (akeys m).
  Proof.
    induction m as [|[k' v'] r IH]; cbn; try discriminate.
    destruct (N.eqb k' k) eqn:E; intro H.
    - apply N.eqb_eq in E. auto.
    - right. auto.
  Qed.
  Lemma aget_some_in m k v : aget m k = Some v -> In (k, v) m.
  Proof.
    induction m as [|[k' v'] r IH]; cbn; try discriminate.
    destruct (N.eqb k' k) eqn:E; intro H.
    - apply N.eqb_eq in E. inversion H. subst. auto.
    - right. auto.
  Qed.
End AmapFacts.

(* ---- insertion sort ------------------------------------------------------ *)
Section SortFacts.
  Context {A : Type} (le : A -> A -> bool).
  Lemma ins_perm x l : Permutation (ins le x l) (x :: l).
  Proof.
    induction l as [|y r IH]; cbn; auto.
    destruct (le x y); auto.
    rewrite IH. apply perm_swap.
  Qed.
  Lemma isort_perm l : Permutation (isort le l) l.
  Proof.
    induction l as [|x r IH]; cbn; auto.
    rewrite ins_perm. auto.
  Qed.
  Lemma isort_in l x : In x (isort le l) <-> In x l.
  Proof. split; apply Permutation_in; [|symmetry]; apply isort_perm. Qed.
  Lemma isort_length l : length (isort le l) = length l.
  Proof. apply Permutation_length, isort_perm. Qed.
End SortFacts.

Lemma sort_nonce_in l x : In x (sort_nonce l) <-> In x l.
Proof. apply isort_in. Qed.

(* ---- generic list facts -------------------------------------------------- *)
Lemma NoDup_app_iff {A} (l1 l2 : list A) :
  NoDup (l1 ++ l2) <-> NoDup l1 /\ NoDup l2 /\ (forall x, In x l1 -> ~ In x l2).
Proof.
  induction l1 as [|a r IH]; cbn.
  - split; [intro H; repeat split; auto; constructor | tauto].
  - split.
    + intro H. inversion H as [|? ? Hn Hr]; subst. apply IH in Hr as (H1 & H2 & H3).
      repeat split; auto.
      * constructor; auto. intro. apply Hn. apply in_or_app. auto.
      * intros x [->|Hx]; auto. intro. apply Hn. apply in_or_app. auto.
    + intros (H1 & H2 & H3). inversion H1; subst. constructor.
      * intro Hin. apply in_app_or in Hin as [|Hin]; auto. eapply H3; eauto.
      * apply IH. repeat split; auto.
  Qed.

Lemma NoDup_map_filter {A B} (f : A -> B) (g : A -> bool) l :
  NoDup (map f l) -> NoDup (map f (filter g l)).
Proof.
  induction l as [|a r IH]; cbn; auto.
  intro H. inversion H; subst. destruct (g a); cbn; auto.
  constructor; auto. intro Hin. apply H2. apply in_map_iff in Hin as (x & Hx & Hin).
  apply filter_In in Hin as [Hin _]. apply in_map_iff. eauto.
Qed.

Lemma NoDup_map_inj_in {A B} (f : A -> B) l x y :
  NoDup (map f l) -> In x l -> In y l -> f x = f y -> x = y.
Proof.
  induction l as [|a r IH]; cbn; [tauto|].
  intros H [->|Hx] [->|Hy] E; auto; inversion H; subst.
  - exfalso. apply H2. rewrite E. apply in_map. auto.
  - exfalso. apply H2. rewrite <- E. apply in_map. auto.
Show.
