(* C20 - part 2: the truncations, add and everything built from removeTx are cuts. *)
From VF.C20 Require Import Model Lemmas ProofsWF ProofsWF2 ProofsWF3 ProofsCaps ProofsNonce.
From Coq Require Import Arith Lia ZifyBool ZifyN ZifyNat Permutation.
Local Open Scope N_scope.

Definition WC (p p' : pool) : Prop := WS p' /\ cut p p'.

Lemma wc_trans p q r : WC p q -> WC q r -> WC p r.
Proof. intros [_ C1] [W2 C2]. split; auto. eapply cut_trans; eauto. Qed.
Lemma wc_refl p : WS p -> WC p p.
Proof. intro W. split; auto. apply cut_refl. Qed.

Lemma wc_remove_tx p id : WS p -> WC p (remove_tx p id).
Proof. intro W. split; [apply ws_remove_tx; auto|apply cut_remove_tx; apply W]. Qed.

Lemma wc_fold_tx (f : pool -> tx -> pool) :
  (forall p t, WS p -> WC p (f p t)) -> forall l p, WS p -> WC p (fold_left f l p).
Proof.
  intros H l. induction l as [|t r IH]; intros p W; cbn; [apply wc_refl; auto|].
  eapply wc_trans; [apply H; auto|]. apply IH. apply H. auto.
Qed.
Lemma wc_fold (f : pool -> N -> pool) :
  (forall p a, WS p -> WC p (f p a)) -> forall l p, WS p -> WC p (fold_left f l p).
Proof.
  intros H l. induction l as [|t r IH]; intros p W; cbn; [apply wc_refl; auto|].
  eapply wc_trans; [apply H; auto|]. apply IH. apply H. auto.
Qed.

Lemma wc_remove_txs p l : WS p -> WC p (remove_txs p l).
Proof. unfold remove_txs. apply wc_fold_tx. intros. apply wc_remove_tx. auto. Qed.

(* pools that differ only in fields a cut does not look at *)
Lemma wc_same p p' :
  WS p -> pending p' = pending p -> queue p' = queue p -> all p' = all p ->
  cur_state p' = cur_state p -> max_gas p' = max_gas p -> pnonces p' = pnonces p -> WC p p'.
Proof.
  intros W E1 E2 E3 E4 E5 E6. split; [apply (ws_ext p); auto|].
  apply cut_same; auto. split; auto. rewrite E3. auto.
Qed.

(* ---- shave ---------------------------------------------------------------- *)
Lemma shave_fold_facts a caps : forall q,
  let F := fold_left (fun p t => set_pnonces (all_remove p (t_id t)) (nc_set_if_lower (pnonces p) a (t_nonce t))) caps q in
  pending F = pending q /\ cur_state F = cur_state q /\ max_gas F = max_gas q /\
  (forall x, In x (all F) -> In x (all q)) /\
  (forall b, nc F b = if N.eqb a b then minB (nc q a) (min_nonce caps) else nc q b).
Proof.
  induction caps as [|t r IH]; intro q; cbn [fold_left min_nonce].
  - repeat split; auto. intro b. cbn. destruct (N.eqb a b) eqn:E; auto. apply N.eqb_eq in E. subst. auto.
  - destruct (IH (set_pnonces (all_remove q (t_id t)) (nc_set_if_lower (pnonces q) a (t_nonce t)))) as (H1 & H2 & H3 & H4 & H5).
    cbn zeta in *. rewrite H1, H2, H3. repeat split; auto.
    + intros x Hx. apply H4 in Hx. cbn in Hx. apply filter_In in Hx. tauto.
    + intro b. rewrite H5. unfold nc. cbn [pnonces set_pnonces all_remove set_all].
      rewrite !nc_get_set_if_lower. rewrite N.eqb_refl.
      destruct (N.eqb a b); auto. destruct (min_nonce r); cbn; lia.
Qed.

Lemma wc_shave p a : WS p -> WC p (shave p a).
Proof.
  intro W. split; [apply ws_shave; auto|]. unfold shave.
  destruct (aget (pending p) a) as [l|] eqn:G; [|apply cut_same; auto; split; auto].
  destruct (l_empty l); [apply cut_same; auto; split; auto|].
  pose proof (uniq_of_ws_p _ _ _ W G) as Ul.
  destruct (l_cap l (N.to_nat (l_len l) - 1)) as [caps l'] eqn:C.
  pose proof (l_cap_spec _ _ _ _ Ul C) as (_ & M & D & _).
  pose proof (l_cap_order _ _ _ _ Ul C) as O.
  destruct (shave_fold_facts a caps (set_pending p (aset (pending p) a l'))) as (F1 & F2 & F3 & F4 & F5).
  cbn zeta in *. split; [split; auto|]. split; [intros x Hx; left; apply F4 in Hx; auto|].
  intro b. unfold pn. rewrite F1. cbn [pending set_pending]. rewrite F5.
  pose proof (min_nonce_spec caps) as MS.
  eqb_cases a b.
  - exists (min_nonce caps). rewrite lst_aset, N.eqb_refl, (lst_some _ _ _ G). split; [|split].
    + intro m. split.
      * intros (x & Hx & En). split; [exists x; split; auto; apply M; auto|].
        destruct (min_nonce caps) as [n|]; cbn; auto. destruct MS as [(y & Hy & Ey) _].
        specialize (O x y Hx Hy). lia.
      * intros [(x & Hx & En) Hb]. exists x. split; auto. apply M in Hx as [Hx|Hx]; auto.
        exfalso. destruct (min_nonce caps) as [n|]; [|subst; destruct Hx].
        destruct MS as [_ Hmin]. specialize (Hmin _ Hx). cbn in Hb. lia.
    + unfold nc. cbn [pnonces set_pending]. auto.
    + intros x Hx. left. apply M. auto.
  - exists None. cbn [below minB]. rewrite lst_aset. apply N.eqb_neq in E. rewrite E.
    repeat split; auto; tauto.
Qed.

Lemma wc_shave_all l : forall p cnt,
  WS p -> WC p (fst (fold_left (fun pc a => (shave (fst pc) a, snd pc - 1)) l (p, cnt))).
Proof.
  induction l as [|a r IH]; intros p cnt W; cbn; [apply wc_refl; auto|].
  eapply wc_trans; [apply wc_shave; auto|]. apply IH. apply ws_shave. auto.
Qed.

Lemma wc_equalize fuel : forall p cnt prevs lp th, WS p -> WC p (fst (equalize fuel p cnt prevs lp th)).
Proof.
  induction fuel as [|f IH]; intros p cnt prevs lp th W; cbn; [apply wc_refl; auto|].
  destruct (_ && _); cbn; [|apply wc_refl; auto].
  rewrite fold_shave_pair. eapply wc_trans; [apply wc_shave_all; auto|]. apply IH. apply ws_shave_all. auto.
Qed.
Lemma wc_trunc_loop1 fuel spammers : forall p cnt offenders,
  WS p -> WC p (fst (fst (trunc_loop1 fuel p cnt spammers offenders))).
Proof.
  induction spammers as [|o rest IH]; intros p cnt offenders W; cbn; [apply wc_refl; auto|].
  destruct (N.ltb _ cnt); cbn; [|apply wc_refl; auto].
  destruct offenders as [|o1 os].
  - apply IH. auto.
  - destruct (equalize fuel p cnt (o1 :: os) (last (o1 :: os) 0) (pend_len p o)) as [p' cnt'] eqn:E.
    pose proof (wc_equalize fuel p cnt (o1 :: os) (last (o1 :: os) 0) (pend_len p o) W) as H.
    rewrite E in H. cbn in H. eapply wc_trans; [apply H|]. apply IH. apply H.
Qed.
Lemma wc_trunc_loop2 fuel : forall p cnt offenders, WS p -> WC p (fst (trunc_loop2 fuel p cnt offenders)).
Proof.
  induction fuel as [|f IH]; intros p cnt offenders W; cbn; [apply wc_refl; auto|].
  destruct (_ && _); cbn; [|apply wc_refl; auto].
  rewrite fold_shave_pair. eapply wc_trans; [apply wc_shave_all; auto|]. apply IH. apply ws_shave_all. auto.
Qed.
Lemma wc_truncate_pending p ord : WS p -> WC p (truncate_pending p ord).
Proof.
  intro W. unfold truncate_pending. destruct (N.leb _ _); [apply wc_refl; auto|].
  match goal with |- context [trunc_loop1 ?f ?p0 ?c ?s ?o] =>
    pose proof (wc_trunc_loop1 f s p0 c o W) as H; destruct (trunc_loop1 f p0 c s o) as [[p1 c1] off] end.
  cbn in H. destruct off; auto. eapply wc_trans; [apply H|]. apply wc_trunc_loop2. apply H.
Qed.

(* ---- truncateQueue, SetGasPrice, eviction --------------------------------- *)
Lemma wc_flatten_q p a l flat l' : WS p -> aget (queue p) a = Some l -> l_flatten l = (flat, l') -> WC p (put_q p a l').
Proof.
  intros W G F. split; [eapply ws_flatten_q; eauto|]. apply cut_same; auto. split; auto.
Qed.
Lemma wc_drop_last_n l : forall p drop, WS p -> WC p (fst (drop_last_n p l drop)).
Proof.
  induction l as [|t r IH]; intros p drop W; cbn; [apply wc_refl; auto|].
  destruct (N.ltb 0 drop); cbn; [|apply wc_refl; auto].
  eapply wc_trans; [apply wc_remove_tx; auto|]. apply IH. apply ws_remove_tx. auto.
Qed.
Lemma wc_trunc_queue_loop addrs : forall p drop, WS p -> WC p (trunc_queue_loop p addrs drop).
Proof.
  induction addrs as [|a rest IH]; intros p drop W; cbn; [apply wc_refl; auto|].
  destruct (N.ltb 0 drop); [|apply wc_refl; auto].
  destruct (aget (queue p) a) as [l|] eqn:G; [|apply wc_same; auto].
  destruct (l_flatten l) as [flat l'] eqn:F.
  pose proof (wc_flatten_q _ _ _ _ _ W G F) as W1.
  destruct (N.leb (l_len l) drop).
  - eapply wc_trans; [apply W1|]. eapply wc_trans; [apply wc_remove_txs; apply W1|].
    apply IH. apply ws_remove_txs. apply W1.
  - pose proof (wc_drop_last_n (rev flat) _ drop (proj1 W1)) as H.
    destruct (drop_last_n _ (rev flat) drop) as [p2 d2]. cbn in H.
    eapply wc_trans; [apply W1|]. eapply wc_trans; [apply H|]. apply IH. apply H.
Qed.
Lemma wc_truncate_queue p ord : WS p -> WC p (truncate_queue p ord).
Proof. intro W. unfold truncate_queue. destruct (N.leb _ _); [apply wc_refl; auto|]. apply wc_trunc_queue_loop. auto. Qed.

Lemma wc_set_price p price : WS p -> WC p (set_price p price).
Proof.
  intro W. unfold set_price.
  eapply wc_trans; [apply (wc_same p (set_gas_price p price)); auto|].
  apply wc_remove_txs. apply (ws_ext p); auto.
Qed.

Lemma wc_evict p expired : WS p -> WC p (evict p expired).
Proof.
  unfold evict. apply wc_fold. intros q a W. unfold evict_account.
  destruct (is_local q a); [apply wc_refl; auto|]. destruct (existsb _ expired); [|apply wc_refl; auto].
  destruct (aget (queue q) a) as [l|] eqn:G; [|apply wc_refl; auto].
  destruct (l_flatten l) as [flat l'] eqn:F.
  eapply wc_trans; [eapply wc_flatten_q; eauto|]. apply wc_remove_txs. eapply ws_flatten_q; eauto.
Qed.

(* ---- add ------------------------------------------------------------------- *)
Lemma validate_ok p t local : validate_tx p t local = E_ok -> okv p t.
Proof.
  unfold validate_tx, okv, sn, E_ok, E_oversized, E_gaslimit, E_sender, E_underpriced, E_nonce_low, E_funds, E_intrinsic.
  destruct (t_big t); [discriminate|].
  destruct (N.ltb (max_gas p) (t_gas t)) eqn:E1; [discriminate|].
  destruct (negb (t_sig t)); [discriminate|].
  destruct (negb (local || is_local p (t_from t)) && N.ltb (t_price t) (gas_price p)); [discriminate|].
  destruct (N.ltb (t_nonce t) (st_nonce (cur_state p) (t_from t))) eqn:E2; [discriminate|].
  destruct (N.ltb (st_balance (cur_state p) (t_from t)) (t_cost t)) eqn:E3; [discriminate|].
  intros _. lia.
Qed.

Lemma wc_add_tx p t local : WS p -> WC p (snd (add_tx p t local)).
Proof.
  intro W. split.
  { pose proof (wf_add_tx p t local (proj1 W) (proj2 W)) as H. destruct (add_tx p t local) as [[r e] p']. destruct H as (H1 & H2 & _). split; auto. }
  unfold add_tx.
  destruct (all_get p (t_id t)) eqn:G; [apply cut_refl|].
  destruct (N.eqb (validate_tx p t local) E_ok) eqn:V; cbn [negb]; [|apply cut_refl].
  apply N.eqb_eq, validate_ok in V.
  set (limit := global_slots (cfg p) + global_queue (cfg p)).
  set (full := N.leb limit (all_count p)).
  destruct (full && negb local && priced_underpriced p t); [apply cut_refl|].
  set (p1 := if full then remove_txs p (priced_discard p (all_count p - (limit - 1))) else p).
  assert (H1 : WC p p1) by (unfold p1; destruct full; [apply wc_remove_txs|apply wc_refl]; auto).
  destruct H1 as [W1 C1].
  assert (V1 : okv p1 t) by (apply (okv_env p); auto; apply C1).
  assert (K : forall p', cut p1 p' -> cut p p') by (intros; eapply cut_trans; eauto).
  destruct (match aget (pending p1) (t_from t) with
            | Some l => if l_overlaps l t then Some l else None
            | None => None end) as [l|] eqn:OV.
  - destruct (aget (pending p1) (t_from t)) as [l0|] eqn:GP; [|discriminate].
    destruct (l_overlaps l0 t) eqn:O; [|discriminate]. inversion OV; subst l0. clear OV.
    destruct (l_add l t (price_bump (cfg p1))) as [[ins old] l'] eqn:A.
    destruct ins; cbn [negb snd]; [|apply K, cut_refl].
    pose proof (l_add_spec _ _ _ _ _ _ A) as [_ A2]. destruct (A2 eq_refl) as (Eo & _ & I).
    unfold l_overlaps in O. destruct (sm_get (txs l) (t_nonce t)) as [o|] eqn:GO; [|discriminate].
    subst old. apply sm_get_some in GO as [O1 O2]. fold (litems l) in O1.
    apply K. split; [split; auto|]. split.
    + intros x Hx. apply all_add_in in Hx as [->|[Hx _]]; auto. apply all_remove_in in Hx as [Hx _]. auto.
    + intro a. exists None. cbn [below minB]. unfold pn, nc.
      cbn [pending pnonces all_add all_remove set_all set_pending]. rewrite lst_aset.
      eqb_cases (t_from t) a.
      * rewrite (lst_some _ _ _ GP). split; [|split; auto].
        -- intro m. split.
           ++ intros (x & Hx & En). split; auto. apply I in Hx as [->|[Hx _]]; [exists o|exists x]; split; auto; congruence.
           ++ intros [(x & Hx & En) _]. destruct (N.eq_dec (t_nonce x) (t_nonce t)) as [E|E].
              ** exists t. split; [apply I; auto|congruence].
              ** exists x. split; auto. apply I. auto.
        -- intros x Hx. apply I in Hx as [->|[Hx _]]; auto.
      * repeat split; auto; tauto.
  - assert (Np : forall x, In x (lst (pending p1) (t_from t)) -> t_nonce x <> t_nonce t).
    { unfold lst. destruct (aget (pending p1) (t_from t)) as [l0|] eqn:GP; [|intros x []].
      destruct (l_overlaps l0 t) eqn:O; [discriminate|]. unfold l_overlaps in O.
      destruct (sm_get (txs l0) (t_nonce t)) eqn:GO; [discriminate|]. intros x Hx. eapply sm_get_none; eauto. }
    assert (Sub1 : forall x, In x (all p1) -> In x (all p)).
    { unfold p1. destruct full; auto. apply wf_remove_txs; apply W. }
    assert (Fr1 : forall x, In x (all p1) -> t_id x <> t_id t) by (intros x Hx; eapply all_get_none; eauto).
    pose proof (wf_enqueue_new p1 t (proj1 W1) (proj2 W1) Fr1 Np) as H.
    pose proof (sr_enqueue p1 t) as SR.
    destruct (enqueue_tx p1 t) as [[replaced e] p2]. cbn [snd] in SR.
    destruct H as (_ & _ & P2 & _ & _ & A2). destruct SR as (_ & Ecs & Emg & Epn & _).
    assert (C2 : cut p1 p2).
    { split; [split; auto|]. split.
      - intros x Hx. destruct (A2 x Hx) as [->|]; auto.
      - intro a. exists None. unfold pn, nc. rewrite P2, Epn. cbn. repeat split; auto; tauto. }
    destruct (negb (N.eqb e E_ok)); cbn [snd]; [apply K; auto|].
    destruct (local && negb (is_local p2 (t_from t))); cbn [snd]; apply K; auto.
Qed.

Lemma wc_add_txs_locked l local : forall p, WS p -> WC p (snd (add_txs_locked p l local)).
Proof.
  induction l as [|t r IH]; intros p W; cbn [add_txs_locked]; [apply wc_refl; auto|].
  pose proof (wc_add_tx p t local W) as H1.
  destruct (add_tx p t local) as [[replaced e] p1]. cbn [snd] in H1.
  specialize (IH p1 (proj1 H1)). destruct (add_txs_locked p1 r local) as [[errs dirty] p2]. cbn [snd] in *.
  eapply wc_trans; eauto.
Qed.
