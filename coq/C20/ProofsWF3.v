(* C20 - WF is preserved by promoteExecutables, demoteUnexecutables, the
   truncations, reset, runReorg and every op (part 3). *)
From VF.C20 Require Import Model Lemmas ProofsWF ProofsWF2.
From Coq Require Import Arith Lia ZifyBool ZifyN ZifyNat Permutation.
Local Open Scope N_scope.

Definition WS (p : pool) : Prop := WF p /\ ST p.

Lemma ws_ext p p' : pending p' = pending p -> queue p' = queue p -> all p' = all p -> WS p -> WS p'.
Proof. intros E1 E2 E3 [W S]. split; [apply (wf_ext [] p); auto|apply (st_ext p); auto]. Qed.

(* shrink queue[a] to l' and drop what left it from the lookup *)
Lemma ws_q_drop p a l l' rm :
  WS p -> aget (queue p) a = Some l ->
  (forall x, In x (litems l) <-> In x (litems l') \/ In x rm) ->
  (forall x, In x (litems l') -> ~ In x rm) ->
  uniq rm -> uniq (litems l') -> strict l' = strict l ->
  WS (all_remove_list (put_q p a l') rm) /\
  aget (queue (all_remove_list (put_q p a l') rm)) a = Some l' /\
  pending (all_remove_list (put_q p a l') rm) = pending p.
Proof.
  intros [W S] G M D Ur Ul Es.
  assert (W1 : WFx (rm ++ []) (put_q p a l')) by (eapply wf_shrink_q; eauto).
  apply wf_all_remove_list in W1.
  destruct (all_remove_list_fields rm (put_q p a l')) as (F1 & F2 & _).
  split; [split; auto|].
  - apply (st_ext (put_q p a l')); auto. apply st_put_q; auto. rewrite Es. eapply S; eauto.
  - rewrite F1, F2. cbn [queue pending put_q put_p set_queue set_pending]. rewrite aget_aset_eq. auto.
Qed.

Lemma ws_p_drop p a l l' rm :
  WS p -> aget (pending p) a = Some l ->
  (forall x, In x (litems l) <-> In x (litems l') \/ In x rm) ->
  (forall x, In x (litems l') -> ~ In x rm) ->
  uniq rm -> uniq (litems l') -> strict l' = strict l ->
  WS (all_remove_list (put_p p a l') rm) /\
  aget (pending (all_remove_list (put_p p a l') rm)) a = Some l' /\
  queue (all_remove_list (put_p p a l') rm) = queue p.
Proof.
  intros [W S] G M D Ur Ul Es.
  assert (W1 : WFx (rm ++ []) (put_p p a l')) by (eapply wf_shrink_p; eauto).
  apply wf_all_remove_list in W1.
  destruct (all_remove_list_fields rm (put_p p a l')) as (F1 & F2 & _).
  split; [split; auto|].
  - apply (st_ext (put_p p a l')); auto. apply st_put_p; auto. rewrite Es. eapply S; eauto.
  - rewrite F1, F2. cbn [queue pending put_q put_p set_queue set_pending]. rewrite aget_aset_eq. auto.
Qed.

(* promoteTx over a batch of floating transactions of account a *)
Lemma st_promote p a t : ST p -> ST (snd (promote_tx p a t)).
Proof.
  intro S. unfold promote_tx. fold (plist p a).
  destruct (l_add (plist p a) t (price_bump (cfg p))) as [[ins old] l'] eqn:A.
  assert (Sl : strict l' = true).
  { assert (strict (plist p a) = true).
    { unfold plist. destruct (aget (pending p) a) eqn:G; auto. eapply S; eauto. }
    pose proof (l_add_spec _ _ _ _ _ _ A) as [A0 A1]. destruct ins.
    - destruct (A1 eq_refl) as (_ & Es & _). congruence.
    - destruct (A0 eq_refl) as [-> _]. auto. }
  assert (S1 : ST (set_pending p (aset (pending p) a l'))) by (apply (st_put_p p); auto).
  destruct ins; cbn [negb snd].
  - destruct old; destruct (all_get _ _); cbn; auto.
  - cbn. auto.
Qed.

Lemma wf_promote_all a l : forall fl p,
  WFx (l ++ fl) p -> ST p -> (forall t, In t l -> t_from t = a) ->
  let p' := fold_left (fun p t => snd (promote_tx p a t)) l p in
  WFx fl p' /\ ST p' /\ queue p' = queue p /\ locals p' = locals p /\ cfg p' = cfg p.
Proof.
  induction l as [|t r IH]; intros fl p W S F; cbn [fold_left app].
  - split; [exact W|]. split; [exact S|]. auto.
  - cbn in W. destruct (wf_promote_floating _ _ _ W) as (p1 & E & W1 & Q1 & _ & _ & C1 & _ & _ & L1 & _).
    assert (Ea : a = t_from t) by (symmetry; apply F; left; auto). subst a.
    rewrite E. cbn [snd].
    assert (S1 : ST p1) by (pose proof (st_promote p (t_from t) t S) as H; rewrite E in H; auto).
    destruct (IH fl p1 W1 S1) as (W2 & S2 & Q2 & L2 & C2).
    { intros x Hx. apply F. right. auto. }
    split; [exact W2|]. split; [exact S2|]. repeat split; congruence.
Qed.

Lemma ws_promote_account p a : WS p -> WS (promote_account p a).
Proof.
  intros WSp. unfold promote_account.
  destruct (aget (queue p) a) as [l|] eqn:G; auto.
  assert (Sl : strict l = false) by (eapply (proj2 WSp); eauto).
  assert (Ul : uniq (litems l)).
  { destruct WSp as [W _]. pose proof (w_uq _ _ W a) as U. rewrite (lst_some _ _ _ G) in U. auto. }
  (* forward *)
  destruct (l_forward l (st_nonce (cur_state p) a)) as [fw l1] eqn:F.
  pose proof (l_forward_spec _ _ _ _ F) as (Es1 & Fr & Fk).
  destruct (l_forward_uniq _ _ _ _ Ul F) as [Ufw Ul1].
  destruct (ws_q_drop p a l l1 fw WSp G) as (WS1 & G1 & P1); auto.
  { intro x. rewrite Fr, Fk. split; [intro; destruct (N.ltb (t_nonce x) (st_nonce (cur_state p) a)) eqn:E; [right|left]; split; auto; lia|tauto]. }
  { intros x H1 H2. apply Fk in H1. apply Fr in H2. lia. }
  set (p1 := all_remove_list (put_q p a l1) fw) in *.
  (* filter *)
  destruct (l_filter l1 (st_balance (cur_state p1) a) (max_gas p1)) as [[drops inv] l2] eqn:Fi.
  pose proof (l_filter_spec _ _ _ _ _ _ Fi) as (Es2 & _ & _ & Fm & Fd & _ & Fn & _).
  destruct (l_filter_uniq _ _ _ _ _ _ Ul1 Fi) as (Ud & _ & Ul2).
  assert (inv = []) by (apply Fn; congruence). subst inv.
  destruct (ws_q_drop p1 a l1 l2 drops WS1 G1) as (WS2 & G2 & P2); auto.
  { intro x. rewrite Fm. cbn [In]. tauto. }
  { intros x H1. apply Fd in H1. tauto. }
  set (p2 := all_remove_list (put_q p1 a l2) drops) in *.
  (* ready + promote *)
  destruct (l_ready l2 (nc_get (pnonces p2) a)) as [readies l3] eqn:R.
  pose proof (l_ready_spec _ _ _ _ Ul2 R) as (Es3 & Rm & Rd & _).
  destruct (l_ready_uniq _ _ _ _ Ul2 R) as [Ur Ul3].
  assert (W3 : WFx (readies ++ []) (put_q p2 a l3)).
  { eapply wf_shrink_q; eauto. apply WS2. }
  assert (S3 : ST (put_q p2 a l3)) by (apply st_put_q; [apply WS2|congruence]).
  assert (Fa : forall t, In t readies -> t_from t = a).
  { intros t Ht. destruct WS2 as [W2 _]. eapply (w_qfrom _ _ W2). rewrite (lst_some _ _ _ G2). apply Rm. auto. }
  destruct (wf_promote_all a readies [] _ W3 S3 Fa) as (W4 & S4 & Q4 & L4 & C4).
  set (p4 := fold_left (fun p t => snd (promote_tx p a t)) readies (put_q p2 a l3)) in *.
  assert (G4 : aget (queue p4) a = Some l3) by (rewrite Q4; cbn; apply aget_aset_eq).
  (* cap *)
  destruct (if negb (is_local p4 a) then l_cap l3 (N.to_nat (account_queue (cfg p4))) else ([], l3)) as [caps l5] eqn:C.
  assert (H5 : strict l5 = strict l3 /\ (forall x, In x (litems l3) <-> In x (litems l5) \/ In x caps) /\
               (forall x, In x (litems l5) -> ~ In x caps) /\ uniq caps /\ uniq (litems l5)).
  { destruct (negb (is_local p4 a)).
    - pose proof (l_cap_spec _ _ _ _ Ul3 C) as (E5 & M5 & D5 & _).
      destruct (l_cap_uniq _ _ _ _ Ul3 C). auto.
    - invp C. repeat split; auto; cbn [In]; try tauto. constructor. }
  destruct H5 as (Es5 & M5 & D5 & Uc & Ul5).
  destruct (ws_q_drop p4 a l3 l5 caps (conj W4 S4) G4) as (WS5 & G5 & P5); auto.
  set (p5 := all_remove_list (put_q p4 a l5) caps) in *.
  destruct (l_empty l5) eqn:Em; auto.
  apply l_empty_items in Em. destruct WS5 as [W5 S5]. split.
  - apply wf_del_q; auto. rewrite (lst_some _ _ _ G5). auto.
  - apply st_del_q. auto.
Qed.

Lemma ws_promote_executables l : forall p, WS p -> WS (promote_executables p l).
Proof.
  unfold promote_executables. induction l; intros p W; cbn; auto. apply IHl. apply ws_promote_account. auto.
Qed.

(* ---- demoteUnexecutables --------------------------------------------------- *)
Lemma uniq_app_sub (L l1 l2 : list tx) :
  uniq L -> (forall x, In x l1 -> In x L) -> (forall x, In x l2 -> In x L) ->
  uniq l1 -> uniq l2 -> (forall x, In x l1 -> ~ In x l2) -> uniq (l1 ++ l2).
Proof.
  intros UL S1 S2 U1 U2 D. unfold uniq, nonces. rewrite map_app. apply NoDup_app_iff.
  split; auto. split; auto. intros n H1 H2.
  apply in_map_iff in H1 as (x & <- & Hx). apply in_map_iff in H2 as (y & E & Hy).
  assert (x = y) by (eapply (uniq_inj L); eauto). subst. eapply D; eauto.
Qed.

(* pending[a] shrinks to l'; [drops] leave the pool, [back] go back to the queue *)
Lemma ws_p_requeue p a l l' drops back :
  WS p -> aget (pending p) a = Some l ->
  (forall x, In x (litems l) <-> In x (litems l') \/ In x drops \/ In x back) ->
  (forall x, In x (litems l') -> ~ In x drops /\ ~ In x back) ->
  (forall x, In x drops -> ~ In x back) ->
  uniq drops -> uniq back -> uniq (litems l') -> strict l' = strict l ->
  let p' := enqueue_all (all_remove_list (put_p p a l') drops) back in
  WS p' /\ aget (pending p') a = Some l' /\
  (forall b x, In x (lst (queue p') b) <-> (In x back /\ b = t_from x) \/ In x (lst (queue p) b)).
Proof.
  intros [W S] G M D D2 Ud Ub Ul Es.
  assert (Ul0 : uniq (litems l)) by (pose proof (w_up _ _ W a) as U; rewrite (lst_some _ _ _ G) in U; auto).
  assert (W1 : WFx ((drops ++ back) ++ []) (put_p p a l')).
  { eapply wf_shrink_p; eauto.
    - intro x. rewrite M, in_app_iff. tauto.
    - intros x Hx Hi. apply in_app_or in Hi. apply D in Hx. tauto.
    - apply (uniq_app_sub (litems l)); auto; intros x Hx; apply M; auto. }
  rewrite <- app_assoc in W1. apply wf_all_remove_list in W1.
  destruct (all_remove_list_fields drops (put_p p a l')) as (F1 & F2 & _).
  assert (S1 : ST (all_remove_list (put_p p a l') drops)).
  { apply (st_ext (put_p p a l')); auto. apply st_put_p; auto. rewrite Es. eapply S; eauto. }
  destruct (wf_enqueue_all _ _ _ W1) as (W2 & P2 & _ & Q2).
  cbn zeta. split; [split; auto; apply st_enqueue_all; auto|]. split.
  - rewrite P2, F1. cbn [pending put_p set_pending]. apply aget_aset_eq.
  - intros b x. rewrite Q2, F2. cbn [queue put_p set_pending]. tauto.
Qed.

Lemma all_remove_list_nil p : all_remove_list p [] = p.
Proof. reflexivity. Qed.

Lemma ws_demote_account p a : WS p -> WS (demote_account p a).
Proof.
  intros WSp. unfold demote_account.
  destruct (aget (pending p) a) as [l|] eqn:G; auto.
  assert (Ul : uniq (litems l)).
  { destruct WSp as [W _]. pose proof (w_up _ _ W a) as U. rewrite (lst_some _ _ _ G) in U. auto. }
  (* forward *)
  destruct (l_forward l (st_nonce (cur_state p) a)) as [olds l1] eqn:F.
  pose proof (l_forward_spec _ _ _ _ F) as (Es1 & Fr & Fk).
  destruct (l_forward_uniq _ _ _ _ Ul F) as [Uo Ul1].
  destruct (ws_p_drop p a l l1 olds WSp G) as (WS1 & G1 & Q1); auto.
  { intro x. rewrite Fr, Fk. split; [intro; destruct (N.ltb (t_nonce x) (st_nonce (cur_state p) a)) eqn:E; [right|left]; split; auto; lia|tauto]. }
  { intros x H1 H2. apply Fk in H1. apply Fr in H2. lia. }
  set (p1 := all_remove_list (put_p p a l1) olds) in *.
  (* filter *)
  destruct (l_filter l1 (st_balance (cur_state p1) a) (max_gas p1)) as [[drops inv] l2] eqn:Fi.
  pose proof (l_filter_spec _ _ _ _ _ _ Fi) as (Es2 & _ & _ & Fm & Fd & Fdi & _).
  destruct (l_filter_uniq _ _ _ _ _ _ Ul1 Fi) as (Ud & Ui & Ul2).
  destruct (ws_p_requeue p1 a l1 l2 drops inv WS1 G1) as (WS2 & G2 & _); auto.
  set (p2 := enqueue_all (all_remove_list (put_p p1 a l2) drops) inv) in *.
  (* gap in front *)
  destruct (if negb (l_empty l2) && match sm_get (txs l2) (st_nonce (cur_state p) a) with None => true | Some _ => false end
            then l_cap l2 0 else ([], l2)) as [gapped l3] eqn:C.
  assert (H3 : strict l3 = strict l2 /\ (forall x, In x (litems l2) <-> In x (litems l3) \/ In x gapped) /\
               (forall x, In x (litems l3) -> ~ In x gapped) /\ uniq gapped /\ uniq (litems l3)).
  { destruct (negb (l_empty l2) && _).
    - pose proof (l_cap_spec _ _ _ _ Ul2 C) as (E3 & M3 & D3 & _).
      destruct (l_cap_uniq _ _ _ _ Ul2 C). auto.
    - invp C. repeat split; auto; cbn [In]; try tauto. constructor. }
  destruct H3 as (Es3 & M3 & D3 & Ug & Ul3).
  destruct (ws_p_requeue p2 a l2 l3 [] gapped WS2 G2) as (WS3 & G3 & _); auto;
    try solve [constructor | intro x; rewrite M3; cbn [In]; tauto | intros x Hx; split; auto].
  rewrite all_remove_list_nil in WS3, G3.
  set (p3 := enqueue_all (put_p p2 a l3) gapped) in *.
  (* repair / ghost flag: gap further up *)
  match goal with |- WS (match ?X with pair _ _ => _ end) =>
    destruct X as [[gapped2 l4] seen] eqn:C2 end.
  assert (H4 : strict l4 = strict l3 /\ (forall x, In x (litems l3) <-> In x (litems l4) \/ In x gapped2) /\
               (forall x, In x (litems l4) -> ~ In x gapped2) /\ uniq gapped2 /\ uniq (litems l4)).
  { destruct (negb (l_empty l3)); [destruct (gapfix (cfg p3))|].
    - cbn zeta in C2. destruct (sm_filter (txs l3) _) as [inv0 m] eqn:SF. invp C2.
      pose proof (sm_filter_spec _ _ _ _ SF) as [S1 S2]. destruct (sm_filter_uniq _ _ _ _ Ul3 SF) as [U1 U2].
      unfold litems. cbn [txs strict]. repeat split; auto.
      + intro Hx.
        destruct (N.ltb (st_nonce (cur_state p) a + N.of_nat (length (run_from (length (items (txs l3))) (items (txs l3)) (st_nonce (cur_state p) a)))) (t_nonce x)) eqn:E.
        * right. apply S1. auto.
        * left. apply S2. auto.
      + intros [Hx|Hx]; [apply S2 in Hx|apply S1 in Hx]; tauto.
      + intros x Hk Hd. apply S2 in Hk as [_ Hk]. apply S1 in Hd as [_ Hd]. congruence.
    - cbn zeta in C2. invp C2. repeat split; auto; cbn [In]; try tauto. constructor.
    - invp C2. repeat split; auto; cbn [In]; try tauto. constructor. }
  destruct H4 as (Es4 & M4 & D4 & Ug2 & Ul4).
  assert (WS3' : WS (if seen then set_gap_seen p3 else p3)) by (destruct seen; auto; apply (ws_ext p3); auto).
  assert (G3' : aget (pending (if seen then set_gap_seen p3 else p3)) a = Some l3) by (destruct seen; auto).
  destruct (ws_p_requeue _ a l3 l4 [] gapped2 WS3' G3') as (WS4 & G4 & _); auto;
    try solve [constructor | intro x; rewrite M4; cbn [In]; tauto | intros x Hx; split; auto].
  rewrite all_remove_list_nil in WS4, G4.
  match goal with |- WS (if _ then _ else ?X) => set (p4 := X) in * end.
  destruct (l_empty l4) eqn:Em; auto.
  apply l_empty_items in Em. destruct WS4 as [W4 S4]. split.
  - apply (wf_ext [] (set_pending p4 (adel (pending p4) a))); auto.
    apply wf_del_p; auto. rewrite (lst_some _ _ _ G4). auto.
  - apply (st_ext (set_pending p4 (adel (pending p4) a))); auto. apply st_del_p. auto.
Qed.

Lemma ws_fold (f : pool -> N -> pool) :
  (forall p a, WS p -> WS (f p a)) -> forall l p, WS p -> WS (fold_left f l p).
Proof. intros H l. induction l; intros p W; cbn; auto. Qed.

Lemma ws_demote_unexecutables p ord : WS p -> WS (demote_unexecutables p ord).
Proof. unfold demote_unexecutables. apply ws_fold. intros. apply ws_demote_account; auto. Qed.

(* ---- truncatePending ------------------------------------------------------- *)
Lemma wf_shave_fold a caps : forall fl p,
  WFx (caps ++ fl) p -> ST p ->
  let p' := fold_left (fun p t => set_pnonces (all_remove p (t_id t)) (nc_set_if_lower (pnonces p) a (t_nonce t))) caps p in
  WFx fl p' /\ ST p'.
Proof.
  induction caps as [|t r IH]; intros fl p W S; cbn [fold_left app]; auto.
  cbn in W. apply IH.
  - apply (wf_ext _ (all_remove p (t_id t))); auto. apply wf_all_remove. auto.
  - apply (st_ext p); auto.
Qed.

Lemma ws_shave p a : WS p -> WS (shave p a).
Proof.
  intros [W S]. unfold shave. destruct (aget (pending p) a) as [l|] eqn:G.
  2:{ apply (ws_ext p); auto. split; auto. }
  destruct (l_empty l).
  { apply (ws_ext p); auto. split; auto. }
  assert (Ul : uniq (litems l)) by (pose proof (w_up _ _ W a) as U; rewrite (lst_some _ _ _ G) in U; auto).
  destruct (l_cap l (N.to_nat (l_len l) - 1)) as [caps l'] eqn:C.
  pose proof (l_cap_spec _ _ _ _ Ul C) as (Es & M & D & _). destruct (l_cap_uniq _ _ _ _ Ul C) as [Uc Ul'].
  assert (W1 : WFx (caps ++ []) (put_p p a l')) by (eapply wf_shrink_p; eauto).
  assert (S1 : ST (put_p p a l')) by (apply st_put_p; auto; rewrite Es; eapply S; eauto).
  destruct (wf_shave_fold a caps [] _ W1 S1). split; auto.
Qed.

Lemma ws_shave_all l : forall p cnt,
  WS p -> WS (fst (fold_left (fun pc a => (shave (fst pc) a, snd pc - 1)) l (p, cnt))).
Proof. induction l; intros p cnt W; cbn; auto. apply IHl. apply ws_shave. auto. Qed.

Lemma fold_shave_pair l : forall p cnt,
  fold_left (fun pc a => (shave (fst pc) a, snd pc - 1)) l (p, cnt) =
  (fst (fold_left (fun pc a => (shave (fst pc) a, snd pc - 1)) l (p, cnt)),
   snd (fold_left (fun pc a => (shave (fst pc) a, snd pc - 1)) l (p, cnt))).
Proof. intros. apply surjective_pairing. Qed.

Lemma ws_equalize fuel : forall p cnt prevs lp th, WS p -> WS (fst (equalize fuel p cnt prevs lp th)).
Proof.
  induction fuel as [|f IH]; intros p cnt prevs lp th W; cbn; auto.
  destruct (_ && _); cbn; auto.
  rewrite fold_shave_pair. apply IH. apply ws_shave_all. auto.
Qed.

Lemma ws_trunc_loop1 fuel spammers : forall p cnt offenders,
  WS p -> WS (fst (fst (trunc_loop1 fuel p cnt spammers offenders))).
Proof.
  induction spammers as [|o rest IH]; intros p cnt offenders W; cbn; auto.
  destruct (N.ltb _ cnt); cbn; auto.
  destruct offenders as [|o1 os].
  - apply IH. auto.
  - destruct (equalize fuel p cnt (o1 :: os) (last (o1 :: os) 0) (pend_len p o)) as [p' cnt'] eqn:E.
    apply IH. pose proof (ws_equalize fuel p cnt (o1 :: os) (last (o1 :: os) 0) (pend_len p o) W) as H.
    rewrite E in H. auto.
Qed.

Lemma ws_trunc_loop2 fuel : forall p cnt offenders, WS p -> WS (fst (trunc_loop2 fuel p cnt offenders)).
Proof.
  induction fuel as [|f IH]; intros p cnt offenders W; cbn; auto.
  destruct (_ && _); cbn; auto.
  rewrite fold_shave_pair. apply IH. apply ws_shave_all. auto.
Qed.

Lemma ws_truncate_pending p ord : WS p -> WS (truncate_pending p ord).
Proof.
  intro W. unfold truncate_pending. destruct (N.leb _ _); auto.
  match goal with |- context [trunc_loop1 ?f ?p0 ?c ?s ?o] =>
    pose proof (ws_trunc_loop1 f s p0 c o W) as H; destruct (trunc_loop1 f p0 c s o) as [[p1 c1] off] end.
  cbn in H. destruct off; auto. apply ws_trunc_loop2. auto.
Qed.

(* ---- truncateQueue --------------------------------------------------------- *)
Lemma ws_flatten_q p a l flat l' : WS p -> aget (queue p) a = Some l -> l_flatten l = (flat, l') -> WS (put_q p a l').
Proof.
  intros [W S] G F. destruct (l_flatten_items _ _ _ F) as (I & Es & _). split.
  - apply (wf_ext' [] p); auto. intro b. cbn [queue put_q set_queue]. rewrite lst_aset.
    eqb_cases a b; auto. rewrite (lst_some _ _ _ G). auto.
  - apply st_put_q; auto. rewrite Es. eapply S; eauto.
Qed.
Lemma ws_flatten_p p a l flat l' : WS p -> aget (pending p) a = Some l -> l_flatten l = (flat, l') -> WS (put_p p a l').
Proof.
  intros [W S] G F. destruct (l_flatten_items _ _ _ F) as (I & Es & _). split.
  - apply (wf_ext' [] p); auto. intro b. cbn [pending put_p set_pending]. rewrite lst_aset.
    eqb_cases a b; auto. rewrite (lst_some _ _ _ G). auto.
  - apply st_put_p; auto. rewrite Es. eapply S; eauto.
Qed.

Lemma ws_remove_tx p id : WS p -> WS (remove_tx p id).
Proof. intros [W S]. destruct (wf_remove_tx p id W S) as (? & ? & _). split; auto. Qed.
Lemma ws_remove_txs p l : WS p -> WS (remove_txs p l).
Proof. intros [W S]. destruct (wf_remove_txs l p W S) as (? & ? & _). split; auto. Qed.

Lemma ws_drop_last_n l : forall p drop, WS p -> WS (fst (drop_last_n p l drop)).
Proof.
  induction l as [|t r IH]; intros p drop W; cbn; auto.
  destruct (N.ltb 0 drop); cbn; auto. apply IH. apply ws_remove_tx. auto.
Qed.

Lemma ws_trunc_queue_loop addrs : forall p drop, WS p -> WS (trunc_queue_loop p addrs drop).
Proof.
  induction addrs as [|a rest IH]; intros p drop W; cbn; auto.
  destruct (N.ltb 0 drop); auto.
  destruct (aget (queue p) a) as [l|] eqn:G.
  2:{ apply (ws_ext p); auto. }
  destruct (l_flatten l) as [flat l'] eqn:F.
  pose proof (ws_flatten_q _ _ _ _ _ W G F) as W1.
  destruct (N.leb (l_len l) drop).
  - apply IH. apply ws_remove_txs. auto.
  - pose proof (ws_drop_last_n (rev flat) _ drop W1) as H.
    destruct (drop_last_n _ (rev flat) drop) as [p2 d2]. apply IH. auto.
Qed.

Lemma ws_truncate_queue p ord : WS p -> WS (truncate_queue p ord).
Proof. intro W. unfold truncate_queue. destruct (N.leb _ _); auto. apply ws_trunc_queue_loop. auto. Qed.

(* ---- tail of runReorg, reset, runReorg ------------------------------------- *)
Lemma ws_fix_nonce p a : WS p -> WS (fix_nonce p a).
Proof.
  intro W. unfold fix_nonce. destruct (aget (pending p) a) as [l|] eqn:G; auto.
  destruct (l_flatten l) as [flat l'] eqn:F. pose proof (ws_flatten_p _ _ _ _ _ W G F) as W1.
  destruct (rev flat); apply (ws_ext (put_p p a l')); auto.
Qed.

Lemma ws_add_txs_locked p l local : WS p -> WS (snd (add_txs_locked p l local)).
Proof.
  intros [W S]. pose proof (wf_add_txs_locked l local p W S) as H.
  destruct (add_txs_locked p l local) as [[e d] p']. cbn. auto.
Qed.

Lemma ws_reset p old new : WS p -> WS (reset p old new).
Proof.
  intro W. unfold reset. destruct (reset_reinject (chain p) old new) as [re|]; auto.
  destruct (h_state new) as [s|]; auto.
  assert (W1 : WS (set_head_state p s (h_gaslimit new))) by (apply (ws_ext p); auto).
  pose proof (ws_add_txs_locked _ re false W1) as H.
  destruct (add_txs_locked _ re false) as [[e d] p']. auto.
Qed.

Lemma ws_run_reorg p rs dirty ord : WS p -> WS (run_reorg p rs dirty ord).
Proof.
  intro W. unfold run_reorg.
  destruct rs as [[old new]|].
  - apply ws_fold; [intros; apply ws_fix_nonce; auto|].
    apply ws_truncate_queue, ws_truncate_pending, ws_demote_unexecutables, ws_promote_executables, ws_reset. auto.
  - apply ws_fold; [intros; apply ws_fix_nonce; auto|].
    apply ws_truncate_queue, ws_truncate_pending, ws_promote_executables. auto.
Qed.

(* ---- the other ops --------------------------------------------------------- *)
Lemma ws_set_price p price : WS p -> WS (set_price p price).
Proof.
  intro W. unfold set_price. apply ws_remove_txs. apply (ws_ext p); auto.
Qed.

Lemma ws_evict p expired : WS p -> WS (evict p expired).
Proof.
  unfold evict. apply ws_fold. intros q a W. unfold evict_account.
  destruct (is_local q a); auto. destruct (existsb _ expired); auto.
  destruct (aget (queue q) a) as [l|] eqn:G; auto.
  destruct (l_flatten l) as [flat l'] eqn:F. apply ws_remove_txs. eapply ws_flatten_q; eauto.
Qed.

Lemma ws_pending_view_fold keys : forall out p,
  WS p ->
  WS (snd (fold_left (fun acc a =>
               let '(out, p) := acc in
               match aget (pending p) a with
               | None => (out, p)
               | Some l => let '(flat, l') := l_flatten l in
                           (out ++ [(a, flat)], set_pending p (aset (pending p) a l'))
               end) keys (out, p))).
Proof.
  induction keys as [|a r IH]; intros out p W; cbn [fold_left]; auto.
  destruct (aget (pending p) a) as [l|] eqn:G; auto.
  destruct (l_flatten l) as [flat l'] eqn:F. apply IH. eapply (ws_flatten_p p); eauto.
Qed.

Lemma ws_step p o : WS p -> WS (fst (step p o)).
Proof.
  intro W. destruct o; cbn [step].
  - cbn. apply (ws_ext p); auto.
  - pose proof (ws_add_txs_locked p l (eff_local p local) W) as H.
    destruct (add_txs_locked p l (eff_local p local)) as [[e d] p']. cbn [fst snd] in *. apply ws_run_reorg. auto.
  - pose proof (ws_add_txs_locked p l (eff_local p local) W) as H.
    destruct (add_txs_locked p l (eff_local p local)) as [[e d] p']. cbn [fst snd] in *. auto.
  - cbn [fst]. apply ws_run_reorg. auto.
  - cbn [fst]. apply ws_set_price. auto.
  - cbn [fst]. apply ws_evict. auto.
  - cbn [fst]. apply ws_remove_tx. auto.
  - unfold pending_view. pose proof (ws_pending_view_fold (akeys (pending p)) [] p W) as H.
    destruct (fold_left _ (akeys (pending p)) ([], p)) as [v p']. cbn [fst snd] in *. auto.
Qed.

Lemma ws_run ops : forall p, WS p -> WS (run p ops).
Proof. unfold run. induction ops; intros p W; cbn; auto. apply IHops. apply ws_step. auto. Qed.

Lemma ws_new_pool c g : WS (new_pool c g).
Proof.
  unfold new_pool. apply ws_reset. split.
  - constructor; cbn; try tauto; try constructor; intros; try constructor; tauto.
  - split; cbn; discriminate.
Qed.
