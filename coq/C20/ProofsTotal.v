(* C20 - totality and limits, part 1: the pending and queue maps have pairwise
   distinct keys and no empty pending list is kept (invariant KN). *)
From VF.C20 Require Import Model Lemmas ProofsWF ProofsWF2 ProofsWF3 ProofsCaps ProofsNonce ProofsNonce3 ProofsNonce5.
From Coq Require Import Arith Lia ZifyBool ZifyN ZifyNat Permutation Sorted.
Local Open Scope N_scope.

Section Keys.
  Context {V : Type}.
  Implicit Types (m : amap V).
  Lemma akeys_adel m k : akeys (adel m k) = filter (fun x => negb (N.eqb x k)) (akeys m).
  Proof. unfold akeys, adel. induction m as [|[k' v] r IH]; cbn; auto. destruct (N.eqb k' k); cbn; rewrite IH; auto. Qed.
  Lemma nodup_adel m k : NoDup (akeys m) -> NoDup (akeys (adel m k)).
  Proof. intro H. rewrite akeys_adel. apply NoDup_filter. auto. Qed.
  Lemma nodup_aset m k v : NoDup (akeys m) -> NoDup (akeys (aset m k v)).
  Proof.
    intro H. unfold aset. change (akeys ((k, v) :: adel m k)) with (k :: akeys (adel m k)).
    constructor; [|apply nodup_adel; auto].
    rewrite akeys_adel. intro Hin. apply filter_In in Hin as [_ Hin]. rewrite N.eqb_refl in Hin. discriminate.
  Qed.
  Lemma in_keys_aget m k : In k (akeys m) -> exists v, aget m k = Some v.
  Proof.
    induction m as [|[k' v] r IH]; cbn; [tauto|]. intros [->|H].
    - rewrite N.eqb_refl. eauto.
    - destruct (N.eqb k' k); eauto.
  Qed.
  Lemma in_keys_aset m k v x : In x (akeys (aset m k v)) <-> x = k \/ In x (akeys m).
  Proof.
    unfold aset. change (akeys ((k, v) :: adel m k)) with (k :: akeys (adel m k)). cbn [In].
    rewrite akeys_adel, filter_In. split.
    - intros [->|[H _]]; auto.
    - intros [->|H]; auto. destruct (N.eq_dec x k) as [->|Hn]; auto. right. split; auto.
      apply negb_true_iff, N.eqb_neq. auto.
  Qed.
  Lemma in_keys_adel m k x : In x (akeys (adel m k)) -> In x (akeys m).
  Proof. rewrite akeys_adel, filter_In. tauto. Qed.
End Keys.

Definition NEl (l : txlist) : Prop := litems l <> [].
Definition KN (p : pool) : Prop :=
  NoDup (akeys (pending p)) /\ NoDup (akeys (queue p)) /\
  (forall a l, aget (pending p) a = Some l -> NEl l).

Lemma kn_ext p p' : pending p' = pending p -> queue p' = queue p -> KN p -> KN p'.
Proof. intros E1 E2 (A & B & C). unfold KN. rewrite E1, E2. auto. Qed.
Lemma kn_put_q p a l : KN p -> KN (put_q p a l).
Proof. intros (A & B & C). split; [|split]; cbn [pending queue put_q set_queue]; auto. apply nodup_aset; auto. Qed.
Lemma kn_del_q p a : KN p -> KN (set_queue p (adel (queue p) a)).
Proof. intros (A & B & C). split; [|split]; cbn [pending queue set_queue]; auto. apply nodup_adel; auto. Qed.
Lemma kn_put_p p a l : KN p -> NEl l -> KN (put_p p a l).
Proof.
  intros (A & B & C) H. split; [|split]; cbn [pending queue put_p set_pending]; auto.
  - apply nodup_aset; auto.
  - intros b l0. rewrite aget_aset. eqb_cases a b; eauto. intro E. inversion E; subst; auto.
Qed.
Lemma kn_del_p p a : KN p -> KN (set_pending p (adel (pending p) a)).
Proof.
  intros (A & B & C). split; [|split]; cbn [pending queue set_pending]; auto.
  - apply nodup_adel; auto.
  - intros b l. rewrite aget_adel. eqb_cases a b; eauto. discriminate.
Qed.
(* an empty list may sit at [a] for a moment: everything but that entry is fine *)
Definition KNx (a : N) (p : pool) : Prop :=
  NoDup (akeys (pending p)) /\ NoDup (akeys (queue p)) /\
  (forall b l, b <> a -> aget (pending p) b = Some l -> NEl l).
Lemma knx_of_kn a p : KN p -> KNx a p.
Proof. intros (A & B & C). split; [|split]; eauto. Qed.
Lemma knx_put_p p a l : KNx a p -> KNx a (put_p p a l).
Proof.
  intros (A & B & C). split; [|split]; cbn [pending queue put_p set_pending]; auto.
  - apply nodup_aset; auto.
  - intros b l0 Hb. rewrite aget_aset. assert (E : N.eqb a b = false) by (apply N.eqb_neq; congruence). rewrite E. eauto.
Qed.
Lemma knx_ext a p p' : pending p' = pending p -> queue p' = queue p -> KNx a p -> KNx a p'.
Proof. intros E1 E2 (A & B & C). unfold KNx. rewrite E1, E2. auto. Qed.
Lemma kn_of_knx_del p a : KNx a p -> KN (set_pending p (adel (pending p) a)).
Proof.
  intros (A & B & C). split; [|split]; cbn [pending queue set_pending]; auto.
  - apply nodup_adel; auto.
  - intros b l. rewrite aget_adel. eqb_cases a b; [discriminate|]. intro H. eapply C; eauto.
Qed.
Lemma kn_of_knx p a l : KNx a p -> aget (pending p) a = Some l -> NEl l -> KN p.
Proof.
  intros (A & B & C) G H. split; [|split]; auto. intros b l0 G0. destruct (N.eq_dec b a) as [->|Hn]; eauto.
  rewrite G in G0. inversion G0; subst; auto.
Qed.

Lemma kn_all_remove_list rm p : KN p -> KN (all_remove_list p rm).
Proof. intro K. destruct (all_remove_list_fields rm p) as (E1 & E2 & _). eapply kn_ext; eauto. Qed.
Lemma knx_all_remove_list a rm p : KNx a p -> KNx a (all_remove_list p rm).
Proof. intro K. destruct (all_remove_list_fields rm p) as (E1 & E2 & _). eapply knx_ext; eauto. Qed.

Lemma enqueue_fields p t :
  pending (snd (enqueue_tx p t)) = pending p /\
  exists q, queue (snd (enqueue_tx p t)) = aset (queue p) (t_from t) q.
Proof.
  unfold enqueue_tx. destruct (l_add _ t _) as [[ins old] q']. destruct ins; cbn [negb snd].
  - destruct old; destruct (all_get _ _); cbn; eauto.
  - cbn. eauto.
Qed.
Lemma kn_enqueue p t : KN p -> KN (snd (enqueue_tx p t)).
Proof.
  intros (A & B & C). destruct (enqueue_fields p t) as (E1 & q & E2). unfold KN. rewrite E1, E2.
  split; [|split]; auto. apply nodup_aset; auto.
Qed.
Lemma knx_enqueue a p t : KNx a p -> KNx a (snd (enqueue_tx p t)).
Proof.
  intros (A & B & C). destruct (enqueue_fields p t) as (E1 & q & E2). unfold KNx. rewrite E1, E2.
  split; [|split]; auto. apply nodup_aset; auto.
Qed.
Lemma enqueue_all_pending_kn l : forall p, pending (enqueue_all p l) = pending p.
Proof.
  unfold enqueue_all. induction l as [|t r IH]; intro p; cbn; auto. rewrite IH. apply enqueue_fields.
Qed.
Lemma kn_enqueue_all l : forall p, KN p -> KN (enqueue_all p l).
Proof. unfold enqueue_all. induction l; intros p K; cbn; auto. apply IHl, kn_enqueue; auto. Qed.
Lemma knx_enqueue_all a l : forall p, KNx a p -> KNx a (enqueue_all p l).
Proof. unfold enqueue_all. induction l; intros p K; cbn; auto. apply IHl, knx_enqueue; auto. Qed.

Lemma l_add_nonempty l t bump ins old l' : l_add l t bump = (ins, old, l') -> ins = true \/ NEl l -> NEl l'.
Proof.
  intro A. pose proof (l_add_spec _ _ _ _ _ _ A) as [A0 A1]. destruct ins.
  - intros _. destruct (A1 eq_refl) as (_ & _ & I). intro E. assert (H : In t (litems l')) by (apply I; auto).
    rewrite E in H. destruct H.
  - intros [H|H]; [discriminate|]. destruct (A0 eq_refl) as [-> _]. auto.
Qed.
Lemma l_add_rejected_nonempty l t bump old l' : l_add l t bump = (false, old, l') -> NEl l.
Proof.
  unfold l_add. destruct (sm_get (txs l) (t_nonce t)) as [o|] eqn:G.
  - intros _ E. apply sm_get_some in G as [G _]. fold (litems l) in G. rewrite E in G. destruct G.
  - cbn. intro H. inversion H.
Qed.

Lemma kn_promote p a t : KN p -> KN (snd (promote_tx p a t)).
Proof.
  intro K. unfold promote_tx. fold (plist p a).
  destruct (l_add (plist p a) t (price_bump (cfg p))) as [[ins old] l'] eqn:A.
  assert (Nl : NEl l').
  { eapply l_add_nonempty; eauto. destruct ins; auto. right. eapply l_add_rejected_nonempty; eauto. }
  assert (K1 : KN (set_pending p (aset (pending p) a l'))) by (apply (kn_put_p p); auto).
  destruct ins; cbn [negb snd].
  - destruct old; destruct (all_get _ _); cbn; eapply kn_ext; try apply K1; auto.
  - cbn. eapply kn_ext; try apply K1; auto.
Qed.
Lemma kn_promote_all a l : forall p, KN p -> KN (fold_left (fun p t => snd (promote_tx p a t)) l p).
Proof. induction l; intros p K; cbn; auto. apply IHl, kn_promote; auto. Qed.

Lemma kn_remove_tx p id : KN p -> KN (remove_tx p id).
Proof.
  intro K. unfold remove_tx. destruct (all_get p id) as [t|]; auto.
  cbn [pending queue all_remove set_all].
  assert (K0 : KN (all_remove p id)) by (eapply kn_ext; eauto).
  assert (Kq : forall q, NoDup (akeys q) -> KN (set_queue (all_remove p id) q)).
  { intros q Hq. destruct K as (A & B & C). split; [|split]; cbn; auto. }
  destruct (aget (pending p) (t_from t)) as [pl|] eqn:GP.
  - destruct (l_remove pl t) as [[removed invalids] pl'] eqn:R. destruct removed.
    + match goal with |- KN (set_pnonces ?X _) => apply (kn_ext X); auto end.
      apply kn_enqueue_all. destruct (l_empty pl') eqn:Em.
      * apply (kn_ext (set_pending p (adel (pending p) (t_from t)))); auto. apply kn_del_p. auto.
      * apply (kn_ext (put_p p (t_from t) pl')); auto. apply kn_put_p; auto.
        intro E. apply l_empty_items in E. congruence.
    + destruct (aget (queue p) (t_from t)) as [ql|]; auto.
      destruct (l_remove ql t) as [[ok inv] ql'].
      destruct (l_empty ql'); apply Kq; [apply nodup_adel|apply nodup_aset]; apply K.
  - destruct (aget (queue p) (t_from t)) as [ql|]; auto.
    destruct (l_remove ql t) as [[ok inv] ql'].
    destruct (l_empty ql'); apply Kq; [apply nodup_adel|apply nodup_aset]; apply K.
Qed.
Lemma kn_remove_txs l : forall p, KN p -> KN (remove_txs p l).
Proof. unfold remove_txs. induction l; intros p K; cbn; auto. apply IHl, kn_remove_tx; auto. Qed.

Lemma kn_add_tx p t local : KN p -> KN (snd (add_tx p t local)).
Proof.
  intro K. unfold add_tx.
  destruct (all_get p (t_id t)); [auto|].
  destruct (negb _); [auto|].
  match goal with |- context [if ?c then (false, E_underpriced, p) else _] => destruct c end; [auto|].
  match goal with |- context [if ?c then remove_txs p ?l else p] => set (p1 := if c then remove_txs p l else p) end.
  assert (K1 : KN p1) by (unfold p1; match goal with |- KN (if ?c then _ else _) => destruct c end; auto; apply kn_remove_txs; auto).
  destruct (match aget (pending p1) (t_from t) with Some l => if l_overlaps l t then Some l else None | None => None end) as [l|].
  - destruct (l_add l t _) as [[ins old] l'] eqn:A. destruct ins; cbn [negb snd]; auto.
    apply (kn_ext (put_p p1 (t_from t) l')); [destruct old; reflexivity|destruct old; reflexivity|].
    apply kn_put_p; auto. eapply l_add_nonempty; eauto.
  - pose proof (kn_enqueue p1 t K1) as H. destruct (enqueue_tx p1 t) as [[replaced e] p2]. cbn [snd] in H.
    destruct (negb _); cbn [snd]; auto. destruct (local && _); cbn [snd]; auto.
Qed.
Lemma kn_add_txs_locked l local : forall p, KN p -> KN (snd (add_txs_locked p l local)).
Proof.
  induction l as [|t r IH]; intros p K; cbn [add_txs_locked]; auto.
  pose proof (kn_add_tx p t local K) as H. destruct (add_tx p t local) as [[rep e] p1]. cbn [snd] in H.
  specialize (IH p1 H). destruct (add_txs_locked p1 r local) as [[errs d] p2]. auto.
Qed.

Lemma kn_promote_account p a : KN p -> KN (promote_account p a).
Proof.
  intro K. unfold promote_account. destruct (aget (queue p) a) as [l|]; auto.
  destruct (l_forward l _) as [fw l1].
  set (p1 := all_remove_list (put_q p a l1) fw).
  assert (K1 : KN p1) by (apply kn_all_remove_list, kn_put_q; auto).
  destruct (l_filter l1 _ _) as [[drops inv] l2].
  set (p2 := all_remove_list (put_q p1 a l2) drops).
  assert (K2 : KN p2) by (apply kn_all_remove_list, kn_put_q; auto).
  destruct (l_ready l2 _) as [readies l3].
  set (p4 := fold_left (fun p t => snd (promote_tx p a t)) readies (put_q p2 a l3)).
  assert (K4 : KN p4) by (apply kn_promote_all, kn_put_q; auto).
  destruct (if negb (is_local p4 a) then l_cap l3 _ else ([], l3)) as [caps l5].
  set (p5 := all_remove_list (put_q p4 a l5) caps).
  assert (K5 : KN p5) by (apply kn_all_remove_list, kn_put_q; auto).
  destruct (l_empty l5); auto. apply kn_del_q. auto.
Qed.

Lemma kn_demote_account p a : KN p -> KN (demote_account p a).
Proof.
  intro K. unfold demote_account. destruct (aget (pending p) a) as [l|]; auto.
  destruct (l_forward l _) as [olds l1].
  set (p1 := all_remove_list (put_p p a l1) olds).
  assert (K1 : KNx a p1) by (apply knx_all_remove_list, knx_put_p, knx_of_kn; auto).
  destruct (l_filter l1 _ _) as [[drops inv] l2].
  set (p2 := enqueue_all (all_remove_list (put_p p1 a l2) drops) inv).
  assert (K2 : KNx a p2) by (apply knx_enqueue_all, knx_all_remove_list, knx_put_p; auto).
  destruct (if _ && _ then l_cap l2 0 else ([], l2)) as [gapped l3].
  set (p3 := enqueue_all (put_p p2 a l3) gapped).
  assert (K3 : KNx a p3) by (apply knx_enqueue_all, knx_put_p; auto).
  match goal with |- KN (match ?X with pair _ _ => _ end) => destruct X as [[gapped2 l4] seen] end.
  set (p3' := if seen then set_gap_seen p3 else p3).
  assert (K3' : KNx a p3') by (unfold p3'; destruct seen; auto; apply (knx_ext a p3); auto).
  set (p4 := enqueue_all (put_p p3' a l4) gapped2).
  assert (K4 : KNx a p4) by (apply knx_enqueue_all, knx_put_p; auto).
  assert (G4 : aget (pending p4) a = Some l4).
  { unfold p4. rewrite enqueue_all_pending_kn. cbn. apply aget_aset_eq. }
  destruct (l_empty l4) eqn:Em.
  - apply (kn_ext (set_pending p4 (adel (pending p4) a))); auto. apply kn_of_knx_del. auto.
  - eapply kn_of_knx; eauto. intro E. apply l_empty_items in E. congruence.
Qed.

(* ---- counting ---------------------------------------------------------------- *)
Definition msum (m : amap txlist) : N := fold_left (fun s kv => s + l_len (snd kv)) m 0.
Lemma fold_sum_shift (m : amap txlist) acc :
  fold_left (fun s kv => s + l_len (snd kv)) m acc = acc + msum m.
Proof.
  unfold msum. revert acc. induction m as [|kv r IH]; intro acc; cbn [fold_left]; [lia|].
  rewrite IH, (IH (0 + l_len (snd kv))). lia.
Qed.
Lemma msum_cons k l (m : amap txlist) : msum ((k, l) :: m) = l_len l + msum m.
Proof. unfold msum at 1. cbn. rewrite fold_sum_shift. lia. Qed.
Definition len_at (m : amap txlist) (k : N) : N := match aget m k with Some l => l_len l | None => 0 end.
Lemma adel_cons (k' : N) (l : txlist) r k :
  adel ((k', l) :: r) k = if N.eqb k' k then adel r k else (k', l) :: adel r k.
Proof. unfold adel. cbn [filter fst]. destruct (N.eqb k' k); auto. Qed.
Lemma len_at_cons (k' : N) (l : txlist) r k :
  len_at ((k', l) :: r) k = if N.eqb k' k then l_len l else len_at r k.
Proof. unfold len_at. cbn [aget]. destruct (N.eqb k' k); auto. Qed.
Lemma adel_notin (r : amap txlist) k : ~ In k (akeys r) -> adel r k = r.
Proof.
  induction r as [|[k0 l0] r IH]; intro H; auto. rewrite adel_cons.
  destruct (N.eqb k0 k) eqn:E; [exfalso; apply H; left; apply N.eqb_eq in E; auto|].
  f_equal. apply IH. intro. apply H. right. auto.
Qed.
Lemma len_at_notin (r : amap txlist) k : ~ In k (akeys r) -> len_at r k = 0.
Proof.
  unfold len_at. intro H. destruct (aget r k) eqn:G; auto. exfalso. apply H. eapply aget_in_keys; eauto.
Qed.
Lemma msum_adel m k : NoDup (akeys m) -> msum (adel m k) + len_at m k = msum m.
Proof.
  induction m as [|[k' l] r IH]; intro H; [reflexivity|].
  inversion H; subst. rewrite adel_cons, len_at_cons, msum_cons. destruct (N.eqb k' k) eqn:E.
  - apply N.eqb_eq in E. subst. rewrite (adel_notin r k H2). lia.
  - rewrite msum_cons. specialize (IH H3). lia.
Qed.
Lemma msum_aset m k l : NoDup (akeys m) -> msum (aset m k l) + len_at m k = msum m + l_len l.
Proof. intro H. unfold aset. rewrite msum_cons. pose proof (msum_adel m k H). lia. Qed.

Lemma pend_len_at p a : pend_len p a = len_at (pending p) a.
Proof. reflexivity. Qed.
Lemma pending_count_msum p : pending_count p = msum (pending p).
Proof. reflexivity. Qed.
Lemma queued_count_msum p : queued_count p = msum (queue p).
Proof. reflexivity. Qed.

(* ---- shave --------------------------------------------------------------------- *)
Definition SRel (p p' : pool) : Prop :=
  WS p' /\ KN p' /\ cfg p' = cfg p /\ locals p' = locals p /\ panicked p' = panicked p /\ queue p' = queue p /\
  (forall x, In x (akeys (pending p')) <-> In x (akeys (pending p))).
Lemma srel_refl p : WS p -> KN p -> SRel p p.
Proof. intros W K. split; [exact W|]. split; [exact K|]. repeat split; auto. Qed.
Lemma srel_trans p q r : SRel p q -> SRel q r -> SRel p r.
Proof.
  intros (_ & _ & A & B & C & D & E) (W & K & A' & B' & C' & D' & E').
  split; auto. split; auto. repeat split; try congruence; intro H; [apply E, E'|apply E', E]; auto.
Qed.

Lemma shave_fold_rest a caps : forall q,
  let F := fold_left (fun p t => set_pnonces (all_remove p (t_id t)) (nc_set_if_lower (pnonces p) a (t_nonce t))) caps q in
  pending F = pending q /\ queue F = queue q /\ cfg F = cfg q /\ locals F = locals q /\ panicked F = panicked q.
Proof.
  induction caps as [|t r IH]; intro q; cbn [fold_left]; [repeat split; auto|].
  destruct (IH (set_pnonces (all_remove q (t_id t)) (nc_set_if_lower (pnonces q) a (t_nonce t)))) as (A & B & C & D & E).
  cbn zeta in *. rewrite A, B, C, D, E. repeat split; auto.
Qed.

Lemma shave_ok p a :
  WS p -> KN p -> 2 <= pend_len p a ->
  SRel p (shave p a) /\ pend_len (shave p a) a + 1 = pend_len p a /\
  (forall b, b <> a -> pend_len (shave p a) b = pend_len p b) /\
  pending_count (shave p a) + 1 = pending_count p.
Proof.
  intros W K H2. pose proof (ws_shave p a W) as W'. unfold shave in *.
  unfold pend_len in H2. destruct (aget (pending p) a) as [l|] eqn:G; [|lia].
  destruct (l_empty l) eqn:Em.
  { apply l_empty_items in Em. unfold l_len, sm_len in H2. fold (litems l) in H2. rewrite Em in H2. cbn in H2. lia. }
  pose proof (uniq_of_ws_p _ _ _ W G) as Ul.
  destruct (l_cap l (N.to_nat (l_len l) - 1)) as [caps l'] eqn:C.
  pose proof (l_cap_spec _ _ _ _ Ul C) as (_ & _ & _ & Len).
  assert (Ll : l_len l' + 1 = l_len l).
  { unfold l_len, sm_len in *. fold (litems l) (litems l') in *. rewrite Len. clear -H2. lia. }
  destruct (shave_fold_rest a caps (set_pending p (aset (pending p) a l'))) as (A & B & Cc & D & E).
  cbn zeta in *. cbn [pending queue cfg locals panicked set_pending] in *.
  destruct K as (K1 & K2 & K3).
  assert (Kn : KN (fold_left (fun p0 t => set_pnonces (all_remove p0 (t_id t)) (nc_set_if_lower (pnonces p0) a (t_nonce t))) caps
                     (set_pending p (aset (pending p) a l')))).
  { unfold KN. rewrite A, B. split; [apply nodup_aset; auto|]. split; auto.
    intros b l0. rewrite aget_aset. eqb_cases a b; eauto. intro E0. inversion E0; subst.
    intro En. unfold l_len, sm_len in Ll. fold (litems l0) in Ll. rewrite En in Ll. cbn in Ll. clear -Ll H2. unfold l_len, sm_len in H2. lia. }
  split; [split; [auto|split; [auto|]]|].
  - rewrite A, B, Cc, D, E. repeat split; auto; intro H; apply in_keys_aset in H || apply in_keys_aset; auto.
    + destruct H as [->|H]; auto. eapply aget_in_keys; eauto.
  - unfold pend_len, pending_count. rewrite A. rewrite aget_aset_eq, G. split; [exact Ll|]. split.
    + intros b Hb. rewrite aget_aset_neq; auto.
    + change (msum (aset (pending p) a l') + 1 = msum (pending p)).
      pose proof (msum_aset (pending p) a l' K1) as Hs. unfold len_at in Hs. rewrite G in Hs. clear -Hs Ll. lia.
Qed.

Definition eqlen (p : pool) (L : N) (offs : list N) : Prop := forall a, In a offs -> pend_len p a = L.

Lemma shave_all_ok L : forall p cnt,
  WS p -> KN p -> NoDup L -> (forall a, In a L -> 2 <= pend_len p a) ->
  let r := fold_left (fun pc a => (shave (fst pc) a, snd pc - 1)) L (p, cnt) in
  SRel p (fst r) /\ (forall a, In a L -> pend_len (fst r) a + 1 = pend_len p a) /\
  (forall b, ~ In b L -> pend_len (fst r) b = pend_len p b) /\
  pending_count (fst r) + N.of_nat (length L) = pending_count p /\
  snd r = cnt - N.of_nat (length L).
Proof.
  induction L as [|a r IH]; intros p cnt W K Nd H2; cbn [fold_left].
  - cbn. split; [apply srel_refl; auto|]. repeat split; auto; try tauto; lia.
  - inversion Nd; subst. destruct (shave_ok p a W K) as (S1 & La & Lb & Cn); [apply H2; left; auto|].
    cbn [fst snd].
    destruct (IH (shave p a) (cnt - 1)) as (S2 & Lr & Lo & Cr & Sr); auto; try apply S1.
    { intros b Hb. rewrite Lb; [apply H2; right; auto|]. intros ->. auto. }
    cbn zeta in *. split; [eapply srel_trans; eauto|]. split; [|split; [|split]].
    + intros b [->|Hb].
      * rewrite Lo; auto.
      * rewrite Lr; auto. apply Lb. intros ->. auto.
    + intros b Hb. rewrite Lo; [apply Lb|]; intro; apply Hb; [left|right]; auto.
    + cbn [length]. clear -Cr Cn. lia.
    + rewrite Sr. cbn [length]. clear. lia.
Qed.

Lemma equalize_ok fuel : forall p cnt prevs lp th Lp,
  WS p -> KN p -> cnt = pending_count p -> prevs <> [] -> NoDup prevs -> In lp prevs ->
  eqlen p Lp prevs -> 1 <= th -> cnt < N.of_nat fuel ->
  let r := equalize fuel p cnt prevs lp th in
  SRel p (fst r) /\ snd r = pending_count (fst r) /\ snd r <= cnt /\
  (forall b, ~ In b prevs -> pend_len (fst r) b = pend_len p b) /\
  exists Lp', eqlen (fst r) Lp' prevs /\ Lp' <= Lp /\ (th <= Lp -> th <= Lp') /\
              (global_slots (cfg p) < snd r -> Lp' <= th).
Proof.
  induction fuel as [|f IH]; intros p cnt prevs lp th Lp W K Ec Hne Nd Hlp El Hth Hf; [lia|].
  cbn [equalize]. rewrite (El lp Hlp).
  destruct (N.ltb (global_slots (cfg p)) cnt && N.ltb th Lp) eqn:Gd.
  - apply andb_prop in Gd as [G1 G2].
    destruct (shave_all_ok prevs p cnt W K Nd) as (S1 & Ll & Lo & Cn & Sn).
    { intros a Ha. rewrite (El a Ha). clear -G2 Hth. lia. }
    rewrite fold_shave_pair. cbn zeta in *.
    set (p1 := fst (fold_left (fun pc a => (shave (fst pc) a, snd pc - 1)) prevs (p, cnt))) in *.
    set (c1 := snd (fold_left (fun pc a => (shave (fst pc) a, snd pc - 1)) prevs (p, cnt))) in *.
    assert (Hl : 1 <= N.of_nat (length prevs)) by (destruct prevs; [congruence|cbn; lia]).
    assert (Ec1 : c1 = pending_count p1) by (rewrite Sn; clear -Cn Ec; lia).
    assert (El1 : eqlen p1 (Lp - 1) prevs).
    { intros a Ha. specialize (Ll a Ha). rewrite (El a Ha) in Ll. clear -Ll. lia. }
    destruct (IH p1 c1 prevs lp th (Lp - 1)) as (S2 & E2 & Le2 & Lo2 & Lp' & El2 & A2 & B2 & C2); auto; try apply S1.
    { clearbody c1. clear -Hf Hl Sn G1. lia. }
    cbn zeta in *. split; [eapply srel_trans; eauto|]. split; auto. split; [clearbody c1; clear -Le2 Sn; lia|].
    split; [intros b Hb; rewrite Lo2, Lo; auto|].
    exists Lp'. split; auto. split; [clear -A2; lia|]. split; [intro; apply B2; clear -G2; lia|].
    destruct S1 as (_ & _ & Ecf & _). rewrite <- Ecf. auto.
  - cbn [fst snd]. split; [apply srel_refl; auto|]. split; auto. split; [lia|]. split; auto.
    exists Lp. split; auto. split; [lia|]. split; auto. intro Hg.
    apply andb_false_iff in Gd as [Gd|Gd]; clear -Gd Hg; lia.
Qed.

(* insertion sort by a descending key *)
Lemma isort_desc_sorted (f : N -> N) l :
  StronglySorted (fun a b => f b <= f a) (isort (fun a b => N.leb (f b) (f a)) l).
Proof.
  induction l as [|x r IH]; cbn; [constructor|].
  set (s := isort (fun a b => N.leb (f b) (f a)) r) in *. clearbody s.
  induction IH as [|y t Ht IHt Hy]; cbn; [constructor; constructor|].
  destruct (N.leb (f y) (f x)) eqn:E.
  - constructor; [constructor; auto|]. constructor; [lia|].
    eapply Forall_impl; [|exact Hy]. cbn. intros. lia.
  - constructor; auto.
    assert (P : Permutation (ins (fun a b => N.leb (f b) (f a)) x t) (x :: t)) by apply ins_perm.
    apply (Permutation_Forall (Permutation_sym P)). constructor; auto. lia.
Qed.
Lemma dedup_nodup l : NoDup (dedup l).
Proof.
  induction l as [|a r IH]; cbn; [constructor|].
  destruct (existsb (N.eqb a) r) eqn:E; auto. constructor; auto.
  intro Hin. assert (In a r).
  { clear -Hin. induction r as [|b r IH]; cbn in *; [tauto|]. destruct (existsb (N.eqb b) r); cbn in Hin; tauto. }
  assert (existsb (N.eqb a) r = true) by (apply existsb_exists; exists a; split; auto; apply N.eqb_refl). congruence.
Qed.
Lemma order_by_nodup ord l : NoDup (order_by ord l).
Proof. unfold order_by. eapply Permutation_NoDup; [symmetry; apply isort_perm|apply dedup_nodup]. Qed.
Lemma last_in (l : list N) d : l <> [] -> In (last l d) l.
Proof.
  induction l as [|a r IH]; [congruence|]. intros _. destruct r as [|b r]; [left; auto|].
  right. apply IH. congruence.
Qed.

Lemma trunc_loop1_ok fuel (len0 : N -> N) S : forall p cnt offs,
  WS p -> KN p -> cnt = pending_count p -> NoDup (offs ++ S) -> cnt < N.of_nat fuel ->
  (forall s, In s S -> pend_len p s = len0 s /\ 1 <= len0 s) ->
  StronglySorted (fun a b => len0 b <= len0 a) S ->
  (global_slots (cfg p) < cnt -> offs = [] \/ exists Lo, eqlen p Lo offs /\ forall s, In s S -> len0 s <= Lo) ->
  let r := trunc_loop1 fuel p cnt S offs in
  let p' := fst (fst r) in let cnt' := snd (fst r) in let offs' := snd r in
  SRel p p' /\ cnt' = pending_count p' /\ cnt' <= cnt /\
  (forall b, ~ In b (offs ++ S) -> pend_len p' b = pend_len p b) /\
  (forall b, pend_len p' b <= pend_len p b) /\
  (global_slots (cfg p) < cnt' -> offs' = offs ++ S /\ (offs' = [] \/ exists L, eqlen p' L offs')).
Proof.
  induction S as [|s rest IH]; intros p cnt offs W K Ec Nd Hf Hl Hs Ho; cbn [trunc_loop1].
  - cbn. split; [apply srel_refl; auto|]. split; auto. split; [lia|]. split; auto. split; [intro; lia|].
    intro Hg. rewrite app_nil_r. split; auto. destruct (Ho Hg) as [H|(Lo & H & _)]; eauto.
  - destruct (N.ltb (global_slots (cfg p)) cnt) eqn:Gd.
    2:{ cbn. split; [apply srel_refl; auto|]. split; auto. split; [lia|]. split; auto. split; [intro; lia|]. intro Hg. clear -Gd Hg. lia. }
    assert (Hg : global_slots (cfg p) < cnt) by (clear -Gd; lia).
    apply StronglySorted_inv in Hs as [Hs1 Hs2].
    assert (Nd2 : NoDup ((offs ++ [s]) ++ rest)) by (rewrite <- app_assoc; auto).
    assert (Sno : ~ In s offs).
    { intro Hin. apply NoDup_app_iff in Nd as (_ & _ & D). eapply D; eauto. left. auto. }
    destruct (Hl s (or_introl eq_refl)) as [Ls Ls1].
    destruct offs as [|o1 os] eqn:Eo.
    + (* first offender *)
      assert (Hl' : forall x, In x rest -> pend_len p x = len0 x /\ 1 <= len0 x) by (intros x Hx; apply Hl; right; auto).
      assert (Ho' : global_slots (cfg p) < cnt -> [s] = [] \/ exists Lo, eqlen p Lo [s] /\ forall x, In x rest -> len0 x <= Lo).
      { intros _. right. exists (len0 s). split.
        - intros a [<-|[]]. auto.
        - intros x Hx. rewrite Forall_forall in Hs2. apply Hs2. auto. }
      destruct (IH p cnt [s] W K Ec Nd2 Hf Hl' Hs1 Ho') as (S1 & E1 & Le1 & Lo1 & Mo1 & G1).
      cbn zeta in *. cbn [app] in *. split; auto.
    + rewrite <- Eo in *. assert (Hne : offs <> []) by (rewrite Eo; congruence).
      destruct (Ho Hg) as [H|(Lo & Hlo & Hbound)]; [congruence|].
      assert (Ndo : NoDup offs) by (apply NoDup_app_iff in Nd; tauto).
      rewrite Ls.
      destruct (equalize_ok fuel p cnt offs (last offs 0) (len0 s) Lo W K Ec Hne Ndo (last_in _ 0 Hne) Hlo Ls1 Hf)
        as (S1 & E1 & Le1 & Lo1 & Lp' & El1 & A1 & B1 & C1).
      destruct (equalize fuel p cnt offs (last offs 0) (len0 s)) as [p1 c1] eqn:Eq. cbn [fst snd] in *.
      assert (Ecf : cfg p1 = cfg p) by apply S1.
      assert (Hf1 : c1 < N.of_nat fuel) by (clear -Le1 Hf; lia).
      assert (Hl' : forall x, In x rest -> pend_len p1 x = len0 x /\ 1 <= len0 x).
      { intros x Hx. rewrite Lo1; [apply Hl; right; auto|].
        intro Hin. apply NoDup_app_iff in Nd as (_ & _ & D). eapply D; eauto. right. auto. }
      assert (Ho' : global_slots (cfg p1) < c1 -> offs ++ [s] = [] \/ exists Lo', eqlen p1 Lo' (offs ++ [s]) /\ forall x, In x rest -> len0 x <= Lo').
      { rewrite Ecf. intro Hg1. right. exists (len0 s). split.
        - intros a Ha. apply in_app_or in Ha as [Ha|[<-|[]]].
          + rewrite (El1 a Ha). specialize (B1 (Hbound s (or_introl eq_refl))). specialize (C1 Hg1). clear -B1 C1. lia.
          + rewrite Lo1; auto.
        - intros x Hx. rewrite Forall_forall in Hs2. apply Hs2. auto. }
      destruct S1 as (W1 & K1 & S1r).
      destruct (IH p1 c1 (offs ++ [s]) W1 K1 E1 Nd2 Hf1 Hl' Hs1 Ho') as (S2 & E2 & Le2 & Lo2 & Mo2 & G2).
      cbn zeta in *. split; [eapply srel_trans; [split; [exact W1|split; [exact K1|exact S1r]]|exact S2]|]. split; auto.
      split; [clear -Le1 Le2; lia|]. split; [|split].
      * intros b Hb. rewrite Lo2.
        -- apply Lo1. intro. apply Hb. apply in_or_app. auto.
        -- rewrite <- app_assoc. exact Hb.
      * intro b. specialize (Mo2 b). destruct (in_dec N.eq_dec b offs) as [Hin|Hin].
        -- rewrite (El1 b Hin) in Mo2. rewrite (Hlo b Hin). clear -Mo2 A1. lia.
        -- rewrite Lo1 in Mo2; auto.
      * rewrite Ecf in G2. intro Hg2. destruct (G2 Hg2) as [G3 G4]. rewrite <- app_assoc in G3. auto.
Qed.

Lemma trunc_loop2_ok fuel : forall p cnt offs,
  WS p -> KN p -> cnt = pending_count p -> NoDup offs -> offs <> [] -> cnt < N.of_nat fuel ->
  1 <= account_slots (cfg p) ->
  (global_slots (cfg p) < cnt -> exists L, eqlen p L offs) ->
  let r := trunc_loop2 fuel p cnt offs in
  SRel p (fst r) /\ snd r = pending_count (fst r) /\
  (forall b, ~ In b offs -> pend_len (fst r) b = pend_len p b) /\
  (forall b, pend_len (fst r) b <= pend_len p b) /\
  (snd r <= global_slots (cfg p) \/ forall a, In a offs -> pend_len (fst r) a <= account_slots (cfg p)).
Proof.
  induction fuel as [|f IH]; intros p cnt offs W K Ec Nd Hne Hf Has Heq; [lia|].
  cbn [trunc_loop2].
  destruct (N.ltb (global_slots (cfg p)) cnt && N.ltb (account_slots (cfg p)) (pend_len p (last offs 0))) eqn:Gd.
  - apply andb_prop in Gd as [G1 G2]. destruct Heq as (L & El); [clear -G1; lia|].
    rewrite (El _ (last_in offs 0 Hne)) in G2.
    destruct (shave_all_ok offs p cnt W K Nd) as (S1 & Ll & Lo & Cn & Sn).
    { intros a Ha. rewrite (El a Ha). clear -G2 Has. lia. }
    rewrite fold_shave_pair. cbn zeta in *.
    set (p1 := fst (fold_left (fun pc a => (shave (fst pc) a, snd pc - 1)) offs (p, cnt))) in *.
    set (c1 := snd (fold_left (fun pc a => (shave (fst pc) a, snd pc - 1)) offs (p, cnt))) in *.
    clearbody c1.
    assert (Hl : 1 <= N.of_nat (length offs)) by (destruct offs; [congruence|cbn; lia]).
    assert (Ec1 : c1 = pending_count p1) by (rewrite Sn; clear -Cn Ec; lia).
    assert (Ecf : cfg p1 = cfg p) by apply S1.
    assert (Hf1 : c1 < N.of_nat f) by (clear -Hf Hl Sn G1; lia).
    assert (Has1 : 1 <= account_slots (cfg p1)) by (rewrite Ecf; auto).
    assert (Heq1 : global_slots (cfg p1) < c1 -> exists L', eqlen p1 L' offs).
    { intros _. exists (L - 1). intros a Ha. specialize (Ll a Ha). rewrite (El a Ha) in Ll. clear -Ll. lia. }
    destruct (IH p1 c1 offs (proj1 S1) (proj1 (proj2 S1)) Ec1 Nd Hne Hf1 Has1 Heq1) as (S2 & E2 & Lo2 & Mo2 & P2).
    cbn zeta in *. rewrite Ecf in P2. split; [eapply srel_trans; eauto|]. split; auto. split; [|split; auto].
    + intros b Hb. rewrite Lo2, Lo; auto.
    + intro b. specialize (Mo2 b). destruct (in_dec N.eq_dec b offs) as [Hin|Hin].
      * specialize (Ll b Hin). clear -Mo2 Ll. lia.
      * rewrite Lo in Mo2; auto.
  - cbn [fst snd]. split; [apply srel_refl; auto|]. split; auto. split; auto. split; [intro; lia|].
    destruct (N.ltb (global_slots (cfg p)) cnt) eqn:G1; [|left; clear -G1; lia].
    right. destruct Heq as (L & El); [clear -G1; lia|]. cbn [andb] in Gd.
    rewrite (El _ (last_in offs 0 Hne)) in Gd. intros a Ha. rewrite (El a Ha). clear -Gd. lia.
Qed.

Lemma in_keys_pend_len p a : KN p -> In a (akeys (pending p)) -> 1 <= pend_len p a.
Proof.
  intros (_ & _ & Ne) H. apply in_keys_aget in H as (l & G). unfold pend_len. rewrite G.
  specialize (Ne a l G). unfold NEl in Ne. unfold l_len, sm_len. fold (litems l). destruct (litems l); [congruence|cbn; lia].
Qed.

(* truncatePending: no panic, the map invariants survive, and the limit the code guarantees *)
Lemma truncate_pending_ok p ord :
  WS p -> KN p -> 1 <= account_slots (cfg p) ->
  let p' := truncate_pending p ord in
  SRel p p' /\ (forall b, pend_len p' b <= pend_len p b) /\
  (pending_count p' <= global_slots (cfg p) \/
   forall a, is_local p a = false -> pend_len p' a <= account_slots (cfg p)).
Proof.
  intros W K Has. unfold truncate_pending.
  destruct (N.leb (pending_count p) (global_slots (cfg p))) eqn:Le.
  { cbn zeta. split; [apply srel_refl; auto|]. split; [intro; lia|]. left. clear -Le. lia. }
  set (cands := filter (fun a => negb (is_local p a) && N.ltb (account_slots (cfg p)) (pend_len p a))
                       (order_by ord (akeys (pending p)))).
  set (S := isort (fun a b => N.leb (pend_len p b) (pend_len p a)) cands).
  set (fuel := Datatypes.S (N.to_nat (pending_count p))).
  assert (Pc : Permutation S cands) by apply isort_perm.
  assert (NdS : NoDup S).
  { eapply Permutation_NoDup; [symmetry; exact Pc|]. apply NoDup_filter, order_by_nodup. }
  assert (InS : forall s, In s S -> is_local p s = false /\ account_slots (cfg p) < pend_len p s /\ In s (akeys (pending p))).
  { intros s Hs. apply (Permutation_in _ Pc) in Hs. apply filter_In in Hs as [H1 H2].
    apply in_order_by in H1. apply andb_prop in H2 as [H2 H3]. apply negb_true_iff in H2. split; auto. split; auto. clear -H3. lia. }
  assert (Hf : pending_count p < N.of_nat fuel) by (unfold fuel; lia).
  destruct (trunc_loop1_ok fuel (pend_len p) S p (pending_count p) [] W K eq_refl) as (S1 & E1 & Le1 & Lo1 & Mo1 & G1); auto.
  { intros s Hs. split; auto. destruct (InS s Hs) as (_ & H & _). clear -H. lia. }
  { apply isort_desc_sorted. }
  destruct (trunc_loop1 fuel p (pending_count p) S []) as [[p1 c1] offs] eqn:T1. cbn [fst snd app] in *.
  assert (Ecf : cfg p1 = cfg p) by apply S1.
  destruct offs as [|o1 os] eqn:Eo.
  - (* nobody to penalise *)
    split; auto. split; auto.
    destruct (N.ltb (global_slots (cfg p)) c1) eqn:Gd; [|left; rewrite <- E1; clear -Gd; lia].
    right. destruct G1 as [G1 _]; [clear -Gd; lia|]. intros a Hl.
    specialize (Mo1 a). destruct (N.ltb (account_slots (cfg p)) (pend_len p a)) eqn:Ea; [|clear -Ea Mo1; lia].
    exfalso. destruct (in_dec N.eq_dec a (akeys (pending p))) as [Hk|Hk].
    + assert (In a S).
      { apply (Permutation_in _ (Permutation_sym Pc)). apply filter_In. split; [apply in_order_by; auto|].
        rewrite Hl. cbn. clear -Ea. lia. }
      rewrite <- G1 in H. destruct H.
    + assert (pend_len p a = 0) by (apply len_at_notin; auto). clear -H Ea. lia.
  - rewrite <- Eo in *. assert (Hne : offs <> []) by (rewrite Eo; congruence). clear Eo.
    destruct (N.ltb (global_slots (cfg p)) c1) eqn:Gd.
    + destruct G1 as [G1 G2]; [clear -Gd; lia|]. subst offs.
      destruct G2 as [G2|(L & El)]; [congruence|].
      assert (Hf1 : c1 < N.of_nat fuel) by (clear -Le1 Hf; lia).
      destruct S1 as (W1 & K1 & S1r).
      assert (Has1 : 1 <= account_slots (cfg p1)) by (rewrite Ecf; auto).
      destruct (trunc_loop2_ok fuel p1 c1 S W1 K1 E1 NdS Hne Hf1 Has1 (fun _ => ex_intro _ L El)) as (S2 & E2 & Lo2 & Mo2 & P2).
      rewrite Ecf in P2.
      split; [eapply srel_trans; [split; [exact W1|split; [exact K1|exact S1r]]|exact S2]|].
      split; [intro b; specialize (Mo1 b); specialize (Mo2 b); clear -Mo1 Mo2; lia|].
      destruct P2 as [P2|P2]; [left; rewrite <- E2; auto|]. right. intros a Hl.
      destruct (in_dec N.eq_dec a S) as [Hin|Hin]; auto.
      rewrite Lo2, Lo1; auto.
      destruct (N.ltb (account_slots (cfg p)) (pend_len p a)) eqn:Ea; [|clear -Ea; lia].
      exfalso. destruct (in_dec N.eq_dec a (akeys (pending p))) as [Hk|Hk].
      * apply Hin. apply (Permutation_in _ (Permutation_sym Pc)). apply filter_In. split; [apply in_order_by; auto|].
        rewrite Hl. cbn. clear -Ea. lia.
      * assert (pend_len p a = 0) by (apply len_at_notin; auto). clear -H Ea. lia.
    + (* the first loop already got below the limit: the second one does nothing *)
      unfold fuel. cbn [trunc_loop2]. rewrite Ecf, Gd. cbn [andb fst].
      split; auto. split; auto. left. rewrite <- E1. clear -Gd. lia.
Qed.

(* ---- removeTx of a queued transaction ----------------------------------------- *)
Definition qlen (p : pool) (a : N) : N := len_at (queue p) a.

Lemma filter_one_out (l : list tx) t :
  uniq l -> In t l -> (length (filter (fun x => negb (N.eqb (t_nonce x) (t_nonce t))) l) + 1 = length l)%nat.
Proof.
  induction l as [|a r IH]; intros U Hin; [destruct Hin|].
  unfold uniq, nonces in U. cbn in U. inversion U; subst. cbn [filter length].
  destruct Hin as [->|Hin].
  - rewrite N.eqb_refl. cbn [negb].
    assert (filter (fun x => negb (N.eqb (t_nonce x) (t_nonce t))) r = r) as ->; [|lia].
    clear -H1. induction r as [|b r IH]; cbn; auto.
    destruct (N.eqb (t_nonce b) (t_nonce t)) eqn:E; cbn.
    + exfalso. apply H1. left. apply N.eqb_eq in E. auto.
    + f_equal. apply IH. intro. apply H1. right. auto.
  - destruct (N.eqb (t_nonce a) (t_nonce t)) eqn:E; cbn [negb length].
    + exfalso. apply H1. apply N.eqb_eq in E. rewrite E. apply in_map. auto.
    + specialize (IH H2 Hin). lia.
Qed.

Lemma remove_queued_ok p t :
  WS p -> KN p -> In t (lst (queue p) (t_from t)) ->
  let p' := remove_tx p (t_id t) in
  pending p' = pending p /\ cfg p' = cfg p /\ locals p' = locals p /\ panicked p' = panicked p /\ beats p' = beats p /\
  qlen p' (t_from t) + 1 = qlen p (t_from t) /\
  (forall b, b <> t_from t -> aget (queue p') b = aget (queue p) b) /\
  (forall x, In x (lst (queue p') (t_from t)) <-> In x (lst (queue p) (t_from t)) /\ x <> t) /\
  queued_count p' + 1 = queued_count p.
Proof.
  intros [W S] K Hin. pose proof W as W0. dwf W0.
  assert (Tin : In t (all p)) by (eapply Wqa; eauto).
  unfold remove_tx. rewrite (all_get_in p t Wid Tin).
  cbn [pending queue all_remove set_all].
  unfold lst in Hin. destruct (aget (queue p) (t_from t)) as [ql|] eqn:GQ; [|destruct Hin].
  assert (NP : match aget (pending p) (t_from t) with
               | None => None
               | Some pl => let '(removed, invalids, pl') := l_remove pl t in
                            if removed then Some (invalids, pl') else None
               end = None).
  { destruct (aget (pending p) (t_from t)) as [pl|] eqn:GP; auto.
    destruct (l_remove pl t) as [[removed invalids] pl'] eqn:R.
    pose proof (l_remove_spec _ _ _ _ _ R) as (_ & _ & Rt). destruct removed; auto.
    destruct (Rt eq_refl) as ((x & Hx & Hn) & _). exfalso.
    eapply (Wdpq (t_from t) x t); eauto; rewrite ?(lst_some _ _ _ GP), ?(lst_some _ _ _ GQ); auto. }
  rewrite NP.
  assert (Uql : uniq (litems ql)) by (specialize (Wuq (t_from t)); rewrite (lst_some _ _ _ GQ) in Wuq; auto).
  assert (Sq : strict ql = false) by (eapply S; eauto).
  assert (R : l_remove ql t = (true, [], mkList false (mkSmap (filter (fun x => negb (N.eqb (t_nonce x) (t_nonce t))) (items (txs ql))) None) (costcap ql) (gascap ql))).
  { unfold l_remove, sm_remove. fold (litems ql). rewrite (sm_get_in (txs ql) t Uql Hin). cbn [negb]. rewrite Sq. auto. }
  rewrite R. set (ql' := mkList false _ _ _).
  assert (Len : l_len ql' + 1 = l_len ql).
  { unfold l_len, sm_len, ql'. cbn [txs items]. pose proof (filter_one_out _ t Uql Hin) as H. unfold litems in H. lia. }
  assert (Mem : forall x, In x (litems ql') <-> In x (litems ql) /\ x <> t).
  { intro x. unfold ql', litems. cbn [txs items]. rewrite filter_In. split.
    - intros [H1 H2]. split; auto. intros ->. rewrite N.eqb_refl in H2. discriminate.
    - intros [H1 H2]. split; auto. apply negb_true_iff, N.eqb_neq. intro E. apply H2.
      eapply (uniq_inj (litems ql)); eauto. }
  destruct K as (K1 & K2 & K3).
  pose proof (msum_adel (queue p) (t_from t) K2) as Ha. unfold len_at in Ha. rewrite GQ in Ha.
  destruct (l_empty ql') eqn:Em.
  - apply l_empty_items in Em.
    assert (Z : l_len ql' = 0) by (unfold l_len, sm_len; fold (litems ql'); rewrite Em; auto).
    cbn zeta. cbn [pending cfg locals panicked beats queue set_queue all_remove set_all].
    unfold qlen, len_at, queued_count. cbn [queue set_queue].
    rewrite aget_adel_eq, GQ. do 5 (split; [reflexivity|]).
    split; [clear -Len Z; lia|]. split; [intros b Hb; apply aget_adel_neq; congruence|]. split.
    + intro x. rewrite lst_adel, N.eqb_refl, (lst_some _ _ _ GQ). split; [intros []|].
      intros [H1 H2]. assert (H : In x (litems ql')) by (apply Mem; auto). rewrite Em in H. auto.
    + change (msum (adel (queue p) (t_from t)) + 1 = msum (queue p)). clear -Ha Len Z. lia.
  - cbn zeta. cbn [pending cfg locals panicked beats queue set_queue all_remove set_all].
    unfold qlen, len_at, queued_count. cbn [queue set_queue].
    rewrite aget_aset_eq, GQ. do 5 (split; [reflexivity|]).
    split; [exact Len|]. split; [intros b Hb; apply aget_aset_neq; congruence|]. split.
    + intro x. rewrite lst_aset, N.eqb_refl, (lst_some _ _ _ GQ). apply Mem.
    + change (msum (aset (queue p) (t_from t) ql') + 1 = msum (queue p)).
      pose proof (msum_aset (queue p) (t_from t) ql' K2) as Hs. unfold len_at in Hs. rewrite GQ in Hs. clear -Hs Len. lia.
Qed.

Definition QRel (p p' : pool) : Prop :=
  SC p' /\ KN p' /\ pending p' = pending p /\ cfg p' = cfg p /\ locals p' = locals p /\ panicked p' = panicked p /\
  (forall b, qlen p' b <= qlen p b).
Lemma qrel_refl p : SC p -> KN p -> QRel p p.
Proof. intros S K. split; [exact S|]. split; [exact K|]. repeat split; auto. intro; lia. Qed.
Lemma qrel_trans p q r : QRel p q -> QRel q r -> QRel p r.
Proof.
  intros (_ & _ & A & B & C & D & E) (S & K & A' & B' & C' & D' & E').
  split; auto. split; auto. repeat split; try congruence. intro b. specialize (E b). specialize (E' b). lia.
Qed.

Lemma remove_queued_list l : forall p a,
  SC p -> KN p -> NoDup l -> (forall x, In x l -> In x (lst (queue p) a)) ->
  let p' := remove_txs p l in
  QRel p p' /\ qlen p' a + N.of_nat (length l) = qlen p a /\
  (forall b, b <> a -> aget (queue p') b = aget (queue p) b) /\
  (forall x, In x (lst (queue p') a) <-> In x (lst (queue p) a) /\ ~ In x l) /\
  queued_count p' + N.of_nat (length l) = queued_count p.
Proof.
  unfold remove_txs. induction l as [|t r IH]; intros p a S K Nd Hin; cbn [fold_left].
  - cbn. split; [apply qrel_refl; auto|]. repeat split; try tauto; auto; lia.
  - inversion Nd; subst.
    assert (Ft : t_from t = a) by (eapply (w_qfrom _ _ (proj1 (proj1 S))); apply Hin; left; auto).
    assert (Ht : In t (lst (queue p) (t_from t))) by (rewrite Ft; apply Hin; left; auto).
    destruct (remove_queued_ok p t (proj1 S) K Ht) as (P1 & C1 & L1 & Pn1 & _ & Q1 & F1 & M1 & N1).
    pose proof (sc_remove_tx p (t_id t) S) as S1. pose proof (kn_remove_tx p (t_id t) K) as K1.
    set (p1 := remove_tx p (t_id t)) in *. rewrite Ft in *.
    destruct (IH p1 a S1 K1 H2) as (R2 & Q2 & F2 & M2 & N2).
    { intros x Hx. apply M1. split; [apply Hin; right; auto|]. intros ->. auto. }
    cbn zeta in *. split.
    + eapply qrel_trans; [|exact R2]. split; [exact S1|]. split; [exact K1|]. repeat split; auto.
      intro b. destruct (N.eq_dec b a) as [->|Hb]; [clear -Q1; lia|]. unfold qlen, len_at. rewrite (F1 b Hb). lia.
    + split; [cbn [length]; clear -Q1 Q2; lia|]. split; [intros b Hb; rewrite F2, F1; auto|]. split.
      * intro x. rewrite M2, M1. cbn [In]. split; [intros [[A B] C]; split; auto; intros [<-|D]; auto|].
        intros [A B]. split; [split; auto; intros ->; apply B; left; auto|]. intro. apply B. right. auto.
      * cbn [length]. clear -N1 N2. lia.
Qed.

Lemma drop_last_n_firstn l : forall p drop,
  drop_last_n p l drop =
  (remove_txs p (firstn (N.to_nat drop) l), drop - N.of_nat (length (firstn (N.to_nat drop) l))).
Proof.
  induction l as [|t r IH]; intros p drop; cbn [drop_last_n].
  - rewrite firstn_nil. cbn. f_equal. lia.
  - destruct (N.ltb 0 drop) eqn:E.
    + rewrite IH. assert (H : N.to_nat drop = Datatypes.S (N.to_nat (drop - 1))) by lia.
      rewrite H. cbn [firstn length]. unfold remove_txs. cbn [fold_left]. f_equal. lia.
    + assert (drop = 0) by lia. subst. cbn. auto.
Qed.

Lemma flatten_q_ok p a l flat l' :
  SC p -> KN p -> aget (queue p) a = Some l -> l_flatten l = (flat, l') ->
  QRel p (put_q p a l') /\ flat = sort_nonce (litems l) /\
  (forall b, lst (queue (put_q p a l')) b = lst (queue p) b) /\
  (forall b, qlen (put_q p a l') b = qlen p b) /\
  queued_count (put_q p a l') = queued_count p /\
  (forall x, In x (akeys (queue (put_q p a l'))) <-> In x (akeys (queue p))).
Proof.
  intros S K G F. destruct (capok_flatten _ _ _ F (proj2 (proj2 S) _ _ G)) as [_ Hf].
  destruct (l_flatten_items _ _ _ F) as (I & _).
  assert (Ll : l_len l' = l_len l) by (unfold l_len, sm_len; fold (litems l') (litems l); rewrite I; auto).
  assert (Q : forall b, qlen (put_q p a l') b = qlen p b).
  { intro b. unfold qlen, len_at. cbn [queue put_q set_queue]. rewrite aget_aset. eqb_cases a b; auto. rewrite G. auto. }
  split; [|split; [auto|split; [|split; [auto|split]]]].
  - split; [eapply sc_flatten_q; eauto|]. split; [apply kn_put_q; auto|]. repeat split; auto. intro b. rewrite Q. lia.
  - intro b. cbn [queue put_q set_queue]. rewrite lst_aset. eqb_cases a b; auto. rewrite I. symmetry. apply lst_some. auto.
  - change (msum (aset (queue p) a l') = msum (queue p)).
    pose proof (msum_aset (queue p) a l' (proj1 (proj2 K))) as Hs. unfold len_at in Hs. rewrite G in Hs. lia.
  - intro x. cbn [queue put_q set_queue]. rewrite in_keys_aset. split; auto. intros [->|H]; auto. eapply aget_in_keys; eauto.
Qed.

Lemma trunc_queue_loop_ok G addrs : forall p drop,
  SC p -> KN p -> NoDup addrs -> (forall a, In a addrs -> In a (akeys (queue p))) ->
  queued_count p = G + drop ->
  let p' := trunc_queue_loop p addrs drop in
  QRel p p' /\ (queued_count p' <= G \/ forall a, In a addrs -> qlen p' a = 0).
Proof.
  induction addrs as [|a rest IH]; intros p drop S K Nd Hk Hc; cbn [trunc_queue_loop].
  - cbn. split; [apply qrel_refl; auto|]. right. tauto.
  - destruct (N.ltb 0 drop) eqn:Ed.
    2:{ cbn zeta. split; [apply qrel_refl; auto|]. left. clear -Hc Ed. lia. }
    inversion Nd; subst.
    destruct (in_keys_aget (queue p) a (Hk a (or_introl eq_refl))) as (l & G0). rewrite G0.
    destruct (l_flatten l) as [flat l'] eqn:F.
    destruct (flatten_q_ok p a l flat l' S K G0 F) as (R1 & Hf & L1 & Q1 & C1 & K1).
    set (p1 := set_queue p (aset (queue p) a l')) in *. change (put_q p a l') with p1 in *.
    assert (Uf : uniq flat).
    { rewrite Hf. eapply uniq_perm; [symmetry; apply isort_perm|]. eapply uniq_of_ws_q; eauto. apply S. }
    assert (Inf : forall x, In x flat -> In x (lst (queue p1) a)).
    { intros x Hx. rewrite L1, (lst_some _ _ _ G0). rewrite Hf in Hx. apply (proj1 (sort_nonce_in _ _)) in Hx. auto. }
    assert (Lf : N.of_nat (length flat) = l_len l).
    { rewrite Hf. unfold sort_nonce. rewrite isort_length. reflexivity. }
    assert (Ql : qlen p1 a = l_len l) by (rewrite Q1; unfold qlen, len_at; rewrite G0; auto).
    destruct R1 as (S1 & Kn1 & R1r).
    destruct (N.leb (l_len l) drop) eqn:Es.
    + destruct (remove_queued_list flat p1 a S1 Kn1 (uniq_nodup _ Uf) Inf) as (R2 & Q2 & F2 & M2 & N2).
      set (p2 := remove_txs p1 flat) in *.
      destruct R2 as (S2 & Kn2 & R2r).
      assert (Hk2 : forall b, In b rest -> In b (akeys (queue p2))).
      { intros b Hb. assert (Hba : b <> a) by (intros ->; auto).
        destruct (in_keys_aget (queue p1) b) as (lb & Gb); [apply K1, Hk; right; auto|].
        eapply aget_in_keys. rewrite F2; eauto. }
      destruct (IH p2 (drop - l_len l) S2 Kn2 H2 Hk2) as (R3 & P3).
      { rewrite <- C1 in Hc. clear -N2 Hc Lf Es. lia. }
      cbn zeta in *. split.
      * eapply qrel_trans; [split; [exact S1|split; [exact Kn1|exact R1r]]|].
        eapply qrel_trans; [split; [exact S2|split; [exact Kn2|exact R2r]]|exact R3].
      * destruct P3 as [P3|P3]; auto. right. intros b [<-|Hb]; auto.
        destruct R3 as (_ & _ & _ & _ & _ & _ & Mono). specialize (Mono a). clear -Mono Q2 Lf Ql. lia.
    + rewrite drop_last_n_firstn.
      set (k := N.to_nat drop). set (dl := firstn k (rev flat)).
      assert (Hlen : length dl = k).
      { unfold dl. rewrite firstn_length, rev_length. clear -Es Lf. unfold k. lia. }
      assert (Nd' : NoDup dl).
      { unfold dl. assert (NoDup (rev flat)) by (apply NoDup_rev, uniq_nodup; auto).
        rewrite <- (firstn_skipn k (rev flat)) in H. apply NoDup_app_iff in H. tauto. }
      assert (Ind : forall x, In x dl -> In x (lst (queue p1) a)).
      { intros x Hx. apply Inf. apply in_rev. unfold dl in Hx. rewrite <- (firstn_skipn k (rev flat)). apply in_or_app. auto. }
      destruct (remove_queued_list dl p1 a S1 Kn1 Nd' Ind) as (R2 & Q2 & F2 & M2 & N2).
      set (p2 := remove_txs p1 dl) in *.
      destruct R2 as (S2 & Kn2 & R2r).
      assert (Hk2 : forall b, In b rest -> In b (akeys (queue p2))).
      { intros b Hb. assert (Hba : b <> a) by (intros ->; auto).
        destruct (in_keys_aget (queue p1) b) as (lb & Gb); [apply K1, Hk; right; auto|].
        eapply aget_in_keys. rewrite F2; eauto. }
      destruct (IH p2 (drop - N.of_nat (length dl)) S2 Kn2 H2 Hk2) as (R3 & P3).
      { rewrite <- C1 in Hc. rewrite Hlen. clear -N2 Hc Hlen. unfold k in *. lia. }
      cbn zeta in *. split.
      * eapply qrel_trans; [split; [exact S1|split; [exact Kn1|exact R1r]]|].
        eapply qrel_trans; [split; [exact S2|split; [exact Kn2|exact R2r]]|exact R3].
      * left. destruct R3 as (_ & _ & _ & _ & _ & _ & Mono).
        (* everything asked for has been dropped: the rest of the loop changes nothing *)
        assert (Z : drop - N.of_nat (length dl) = 0) by (rewrite Hlen; unfold k; lia).
        assert (E : trunc_queue_loop p2 rest (drop - N.of_nat (length dl)) = p2).
        { rewrite Z. destruct rest; reflexivity. }
        rewrite E. rewrite <- C1 in Hc. rewrite Hlen in *. clear -N2 Hc. unfold k in *. lia.
Qed.

Lemma truncate_queue_ok p ord :
  SC p -> KN p ->
  let p' := truncate_queue p ord in
  QRel p p' /\ (queued_count p' <= global_queue (cfg p) \/ forall a, is_local p a = false -> qlen p' a = 0).
Proof.
  intros S K. unfold truncate_queue.
  destruct (N.leb (queued_count p) (global_queue (cfg p))) eqn:Le.
  { cbn zeta. split; [apply qrel_refl; auto|]. left. clear -Le. lia. }
  set (cands := filter (fun a => negb (is_local p a)) (order_by ord (akeys (queue p)))).
  set (sorted := isort (fun a b => N.leb (beat_of p a) (beat_of p b)) cands).
  assert (Pc : Permutation (rev sorted) cands).
  { eapply Permutation_trans; [symmetry; apply Permutation_rev|apply isort_perm]. }
  assert (Nd : NoDup (rev sorted)).
  { eapply Permutation_NoDup; [symmetry; exact Pc|]. apply NoDup_filter, order_by_nodup. }
  assert (Hk : forall a, In a (rev sorted) -> In a (akeys (queue p))).
  { intros a Ha. apply (Permutation_in _ Pc) in Ha. apply filter_In in Ha as [Ha _]. apply in_order_by in Ha. auto. }
  destruct (trunc_queue_loop_ok (global_queue (cfg p)) (rev sorted) p (queued_count p - global_queue (cfg p)) S K Nd Hk) as (R & P).
  { clear -Le. lia. }
  cbn zeta in *. split; auto. destruct P as [P|P]; auto. right. intros a Hl.
  destruct (in_dec N.eq_dec a (akeys (queue p))) as [Hin|Hin].
  - apply P. apply (Permutation_in _ (Permutation_sym Pc)). apply filter_In. split; [apply in_order_by; auto|].
    rewrite Hl. auto.
  - destruct R as (_ & _ & _ & _ & _ & _ & Mono). specialize (Mono a).
    assert (qlen p a = 0) by (apply len_at_notin; auto). clear -Mono H. lia.
Qed.

(* ---- the panic flag is only touched by the truncations and the tail --------- *)
Lemma pn_all_remove_list rm : forall p, panicked (all_remove_list p rm) = panicked p.
Proof. unfold all_remove_list. induction rm; intro p; cbn; auto. rewrite IHrm. auto. Qed.
Lemma pn_enqueue p t : panicked (snd (enqueue_tx p t)) = panicked p.
Proof.
  unfold enqueue_tx. destruct (l_add _ t _) as [[ins old] q']. destruct ins; cbn [negb snd]; auto.
  destruct old; destruct (all_get _ _); auto.
Qed.
Lemma pn_enqueue_all l : forall p, panicked (enqueue_all p l) = panicked p.
Proof. unfold enqueue_all. induction l; intro p; cbn; auto. rewrite IHl. apply pn_enqueue. Qed.
Lemma pn_remove_tx p id : panicked (remove_tx p id) = panicked p.
Proof.
  unfold remove_tx. destruct (all_get p id) as [t|]; auto.
  cbn [pending queue all_remove set_all].
  destruct (aget (pending p) (t_from t)) as [pl|].
  - destruct (l_remove pl t) as [[removed invalids] pl']. destruct removed.
    + cbn [panicked set_pnonces]. rewrite pn_enqueue_all. destruct (l_empty pl'); auto.
    + destruct (aget (queue p) (t_from t)) as [ql|]; auto.
      destruct (l_remove ql t) as [[ok inv] ql']. destruct (l_empty ql'); auto.
  - destruct (aget (queue p) (t_from t)) as [ql|]; auto.
    destruct (l_remove ql t) as [[ok inv] ql']. destruct (l_empty ql'); auto.
Qed.
Lemma pn_remove_txs l : forall p, panicked (remove_txs p l) = panicked p.
Proof. unfold remove_txs. induction l; intro p; cbn; auto. rewrite IHl. apply pn_remove_tx. Qed.
Lemma pn_add_tx p t local : panicked (snd (add_tx p t local)) = panicked p.
Proof.
  unfold add_tx. destruct (all_get p (t_id t)); auto.
  destruct (negb _); auto.
  match goal with |- context [if ?c then (false, E_underpriced, p) else _] => destruct c end; auto.
  match goal with |- context [if ?c then remove_txs p ?l else p] => set (p1 := if c then remove_txs p l else p) end.
  assert (F1 : panicked p1 = panicked p) by (unfold p1; match goal with |- panicked (if ?c then _ else _) = _ => destruct c end; auto; apply pn_remove_txs).
  destruct (match aget (pending p1) (t_from t) with Some l => if l_overlaps l t then Some l else None | None => None end) as [l|].
  - destruct (l_add l t _) as [[ins old] l']. destruct ins; cbn [negb snd]; auto. destruct old; auto.
  - pose proof (pn_enqueue p1 t) as H. destruct (enqueue_tx p1 t) as [[replaced e] p2]. cbn [snd] in H.
    destruct (negb _); cbn [snd]; [congruence|]. destruct (local && _); cbn [snd]; cbn; congruence.
Qed.
Lemma pn_add_txs_locked l local : forall p, panicked (snd (add_txs_locked p l local)) = panicked p.
Proof.
  induction l as [|t r IH]; intro p; cbn [add_txs_locked]; auto.
  pose proof (pn_add_tx p t local) as H. destruct (add_tx p t local) as [[rep e] p1]. cbn [snd] in H.
  specialize (IH p1). destruct (add_txs_locked p1 r local) as [[errs d] p2]. cbn [snd] in *. congruence.
Qed.
Lemma pn_promote_tx p a t : panicked (snd (promote_tx p a t)) = panicked p.
Proof.
  unfold promote_tx. destruct (l_add _ t _) as [[ins old] l']. destruct ins; cbn [negb snd]; auto.
  destruct old; destruct (all_get _ _); auto.
Qed.
Lemma pn_promote_account p a : panicked (promote_account p a) = panicked p.
Proof.
  unfold promote_account. destruct (aget (queue p) a) as [l|]; auto.
  destruct (l_forward l _) as [fw l1]. destruct (l_filter l1 _ _) as [[drops inv] l2].
  destruct (l_ready l2 _) as [readies l3].
  match goal with |- context [fold_left ?f readies ?q] => set (p4 := fold_left f readies q) end.
  assert (F4 : panicked p4 = panicked p).
  { unfold p4. match goal with |- panicked (fold_left ?f readies ?q) = _ =>
      assert (G : forall rs q0, panicked (fold_left f rs q0) = panicked q0)
        by (induction rs; intro q0; cbn [fold_left]; auto; rewrite IHrs; apply pn_promote_tx);
      rewrite G end. cbn [panicked put_q set_queue]. rewrite pn_all_remove_list. cbn [panicked put_q set_queue].
    rewrite pn_all_remove_list. auto. }
  destruct (if negb (is_local p4 a) then l_cap l3 _ else ([], l3)) as [caps l5].
  destruct (l_empty l5); cbn [panicked set_queue]; rewrite pn_all_remove_list; auto.
Qed.
Lemma pn_demote_account p a : panicked (demote_account p a) = panicked p.
Proof.
  unfold demote_account. destruct (aget (pending p) a) as [l|]; auto.
  destruct (l_forward l _) as [olds l1]. destruct (l_filter l1 _ _) as [[drops inv] l2].
  destruct (if _ && _ then l_cap l2 0 else ([], l2)) as [gapped l3].
  match goal with |- panicked (match ?X with pair _ _ => _ end) = _ => destruct X as [[gapped2 l4] seen] end.
  assert (E : forall q, panicked (if seen then set_gap_seen q else q) = panicked q) by (intro q; destruct seen; auto).
  destruct (l_empty l4); cbn [panicked set_beats set_pending]; rewrite pn_enqueue_all; cbn [panicked put_p set_pending];
    rewrite E, pn_enqueue_all; cbn [panicked put_p set_pending]; rewrite pn_enqueue_all, pn_all_remove_list;
    cbn [panicked put_p set_pending]; rewrite pn_all_remove_list; auto.
Qed.
Lemma pn_fold (f : pool -> N -> pool) : (forall p a, panicked (f p a) = panicked p) -> forall l p, panicked (fold_left f l p) = panicked p.
Proof. intros H l. induction l; intro p; cbn; auto. rewrite IHl. apply H. Qed.
Lemma pn_reset p old new : panicked (reset p old new) = panicked p.
Proof.
  unfold reset. destruct (reset_reinject _ old new) as [re|]; auto. destruct (h_state new) as [s|]; auto.
  pose proof (pn_add_txs_locked re false (set_head_state p s (h_gaslimit new))) as H.
  destruct (add_txs_locked _ re false) as [[e d] p']. cbn [snd] in H. rewrite H. auto.
Qed.

(* ---- tail of runReorg ----------------------------------------------------------- *)
Lemma fix_nonce_total p a :
  SC p -> KN p ->
  let p' := fix_nonce p a in
  KN p' /\ panicked p' = panicked p /\ queue p' = queue p /\ locals p' = locals p /\ cfg p' = cfg p /\
  (forall b, pend_len p' b = pend_len p b) /\ pending_count p' = pending_count p.
Proof.
  intros S K. unfold fix_nonce. destruct (aget (pending p) a) as [l|] eqn:G; [|cbn zeta; split; [exact K|]; repeat split; auto].
  destruct (l_flatten l) as [flat l'] eqn:F.
  destruct (capok_flatten _ _ _ F (proj1 (proj2 S) _ _ G)) as [_ Hf].
  destruct (l_flatten_items _ _ _ F) as (I & _).
  assert (Ne : NEl l) by (eapply K; eauto).
  assert (Ll : l_len l' = l_len l) by (unfold l_len, sm_len; fold (litems l') (litems l); rewrite I; auto).
  assert (Kp : KN (put_p p a l')) by (apply kn_put_p; auto; unfold NEl; rewrite I; auto).
  assert (Pl : forall b, pend_len (put_p p a l') b = pend_len p b).
  { intro b. unfold pend_len. cbn [pending put_p set_pending]. rewrite aget_aset. eqb_cases a b; auto. rewrite G. auto. }
  assert (Pc : pending_count (put_p p a l') = pending_count p).
  { change (msum (aset (pending p) a l') = msum (pending p)).
    pose proof (msum_aset (pending p) a l' (proj1 K)) as Hs. unfold len_at in Hs. rewrite G in Hs. lia. }
  destruct (rev flat) as [|t d] eqn:Er.
  - exfalso. apply Ne. apply (f_equal (@rev tx)) in Er. rewrite rev_involutive in Er. cbn in Er.
    destruct (litems l) as [|y ys] eqn:El; auto.
    rewrite Hf in Er. assert (Hin : In y (sort_nonce (y :: ys))) by (apply sort_nonce_in; left; auto). rewrite Er in Hin. destruct Hin.
  - cbn zeta. split; [apply (kn_ext (put_p p a l')); auto|]. repeat split; auto.
Qed.

Lemma fix_fold_total L : forall p,
  SC p -> KN p ->
  let p' := fold_left fix_nonce L p in
  SC p' /\ KN p' /\ panicked p' = panicked p /\ queue p' = queue p /\ locals p' = locals p /\ cfg p' = cfg p /\
  (forall b, pend_len p' b = pend_len p b) /\ pending_count p' = pending_count p.
Proof.
  induction L as [|a r IH]; intros p S K; cbn [fold_left]; [split; [exact S|]; split; [exact K|]; repeat split; auto|].
  destruct (fix_nonce_total p a S K) as (K1 & P1 & Q1 & L1 & C1 & Pl1 & Pc1).
  destruct (IH _ (sc_fix_nonce p a S) K1) as (S2 & K2 & P2 & Q2 & L2 & C2 & Pl2 & Pc2).
  cbn zeta in *. split; auto. split; auto. repeat split; try congruence; try (intro b; rewrite Pl2; apply Pl1).
Qed.

Lemma kn_fold (f : pool -> N -> pool) : (forall p a, KN p -> KN (f p a)) -> forall l p, KN p -> KN (fold_left f l p).
Proof. intros H l. induction l; intros p K; cbn; auto. Qed.

(* ---- what every runReorg critical section guarantees ---------------------------- *)
Definition limits_after_reorg (p : pool) : Prop :=
  (pending_count p <= global_slots (cfg p) \/
   forall a, is_local p a = false -> pend_len p a <= account_slots (cfg p)) /\
  (queued_count p <= global_queue (cfg p) \/
   forall a, is_local p a = false -> qlen p a = 0).

Lemma is_local_eq p p' a : locals p' = locals p -> is_local p' a = is_local p a.
Proof. unfold is_local. intros ->. auto. Qed.

Lemma tail_total q ord :
  SC q -> KN q -> 1 <= account_slots (cfg q) ->
  let p' := fold_left fix_nonce (order_by ord (akeys (pending (truncate_queue (truncate_pending q ord) ord))))
                      (truncate_queue (truncate_pending q ord) ord) in
  KN p' /\ panicked p' = panicked q /\ cfg p' = cfg q /\ limits_after_reorg p'.
Proof.
  intros Sq Kq Has'.
  destruct (truncate_pending_ok q ord (proj1 Sq) Kq Has') as (R3 & _ & L3).
  pose proof (sc_truncate_pending q ord Sq) as S3.
  set (p3 := truncate_pending q ord) in *.
  destruct R3 as (_ & K3 & C3 & Lo3 & P3 & _ & _).
  destruct (truncate_queue_ok p3 ord S3 K3) as (R4 & L4).
  set (p4 := truncate_queue p3 ord) in *.
  destruct R4 as (S4 & K4 & Pe4 & C4 & Lo4 & P4 & _).
  destruct (fix_fold_total (order_by ord (akeys (pending p4))) p4 S4 K4) as (S5 & K5 & P5 & Q5 & Lo5 & C5 & Pl5 & Pc5).
  assert (Ec4 : pending_count p4 = pending_count p3) by (unfold pending_count; rewrite Pe4; auto).
  assert (El4 : forall a, pend_len p4 a = pend_len p3 a) by (intro a; unfold pend_len; rewrite Pe4; auto).
  cbn zeta in *. split; auto. split; [congruence|]. split; [congruence|].
  split.
  - rewrite Pc5, C5, C4, C3, Ec4.
    destruct L3 as [L3|L3]; [left; auto|]. right. intros a Hl. rewrite Pl5, El4.
    apply L3. rewrite <- Hl. symmetry. apply is_local_eq. congruence.
  - rewrite C5, C4. unfold queued_count, qlen. rewrite Q5.
    destruct L4 as [L4|L4]; [left; auto|]. right. intros a Hl. apply L4.
    rewrite <- Hl. symmetry. apply is_local_eq. congruence.
Qed.

Lemma run_reorg_total p rs dirty ord :
  SC p -> KN p -> 1 <= account_slots (cfg p) ->
  let p' := run_reorg p rs dirty ord in
  KN p' /\ panicked p' = panicked p /\ limits_after_reorg p'.
Proof.
  intros S K Has. destruct rs as [[old new]|].
  - set (q := demote_unexecutables (promote_executables (reset p old new) (order_by ord (akeys (queue (reset p old new))))) ord).
    assert (Kr : KN (reset p old new)).
    { unfold reset. destruct (reset_reinject _ old new) as [re|]; auto. destruct (h_state new) as [s|]; auto.
      pose proof (kn_add_txs_locked re false (set_head_state p s (h_gaslimit new))) as H.
      destruct (add_txs_locked _ re false) as [[e d] p1]. cbn [snd] in H. apply H. apply (kn_ext p); auto. }
    assert (Sq : SC q) by (apply sc_demote_unexecutables, sc_promote_executables, sc_reset; auto).
    assert (Kq : KN q).
    { apply kn_fold; [intros; apply kn_demote_account; auto|]. apply kn_fold; [intros; apply kn_promote_account; auto|auto]. }
    assert (Pq : panicked q = panicked p).
    { unfold q, demote_unexecutables, promote_executables. rewrite (pn_fold _ pn_demote_account), (pn_fold _ pn_promote_account).
      apply pn_reset. }
    assert (Cq : cfg q = cfg p).
    { unfold q, demote_unexecutables, promote_executables.
      match goal with |- cfg (fold_left demote_account ?L ?X) = _ => destruct (fr_fold _ fr_demote_account L X) as [E1 _] end.
      destruct (fr_fold _ fr_promote_account (order_by ord (akeys (queue (reset p old new)))) (reset p old new)) as [E2 _].
      destruct (fr_reset p old new) as [E3 _]. congruence. }
    assert (Has' : 1 <= account_slots (cfg q)) by (rewrite Cq; auto).
    destruct (tail_total q ord Sq Kq Has') as (A & B & C & D).
    split; [exact A|]. split; [rewrite <- Pq; exact B|exact D].
  - set (q := promote_executables p (match dirty with Some d => order_by ord d | None => [] end)).
    assert (Sq : SC q) by (apply sc_promote_executables; auto).
    assert (Kq : KN q) by (apply kn_fold; [intros; apply kn_promote_account; auto|auto]).
    assert (Pq : panicked q = panicked p) by (unfold q, promote_executables; apply (pn_fold _ pn_promote_account)).
    assert (Cq : cfg q = cfg p) by (unfold q, promote_executables; apply (fr_fold _ fr_promote_account)).
    assert (Has' : 1 <= account_slots (cfg q)) by (rewrite Cq; auto).
    destruct (tail_total q ord Sq Kq Has') as (A & B & C & D).
    split; [exact A|]. split; [rewrite <- Pq; exact B|exact D].
Qed.

(* ---- every op: the map invariants survive and nothing panics --------------------- *)
Lemma kn_flatten_p p a l flat l' : KN p -> aget (pending p) a = Some l -> l_flatten l = (flat, l') -> KN (put_p p a l').
Proof.
  intros K G F. apply kn_put_p; auto. destruct (l_flatten_items _ _ _ F) as (I & _). unfold NEl. rewrite I. eapply K; eauto.
Qed.

Lemma total_step p o :
  SC p -> KN p -> 1 <= account_slots (cfg p) ->
  KN (fst (step p o)) /\ panicked (fst (step p o)) = panicked p.
Proof.
  intros S K Has. destruct o; cbn [step].
  - cbn [fst]. split; [apply (kn_ext p); auto|auto].
  - pose proof (kn_add_txs_locked l (eff_local p local) p K) as K1.
    pose proof (pn_add_txs_locked l (eff_local p local) p) as P1.
    pose proof (sc_add_txs_locked p l (eff_local p local) S) as S1.
    pose proof (fr_add_txs_locked l (eff_local p local) p) as [C1 _].
    destruct (add_txs_locked p l (eff_local p local)) as [[e d] p1]. cbn [fst snd] in *.
    destruct (run_reorg_total p1 None (Some d) ord S1 K1) as (K2 & P2 & _); [rewrite C1; auto|].
    split; auto. congruence.
  - pose proof (kn_add_txs_locked l (eff_local p local) p K) as K1.
    pose proof (pn_add_txs_locked l (eff_local p local) p) as P1.
    destruct (add_txs_locked p l (eff_local p local)) as [[e d] p1]. cbn [fst snd] in *. auto.
  - cbn [fst]. destruct (run_reorg_total p rs dirty ord S K Has) as (K2 & P2 & _). auto.
  - cbn [fst]. unfold set_price. split; [apply kn_remove_txs, (kn_ext p); auto|]. rewrite pn_remove_txs. auto.
  - cbn [fst]. unfold evict.
    assert (G : forall keys q, KN q -> KN (fold_left (evict_account expired) keys q) /\
                                     panicked (fold_left (evict_account expired) keys q) = panicked q).
    { induction keys as [|a r IH]; intros q Kq; cbn [fold_left]; auto.
      assert (H : KN (evict_account expired q a) /\ panicked (evict_account expired q a) = panicked q).
      { unfold evict_account. destruct (is_local q a); auto. destruct (existsb _ expired); auto.
        destruct (aget (queue q) a) as [l0|]; auto. destruct (l_flatten l0) as [flat l'].
        split; [apply kn_remove_txs, kn_put_q; auto|]. rewrite pn_remove_txs. auto. }
      destruct H as [H1 H2]. destruct (IH _ H1) as [H3 H4]. split; auto. congruence. }
    apply G. auto.
  - cbn [fst]. split; [apply kn_remove_tx; auto|apply pn_remove_tx].
  - unfold pending_view.
    assert (G : forall keys out q, KN q ->
       let r := fold_left (fun acc a =>
               let '(out, p) := acc in
               match aget (pending p) a with
               | None => (out, p)
               | Some l => let '(flat, l') := l_flatten l in
                           (out ++ [(a, flat)], set_pending p (aset (pending p) a l'))
               end) keys (out, q) in KN (snd r) /\ panicked (snd r) = panicked q).
    { induction keys as [|a r IH]; intros out q Kq; cbn [fold_left]; auto.
      destruct (aget (pending q) a) as [l0|] eqn:G0; [|apply IH; auto].
      destruct (l_flatten l0) as [flat l'] eqn:F.
      destruct (IH (out ++ [(a, flat)]) (set_pending q (aset (pending q) a l'))) as [H1 H2]; auto.
      eapply (kn_flatten_p q); eauto. }
    specialize (G (akeys (pending p)) [] p K). cbn zeta in G.
    destruct (fold_left _ (akeys (pending p)) ([], p)) as [v p']. cbn [fst snd] in *. auto.
Qed.

Lemma total_run ops : forall p,
  SC p -> KN p -> 1 <= account_slots (cfg p) ->
  KN (run p ops) /\ panicked (run p ops) = panicked p /\ cfg (run p ops) = cfg p.
Proof.
  unfold run. induction ops as [|o r IH]; intros p S K Has; cbn [fold_left]; auto.
  destruct (total_step p o S K Has) as [K1 P1]. destruct (fr_step p o) as [C1 _].
  destruct (IH _ (sc_step p o S) K1) as (K2 & P2 & C2); [rewrite C1; auto|].
  split; auto. split; congruence.
Qed.

Lemma total_new_pool c g : KN (new_pool c g) /\ panicked (new_pool c g) = false /\ cfg (new_pool c g) = c.
Proof.
  unfold new_pool.
  set (p0 := mkPool c (price_limit c) [] (mkNoncer [] []) 0 (cfg_locals c) [] [] [] [] 1 [g] false false).
  assert (K0 : KN p0) by (split; [constructor|split; [constructor|intros a l H; discriminate]]).
  split; [|split].
  - unfold reset. destruct (reset_reinject _ None (b_hdr g)) as [re|]; auto. destruct (h_state (b_hdr g)) as [s|]; auto.
    pose proof (kn_add_txs_locked re false (set_head_state p0 s (h_gaslimit (b_hdr g)))) as H.
    destruct (add_txs_locked _ re false) as [[e d] p1]. cbn [snd] in H. apply H. apply (kn_ext p0); auto.
  - rewrite pn_reset. reflexivity.
  - destruct (fr_reset p0 None (b_hdr g)) as [E _]. rewrite E. reflexivity.
Qed.

(* on every history from a pool constructed by NewTxPool with a sanitised
   configuration the model never takes a branch where Go would panic *)
Lemma never_panics c g ops :
  1 <= account_slots c -> panicked (run (new_pool c g) ops) = false.
Proof.
  intro Has. destruct (total_new_pool c g) as (K & P & C).
  destruct (total_run ops (new_pool c g) (sc_new_pool c g) K) as (_ & P2 & _); [rewrite C; auto|]. congruence.
Qed.

Lemma limits_hold c g ops rs dirty ord :
  1 <= account_slots c ->
  limits_after_reorg (run_reorg (run (new_pool c g) ops) rs dirty ord).
Proof.
  intro Has. destruct (total_new_pool c g) as (K & P & C).
  destruct (total_run ops (new_pool c g) (sc_new_pool c g) K) as (K2 & _ & C2); [rewrite C; auto|].
  apply run_reorg_total; auto.
  - apply sc_run, sc_new_pool.
  - rewrite C2, C. auto.
Qed.

(* ---- AccountQueue: the accounts a runReorg promotes ------------------------------ *)
Lemma qlen_lst p a : qlen p a = N.of_nat (length (lst (queue p) a)).
Proof. unfold qlen, len_at, lst. destruct (aget (queue p) a); auto. Qed.

Lemma locals_promote_account p a : locals (promote_account p a) = locals p.
Proof.
  unfold promote_account. destruct (aget (queue p) a) as [l|]; auto.
  destruct (l_forward l _) as [fw l1]. destruct (l_filter l1 _ _) as [[drops inv] l2].
  destruct (l_ready l2 _) as [readies l3].
  match goal with |- context [fold_left ?f readies ?q] => set (p4 := fold_left f readies q) end.
  assert (F4 : locals p4 = locals p).
  { unfold p4. match goal with |- locals (fold_left ?f readies ?q) = _ =>
      assert (G : forall rs q0, locals (fold_left f rs q0) = locals q0) end.
    { induction rs as [|t r IH]; intro q0; cbn [fold_left]; auto. rewrite IH.
      unfold promote_tx. destruct (l_add _ t _) as [[ins old] l']. destruct ins; cbn [negb snd]; auto.
      destruct old; destruct (all_get _ _); auto. }
    rewrite G. cbn [locals put_q set_queue].
    destruct (sr_all_remove_list drops (put_q (all_remove_list (put_q p a l1) fw) a l2)) as (_ & _ & _ & _ & E1 & _).
    rewrite E1. cbn [locals put_q set_queue].
    destruct (sr_all_remove_list fw (put_q p a l1)) as (_ & _ & _ & _ & E2 & _). rewrite E2. auto. }
  destruct (if negb (is_local p4 a) then l_cap l3 _ else ([], l3)) as [caps l5].
  destruct (sr_all_remove_list caps (put_q p4 a l5)) as (_ & _ & _ & _ & E5 & _).
  destruct (l_empty l5); cbn [locals set_queue]; rewrite E5; auto.
Qed.

Lemma qlen_after_promote p a :
  SC p -> is_local p a = false -> qlen (promote_account p a) a <= account_queue (cfg p).
Proof.
  intros [W C] Hl. unfold promote_account.
  destruct (aget (queue p) a) as [l|] eqn:G; [|unfold qlen, len_at; rewrite G; lia].
  pose proof (uniq_of_ws_q _ _ _ W G) as Ul.
  destruct (l_forward l _) as [fw l1] eqn:F. destruct (l_forward_uniq _ _ _ _ Ul F) as [_ Ul1].
  destruct (l_filter l1 _ _) as [[drops inv] l2] eqn:Fi. destruct (l_filter_uniq _ _ _ _ _ _ Ul1 Fi) as (_ & _ & Ul2).
  destruct (l_ready l2 _) as [readies l3] eqn:R. destruct (l_ready_uniq _ _ _ _ Ul2 R) as [_ Ul3].
  match goal with |- context [fold_left ?f readies ?q] => set (p4 := fold_left f readies q) end.
  assert (L4 : is_local p4 a = false /\ cfg p4 = cfg p).
  { assert (E : locals p4 = locals p /\ cfg p4 = cfg p).
    { unfold p4. match goal with |- locals (fold_left ?f readies ?q) = _ /\ _ =>
        assert (Gf : forall rs q0, locals (fold_left f rs q0) = locals q0 /\ cfg (fold_left f rs q0) = cfg q0) end.
      { induction rs as [|t r IH]; intro q0; cbn [fold_left]; auto. destruct (IH (snd (promote_tx q0 a t))) as [A B]. rewrite A, B.
        unfold promote_tx. destruct (l_add _ t _) as [[ins old] l']. destruct ins; cbn [negb snd]; auto.
        destruct old; destruct (all_get _ _); auto. }
      destruct (Gf readies (put_q (all_remove_list (put_q (all_remove_list (put_q p a l1) fw) a l2) drops) a l3)) as [A B].
      rewrite A, B. cbn [locals cfg put_q set_queue].
      destruct (sr_all_remove_list drops (put_q (all_remove_list (put_q p a l1) fw) a l2)) as (E0 & _ & _ & _ & E1 & _).
      rewrite E1, E0. cbn [locals cfg put_q set_queue].
      destruct (sr_all_remove_list fw (put_q p a l1)) as (E3 & _ & _ & _ & E2 & _). rewrite E2, E3. auto. }
    destruct E as [E1 E2]. split; auto. rewrite <- Hl. apply is_local_eq. auto. }
  destruct L4 as [L4 C4]. rewrite L4. cbn [negb].
  destruct (l_cap l3 (N.to_nat (account_queue (cfg p4)))) as [caps l5] eqn:Cp.
  pose proof (l_cap_spec _ _ _ _ Ul3 Cp) as (_ & _ & _ & Len).
  assert (Ll : l_len l5 <= account_queue (cfg p)).
  { unfold l_len, sm_len. fold (litems l5). rewrite Len, C4. lia. }
  destruct (all_remove_list_fields caps (put_q p4 a l5)) as (_ & Q5 & _).
  destruct (l_empty l5).
  - unfold qlen, len_at. cbn [queue set_queue]. rewrite aget_adel_eq. lia.
  - unfold qlen, len_at. rewrite Q5. cbn [queue put_q set_queue]. rewrite aget_aset_eq. auto.
Qed.

Lemma promote_fold_aq L : forall p,
  SC p ->
  let p' := promote_executables p L in
  locals p' = locals p /\
  forall b, is_local p b = false -> In b L \/ qlen p b <= account_queue (cfg p) -> qlen p' b <= account_queue (cfg p).
Proof.
  unfold promote_executables. induction L as [|a r IH]; intros p S; cbn [fold_left].
  - split; auto. intros b _ [[]|H]; auto.
  - destruct (promote_account_effect p a (proj1 S) (proj2 S)) as (_ & _ & _ & Fr & _).
    pose proof (locals_promote_account p a) as Lo. destruct (fr_promote_account p a) as [Cf _].
    destruct (IH _ (sc_promote_account p a S)) as (Lo2 & Q2). cbn zeta in *. rewrite Cf in Q2.
    split; [congruence|]. intros b Hl Hb. apply Q2; [rewrite <- Hl; apply is_local_eq; auto|].
    destruct (N.eq_dec b a) as [->|Hn].
    + right. apply qlen_after_promote; auto.
    + destruct Hb as [[Hb|Hb]|Hb]; [congruence|auto|]. right.
      destruct (Fr b Hn) as (_ & Eq & _). rewrite qlen_lst, Eq, <- qlen_lst. auto.
Qed.

(* after the reorg run that follows a submission (no reset), the remote
   accounts it promoted queue at most AccountQueue transactions *)
Lemma account_queue_after_submit p d ord :
  SC p -> KN p -> 1 <= account_slots (cfg p) ->
  let p' := run_reorg p None (Some d) ord in
  forall a, In a d -> is_local p' a = false -> qlen p' a <= account_queue (cfg p).
Proof.
  intros S K Has. cbn zeta. intros a Ha. unfold run_reorg.
  set (q := promote_executables p (order_by ord d)).
  destruct (promote_fold_aq (order_by ord d) p S) as (Lq & Qq). fold q in Lq, Qq.
  assert (Sq : SC q) by (apply sc_promote_executables; auto).
  assert (Kq : KN q) by (apply kn_fold; [intros; apply kn_promote_account; auto|auto]).
  assert (Cq : cfg q = cfg p) by (unfold q, promote_executables; apply (fr_fold _ fr_promote_account)).
  destruct (truncate_pending_ok q ord (proj1 Sq) Kq) as (R3 & _ & _); [rewrite Cq; auto|].
  pose proof (sc_truncate_pending q ord Sq) as S3.
  set (p3 := truncate_pending q ord) in *.
  destruct R3 as (_ & K3 & C3 & Lo3 & _ & Q3 & _).
  destruct (truncate_queue_ok p3 ord S3 K3) as (R4 & _).
  set (p4 := truncate_queue p3 ord) in *.
  destruct R4 as (S4 & K4 & _ & C4 & Lo4 & _ & Mono4).
  destruct (fix_fold_total (order_by ord (akeys (pending p4))) p4 S4 K4) as (_ & _ & _ & Q5 & Lo5 & _).
  cbn zeta in *. intro Hl.
  assert (Hlp : is_local p a = false).
  { rewrite <- Hl. symmetry. apply is_local_eq. congruence. }
  unfold qlen at 1. rewrite Q5. fold (qlen p4 a). specialize (Mono4 a).
  assert (qlen p3 a = qlen q a) by (unfold qlen; rewrite Q3; auto).
  assert (qlen q a <= account_queue (cfg p)) by (apply Qq; auto; left; apply in_order_by; auto).
  lia.
Qed.

Lemma account_queue_holds c g ops d ord :
  1 <= account_slots c ->
  let p' := run_reorg (run (new_pool c g) ops) None (Some d) ord in
  forall a, In a d -> is_local p' a = false -> qlen p' a <= account_queue c.
Proof.
  intro Has. destruct (total_new_pool c g) as (K & P & C).
  destruct (total_run ops (new_pool c g) (sc_new_pool c g) K) as (K2 & _ & C2); [rewrite C; auto|].
  cbn zeta. intros a Ha Hl.
  assert (Sr : SC (run (new_pool c g) ops)) by apply sc_run, sc_new_pool.
  assert (Hr : 1 <= account_slots (cfg (run (new_pool c g) ops))) by (rewrite C2, C; auto).
  pose proof (account_queue_after_submit _ d ord Sr K2 Hr a Ha Hl) as H. rewrite C2, C in H. exact H.
Qed.

(* ---- an accepted transaction is pooled -------------------------------------------- *)
Lemma add_ok_is_pooled p t local rep p' :
  WS p -> add_tx p t local = (rep, E_ok, p') ->
  In t (all p') /\ (In t (lst (pending p') (t_from t)) \/ In t (lst (queue p') (t_from t))).
Proof.
  intros W H.
  assert (Wp' : WF p').
  { pose proof (wf_add_tx p t local (proj1 W) (proj2 W)) as X. rewrite H in X. apply X. }
  assert (Hin : In t (all p')); [|split; auto; destruct (w_cover _ _ Wp' t Hin) as [|[|[]]]; auto].
  revert H. unfold add_tx.
  destruct (all_get p (t_id t)) eqn:G; [intro H; inversion H|].
  destruct (negb (N.eqb (validate_tx p t local) E_ok)) eqn:V; [intro H; inversion H as [[H1 H2 H3]]; rewrite H2 in V; discriminate|].
  match goal with |- context [if ?c then (false, E_underpriced, p) else _] => destruct c end; [intro H; inversion H|].
  match goal with |- context [if ?c then remove_txs p ?l else p] => set (p1 := if c then remove_txs p l else p) end.
  assert (W1 : WS p1) by (unfold p1; match goal with |- WS (if ?c then _ else _) => destruct c end; auto; apply ws_remove_txs; auto).
  assert (Fr1 : forall x, In x (all p1) -> t_id x <> t_id t).
  { intros x Hx. eapply all_get_none; eauto. unfold p1 in Hx.
    match type of Hx with In x (all (if ?c then _ else _)) => destruct c end; auto.
    match type of Hx with In x (all (remove_txs p ?l)) => destruct (wf_remove_txs l p (proj1 W) (proj2 W)) as (_ & _ & Sub) end. apply Sub in Hx. auto. }
  destruct (match aget (pending p1) (t_from t) with Some l => if l_overlaps l t then Some l else None | None => None end) as [l|] eqn:OV.
  - destruct (l_add l t _) as [[ins old] l']. destruct ins; cbn [negb]; [|intro H; inversion H].
    intro H. inversion H; subst. apply all_add_in. auto.
  - assert (Np : forall x, In x (lst (pending p1) (t_from t)) -> t_nonce x <> t_nonce t).
    { unfold lst. destruct (aget (pending p1) (t_from t)) as [l0|] eqn:GP; [|intros x []].
      destruct (l_overlaps l0 t) eqn:O; [discriminate|]. unfold l_overlaps in O.
      destruct (sm_get (txs l0) (t_nonce t)) eqn:GO; [discriminate|]. intros x Hx. eapply sm_get_none; eauto. }
    pose proof (wf_enqueue_new p1 t (proj1 W1) (proj2 W1) Fr1 Np) as X.
    destruct (enqueue_tx p1 t) as [[replaced e] p2]. destruct X as (W2 & _ & _ & _ & Q2 & _).
    destruct (negb (N.eqb e E_ok)) eqn:Ee; [intro H; inversion H; subst; discriminate|].
    apply negb_false_iff, N.eqb_eq in Ee. subst e.
    assert (In t (all p2)).
    { eapply (w_qall _ _ W2 (t_from t)). apply (Q2 eq_refl). auto. }
    destruct (local && _); intro H0; inversion H0; subst; auto.
Qed.
