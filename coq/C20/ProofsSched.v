(* C20 - the scheduler's request merging; the head state the pool works on is
   only ever changed by reset. *)
From VF.C20 Require Import Model Spec Lemmas ProofsWF ProofsWF2 ProofsWF3 ProofsCaps ProofsNonce ProofsNonce2 ProofsNonce3 ProofsNonce4 ProofsNonce5 ProofsTotal.
From Coq Require Import Arith Lia ZifyBool ZifyN ZifyNat Permutation Sorted.
Local Open Scope N_scope.

(* ---- cur_state is only touched by reset --------------------------------------- *)
Lemma cs_all_remove_list rm : forall p, cur_state (all_remove_list p rm) = cur_state p.
Proof. unfold all_remove_list. induction rm; intro p; cbn; auto. rewrite IHrm. auto. Qed.
Lemma cs_enqueue p t : cur_state (snd (enqueue_tx p t)) = cur_state p.
Proof.
  unfold enqueue_tx. destruct (l_add _ t _) as [[ins old] q']. destruct ins; cbn [negb snd]; auto.
  destruct old; destruct (all_get _ _); auto.
Qed.
Lemma cs_enqueue_all l : forall p, cur_state (enqueue_all p l) = cur_state p.
Proof. unfold enqueue_all. induction l; intro p; cbn; auto. rewrite IHl. apply cs_enqueue. Qed.
Lemma cs_remove_tx p id : cur_state (remove_tx p id) = cur_state p.
Proof.
  unfold remove_tx. destruct (all_get p id) as [t|]; auto.
  cbn [pending queue all_remove set_all].
  destruct (aget (pending p) (t_from t)) as [pl|].
  - destruct (l_remove pl t) as [[removed invalids] pl']. destruct removed.
    + cbn [cur_state set_pnonces]. rewrite cs_enqueue_all. destruct (l_empty pl'); auto.
    + destruct (aget (queue p) (t_from t)) as [ql|]; auto.
      destruct (l_remove ql t) as [[ok inv] ql']. destruct (l_empty ql'); auto.
  - destruct (aget (queue p) (t_from t)) as [ql|]; auto.
    destruct (l_remove ql t) as [[ok inv] ql']. destruct (l_empty ql'); auto.
Qed.
Lemma cs_remove_txs l : forall p, cur_state (remove_txs p l) = cur_state p.
Proof. unfold remove_txs. induction l; intro p; cbn; auto. rewrite IHl. apply cs_remove_tx. Qed.
Lemma cs_add_tx p t local : cur_state (snd (add_tx p t local)) = cur_state p.
Proof.
  unfold add_tx. destruct (all_get p (t_id t)); auto.
  destruct (negb _); auto.
  match goal with |- context [if ?c then (false, E_underpriced, p) else _] => destruct c end; auto.
  match goal with |- context [if ?c then remove_txs p ?l else p] => set (p1 := if c then remove_txs p l else p) end.
  assert (F1 : cur_state p1 = cur_state p) by (unfold p1; match goal with |- cur_state (if ?c then _ else _) = _ => destruct c end; auto; apply cs_remove_txs).
  destruct (match aget (pending p1) (t_from t) with Some l => if l_overlaps l t then Some l else None | None => None end) as [l|].
  - destruct (l_add l t _) as [[ins old] l']. destruct ins; cbn [negb snd]; auto. destruct old; auto.
  - pose proof (cs_enqueue p1 t) as H. destruct (enqueue_tx p1 t) as [[replaced e] p2]. cbn [snd] in H.
    destruct (negb _); cbn [snd]; [congruence|]. destruct (local && _); cbn [snd]; cbn; congruence.
Qed.
Lemma cs_add_txs_locked l local : forall p, cur_state (snd (add_txs_locked p l local)) = cur_state p.
Proof.
  induction l as [|t r IH]; intro p; cbn [add_txs_locked]; auto.
  pose proof (cs_add_tx p t local) as H. destruct (add_tx p t local) as [[rep e] p1]. cbn [snd] in H.
  specialize (IH p1). destruct (add_txs_locked p1 r local) as [[errs d] p2]. cbn [snd] in *. congruence.
Qed.
Lemma cs_promote_tx p a t : cur_state (snd (promote_tx p a t)) = cur_state p.
Proof.
  unfold promote_tx. destruct (l_add _ t _) as [[ins old] l']. destruct ins; cbn [negb snd]; auto.
  destruct old; destruct (all_get _ _); auto.
Qed.
Lemma cs_promote_account p a : cur_state (promote_account p a) = cur_state p.
Proof.
  unfold promote_account. destruct (aget (queue p) a) as [l|]; auto.
  destruct (l_forward l _) as [fw l1]. destruct (l_filter l1 _ _) as [[drops inv] l2].
  destruct (l_ready l2 _) as [readies l3].
  match goal with |- context [fold_left ?f readies ?q] => set (p4 := fold_left f readies q) end.
  assert (F4 : cur_state p4 = cur_state p).
  { unfold p4. match goal with |- cur_state (fold_left ?f readies ?q) = _ =>
      assert (G : forall rs q0, cur_state (fold_left f rs q0) = cur_state q0)
        by (induction rs; intro q0; cbn [fold_left]; auto; rewrite IHrs; apply cs_promote_tx);
      rewrite G end. cbn [cur_state put_q set_queue]. rewrite cs_all_remove_list. cbn [cur_state put_q set_queue].
    rewrite cs_all_remove_list. auto. }
  destruct (if negb (is_local p4 a) then l_cap l3 _ else ([], l3)) as [caps l5].
  destruct (l_empty l5); cbn [cur_state set_queue]; rewrite cs_all_remove_list; auto.
Qed.
Lemma cs_demote_account p a : cur_state (demote_account p a) = cur_state p.
Proof.
  unfold demote_account. destruct (aget (pending p) a) as [l|]; auto.
  destruct (l_forward l _) as [olds l1]. destruct (l_filter l1 _ _) as [[drops inv] l2].
  destruct (if _ && _ then l_cap l2 0 else ([], l2)) as [gapped l3].
  match goal with |- cur_state (match ?X with pair _ _ => _ end) = _ => destruct X as [[gapped2 l4] seen] end.
  assert (E : forall q, cur_state (if seen then set_gap_seen q else q) = cur_state q) by (intro q; destruct seen; auto).
  destruct (l_empty l4); cbn [cur_state set_beats set_pending]; rewrite cs_enqueue_all; cbn [cur_state put_p set_pending];
    rewrite E, cs_enqueue_all; cbn [cur_state put_p set_pending]; rewrite cs_enqueue_all, cs_all_remove_list;
    cbn [cur_state put_p set_pending]; rewrite cs_all_remove_list; auto.
Qed.
Lemma cs_fold (f : pool -> N -> pool) : (forall p a, cur_state (f p a) = cur_state p) -> forall l p, cur_state (fold_left f l p) = cur_state p.
Proof. intros H l. induction l; intro p; cbn; auto. rewrite IHl. apply H. Qed.
Lemma cs_shave p a : cur_state (shave p a) = cur_state p.
Proof.
  unfold shave. destruct (aget (pending p) a) as [l|]; auto. destruct (l_empty l); auto.
  destruct (l_cap l _) as [caps l'].
  assert (K : forall q, cur_state (fold_left (fun p t => set_pnonces (all_remove p (t_id t)) (nc_set_if_lower (pnonces p) a (t_nonce t))) caps q) = cur_state q).
  { induction caps; intro q; cbn; auto. rewrite IHcaps. auto. }
  rewrite K. auto.
Qed.
Lemma cs_shave_all l : forall p cnt,
  cur_state (fst (fold_left (fun pc a => (shave (fst pc) a, snd pc - 1)) l (p, cnt))) = cur_state p.
Proof. induction l; intros p cnt; cbn; auto. rewrite IHl. apply cs_shave. Qed.
Lemma cs_equalize fuel : forall p cnt prevs lp th, cur_state (fst (equalize fuel p cnt prevs lp th)) = cur_state p.
Proof.
  induction fuel as [|f IH]; intros p cnt prevs lp th; cbn; auto.
  destruct (_ && _); cbn; auto. rewrite fold_shave_pair, IH. apply cs_shave_all.
Qed.
Lemma cs_trunc_loop1 fuel spammers : forall p cnt offenders,
  cur_state (fst (fst (trunc_loop1 fuel p cnt spammers offenders))) = cur_state p.
Proof.
  induction spammers as [|o rest IH]; intros p cnt offenders; cbn; auto.
  destruct (N.ltb _ cnt); cbn; auto.
  destruct offenders as [|o1 os]; [apply IH|].
  destruct (equalize fuel p cnt (o1 :: os) (last (o1 :: os) 0) (pend_len p o)) as [p' cnt'] eqn:E.
  rewrite IH. pose proof (cs_equalize fuel p cnt (o1 :: os) (last (o1 :: os) 0) (pend_len p o)) as H. rewrite E in H. auto.
Qed.
Lemma cs_trunc_loop2 fuel : forall p cnt offenders, cur_state (fst (trunc_loop2 fuel p cnt offenders)) = cur_state p.
Proof.
  induction fuel as [|f IH]; intros p cnt offenders; cbn; auto.
  destruct (_ && _); cbn; auto. rewrite fold_shave_pair, IH. apply cs_shave_all.
Qed.
Lemma cs_truncate_pending p ord : cur_state (truncate_pending p ord) = cur_state p.
Proof.
  unfold truncate_pending. destruct (N.leb _ _); auto.
  match goal with |- context [trunc_loop1 ?f ?p0 ?c ?s ?o] =>
    pose proof (cs_trunc_loop1 f s p0 c o) as H; destruct (trunc_loop1 f p0 c s o) as [[p1 c1] off] end.
  cbn in H. destruct off; auto. rewrite cs_trunc_loop2. auto.
Qed.
Lemma cs_drop_last_n l : forall p drop, cur_state (fst (drop_last_n p l drop)) = cur_state p.
Proof.
  induction l as [|t r IH]; intros p drop; cbn; auto.
  destruct (N.ltb 0 drop); cbn; auto. rewrite IH. apply cs_remove_tx.
Qed.
Lemma cs_trunc_queue_loop addrs : forall p drop, cur_state (trunc_queue_loop p addrs drop) = cur_state p.
Proof.
  induction addrs as [|a rest IH]; intros p drop; cbn; auto.
  destruct (N.ltb 0 drop); auto. destruct (aget (queue p) a) as [l|]; auto.
  destruct (l_flatten l) as [flat l']. destruct (N.leb (l_len l) drop).
  - rewrite IH, cs_remove_txs. auto.
  - pose proof (cs_drop_last_n (rev flat) (set_queue p (aset (queue p) a l')) drop) as H.
    destruct (drop_last_n _ (rev flat) drop) as [p2 d2]. rewrite IH. auto.
Qed.
Lemma cs_truncate_queue p ord : cur_state (truncate_queue p ord) = cur_state p.
Proof. unfold truncate_queue. destruct (N.leb _ _); auto. apply cs_trunc_queue_loop. Qed.
Lemma cs_fix_nonce p a : cur_state (fix_nonce p a) = cur_state p.
Proof.
  unfold fix_nonce. destruct (aget (pending p) a) as [l|]; auto.
  destruct (l_flatten l) as [flat l']. destruct (rev flat); auto.
Qed.
Lemma cs_fold_fix l : forall p, cur_state (fold_left fix_nonce l p) = cur_state p.
Proof. induction l; intro p; cbn; auto. rewrite IHl. apply cs_fix_nonce. Qed.


(* ---- max_gas is only touched by reset --------------------------------------- *)
Lemma mg_all_remove_list rm : forall p, max_gas (all_remove_list p rm) = max_gas p.
Proof. unfold all_remove_list. induction rm; intro p; cbn; auto. rewrite IHrm. auto. Qed.
Lemma mg_enqueue p t : max_gas (snd (enqueue_tx p t)) = max_gas p.
Proof.
  unfold enqueue_tx. destruct (l_add _ t _) as [[ins old] q']. destruct ins; cbn [negb snd]; auto.
  destruct old; destruct (all_get _ _); auto.
Qed.
Lemma mg_enqueue_all l : forall p, max_gas (enqueue_all p l) = max_gas p.
Proof. unfold enqueue_all. induction l; intro p; cbn; auto. rewrite IHl. apply mg_enqueue. Qed.
Lemma mg_remove_tx p id : max_gas (remove_tx p id) = max_gas p.
Proof.
  unfold remove_tx. destruct (all_get p id) as [t|]; auto.
  cbn [pending queue all_remove set_all].
  destruct (aget (pending p) (t_from t)) as [pl|].
  - destruct (l_remove pl t) as [[removed invalids] pl']. destruct removed.
    + cbn [max_gas set_pnonces]. rewrite mg_enqueue_all. destruct (l_empty pl'); auto.
    + destruct (aget (queue p) (t_from t)) as [ql|]; auto.
      destruct (l_remove ql t) as [[ok inv] ql']. destruct (l_empty ql'); auto.
  - destruct (aget (queue p) (t_from t)) as [ql|]; auto.
    destruct (l_remove ql t) as [[ok inv] ql']. destruct (l_empty ql'); auto.
Qed.
Lemma mg_remove_txs l : forall p, max_gas (remove_txs p l) = max_gas p.
Proof. unfold remove_txs. induction l; intro p; cbn; auto. rewrite IHl. apply mg_remove_tx. Qed.
Lemma mg_add_tx p t local : max_gas (snd (add_tx p t local)) = max_gas p.
Proof.
  unfold add_tx. destruct (all_get p (t_id t)); auto.
  destruct (negb _); auto.
  match goal with |- context [if ?c then (false, E_underpriced, p) else _] => destruct c end; auto.
  match goal with |- context [if ?c then remove_txs p ?l else p] => set (p1 := if c then remove_txs p l else p) end.
  assert (F1 : max_gas p1 = max_gas p) by (unfold p1; match goal with |- max_gas (if ?c then _ else _) = _ => destruct c end; auto; apply mg_remove_txs).
  destruct (match aget (pending p1) (t_from t) with Some l => if l_overlaps l t then Some l else None | None => None end) as [l|].
  - destruct (l_add l t _) as [[ins old] l']. destruct ins; cbn [negb snd]; auto. destruct old; auto.
  - pose proof (mg_enqueue p1 t) as H. destruct (enqueue_tx p1 t) as [[replaced e] p2]. cbn [snd] in H.
    destruct (negb _); cbn [snd]; [congruence|]. destruct (local && _); cbn [snd]; cbn; congruence.
Qed.
Lemma mg_add_txs_locked l local : forall p, max_gas (snd (add_txs_locked p l local)) = max_gas p.
Proof.
  induction l as [|t r IH]; intro p; cbn [add_txs_locked]; auto.
  pose proof (mg_add_tx p t local) as H. destruct (add_tx p t local) as [[rep e] p1]. cbn [snd] in H.
  specialize (IH p1). destruct (add_txs_locked p1 r local) as [[errs d] p2]. cbn [snd] in *. congruence.
Qed.
Lemma mg_promote_tx p a t : max_gas (snd (promote_tx p a t)) = max_gas p.
Proof.
  unfold promote_tx. destruct (l_add _ t _) as [[ins old] l']. destruct ins; cbn [negb snd]; auto.
  destruct old; destruct (all_get _ _); auto.
Qed.
Lemma mg_promote_account p a : max_gas (promote_account p a) = max_gas p.
Proof.
  unfold promote_account. destruct (aget (queue p) a) as [l|]; auto.
  destruct (l_forward l _) as [fw l1]. destruct (l_filter l1 _ _) as [[drops inv] l2].
  destruct (l_ready l2 _) as [readies l3].
  match goal with |- context [fold_left ?f readies ?q] => set (p4 := fold_left f readies q) end.
  assert (F4 : max_gas p4 = max_gas p).
  { unfold p4. match goal with |- max_gas (fold_left ?f readies ?q) = _ =>
      assert (G : forall rs q0, max_gas (fold_left f rs q0) = max_gas q0)
        by (induction rs; intro q0; cbn [fold_left]; auto; rewrite IHrs; apply mg_promote_tx);
      rewrite G end. cbn [max_gas put_q set_queue]. rewrite mg_all_remove_list. cbn [max_gas put_q set_queue].
    rewrite mg_all_remove_list. auto. }
  destruct (if negb (is_local p4 a) then l_cap l3 _ else ([], l3)) as [caps l5].
  destruct (l_empty l5); cbn [max_gas set_queue]; rewrite mg_all_remove_list; auto.
Qed.
Lemma mg_demote_account p a : max_gas (demote_account p a) = max_gas p.
Proof.
  unfold demote_account. destruct (aget (pending p) a) as [l|]; auto.
  destruct (l_forward l _) as [olds l1]. destruct (l_filter l1 _ _) as [[drops inv] l2].
  destruct (if _ && _ then l_cap l2 0 else ([], l2)) as [gapped l3].
  match goal with |- max_gas (match ?X with pair _ _ => _ end) = _ => destruct X as [[gapped2 l4] seen] end.
  assert (E : forall q, max_gas (if seen then set_gap_seen q else q) = max_gas q) by (intro q; destruct seen; auto).
  destruct (l_empty l4); cbn [max_gas set_beats set_pending]; rewrite mg_enqueue_all; cbn [max_gas put_p set_pending];
    rewrite E, mg_enqueue_all; cbn [max_gas put_p set_pending]; rewrite mg_enqueue_all, mg_all_remove_list;
    cbn [max_gas put_p set_pending]; rewrite mg_all_remove_list; auto.
Qed.
Lemma mg_fold (f : pool -> N -> pool) : (forall p a, max_gas (f p a) = max_gas p) -> forall l p, max_gas (fold_left f l p) = max_gas p.
Proof. intros H l. induction l; intro p; cbn; auto. rewrite IHl. apply H. Qed.
Lemma mg_shave p a : max_gas (shave p a) = max_gas p.
Proof.
  unfold shave. destruct (aget (pending p) a) as [l|]; auto. destruct (l_empty l); auto.
  destruct (l_cap l _) as [caps l'].
  assert (K : forall q, max_gas (fold_left (fun p t => set_pnonces (all_remove p (t_id t)) (nc_set_if_lower (pnonces p) a (t_nonce t))) caps q) = max_gas q).
  { induction caps; intro q; cbn; auto. rewrite IHcaps. auto. }
  rewrite K. auto.
Qed.
Lemma mg_shave_all l : forall p cnt,
  max_gas (fst (fold_left (fun pc a => (shave (fst pc) a, snd pc - 1)) l (p, cnt))) = max_gas p.
Proof. induction l; intros p cnt; cbn; auto. rewrite IHl. apply mg_shave. Qed.
Lemma mg_equalize fuel : forall p cnt prevs lp th, max_gas (fst (equalize fuel p cnt prevs lp th)) = max_gas p.
Proof.
  induction fuel as [|f IH]; intros p cnt prevs lp th; cbn; auto.
  destruct (_ && _); cbn; auto. rewrite fold_shave_pair, IH. apply mg_shave_all.
Qed.
Lemma mg_trunc_loop1 fuel spammers : forall p cnt offenders,
  max_gas (fst (fst (trunc_loop1 fuel p cnt spammers offenders))) = max_gas p.
Proof.
  induction spammers as [|o rest IH]; intros p cnt offenders; cbn; auto.
  destruct (N.ltb _ cnt); cbn; auto.
  destruct offenders as [|o1 os]; [apply IH|].
  destruct (equalize fuel p cnt (o1 :: os) (last (o1 :: os) 0) (pend_len p o)) as [p' cnt'] eqn:E.
  rewrite IH. pose proof (mg_equalize fuel p cnt (o1 :: os) (last (o1 :: os) 0) (pend_len p o)) as H. rewrite E in H. auto.
Qed.
Lemma mg_trunc_loop2 fuel : forall p cnt offenders, max_gas (fst (trunc_loop2 fuel p cnt offenders)) = max_gas p.
Proof.
  induction fuel as [|f IH]; intros p cnt offenders; cbn; auto.
  destruct (_ && _); cbn; auto. rewrite fold_shave_pair, IH. apply mg_shave_all.
Qed.
Lemma mg_truncate_pending p ord : max_gas (truncate_pending p ord) = max_gas p.
Proof.
  unfold truncate_pending. destruct (N.leb _ _); auto.
  match goal with |- context [trunc_loop1 ?f ?p0 ?c ?s ?o] =>
    pose proof (mg_trunc_loop1 f s p0 c o) as H; destruct (trunc_loop1 f p0 c s o) as [[p1 c1] off] end.
  cbn in H. destruct off; auto. rewrite mg_trunc_loop2. auto.
Qed.
Lemma mg_drop_last_n l : forall p drop, max_gas (fst (drop_last_n p l drop)) = max_gas p.
Proof.
  induction l as [|t r IH]; intros p drop; cbn; auto.
  destruct (N.ltb 0 drop); cbn; auto. rewrite IH. apply mg_remove_tx.
Qed.
Lemma mg_trunc_queue_loop addrs : forall p drop, max_gas (trunc_queue_loop p addrs drop) = max_gas p.
Proof.
  induction addrs as [|a rest IH]; intros p drop; cbn; auto.
  destruct (N.ltb 0 drop); auto. destruct (aget (queue p) a) as [l|]; auto.
  destruct (l_flatten l) as [flat l']. destruct (N.leb (l_len l) drop).
  - rewrite IH, mg_remove_txs. auto.
  - pose proof (mg_drop_last_n (rev flat) (set_queue p (aset (queue p) a l')) drop) as H.
    destruct (drop_last_n _ (rev flat) drop) as [p2 d2]. rewrite IH. auto.
Qed.
Lemma mg_truncate_queue p ord : max_gas (truncate_queue p ord) = max_gas p.
Proof. unfold truncate_queue. destruct (N.leb _ _); auto. apply mg_trunc_queue_loop. Qed.
Lemma mg_fix_nonce p a : max_gas (fix_nonce p a) = max_gas p.
Proof.
  unfold fix_nonce. destruct (aget (pending p) a) as [l|]; auto.
  destruct (l_flatten l) as [flat l']. destruct (rev flat); auto.
Qed.
Lemma mg_fold_fix l : forall p, max_gas (fold_left fix_nonce l p) = max_gas p.
Proof. induction l; intro p; cbn; auto. rewrite IHl. apply mg_fix_nonce. Qed.



(* ---- merged requests ------------------------------------------------------------- *)
Lemma merge_reset_acc rs : forall s,
  s_reset (fold_left sched_merge rs s) =
  match s_reset s with
  | Some (o, n0) => Some (o, match last_reset rs with Some n => n | None => n0 end)
  | None => match last_reset rs with Some n => Some (first_old rs, n) | None => None end
  end.
Proof.
  induction rs as [|r rest IH]; intro s; cbn [fold_left last_reset first_old].
  - destruct (s_reset s) as [[o n0]|]; auto.
  - rewrite IH. destruct r as [old new|d]; cbn [sched_merge s_reset].
    + destruct (s_reset s) as [[o n0]|]; destruct (last_reset rest); auto.
    + destruct (s_reset s) as [[o n0]|]; auto.
Qed.

Lemma merge_reset rs :
  s_reset (merge_all rs) = match last_reset rs with Some n => Some (first_old rs, n) | None => None end.
Proof. unfold merge_all. rewrite merge_reset_acc. reflexivity. Qed.

(* a reset that takes effect leaves the pool on the state of its new head, whatever
   the rest of the reorg run does *)
Lemma run_reorg_state p old new d ord re s :
  reset_reinject (chain p) old new = Some re -> h_state new = Some s ->
  cur_state (run_reorg p (Some (old, new)) d ord) = s /\
  max_gas (run_reorg p (Some (old, new)) d ord) = h_gaslimit new.
Proof.
  intros Hr Hs. unfold run_reorg.
  rewrite cs_fold_fix, cs_truncate_queue, cs_truncate_pending, mg_fold_fix, mg_truncate_queue, mg_truncate_pending.
  unfold demote_unexecutables, promote_executables.
  rewrite (cs_fold _ cs_demote_account), (cs_fold _ cs_promote_account), (mg_fold _ mg_demote_account), (mg_fold _ mg_promote_account).
  unfold reset. rewrite Hr, Hs.
  pose proof (cs_add_txs_locked re false (set_head_state p s (h_gaslimit new))) as H1.
  pose proof (mg_add_txs_locked re false (set_head_state p s (h_gaslimit new))) as H2.
  destruct (add_txs_locked (set_head_state p s (h_gaslimit new)) re false) as [[e d0] p']. cbn [snd] in *.
  rewrite H1, H2. split; reflexivity.
Qed.

Lemma merged_resets_equal_last_head p rs ord n s re :
  last_reset rs = Some n -> h_state n = Some s -> reset_reinject (chain p) (first_old rs) n = Some re ->
  run_merged p rs ord = run_reorg p (Some (first_old rs, n)) (s_dirty (merge_all rs)) ord /\
  cur_state (run_merged p rs ord) = s /\ max_gas (run_merged p rs ord) = h_gaslimit n.
Proof.
  intros Hl Hs Hr. unfold run_merged. rewrite merge_reset, Hl. split; auto.
  eapply run_reorg_state; eauto.
Qed.
