SPEC = {
    "level_text": "Coq theorems over all histories (any length, any nesting of snapshots and reverts, removals, commits, reloads, copies) of public StateDB calls on a faithful executable model of the validator bookkeeping: outside three precisely defined open finding classes (delegation from an address without account; two index defects that need the unused RemoveValidator) and under the callers' discipline, the statistics equal the recomputation from the records, every total equals own plus delegations, every stake is token/unit, the index lists exactly the existing validators and delegator accounts agree with validators, at every point of the history; proved by a value-level invariant (including 'every valid revision restores a good state') plus a refinement proof from the faithful model (cache, tombstones, slices) to the value-level semantics. Inside each open class a concrete witness refutes the property in Coq and on the implementation; the witnesses of the six repaired classes are regression cases. The model is tied to the Go code by comparing, inside Coq, a hash of the complete projected state after every operation of thousands of random histories per run.",
    "level_note": "Trusted: Coq kernel + vm_compute; model fidelity rests on the differential check (measured reach in evidence); panics excluded by hypothesis; counters modulo 2^64; staking-package arithmetic (penalties, settlement) is outside the model; both calling conventions of UpdateValidator are modelled (copy: OUpdate/ODelegate; in place: OUpdateIn; the model variant step_old with object identities reproduces the code before 7813a3d and is selected by the harness when it detects that behaviour) and the call sites are pinned by a go/ast inventory (Bridge.v); in-place writes that are NOT followed by UpdateValidator are outside the model; open findings delegate-from-missing-account, stale-index-reload, copy-reindexes-removed-validator in the modelled StateDB code, penalty-skips-delegator-account in the staking handlers that only the harness runs (fixes/C08_*.md, known_findings.json); no axioms.",
    "fingerprint_funcs": [
        "core/state/statedb_val.go:StateDB.UpdateValidator", "core/state/statedb_val.go:StateDB.RemoveValidator",
        "core/state/statedb_val.go:StateDB.CreateValidator", "core/state/statedb_val.go:StateDB.GetValidatorsForUpdate",
        "core/state/statedb_val.go:StateDB.incrValidatorsStat", "core/state/statedb_val.go:StateDB.decrValidatorsStat",
        "core/state/statedb_val.go:StateDB.updateValidator", "core/state/statedb_val.go:StateDB.deleteValidator",
        "core/state/statedb_val.go:StateDB.getValidator", "core/state/statedb_val.go:StateDB.setValidator",
        "core/state/statedb_val.go:StateDB.getValidatorsIndex",
        "core/state/validator.go:Validator.StakeEqual", "core/state/validator.go:Validator.DeepCopy",
        "core/state/validator.go:Validator.PartialCopy", "core/state/validator.go:Validator.IsInvalid",
        "core/state/validator.go:Validator.GetDelegationFrom", "core/state/validator.go:Validator.UpdateDelegationFrom",
        "core/state/validator.go:ValKindStat.SubVal", "core/state/validator.go:ValKindStat.AddVal",
        "core/state/validator.go:ValKindStat.subStake", "core/state/validator.go:ValKindStat.subToken",
        "core/state/validator.go:ValKindStat.subOfflineStake", "core/state/validator.go:ValKindStat.subOfflineToken",
        "core/state/validator.go:ValKindStat.subCount", "core/state/validator.go:ValKindStat.subOfflineCount",
        "core/state/validator.go:ValidatorIndex.Empty", "core/state/validator.go:ValidatorIndex.DeepCopy",
        "core/state/journal.go:validatorCreateChange.revert", "core/state/journal.go:validatorDeleteChange.revert",
        "core/state/journal.go:validatorUpdateChange.revert", "core/state/journal.go:delegationBalanceChange.revert",
        "core/state/journal.go:delegationsChange.revert",
        "core/state/statedb_staking.go:StateDB.UpdateDelegation", "core/state/statedb_staking.go:StateDB.UpdateDelegator",
        "staking/take_effect_handler.go:teDelegationSub", "staking/endblock.go:rewardsToPool",
        "staking/endblock.go:checkAndUpgradeValidatorsToYouV5", "staking/slash_youv5.go:recoverFromExpiredExpelling",
        "core/state/state_object.go:stateObject.UpdateDelegationTo", "core/state/state_object.go:stateObject.updateDelegations",
        "core/state/state_object.go:stateObject.loadDelegations", "core/state/state_object.go:stateObject.deepCopy",
        "core/state/state_object.go:stateObject.SetDelegationBalance",
        "core/state/statedb.go:StateDB.Copy", "core/state/statedb.go:StateDB.Snapshot", "core/state/statedb.go:StateDB.RevertToSnapshot",
        "core/state/statedb.go:StateDB.Finalise", "core/state/statedb.go:StateDB.IntermediateRoot", "core/state/statedb.go:StateDB.Commit",
        "core/state/statedb.go:StateDB.clearJournalAndRefund", "core/state/delegation.go:DelegationFrom.Empty",
        "params/staking_params.go:YOUToStake", "params/staking_params.go:KindOfRole",
    ],
    "harness": "c08",
    "hooks": None,  # set below: _Hooks()
    "translators": [["params", "-out", "{gen}/C08Params.v"], ["callers", "-out", "{gen}/C08Callers.v"]],
    "coq_targets": ["C08/Model.vo", "C08/Abstract.vo", "C08/ProofsA.vo", "C08/ProofsSim.vo", "C08/Proofs.vo",
                    "C08/Witnesses.vo", "gen/C08Params.vo", "gen/C08Callers.vo", "C08/Bridge.vo", "C08/Properties.vo"],
    "properties_v": "C08/Properties.v",
    "obligations": [
        "C08_full_refuted", "C08_inv_holds_outside", "C08_inv_holds_at_every_point",
        "C08_value_level_invariant", "C08_faithful_refines_value_level",
        "C08_refuted_delegate_from_missing_account", "C08_refuted_stale_index_reload",
        "C08_refuted_copy_reindexes_removed_validator", "C08_inplace_update_then_revert_holds",
        "C08_inplace_convention_keeps_statistics", "C08_component_decomposition_preserved", "C08_repaired_classes_hold",
        "C08_validators_sort_total", "C08_repo_params_match", "C08_repo_update_callers_pinned",
        "C08_nonvacuous_safe_history", "C08_nonvacuous_discipline",
    ],
    "cases": {"quick": 300, "thorough": 6000},
    "shard": 300,
    "gen_args": [],
    "allowed_axioms": [],
    "coq_dirs": ["C08"],
    "finding_key": lambda h: h.get("what"),
    "trusted_base": [
        "Coq 8.16.1 kernel (vm_compute for the witnesses, the non-vacuity examples, the parameter bridge and the in-Coq evaluation of the correspondence cases; no native_compute)",
        "no axioms: every obligation is Closed under the global context",
        "hand-written faithful model coq/C08/Model.v (cache over the validator trie with tombstones, delegation slices as views into a heap of backing arrays with Go's append growth and rlp decode capacity, clamped statistics with wrapping uint64 counters, both journals, revisions, delegator accounts with content-addressed delegation blobs, Copy, Commit+reload; validator objects carry an identity so that an in-place update of the stored object is seen by the journal entries that point at it)",
        "correspondence harness harness/cmd/c08 (Go, drives the real StateDB of the working tree through the public API) + hook hooks/core/state/zz_verif_c08.go (read-only views) + one hook file per unexported staking function (hooks/staking/zz_verif_c08_*.go, registry in zz_verif_c08.go; a file that no longer compiles against the tree is left out by props/C08.py and reported as a broken obligation, the rest still runs) + in-Coq evaluation of the model on the same histories, comparing a hash of the complete projected state after every operation",
        "translator 'c08 callers' (go/ast: every call of UpdateValidator in staking/ and core/, its calling convention (copy / in place), how both arguments were obtained, the Validator fields written before the call with Validator methods resolved, and the fields read by StakeEqual and the statistics; fails on a call it cannot classify) pinned in Bridge.v",
        "translator 'c08 params' (stake unit, role->kind table, online flag, CurdFlag values, number of statistics slots) checked against the model in Bridge.v",
        "the finding-class predicates hpre (ProofsSim.v) and their Go twins in the harness",
    ],
    "assumptions": [
        "the theorems are about the model; its fidelity rests on the differential check (reach reported in the evidence)",
        "inv_holds_outside assumes the history stays outside the open finding classes F5 (delegation from an address without account), F7 (GetValidatorsForUpdate while the in-memory index is empty and the persisted one is not), F8 (Copy while a removed validator is finalised but not rooted), and that callers keep the discipline of staking/take_effect_handler.go: stake = token/unit at creation, updates move the total by the change of the self part with self stake = self token/unit, delegations are not withdrawn below zero, RemoveValidator only for validators without delegations, roles are 1..3, revision ids are valid",
        "the premise run init ops = Some s excludes Go panics; that safe histories do not panic is not proved (observed on every generated disciplined history)",
        "statistics counters are compared modulo 2^64 (exact below 2^64 validators)",
        "account balances/nonces/code/storage, the withdraw queue, the rewards fields of the statistics, validator names/keys, DB errors and in-place mutation of live validator objects that is not followed by UpdateValidator(live, copy) are outside the model (the in-place convention itself is op OUpdateIn)",
        "a delegator account's address list is a value in the model (stateObject.UpdateDelegationTo replaces the slice and never writes into it, so deepCopy and the journal may share it); the model has one live handle (Copy continues with the copy). That a state and its Copy() stay independent when both are used is checked on the implementation only: forked histories in the harness keep both handles alive, each handle is compared with the model run on its own projected history, the property oracle runs on both handles and the idle handle's observation must not change (catches an in-place append into the shared list)",
        "delegator accounts are created funded (never EIP-161 empty); IntermediateRoot iterates dirty validators in ascending address order in the model (Go map order; effects commute when no clamp fires)",
    ],
    "modelled": [
        "state.StateDB.CreateValidator/UpdateValidator/RemoveValidator/GetValidatorsForUpdate/getValidator/setValidator/incr+decrValidatorsStat/updateValidator/deleteValidator",
        "state.Validator.PartialCopy/DeepCopy/StakeEqual/IsInvalid/GetDelegationFrom/UpdateDelegationFrom/Less, state.ValKindStat.AddVal/SubVal (clamps), state.ValidatorIndex",
        "state.StateDB.UpdateDelegation/UpdateDelegator, stateObject.UpdateDelegationTo/updateDelegations/loadDelegations/SetDelegationBalance/deepCopy",
        "both calling conventions of UpdateValidator: UpdateValidator(copy, stored) and UpdateValidator(stored written in place, copy), the second with the pointer aliasing between the stored object and validatorUpdateChange.newVal in the pre-7813a3d variant (Model.step_old, object identities v_oid, retarget)",
        "journal entries validatorCreate/Update/DeleteChange, delegationBalanceChange, delegationsChange, createObjectChange; StateDB.Snapshot/RevertToSnapshot/Finalise/IntermediateRoot/Commit/Copy, state.New",
        "sort.Search, append growth and rlp slice decoding capacities for []*DelegationFrom",
    ],
    "partial": [
        "C08_inv_holds_outside: holds outside the three open finding classes (each refuted inside by a witness) and under the callers' discipline; absence of panics on such histories is not proved",
        "whole blocks: the exported staking.EndBlock (upgrade check, slashing hook, rewardsToPool, endStakingPeriod = inactivity slashing/recovery + distributeRewards + processWithdrawQueue + processPendingTxs with signed transactions) is run unmodified by the harness (no hook) on committed+reloaded states; oracle-only, not modelled in Coq",
        "the end-of-block code of package staking (teCreate, teUpdate, teDeposit, teWithdraw, teChangeStatus, teDelegationAdd, teDelegationSub, doPenalize/takePenalty, slashingAndRecoveringYouV5, rewardsToPool, distributeRewards, settleValidatorRewards) is NOT modelled in Coq: the harness runs it unmodified (hooks/staking/zz_verif_c08.go) in random handler histories on non-whole amounts with the property oracle (incl. total = own + delegations per record) after every step; C08_component_decomposition_preserved proves the decomposition for the value-level operations under the delta discipline, which these handlers are only TESTED to follow",
        "takePenalty / settlement arithmetic of package staking is not modelled (updates are modelled generically as PartialCopy + field writes + UpdateValidator)",
    ],
}


# ---- hooks that may stop compiling -------------------------------------------------------
# Every unexported staking function the harness runs has its own hook file.  When a change of
# the tree under test alters such a function's signature, only that file is left out of the
# build (the harness finds its hooks through a registry and skips the steps that need a missing
# one); the loss is reported as a broken obligation while everything else still runs and can
# produce an oracle replay.  The whole-block scenarios use the exported staking.EndBlock.
_BASE_HOOKS = ["core/state/zz_verif_c08.go", "staking/zz_verif_c08.go"]
_OPTIONAL_HOOKS = ["staking/zz_verif_c08_te.go", "staking/zz_verif_c08_penalize.go", "staking/zz_verif_c08_inactivity.go",
                   "staking/zz_verif_c08_rewards.go", "staking/zz_verif_c08_distribute.go", "staking/zz_verif_c08_settle.go"]
_resolved = {}


def _raw_build(hooks):
    """vf.build_harness without taking the "go" lock: for use while vf already holds it (the hook list is
    iterated inside that lock; taking it again from the same process would block for ever)."""
    import os, shutil
    import vf
    h = os.path.join(vf.VERIF, "harness")
    shutil.copyfile(os.path.join(vf.REPO, "go.sum"), os.path.join(h, "go.sum"))
    ov = vf.overlay_file("c08", list(hooks))
    out = os.path.join(vf.BUILD, "c08")
    cmd = ["go", "build", "-tags", "verif", "-overlay", ov, "-o", out]
    if vf.REPO != "/repo":
        mf = os.path.join(vf.BUILD, "alt_c08.go.mod")
        open(mf, "w").write(open(os.path.join(h, "go.mod")).read().replace("=> /repo", "=> " + vf.REPO))
        shutil.copyfile(os.path.join(vf.REPO, "go.sum"), os.path.join(vf.BUILD, "alt_c08.go.sum"))
        cmd += ["-modfile", mf]
    rc, log = vf.sh(cmd + ["./cmd/c08"], cwd=h, env=vf.GOENV, timeout=1500)
    return rc == 0, log, out


def _resolve_hooks(locked=False):
    """Builds the harness with every hook; drops the optional hook files the compiler complains about and retries.
    locked: the caller (vf.build_harness -> overlay_file -> iteration of the hook list) already holds the go lock."""
    import os, re
    import vf
    key = vf.REPO
    if key in _resolved:
        return _resolved[key]
    build = _raw_build if locked else (lambda hooks: vf.build_harness("c08", list(hooks)))
    hooks, dropped = _BASE_HOOKS + _OPTIONAL_HOOKS, []
    for _ in range(len(_OPTIONAL_HOOKS) + 1):
        ok, log, _bin = build(hooks)
        if ok:
            break
        named = set(re.findall(r"zz_verif_c08_\w+\.go", log))
        bad = [h for h in hooks if h in _OPTIONAL_HOOKS and os.path.basename(h) in named]
        if not bad:
            break  # not a hook problem: the normal build step reports it
        dropped += bad
        hooks = [h for h in hooks if h not in bad]
    _resolved[key] = (hooks, dropped)
    return _resolved[key]


class _Hooks(list):
    """The hook list, resolved against the tree under test on first use.  bin/check resolves it before the build
    (_check); --replay and bin/setup reach it from inside vf.build_harness, i.e. under the go lock."""
    def __bool__(self):
        return True

    def __iter__(self):
        return iter(_resolve_hooks(locked=True)[0])

    def __len__(self):
        return len(_resolve_hooks(locked=True)[0])


SPEC["hooks"] = _Hooks()


def _check(pid, tier, seed):
    import vf
    hooks, dropped = _resolve_hooks(locked=False)
    orig = vf.Run.build

    def build(self):
        ok = orig(self)
        for h in dropped:
            self.say("hook %s does not compile against this tree: the harness runs without the steps that need it" % h)
            self.broken.append("hook %s does not compile against this tree (a function it wraps has changed its signature)" % h)
        return ok
    vf.Run.build = build
    try:
        return vf.standard_check(pid, tier, seed)
    finally:
        vf.Run.build = orig


SPEC["check"] = _check

