import json
import os
import subprocess

KEY = "pending-gap-after-partial-reinject"
# Findings of this property (both repaired in /repo; the witnesses stay in the
# corpus / in the lock table, so a regression is reported as a VIOLATION again).
FINDINGS = [
    {"property": "C20", "status": "fixed: c78f52f", "key": KEY,
     "text": "pending list kept a nonce gap after a reorg that re-injects only part of the dropped transactions "
             "(demoteUnexecutables only tested the very front)",
     "witness": ["corpus/C20/w1_gap_after_partial_reinject.json"],
     "notes": "fixes/C20_pending_gap_after_partial_reinject.md"},
    {"property": "C20", "status": "fixed: 94b8c45", "key": "transactions-number-unlocked",
     "text": "exported TransactionsNumber read the pending/queue maps without pool.mu (latent data race, no caller)",
     "notes": "fixes/C20_transactions_number_unlocked.md"},
]


def race_run(seed, millis):
    """Builds the harness with -race and runs the concurrent workload.
    Returns a dict for the evidence; 'races' > 0 means the detector fired."""
    import vf
    h = os.path.join(vf.VERIF, "harness")
    out = os.path.join(vf.BUILD, "c20_race")
    ov = vf.overlay_file("c20", SPEC["hooks"])
    cmd = ["go", "build", "-race", "-tags", "verif", "-overlay", ov, "-o", out]
    if vf.REPO != "/repo":
        cmd += ["-modfile", os.path.join(vf.BUILD, "alt_c20.go.mod")]
    with vf.Lock("go"):
        rc, log = vf.sh(cmd + ["./cmd/c20"], cwd=h, env=vf.GOENV, timeout=1500)
    if rc != 0:
        return {"built": False, "log": log[-1500:]}
    rc, log = vf.sh([out, "stress", "-seed", str(seed), "-n", str(millis), "-out", ""], env=vf.GOENV, timeout=600)
    res = {"built": True, "exit": rc, "races": log.count("WARNING: DATA RACE"), "tail": log[-1200:]}
    for line in log.splitlines():
        if line.startswith("{"):
            try:
                res["workload"] = json.loads(line)
            except Exception:
                pass
    return res


def _fail(vf, pid, name, what, cmd, output):
    rp = os.path.join(vf.VERIF, "replays", "%s_%s.json" % (pid, name))
    os.makedirs(os.path.dirname(rp), exist_ok=True)
    json.dump({"what": what, "replay_cmd": cmd, "output": output}, open(rp, "w"), indent=1)
    print("VIOLATION property=%s replay=%s" % (pid, rp), flush=True)


def readers_run(seed, rounds, binary):
    """Concurrent-readers scenario (cold Flatten caches, parallel Pending() callers,
    every result compared with the sequential view)."""
    import vf
    if not os.path.exists(binary):
        return {"ran": False}
    rc, log = vf.sh([binary, "readers", "-seed", str(seed), "-n", str(rounds), "-out", ""], env=vf.GOENV, timeout=600)
    res = {"ran": True, "exit": rc, "races": log.count("WARNING: DATA RACE"), "tail": log[-1500:]}
    for line in log.splitlines():
        if line.startswith("{"):
            try:
                res["workload"] = json.loads(line)
            except Exception:
                pass
    return res


PROBE_ACCOUNTS, PROBE_RESETS, PROBE_RUNS = 300, 150, 4


def probe_run(seed, binary, runs=PROBE_RUNS):
    """Readers against head resets (harness 'probe'): a few hundred accounts with pending
    transactions, 150 head changes between blocks of identical state handed to the pool's
    scheduler, two reader goroutines on the read side of the pool (Nonce, Stats, Pending,
    Content, Get, Status, Locals).  Every answer must be the one a sequential history gives.
    Repeated with different key sets; stops at the first run with a disagreement."""
    import vf
    res = {"ran": False, "runs": [], "disagreements": 0}
    if not os.path.exists(binary):
        return res
    for k in range(runs):
        rc, log = vf.sh([binary, "probe", "-seed", str(seed + k), "-n", str(PROBE_ACCOUNTS), "-resets", str(PROBE_RESETS)],
                        env=vf.GOENV, timeout=300)
        res["ran"] = True
        run = {"exit": rc}
        for line in log.splitlines():
            if line.startswith("{"):
                try:
                    run.update(json.loads(line))
                except Exception:
                    pass
        if rc != 0 and "disagreements" not in run:
            run["crash_tail"] = log[-1500:]
        res["runs"].append(run)
        if rc != 0:
            res["disagreements"] = run.get("disagreements", -1)
            res["first_bad"] = run
            break
    return res


def _probe_violation(vf, pid, pr):
    bad = pr["first_bad"]
    rp = os.path.join(vf.VERIF, "replays", "%s_oracle_probe.json" % pid)
    os.makedirs(os.path.dirname(rp), exist_ok=True)
    what = "reader-saw-state-no-sequential-history-produces"
    json.dump({"what": what,
               "input": {"probe": bad.get("probe", {"seed": 1, "accounts": PROBE_ACCOUNTS, "resets": PROBE_RESETS, "readers": 2}),
                         "what": what,
                         "disagreements": bad.get("disagreements"), "observations": bad.get("observations"),
                         "first_bad_observation": bad.get("first_bad_observation", bad.get("crash_tail", ""))},
               "note": "the overlap of a reader with a reorg run is up to the Go scheduler: the replay reruns the probe 5 times "
                       "with the recorded parameters and prints the hit rate",
               "replay_cmd": "/verif/bin/check %s --replay <this file>" % pid}, open(rp, "w"), indent=1)
    print("VIOLATION property=%s replay=%s" % (pid, rp), flush=True)


def check(pid, tier, seed):
    """standard_check plus (every tier) the concurrent-readers scenario on the
    normal binary and (thorough tier) the -race runs of that scenario and of the
    mixed concurrent workload.  A detected race, a reader result that differs from
    the sequential view or a final-state oracle hit fails the check."""
    import vf
    # readers-vs-resets probe first (a few seconds): its replay is an oracle replay with a failing input
    pr = {"ran": False}
    ok, _, binp = vf.build_harness(SPEC["harness"], SPEC["hooks"])
    if ok:
        pr = probe_run(seed, binp, PROBE_RUNS if tier == "quick" else 4 * PROBE_RUNS)
        if pr.get("first_bad"):
            _probe_violation(vf, pid, pr)
    rc = vf.standard_check(pid, tier, seed)
    evp = os.path.join(vf.VERIF, "evidence", pid + ".json")
    try:
        ev = json.load(open(evp))
    except Exception as e:   # evidence file missing: standard_check already reported why
        print("concurrent runs not recorded:", e)
        return rc
    extra_violations = 0
    ev["coverage"]["readers_vs_resets_probe"] = {k: v for k, v in pr.items() if k != "first_bad"}
    if pr.get("first_bad"):
        extra_violations += 1
    binary = os.path.join(vf.BUILD, "c20")
    rd = readers_run(seed, 150 if tier == "quick" else 600, binary)
    ev["coverage"]["concurrent_readers_run"] = rd
    if rd.get("ran") and rd.get("exit") != 0:
        _fail(vf, pid, "readers", "Pending() under concurrent readers differs from the sequential view (or the run crashed)",
              "build/c20 readers -seed %d -n 150" % seed, rd)
        extra_violations += 1
    if tier == "thorough":
        rr = race_run(seed, 8000)
        ev["coverage"]["race_run"] = rr
        if rr.get("races", 0) > 0 or (rr.get("built") and rr.get("exit") not in (0,)):
            _fail(vf, pid, "race", "race detector or final-state oracle fired in the concurrent workload",
                  "build/c20_race stress -seed %d -n 8000" % seed, rr)
            extra_violations += 1
        if rr.get("built"):
            rdr = readers_run(seed, 300, os.path.join(vf.BUILD, "c20_race"))
            ev["coverage"]["concurrent_readers_race_run"] = rdr
            if rdr.get("races", 0) > 0 or rdr.get("exit") != 0:
                _fail(vf, pid, "readers_race", "race detector or reader oracle fired in the concurrent-readers scenario",
                      "build/c20_race readers -seed %d -n 300" % seed, rdr)
                extra_violations += 1
    if extra_violations:
        ev["violations"] = ev.get("violations", 0) + extra_violations
        rc = 1
    json.dump(ev, open(evp, "w"), indent=1)
    return rc


SPEC = {
    "level_text": "Coq theorems over all configurations, all genesis states and all sequences of pool critical sections "
                  "(submission batches local/remote, runReorg with any reset/dirty-set/scheduler order, re-pricing, eviction, "
                  "removal, Pending()) with arbitrary arguments: the lookup is at all times the disjoint union of the pending "
                  "and queued views, every transaction filed under its sender, one nonce per account names at most one "
                  "pooled transaction, none is both pending and queued; every pooled transaction is not stale, affordable and "
                  "within the gas limit of the current head; Pending() returns exactly the pending view in nonce order; after every "
                  "runReorg the slot/queue limits hold exactly as the code defines them (locals exempt, per-account minimum allowance); "
                  "no history reaches a Go panic (total correctness, sanitised config). "
                  "The clause 'pending is gap-free from the account nonce' was REFUTED for the code before commit c78f52f (theorem + "
                  "replayable witness; the 15-line repair found here is now in /repo and is the model's gapfix branch, selected "
                  "per run by the harness); gap-freeness, queued-above-pending and soundness of the pool nonce are proved "
                  "unconditionally for the repaired code and, for the old code, for every history outside the finding (ghost flag "
                  "of the one code location). The model is a hand-written mirror of tx_pool.go/tx_list.go/"
                  "tx_noncer.go, compared with the real pool after every critical section of thousands of random histories "
                  "inside Coq; the lock discipline is checked on a method table regenerated from the source.",
    "level_note": "Trusted: Coq kernel + vm_compute; fidelity of the hand model rests on the differential check "
                  "(reach reported in evidence); price heap, journal, events and uint64 wrap-around are outside the model; "
                  "the data-race clause is partial (lock inventory + -race run as supporting evidence); no axioms.",
    "check": check,
    "harness": "c20",
    "hooks": ["core/zz_verif_c20.go"],
    "translators": [["locks", "-out", "{gen}/C20Locks.v"]],
    "coq_targets": ["C20/Model.vo", "C20/Spec.vo", "C20/Lemmas.vo", "C20/ProofsWF.vo", "C20/ProofsWF2.vo",
                    "C20/ProofsWF3.vo", "C20/ProofsCaps.vo", "C20/ProofsNonce.vo", "C20/ProofsNonce2.vo",
                    "C20/ProofsNonce3.vo", "C20/ProofsNonce4.vo", "C20/ProofsNonce5.vo", "C20/ProofsTotal.vo", "C20/ProofsLocals.vo", "C20/ProofsSched.vo", "C20/Proofs.vo",
                    "gen/C20Locks.vo", "C20/Bridge.vo", "C20/Properties.vo"],
    "coq_dirs": ["C20"],
    "properties_v": "C20/Properties.v",
    "obligations": [
        "C20_views_partition", "C20_never_pending_and_queued", "C20_pooled_valid",
        "C20_pending_gapfree_refuted", "C20_pending_gapfree_holds_outside", "C20_state_clauses_after_repair",
        "C20_pending_api_exact", "C20_never_panics", "C20_limits_after_every_reorg",
        "C20_account_queue_after_submission", "C20_accepted_is_pooled",
        "C20_locals_only_from_accepted_local_submissions", "C20_merged_resets_equal_last_head", "C20_lock_discipline", "C20_read_regions_do_not_write", "C20_evict_branch_as_modelled", "C20_scheduler_merge_as_modelled",
        "C20_nonvacuous_partition", "C20_nonvacuous_repair", "C20_nonvacuous_holds_outside", "C20_nonvacuous_limits", "C20_nonvacuous_merge",
    ],
    "cases": {"quick": 300, "thorough": 4500},
    "shard": 300,
    "search_factor": 3,
    "gen_args": [],
    "allowed_axioms": [],
    "finding_key": lambda h: h.get("what"),
    "findings": FINDINGS,
    "trusted_base": [
        "Coq 8.16.1 kernel (vm_compute for the lock table, the witnesses and the in-Coq model runs; no native_compute)",
        "no axioms: every obligation is Closed under the global context",
        "hand-written model coq/C20/Model.v of core/tx_pool.go, tx_list.go, tx_noncer.go (one op = one pool.mu critical section)",
        "correspondence harness harness/cmd/c20 (Go, real TxPool with a scripted chain) + in-Coq evaluation of the model on the same histories; "
        "scheduler choices the harness cannot observe (Go map order, sort.Sort on equal heartbeats) are searched by the model runner",
        "hook hooks/core/zz_verif_c20.go: exports internals, runs single critical sections; replicates the 6-line eviction branch of TxPool.loop "
        "(fingerprinted by the translator, obligation C20_evict_branch_as_modelled)",
        "translator 'c20 locks' (go/ast inventory of lock regions of every TxPool method -> coq/gen/C20Locks.v; also fingerprints the two "
        "request-merging branches of scheduleReorgLoop, obligation C20_scheduler_merge_as_modelled)",
        "coalesced head changes: the hook hands a burst of events to the real scheduleReorgLoop while it holds pool.mu (a run is in flight, nothing is "
        "awaited), so the scheduler's own merging produces the run that is compared with Model.merge_all / run_merged",
        "harness-side detection of whether the tree carries fixes/C20_pending_gap_after_partial_reinject.diff (selects the model's gapfix branch)",
    ],
    "assumptions": [
        "transaction hashes are collision free and types.Sender is a function of the transaction (fields t_id, t_from of the model)",
        "nonces, gas and prices stay below 2^64 (uint64 wrap-around is not modelled; N is unbounded)",
        "the price heap is represented by its meaning (price order over the lookup); its stale counter is checked only by the harness oracle",
        "the nonce index of txSortedMap is represented by its meaning (the items in nonce order), not as the container/heap array; that the "
        "array is a min-heap over exactly the item keys is checked by the oracle after every critical section (hook exposes the array), and a "
        "directed generator (gapped transactions submitted in shuffled nonce order, a head that drops exactly one of them, a head that raises the "
        "account nonce) exercises the root-only reads of Forward/Ready",
        "journal, event feed, metrics, NewTxPool's config sanitising and the wall clock (Lifetime test) are outside the model",
        "every access to the pool's shared fields happens inside a pool.mu critical section (checked on the regenerated method table) "
        "- under it concurrent executions are interleavings of the model's ops",
        "reset with an unknown *new* head inside the reorg-walk range dereferences nil in Go; the harness never does this",
    ],
    "modelled": ["core.(*TxPool).add", "addTxsLocked", "validateTx", "enqueueTx", "promoteTx", "promoteExecutables",
                 "demoteUnexecutables", "reset", "runReorg", "truncatePending", "truncateQueue", "removeTx", "SetGasPrice",
                 "Pending", "eviction branch of loop", "scheduleReorgLoop (request merging: sched_merge / merge_all / run_merged)", "txList.*", "txSortedMap.*", "txNoncer.*", "txLookup.*",
                 "txPricedList.Underpriced/Discard/Cap (by meaning)"],
    "partial": [
        "re-injection completeness (a still-valid transaction of an abandoned block is pooled after the reset unless refused for a "
        "stated reason) is an oracle clause (default-sized pools, no competing nonce) plus the model comparison; the Coq theorem "
        "C20_accepted_is_pooled covers only 'what add accepts is pooled'",
        "after a reset the code gives no per-account AccountQueue bound (demoteUnexecutables re-queues without capping): "
        "C20_account_queue_after_submission is stated for the reorg run that follows a submission",
        "C20_merged_resets_equal_last_head is about the merging and the run launched for it (merged request = first old head, LAST new head, "
        "union of dirty sets; the pool ends on that head's state and gas limit when the reset takes effect); the goroutine/channel mechanics of "
        "scheduleReorgLoop (which requests end up in which run) are exercised on the real scheduler by the burst ops and their oracle clause "
        "'pool-on-stale-head', not modelled in Coq",
        "totality assumes the blockChain contract (reset's new head is known to the chain); an unknown new head inside the reorg-walk range makes Go dereference nil",
        "readers overlapping a reorg run: the 'probe' run (every tier: 300 accounts x 3 pending txs, 150 head changes between blocks of "
        "identical state through the real scheduler, a nonce-polling reader and a reader cycling through Stats/Get/Status/Locals/Pending/Content) "
        "checks that every answer is the one a sequential history gives; whether a reader overlaps a run is up to the Go scheduler, so the probe is "
        "repeated (4 key sets quick, 16 thorough) and its replay reports a hit rate",
        "data races: Go memory model is outside Coq; lock inventory (C20_lock_discipline: shared fields only inside pool.mu; "
        "C20_read_regions_do_not_write: nothing reachable from an RLock-only region writes shared state, lazy caches included), "
        "the concurrent-readers scenario (every tier) and the -race runs (thorough tier) are supporting evidence",
    ],
}
