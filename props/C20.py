KEY = "pending-gap-after-partial-reinject"
KNOWN = [{
    "property": "C20", "status": "open", "key": KEY,
    "text": "pending list keeps a nonce gap after a reorg that re-injects only part of the dropped transactions "
            "(demoteUnexecutables only tests the very front): witness corpus/C20/w1_gap_after_partial_reinject.json, "
            "repair fixes/C20_pending_gap_after_partial_reinject.diff",
    "witness": ["corpus/C20/w1_gap_after_partial_reinject.json"],
}]


def check(pid, tier, seed):
    """standard_check, with the C20 finding listed here until it is moved to
    /verif/known_findings.json (builders do not edit shared files)."""
    import vf
    orig = vf.load_known

    def load_known(p):
        ks = orig(p)
        if p == "C20" and not [k for k in ks if k.get("key") == KEY]:
            ks = ks + KNOWN
        return ks
    vf.load_known = load_known
    try:
        return vf.standard_check(pid, tier, seed)
    finally:
        vf.load_known = orig


SPEC = {
    "level_text": "TODO",
    "level_note": "TODO",
    "check": check,
    "harness": "c20",
    "hooks": ["core/zz_verif_c20.go"],
    "translators": [],
    "coq_targets": ["C20/Model.vo", "C20/Properties.vo"],
    "properties_v": "C20/Properties.v",
    "obligations": ["C20_nonvacuous_run"],
    "cases": {"quick": 300, "thorough": 6000},
    "shard": 300,
    "gen_args": [],
    "allowed_axioms": [],
    "finding_key": lambda h: h.get("what"),
    "trusted_base": [],
    "assumptions": [],
    "modelled": [],
    "partial": [],
}
