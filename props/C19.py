KEY = "raw-entry-satisfies-trie-node-request"
KNOWN = [{
    "property": "C19", "status": "open", "key": KEY,
    "text": "a hash requested as a raw entry (contract code / delegations blob) also satisfies a trie-node request for the "
            "same hash (requests, membatch and database are keyed by hash only): the node is stored without its children and "
            "the sync reports completion with a storage trie missing; needs contract code equal to the RLP of a trie node; "
            "witness corpus/C19/w1_code_equals_storage_root_node.json, analysis fixes/C19_raw_entry_satisfies_node_request.md",
    "witness": ["corpus/C19/w1_code_equals_storage_root_node.json"],
}]


def check(pid, tier, seed):
    """standard_check, with the C19 finding listed here until it is moved to
    /verif/known_findings.json (builders do not edit shared files)."""
    import vf
    orig = vf.load_known

    def load_known(p):
        ks = orig(p)
        if p == "C19" and not [k for k in ks if k.get("key") == KEY]:
            ks = ks + KNOWN
        return ks
    vf.load_known = load_known
    try:
        return vf.standard_check(pid, tier, seed)
    finally:
        vf.load_known = orig


SPEC = {
    "level_text": "TODO",
    "level_note": "TODO",
    "check": check,
    "harness": "c19",
    "hooks": ["trie/zz_verif_c19.go", "you/downloader/zz_verif_c19.go"],
    "translators": [],
    "coq_targets": ["C19/Model.vo", "C19/Properties.vo"],
    "properties_v": "C19/Properties.v",
    "obligations": ["C19_nonvacuous_stub"],
    "cases": {"quick": 240, "thorough": 6000},
    "shard": 120,
    "gen_args": [],
    "allowed_axioms": [],
    "finding_key": lambda h: h.get("what"),
    "trusted_base": [],
    "assumptions": [],
    "modelled": [],
    "partial": [],
}
