KEY = "raw-entry-satisfies-trie-node-request"
KNOWN = [{
    "property": "C19", "status": "open", "key": KEY,
    "text": "a hash requested as a raw entry (contract code / delegations blob) also satisfies a trie-node request for the "
            "same hash (requests, membatch and database are keyed by hash only): the node is stored without its children and "
            "the sync reports completion with a storage trie missing; needs contract code equal to the RLP of a trie node; "
            "witness corpus/C19/w1_code_equals_storage_root_node.json, analysis fixes/C19_raw_entry_satisfies_node_request.md",
    "witness": ["corpus/C19/w1_code_equals_storage_root_node.json"],
}]


def check(pid, tier, seed):
    """standard_check, with the C19 finding listed here until it is moved to
    /verif/known_findings.json (builders do not edit shared files)."""
    import vf
    orig = vf.load_known

    def load_known(p):
        ks = orig(p)
        if p == "C19" and not [k for k in ks if k.get("key") == KEY]:
            ks = ks + KNOWN
        return ks
    vf.load_known = load_known
    try:
        return vf.standard_check(pid, tier, seed)
    finally:
        vf.load_known = orig


SPEC = {
    "fingerprint_funcs": [
        "trie/sync.go:NewSync", "trie/sync.go:Sync.AddSubTrie", "trie/sync.go:Sync.AddRawEntry",
        "trie/sync.go:Sync.Missing", "trie/sync.go:Sync.Process", "trie/sync.go:Sync.Commit",
        "trie/sync.go:Sync.Pending", "trie/sync.go:Sync.schedule", "trie/sync.go:Sync.children",
        "trie/sync.go:Sync.commit", "core/state/sync.go:NewStateSync",
        "you/downloader/triesync.go:trieSync.processNodeData", "you/downloader/triesync.go:trieSync.fillTasks",
        "you/downloader/triesync.go:trieSync.process", "you/downloader/triesync.go:trieSync.commit",
        "you/downloader/triesync.go:trieSync.loop", "you/downloader/triesync.go:Downloader.runTrieSync",
        "you/downloader/triesync.go:Downloader.launchTrieSync", "you/downloader/triesync.go:Downloader.trieFetcher",
        "you/downloader/triesync.go:trieSync.run", "you/downloader/triesync.go:trieSync.Wait",
        "you/downloader/triesync.go:Downloader.FetchVldTrie", "you/downloader/triesync.go:Downloader.fetchStakingTrie",
        "you/downloader/triesync.go:Downloader.syncState", "you/downloader/triesync.go:Downloader.commonSyncTrie",
        "you/downloader/triesync.go:Downloader.syncCht", "you/downloader/triesync.go:Downloader.syncBlt",
        "you/downloader/downloader.go:Downloader.fetchAcTrie", "core/blockchain.go:BlockChain.TrieBackingDb",
    ],
    "level_text": "Coq theorems over all histories of any length (responses in any order and batching, duplicates, "
                  "unrequested and undecodable blobs, writers failing after k puts, restarts on the database as it is), "
                  "all hash functions and all node decoders: outside the listed finding class the destination database is "
                  "hash-consistent and ordered-closed at every point (every entry's children, storage root, code and "
                  "delegations blob are older entries) - also after any prefix of a commit's writes; whatever is present "
                  "has its whole closure present; Pending()=0 implies the closure of the root is present; a complete "
                  "hash-consistent database agrees with a complete hash-consistent source on the whole closure; a blob "
                  "that hashes to nothing pending, or does not decode, changes nothing in any scheduler state. The "
                  "unrestricted statement is refuted in the model by the finding's witness. The model is a hand-written "
                  "mirror of trie.Sync, the state-sync callback and processNodeData, compared inside Coq with the real "
                  "code on scripted responder histories (return values, Pending, full request/membatch/database dumps). "
                  "Completeness, never-partial and identical content are also stated without any assumption on the hash: "
                  "either they hold or two distinct blobs with equal hash are exhibited in the run's own store. The "
                  "downloader's request bookkeeping (trieSync.fillTasks/process/commit and runTrieSync's dispatcher) is a "
                  "state machine over the Sync model: for every sequence of peer and loop events the invariant holds, blobs "
                  "whose hash is not pending and packets without an active request change nothing, unanswered tasks are queued "
                  "again (re-assignable after timeout/drop), the loop ends without error only with Pending()=0 and the deferred "
                  "commit(true) leaves an ordered-closed, complete database; fillTasks/process/commit run for real in a separate "
                  "campaign class with scripted peers. Launching (launchTrieSync -> trieFetcher -> run/loop -> done/Wait) is a "
                  "state machine queued -> running -> done(err): done with err == nil only after a hand-over to the fetcher and "
                  "a loop guard that found Pending()=0 (then the database holds the root's closure), never for a task interrupted "
                  "while queued; a third campaign class drives the REAL launchTrieSync / trieFetcher goroutine / runTrieSync / "
                  "loop / FetchVldTrie / fetchStakingTrie / syncState+Wait with stub peers through cancel-before/during-launch "
                  "(fetcher idle or busy), cancel mid-sync, quit, new cycle + re-launch, with the oracle 'nil => whole trie "
                  "readable locally'.",
    "level_note": "Trusted: Coq kernel + vm_compute; fidelity of the hand model rests on the differential check "
                  "(generator reach in evidence); Keccak and decodeNode are parameters of every theorem (the harness "
                  "supplies their finite tables per case); no axioms. Open finding: a raw entry (contract code) equal to "
                  "a trie node satisfies the node request without its children (fixes/C19_raw_entry_satisfies_node_request.md).",
    "check": check,
    "harness": "c19",
    "hooks": ["trie/zz_verif_c19.go", "you/downloader/zz_verif_c19.go"],
    "translators": [],
    "coq_targets": ["C19/Model.vo", "C19/Proofs.vo", "C19/ProofsInv.vo", "C19/ProofsMain.vo", "C19/ProofsCollide.vo",
                    "C19/ProofsCaller.vo", "C19/Properties.vo"],
    "properties_v": "C19/Properties.v",
    "obligations": [
        "C19_closed_holds_outside", "C19_never_partial_holds_outside", "C19_complete_holds_outside",
        "C19_identical_content", "C19_database_hash_consistent", "C19_wrong_data", "C19_complete_refuted",
        "C19_complete_or_collision_holds_outside", "C19_identical_content_or_collision",
        "C19_caller_unrequested_blob_ignored", "C19_caller_unsolicited_packet_dropped", "C19_caller_unanswered_requeued",
        "C19_caller_closed_holds_outside", "C19_caller_complete_holds_outside",
        "C19_nonvacuous_world", "C19_nonvacuous_interrupted", "C19_nonvacuous_wrong_data", "C19_nonvacuous_witness",
        "C19_nonvacuous_caller",
        "C19_launch_done_only_after_loop", "C19_launch_not_done_without_handover", "C19_launch_interrupted_is_error",
        "C19_launch_done_final", "C19_launch_refines", "C19_nonvacuous_launch",
        "C19_sync_writes_only_its_own_database", "C19_launch_process_error_is_error", "C19_launch_process_error_recorded", "C19_nonvacuous_launch_error",
    ],
    "cases": {"quick": 240, "thorough": 6000},
    "shard": 120,
    "gen_args": [],
    "allowed_axioms": [],
    "finding_key": lambda h: h.get("what"),
    "trusted_base": [
        "Coq 8.16.1 kernel (vm_compute for the non-vacuity examples, the witness and the in-Coq model runs; no native_compute)",
        "no axioms: every obligation is Closed under the global context",
        "hand-written model coq/C19/Model.v of trie.Sync (NewSync, AddSubTrie, AddRawEntry, Missing, Process, Commit, Pending, "
        "schedule, children, commit), state.NewStateSync's callback and trieSync.processNodeData",
        "correspondence harness harness/cmd/c19 (Go): interning of hashes/blobs, the per-case tables of Keccak-256 and of "
        "decodeNode (hook trie.VerifC19Decode + rlp decoding of state.Account), the scripted responder, the failing writer",
        "hooks hooks/trie/zz_verif_c19.go (read-only projections of decodeNode and of the scheduler state) and "
        "hooks/you/downloader/zz_verif_c19.go (runs processNodeData, fillTasks, process, commit on a trieSync built by newTrieSync "
        "over a Downloader holding only a peer set)",
    ],
    "assumptions": [
        "outside the finding class: raw_node_separate (a blob whose hash an account uses as code/delegations hash does not "
        "decode to a node that needs anything) and storage_account_separate (no storage-trie node carries a value that decodes "
        "as an account); C19_complete_refuted shows the statement fails without them",
        "no blob hashes to the all-zero hash (common.Hash{} means 'no parent' in AddSubTrie/AddRawEntry)",
        "the injective-hash versions of completeness / identical content are kept; the *_or_collision versions need no assumption on the hash",
        "the hash handed to Sync.Process is the hash of the blob (done by trieSync.processNodeData; Sync itself does not check it)",
        "the database the sync reads is the one Commit writes to, nothing else deletes from it; the initial database is ordered-closed "
        "(empty, or left by an earlier sync)",
        "a decoded node has at most one value child and it comes after all hash children (checked by the harness for every blob it decodes)",
        "Missing's choice among equal priorities is taken from the observation and only checked to be a legal pop order",
        "caller campaign: trieSync.fillTasks / process / commit / processNodeData are executed for real (bare Downloader with a "
        "peer set); the select loop of runTrieSync and trieSync.loop (goroutines, channels, timers, peer capacity, dropPeer) "
        "is modelled as the event alphabet of mstep and played by the harness, not executed; which eligible tasks a Go map "
        "iteration hands out and which of equal-priority entries Missing pops are taken from the observation and checked legal",
        "trieSync.commit writes through a database batch (atomic); the per-put prefix property is proved for Sync.Commit anyway",
        "per-kind databases: the model makes the database a parameter of each sync (C19_sync_writes_only_its_own_database holds by "
        "construction); that trieSync.commit writes through a batch of the current sync's backing database is an ORACLE-ONLY clause: "
        "launch histories run several syncs of different kinds (validator/staking/state vs CHT vs BLT, both orders) on one Downloader "
        "with TrieBackingDb as in core.BlockChain (prefixes checked against core.ChtTablePrefix / BloomTrieTablePrefix)",
        "launch campaign: real goroutines and channels with stub peers; outcomes are compared with the projection (astep) of the "
        "launch machine, proved to be its refinement (C19_launch_refines); racy cancelled-launch histories are repeated 3-12 "
        "times per shard; fetchAcTrie / prepareForFullSync and the other callers of sync.done are not driven (they need a chain)",
    ],
    "modelled": ["trie.NewSync", "trie.Sync.AddSubTrie", "trie.Sync.AddRawEntry", "trie.Sync.Missing", "trie.Sync.Process",
                 "trie.Sync.Commit", "trie.Sync.Pending", "trie.Sync.schedule", "trie.Sync.children", "trie.Sync.commit",
                 "state.NewStateSync (leaf callback)", "downloader.trieSync.processNodeData",
                 "downloader.trieSync.fillTasks", "downloader.trieSync.process", "downloader.trieSync.commit",
                 "downloader.trieSync.loop (as events)", "downloader.Downloader.runTrieSync (dispatcher, as events)"],
    "partial": [],
}
