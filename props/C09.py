# C09 - reverting to a state snapshot restores exactly the snapshotted state.
#
# Findings of this property fixed in /repo:
#   744634f  revision lists out of step after a finalised transaction   (witness corpus/C09/w1_*)
#   fe4c1ff  reverts across RemoveValidator / RemoveWithdrawRecords / UpdateDelegation did not restore
#            (witnesses corpus/C09/w2_* w3_* w4_*, description fixes/C09_validator_journal_reverts.md)
# The witnesses stay in the corpus; a tree that shows the old behaviour again makes the
# harness oracle report them, and the check answers with a VIOLATION line.
# Open (both need RemoveValidator, which has no production caller): CreateValidator over a removed
# validator; statistics no longer invertible after a removal was counted twice (KNOWN below,
# fixes/C09_validator_create_revert.*).

KEY_CREATE = ("revert of a CreateValidator that replaced a removed validator wipes the address: the removed record and "
              "its index entry are not put back (validatorCreateChange)")
KEY_STAT = ("a revert across UpdateValidator / RemoveValidator does not restore the statistics when they do not cover the "
            "record (saturating subtraction in ValKindStat after RemoveValidator was counted twice)")
KNOWN = [
    {"property": "C09", "status": "open", "key": KEY_STAT,
     "text": "after a RemoveValidator took effect, reverts no longer restore the validator statistics / index / validator root: the "
             "removal is counted a second time (second RemoveValidator, or deleteValidator in IntermediateRoot), the totals stop covering "
             "the remaining validators and ValKindStat's saturating subtraction is neither invertible nor independent of Go's map "
             "iteration order; same root cause as the statistics defect of C08, RemoveValidator has no production caller. "
             "witness corpus/C09/w9_statistics_saturation.json, description fixes/C09_validator_create_revert.md",
     "witness": ["corpus/C09/w9_statistics_saturation.json"]},
    {"property": "C09", "status": "open", "key": KEY_CREATE,
     "text": "RevertToSnapshot across a CreateValidator that replaced a validator removed with RemoveValidator deletes the live "
             "entry and the index entry instead of putting the removed record back (validatorCreateChange only knows the address); "
             "index, end-of-block statistics and validator root then differ from the snapshot. RemoveValidator has no production "
             "caller. witness corpus/C09/w8_create_over_removed_validator.json, repair fixes/C09_validator_create_revert.diff",
     "witness": ["corpus/C09/w8_create_over_removed_validator.json"]},
]


def check(pid, tier, seed):
    """standard_check with the open C09 findings listed here (builders do not edit
    the shared /verif/known_findings.json).  Each is listed only while its witness
    still fails on the tree under test, so nothing is printed for a finding once
    its repair has been applied."""
    import os
    import vf
    present = list(KNOWN)
    ok, _log, binp = vf.build_harness(SPEC["harness"], SPEC.get("hooks"))
    if ok:
        present = []
        for k in KNOWN:
            rc, _out = vf.sh([binp, "replay", "-file", os.path.join(vf.VERIF, k["witness"][0])], env=vf.GOENV, timeout=300)
            if rc == 1:
                present.append(k)
    orig = vf.load_known

    def load_known(p):
        ks = orig(p)
        if p == "C09":
            have = {k.get("key") for k in ks}
            ks = ks + [k for k in present if k["key"] not in have]
        return ks
    vf.load_known = load_known
    try:
        return vf.standard_check(pid, tier, seed)
    finally:
        vf.load_known = orig


SPEC = {
    "check": check,
    "level_text": "Coq theorem over every history of StateDB calls (any length, any nesting depth, any number of finalised transactions before the snapshot): a RevertToSnapshot to an id that stayed valid does not fail and gives back the snapshot's state on both journals - all account getters for all addresses and storage keys, journal, dirty sets, refund, logs, preimages, validators, index, statistics, withdraw queue, both revision lists - and what IntermediateRoot then writes into the tries is what it would have written at the snapshot. Covered: every modelled call except Prepare and the designed RIPEMD touch exception, with stated side conditions on the validator calls (measured to hold on all generated histories). The model is a hand-written mirror of statedb.go / journal.go / state_object.go / statedb_val.go (both journals, both revision lists) compared inside Coq with the real StateDB after every call of hundreds of random histories per run; an independent oracle in the harness checks the property itself on the implementation (full dump and roots of a copy at snapshot time vs after the revert). The model also carries the behaviour before fix fe4c1ff behind a switch; for that behaviour the full statement is refuted in Coq by the two modelled witnesses.",
    "level_note": "Trusted: Coq kernel + vm_compute; model fidelity rests on the differential check (61-bit checksum of the full observation after every call). The read caches (live object map over the account trie, originStorage over the storage trie) are merged in the model; Go pointer aliasing is outside the value model (the delegation-slice regression is therefore covered by implementation-only histories and the oracle); negative balances, uint64 overflow of nonce/refund, validator roles outside 1..3, StateDB.Copy and the staking trie are outside the model; no axioms.",
    "harness": "c09",
    "hooks": ["core/state/zz_verif_c09.go"],
    "translators": [],
    "coq_targets": ["C09/Model.vo", "C09/ProofsMaps.vo", "C09/ProofsA.vo", "C09/ProofsV.vo", "C09/Proofs.vo", "C09/Properties.vo"],
    "properties_v": "C09/Properties.v",
    "obligations": [
        "C09_revert_restores", "C09_revert_restores_before_fix_holds_outside", "C09_revert_restores_with_create_fix",
        "C09_restored_account_getters", "C09_restored_account_observation", "C09_restored_validator_getters",
        "C09_resulting_tries", "C09_revision_lists_agree",
        "C09_refuted_before_fix", "C09_before_fix_remove_validator_statistics", "C09_before_fix_withdraw_queue_order",
        "C09_ripemd_touch_exception",
        "C09_nonvacuous_window", "C09_nonvacuous_validator_window", "C09_nonvacuous_remove_window",
        "C09_create_over_removed_validator",
    ],
    "fingerprint_funcs": [
        "core/state/statedb.go:StateDB.Snapshot",
        "core/state/statedb.go:StateDB.RevertToSnapshot",
        "core/state/statedb.go:StateDB.Finalise",
        "core/state/statedb.go:StateDB.IntermediateRoot",
        "core/state/statedb.go:StateDB.Commit",
        "core/state/statedb.go:StateDB.clearJournalAndRefund",
        "core/state/statedb.go:StateDB.AddLog",
        "core/state/statedb.go:StateDB.AddPreimage",
        "core/state/statedb.go:StateDB.AddRefund",
        "core/state/statedb.go:StateDB.SubRefund",
        "core/state/statedb.go:StateDB.AddBalance",
        "core/state/statedb.go:StateDB.SubBalance",
        "core/state/statedb.go:StateDB.SetBalance",
        "core/state/statedb.go:StateDB.SetNonce",
        "core/state/statedb.go:StateDB.SetCode",
        "core/state/statedb.go:StateDB.SetState",
        "core/state/statedb.go:StateDB.Suicide",
        "core/state/statedb.go:StateDB.createObject",
        "core/state/statedb.go:StateDB.CreateAccount",
        "core/state/statedb.go:StateDB.GetOrNewStateObject",
        "core/state/statedb.go:StateDB.getStateObject",
        "core/state/statedb.go:StateDB.getDeletedStateObject",
        "core/state/statedb.go:StateDB.Prepare",
        "core/state/journal.go:journal.append",
        "core/state/journal.go:journal.revert",
        "core/state/journal.go:journal.dirty",
        "core/state/journal.go:createObjectChange.revert",
        "core/state/journal.go:createObjectChange.dirtied",
        "core/state/journal.go:resetObjectChange.revert",
        "core/state/journal.go:resetObjectChange.dirtied",
        "core/state/journal.go:suicideChange.revert",
        "core/state/journal.go:suicideChange.dirtied",
        "core/state/journal.go:balanceChange.revert",
        "core/state/journal.go:balanceChange.dirtied",
        "core/state/journal.go:nonceChange.revert",
        "core/state/journal.go:nonceChange.dirtied",
        "core/state/journal.go:storageChange.revert",
        "core/state/journal.go:storageChange.dirtied",
        "core/state/journal.go:codeChange.revert",
        "core/state/journal.go:codeChange.dirtied",
        "core/state/journal.go:delegationBalanceChange.revert",
        "core/state/journal.go:delegationBalanceChange.dirtied",
        "core/state/journal.go:delegationsChange.revert",
        "core/state/journal.go:delegationsChange.dirtied",
        "core/state/journal.go:refundChange.revert",
        "core/state/journal.go:refundChange.dirtied",
        "core/state/journal.go:addLogChange.revert",
        "core/state/journal.go:addLogChange.dirtied",
        "core/state/journal.go:addPreimageChange.revert",
        "core/state/journal.go:addPreimageChange.dirtied",
        "core/state/journal.go:touchChange.revert",
        "core/state/journal.go:touchChange.dirtied",
        "core/state/journal.go:validatorCreateChange.revert",
        "core/state/journal.go:validatorCreateChange.dirtied",
        "core/state/journal.go:validatorUpdateChange.revert",
        "core/state/journal.go:validatorUpdateChange.dirtied",
        "core/state/journal.go:validatorDeleteChange.revert",
        "core/state/journal.go:validatorDeleteChange.dirtied",
        "core/state/journal.go:validatorAddUBDChange.revert",
        "core/state/journal.go:validatorAddUBDChange.dirtied",
        "core/state/journal.go:validatorDelWithdrawChange.revert",
        "core/state/journal.go:validatorDelWithdrawChange.dirtied",
        "core/state/state_object.go:stateObject.empty",
        "core/state/state_object.go:stateObject.touch",
        "core/state/state_object.go:stateObject.GetState",
        "core/state/state_object.go:stateObject.GetCommittedState",
        "core/state/state_object.go:stateObject.SetState",
        "core/state/state_object.go:stateObject.setState",
        "core/state/state_object.go:stateObject.finalise",
        "core/state/state_object.go:stateObject.updateTrie",
        "core/state/state_object.go:stateObject.updateRoot",
        "core/state/state_object.go:stateObject.AddBalance",
        "core/state/state_object.go:stateObject.SubBalance",
        "core/state/state_object.go:stateObject.SetBalance",
        "core/state/state_object.go:stateObject.SetCode",
        "core/state/state_object.go:stateObject.setCode",
        "core/state/state_object.go:stateObject.SetNonce",
        "core/state/state_object.go:stateObject.SetDelegationBalance",
        "core/state/state_object.go:stateObject.AddDelegationBalance",
        "core/state/state_object.go:stateObject.UpdateDelegationTo",
        "core/state/state_object.go:stateObject.updateDelegations",
        "core/state/state_object.go:stateObject.setDelegations",
        "core/state/statedb_val.go:StateDB.UpdateValidator",
        "core/state/statedb_val.go:StateDB.RemoveValidator",
        "core/state/statedb_val.go:StateDB.CreateValidator",
        "core/state/statedb_val.go:StateDB.getValidator",
        "core/state/statedb_val.go:StateDB.setValidator",
        "core/state/statedb_val.go:StateDB.incrValidatorsStat",
        "core/state/statedb_val.go:StateDB.decrValidatorsStat",
        "core/state/statedb_val.go:StateDB.deleteValidator",
        "core/state/statedb_val.go:StateDB.updateValidator",
        "core/state/statedb_val.go:StateDB.AddWithdrawRecord",
        "core/state/statedb_val.go:StateDB.RemoveWithdrawRecords",
        "core/state/statedb_staking.go:StateDB.UpdateDelegator",
        "core/state/statedb_staking.go:StateDB.UpdateDelegation",
        "core/state/validator.go:Validator.StakeEqual",
        "core/state/validator.go:Validator.PartialCopy",
        "core/state/validator.go:Validator.IsInvalid",
        "core/state/validator.go:ValKindStat.SubVal",
        "core/state/validator.go:ValKindStat.AddVal",
        "core/state/validator.go:ValKindStat.subStake",
        "core/state/validator.go:ValKindStat.subToken",
        "core/state/validator.go:ValKindStat.subCount",
        "core/state/validator.go:WithdrawQueue.Add",
        "core/state/validator.go:WithdrawQueue.Delete",
        "core/state/validator.go:WithdrawQueue.Insert",
        "core/state/validator.go:WithdrawQueue.RemoveRecords",
        "core/state/validator.go:ValidatorIndex.Add",
        "core/state/validator.go:ValidatorIndex.Delete",
    ],
    "cases": {"quick": 500, "thorough": 12000},
    "shard": 500,
    "search_factor": 3,
    "gen_args": ["-tier", "{tier}"],
    "allowed_axioms": [],
    "finding_key": lambda h: h.get("what"),
    "trusted_base": [
        "Coq 8.16.1 kernel (vm_compute for the concrete witnesses, the non-vacuity examples and the model runs; no native_compute)",
        "no axioms: every obligation is Closed under the global context",
        "hand-written model coq/C09/Model.v of Snapshot / RevertToSnapshot / Finalise / IntermediateRoot / Commit+New / clearJournalAndRefund, every journal entry of both journals, the account, storage, code, log, preimage, refund, delegation, validator and withdraw-queue mutators",
        "correspondence harness harness/cmd/c09 (Go, real StateDB on a memory database) + in-Coq evaluation of the model on the same histories; 61-bit checksum of the full observation after every call",
        "add-only hook hooks/core/state/zz_verif_c09.go (reads journal lengths, revision lists, dirty sets, delegation list, validator peek)",
        "the property oracle of the harness (rich observation incl. roots of Copy().IntermediateRoot at snapshot time vs after the revert)",
    ],
    "assumptions": [
        "read caches are semantically transparent (live objects over the account trie, originStorage over the storage trie): merged in the model, exercised by the harness (every getter is called after every call)",
        "inside the window: no Prepare (not journalled by design, called before a transaction's snapshot); no zero-value AddBalance to the RIPEMD precompile (designed upstream exception, witnessed by C09_ripemd_touch_exception)",
        "validator calls inside the window meet the side conditions of ProofsV.v: CreateValidator targets an address that is in neither the live map nor the index (or an existing validator: refused) - with fixes/C09_validator_create_revert.diff a removed record in the live map and an indexed address are admitted too; UpdateValidator / RemoveValidator act on the live record, which is in the index, while the statistics are non-negative, counters < 2^64 and cover that record; GetValidatorByMainAddr does not have to load from the trie; RemoveWithdrawRecords gets distinct positions. Measured on every generated history (distribution side_condition_*): they fail only in histories that used RemoveValidator (the two open findings), they are not proved to be an invariant",
        "balances and delegation balances stay >= 0 (a negative big.Int cannot be RLP-encoded), nonce/refund below 2^64, validator roles in 1..3",
        "Go pointer aliasing is not modelled: the journal's old records are values",
    ],
    "modelled": ["StateDB.Snapshot", "StateDB.RevertToSnapshot", "StateDB.Finalise", "StateDB.IntermediateRoot", "StateDB.Commit+New",
                 "StateDB.clearJournalAndRefund", "journal.append", "journal.revert", "all 13 account journal entries", "all 5 validator journal entries",
                 "AddBalance/SubBalance/SetBalance/SetNonce/SetCode/SetState/Suicide/CreateAccount/AddLog/AddPreimage/AddRefund/SubRefund/UpdateDelegator/Prepare",
                 "CreateValidator/UpdateValidator/RemoveValidator/GetValidatorByMainAddr/AddWithdrawRecord/RemoveWithdrawRecords",
                 "stateObject.finalise/updateTrie", "incr/decrValidatorsStat", "WithdrawQueue.Delete/RemoveRecords/Insert"],
    "partial": [
        "C09_revert_restores: side conditions on the validator calls (see assumptions) are hypotheses, not derived from an invariant of reachable states; the roots themselves are hashes outside the model - proved is equality of the trie contents they are hashes of (C09_resulting_tries), checked on the implementation by the oracle",
    ],
}
