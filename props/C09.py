KEY_RMVAL = ("revert does not restore a validator removed with RemoveValidator (validatorDeleteChange keeps the "
             "deleted flag and does not restore the statistics)")
KEY_WDORDER = ("revert re-appends withdraw records removed with RemoveWithdrawRecords at the end of the queue "
               "instead of their old positions")
KEY_DLGALIAS = ("revert does not restore a validator's delegation list after UpdateDelegation (PartialCopy shares the "
                "Delegations slice that UpdateDelegationFrom edits in place)")

KNOWN = [
    {"property": "C09", "status": "open", "key": KEY_RMVAL,
     "text": "RevertToSnapshot across StateDB.RemoveValidator leaves the validator deleted and the statistics decremented "
             "(validatorDeleteChange stores the live object whose deleted flag is then set, and its revert never calls "
             "incrValidatorsStat); no production caller of RemoveValidator exists. witness corpus/C09/w2_remove_validator_not_restored.json, "
             "repair fixes/C09_validator_journal_reverts.diff",
     "witness": ["corpus/C09/w2_remove_validator_not_restored.json"]},
    {"property": "C09", "status": "open", "key": KEY_WDORDER,
     "text": "RevertToSnapshot across StateDB.RemoveWithdrawRecords puts the removed records back at the end of the withdraw queue "
             "(in reverse order), so the queue and the validator root differ from the snapshot; the only caller runs in EndBlock, "
             "outside any snapshot. witness corpus/C09/w3_withdraw_queue_order.json, repair fixes/C09_validator_journal_reverts.diff",
     "witness": ["corpus/C09/w3_withdraw_queue_order.json"]},
    {"property": "C09", "status": "open", "key": KEY_DLGALIAS,
     "text": "RevertToSnapshot across StateDB.UpdateDelegation does not restore the validator's delegation list: Validator.PartialCopy "
             "shares the Delegations slice and UpdateDelegationFrom overwrites / shifts it in place, so the journalled old record is "
             "edited too (after a removed delegation the restored list ends in a nil entry and Dump panics). "
             "witness corpus/C09/w4_delegation_slice_shared.json, repair fixes/C09_validator_journal_reverts.diff",
     "witness": ["corpus/C09/w4_delegation_slice_shared.json"]},
]


def check(pid, tier, seed):
    """standard_check with the C09 findings listed here (builders do not edit
    the shared /verif/known_findings.json).  A finding is listed only while its
    witness still fails on the tree under test, so the check also passes once
    fixes/C09_validator_journal_reverts.diff has been applied."""
    import os
    import vf
    present = list(KNOWN)
    ok, _log, binp = vf.build_harness(SPEC["harness"], SPEC.get("hooks"))
    if ok:
        present = []
        for k in KNOWN:
            rc, _out = vf.sh([binp, "replay", "-file", os.path.join(vf.VERIF, k["witness"][0])], env=vf.GOENV, timeout=300)
            if rc == 1:
                present.append(k)
    orig = vf.load_known

    def load_known(p):
        ks = orig(p)
        if p == "C09":
            have = {k.get("key") for k in ks}
            ks = ks + [k for k in present if k["key"] not in have]
        return ks
    vf.load_known = load_known
    try:
        return vf.standard_check(pid, tier, seed)
    finally:
        vf.load_known = orig


SPEC = {
    "level_text": "Coq theorem over every history of StateDB calls (any length, any nesting depth, any number of finalised transactions before the snapshot): a RevertToSnapshot to an id that stayed valid does not fail and gives back the snapshot's state on both journals - all account getters for all addresses and keys, journal, dirty sets, refund, logs, preimages, validators, index, statistics, withdraw queue, both revision lists - for all calls outside two listed finding classes (RemoveValidator, RemoveWithdrawRecords), the designed RIPEMD touch exception and Prepare, with stated side conditions on the three validator calls. The full statement is refuted on the faithful model by concrete witnesses for the two findings. The model is a hand-written mirror of statedb.go/journal.go/state_object.go/statedb_val.go (both journals, both revision lists) compared inside Coq with the real StateDB after every call of hundreds of random histories per run; an independent oracle in the harness checks the property itself on the implementation (full dump and roots of a copy at snapshot vs after revert).",
    "level_note": "Trusted: Coq kernel + vm_compute; model fidelity rests on the differential check (checksummed full observation after every call). The read caches (live object map over the account trie, originStorage over the storage trie) are merged in the model; Go pointer aliasing is outside the value model (the delegation-slice finding is therefore implementation-only); negative balances, uint64 overflow of nonce/refund, roles outside 1..3, Copy and the staking trie are outside the model; no axioms.",
    "check": check,
    "harness": "c09",
    "hooks": ["core/state/zz_verif_c09.go"],
    "translators": [],
    "coq_targets": ["C09/Model.vo", "C09/ProofsMaps.vo", "C09/ProofsA.vo", "C09/ProofsV.vo", "C09/Proofs.vo", "C09/Properties.vo"],
    "properties_v": "C09/Properties.v",
    "obligations": [
        "C09_revert_restores_holds_outside", "C09_restored_account_getters", "C09_restored_account_observation",
        "C09_restored_validator_getters", "C09_revision_lists_agree", "C09_refuted",
        "C09_refuted_remove_validator_statistics", "C09_refuted_withdraw_queue_order", "C09_ripemd_touch_exception",
        "C09_nonvacuous_window", "C09_nonvacuous_validator_window",
    ],
    "cases": {"quick": 500, "thorough": 12000},
    "shard": 500,
    "search_factor": 3,
    "gen_args": [],
    "allowed_axioms": [],
    "finding_key": lambda h: h.get("what"),
    "trusted_base": [
        "Coq 8.16.1 kernel (vm_compute for the concrete witnesses, the non-vacuity examples and the model runs; no native_compute)",
        "no axioms: every obligation is Closed under the global context",
        "hand-written model coq/C09/Model.v of Snapshot / RevertToSnapshot / Finalise / IntermediateRoot / Commit / clearJournalAndRefund, every journal entry of both journals, the account, storage, log, preimage, refund, delegation, validator and withdraw-queue mutators",
        "correspondence harness harness/cmd/c09 (Go, real StateDB on a memory database) + in-Coq evaluation of the model on the same histories; 61-bit checksum of the full observation after every call",
        "add-only hook hooks/core/state/zz_verif_c09.go (reads journal lengths, revision lists, dirty sets, delegation list, validator peek)",
        "the property oracle of the harness (rich observation incl. roots of Copy().IntermediateRoot at snapshot time vs after the revert)",
    ],
    "assumptions": [
        "read caches are semantically transparent (live objects over the account trie, originStorage over the storage trie): merged in the model, exercised by the harness (every getter is called after every call)",
        "inside the window: no Prepare; no zero-value AddBalance to the RIPEMD precompile (designed exception, witnessed by C09_ripemd_touch_exception); no RemoveValidator / RemoveWithdrawRecords (findings)",
        "CreateValidator targets an address that is in neither the live map nor the index (or an existing validator: refused); UpdateValidator is called with oldVal = the live record, which is in the index, and the statistics are non-negative, counters < 2^64 and cover the old record; GetValidatorByMainAddr does not have to load from the trie (all hold on histories built through the API with validators read after a reopen; measured by the harness, not proved)",
        "balances and delegation balances stay >= 0 (a negative big.Int cannot be RLP-encoded), nonce/refund below 2^64, validator roles in 1..3",
        "Go pointer aliasing is not modelled: the journal's old records are values",
    ],
    "modelled": ["StateDB.Snapshot", "StateDB.RevertToSnapshot", "StateDB.Finalise", "StateDB.IntermediateRoot", "StateDB.Commit+New",
                 "StateDB.clearJournalAndRefund", "journal.append", "journal.revert", "all 13 account journal entries", "all 5 validator journal entries",
                 "AddBalance/SubBalance/SetBalance/SetNonce/SetCode/SetState/Suicide/CreateAccount/AddLog/AddPreimage/AddRefund/SubRefund/UpdateDelegator/Prepare",
                 "CreateValidator/UpdateValidator/RemoveValidator/GetValidatorByMainAddr/AddWithdrawRecord/RemoveWithdrawRecords",
                 "stateObject.finalise/updateTrie", "incr/decrValidatorsStat", "WithdrawQueue.Delete/RemoveRecords"],
    "partial": [
        "C09_revert_restores_holds_outside: excludes the two finding classes and carries side conditions on validator calls (see assumptions); the roots after the revert are covered by the harness oracle, in Coq only through equality of everything IntermediateRoot reads up to aeq",
    ],
}
