KEY_RMVAL = ("revert does not restore a validator removed with RemoveValidator (validatorDeleteChange keeps the "
             "deleted flag and does not restore the statistics)")
KEY_WDORDER = ("revert re-appends withdraw records removed with RemoveWithdrawRecords at the end of the queue "
               "instead of their old positions")
KEY_DLGALIAS = ("revert does not restore a validator's delegation list after UpdateDelegation (PartialCopy shares the "
                "Delegations slice that UpdateDelegationFrom edits in place)")

KNOWN = [
    {"property": "C09", "status": "open", "key": KEY_RMVAL,
     "text": "RevertToSnapshot across StateDB.RemoveValidator leaves the validator deleted and the statistics decremented "
             "(validatorDeleteChange stores the live object whose deleted flag is then set, and its revert never calls "
             "incrValidatorsStat); no production caller of RemoveValidator exists. witness corpus/C09/w2_remove_validator_not_restored.json, "
             "repair fixes/C09_validator_journal_reverts.diff",
     "witness": ["corpus/C09/w2_remove_validator_not_restored.json"]},
    {"property": "C09", "status": "open", "key": KEY_WDORDER,
     "text": "RevertToSnapshot across StateDB.RemoveWithdrawRecords puts the removed records back at the end of the withdraw queue "
             "(in reverse order), so the queue and the validator root differ from the snapshot; the only caller runs in EndBlock, "
             "outside any snapshot. witness corpus/C09/w3_withdraw_queue_order.json, repair fixes/C09_validator_journal_reverts.diff",
     "witness": ["corpus/C09/w3_withdraw_queue_order.json"]},
    {"property": "C09", "status": "open", "key": KEY_DLGALIAS,
     "text": "RevertToSnapshot across StateDB.UpdateDelegation does not restore the validator's delegation list: Validator.PartialCopy "
             "shares the Delegations slice and UpdateDelegationFrom overwrites / shifts it in place, so the journalled old record is "
             "edited too (after a removed delegation the restored list ends in a nil entry and Dump panics). "
             "witness corpus/C09/w4_delegation_slice_shared.json, repair fixes/C09_validator_journal_reverts.diff",
     "witness": ["corpus/C09/w4_delegation_slice_shared.json"]},
]


def check(pid, tier, seed):
    """standard_check with the C09 findings listed here (builders do not edit
    the shared /verif/known_findings.json)."""
    import vf
    orig = vf.load_known

    def load_known(p):
        ks = orig(p)
        if p == "C09":
            have = {k.get("key") for k in ks}
            ks = ks + [k for k in KNOWN if k["key"] not in have]
        return ks
    vf.load_known = load_known
    try:
        return vf.standard_check(pid, tier, seed)
    finally:
        vf.load_known = orig


SPEC = {
    "level_text": "TODO",
    "level_note": "TODO",
    "check": check,
    "harness": "c09",
    "hooks": ["core/state/zz_verif_c09.go"],
    "translators": [],
    "coq_targets": ["C09/Model.vo", "C09/Proofs.vo", "C09/Properties.vo"],
    "properties_v": "C09/Properties.v",
    "obligations": [],
    "cases": {"quick": 500, "thorough": 12000},
    "shard": 500,
    "search_factor": 3,
    "gen_args": [],
    "allowed_axioms": [],
    "finding_key": lambda h: h.get("what"),
    "trusted_base": [],
    "assumptions": [],
    "modelled": [],
    "partial": [],
}
