import json
import os
import subprocess
import sys

# ---------------------------------------------------------------------------
# Build-time detail of the C06 harness only.  The harness links the real
# miner package (its builder is worker.commitNewWork itself), and
# miner -> node -> p2p -> quic-go.  quic-go v0.14.5 has an init() that panics
# under the installed Go 1.23 ("qtls.ConnectionState not compatible with
# tls.ConnectionState"), so EVERY binary that links p2p dies before main()
# (a pre-existing toolchain incompatibility, see seeded/C02_1/NOTES.md).  The
# harness never opens a QUIC connection; the file holding that init() is
# replaced through the same `go build -overlay` mechanism the hooks use, by
# /verif/hooks/_ext/quic_handshake_unsafe_c06.go (the package clause only).
# lib/vf.py builds the overlay in overlay_file(); it is wrapped here so that the
# extra entry is added for the harness named "c06" and for nothing else.
# ---------------------------------------------------------------------------
_QUIC_REL = "internal/handshake/unsafe.go"
_QUIC_SUB = "/verif/hooks/_ext/quic_handshake_unsafe_c06.go"


def _quic_dir():
    env = dict(os.environ, GOFLAGS="-mod=mod", GOPROXY="off", GOSUMDB="off", GOTOOLCHAIN="local")
    try:
        out = subprocess.run(["go", "list", "-m", "-f", "{{.Dir}}", "github.com/lucas-clemente/quic-go"],
                             cwd="/verif/harness", env=env, stdout=subprocess.PIPE, stderr=subprocess.DEVNULL,
                             universal_newlines=True, timeout=120).stdout.strip()
        if out and os.path.exists(os.path.join(out, _QUIC_REL)):
            return out
    except Exception:
        pass
    return os.path.expanduser("~/go/pkg/mod/github.com/youchainhq/quic-go@v0.14.5")


def _wrap(mod):
    orig = getattr(mod, "overlay_file", None)
    if orig is None or getattr(orig, "_c06", False):
        return

    def overlay_file(name, hooks, _orig=orig):
        path = _orig(name, hooks)
        if name == "c06":
            with open(path) as fh:
                ov = json.load(fh)
            ov["Replace"][os.path.join(_quic_dir(), _QUIC_REL)] = _QUIC_SUB
            with open(path, "w") as fh:
                json.dump(ov, fh, indent=1)
        return path

    overlay_file._c06 = True
    mod.overlay_file = overlay_file


for _m in (sys.modules.get("__main__"), sys.modules.get("vf")):
    if _m is not None:
        _wrap(_m)

SPEC = {
    "fingerprint_funcs": [
        "core/state_processor.go:StateProcessor.Process",
        "core/state_processor.go:StateProcessor.ApplyTransaction",
        "core/state_processor.go:StateProcessor.EndBlock",
        "core/block_validator.go:BlockValidator.ValidateState",
        "core/chain_makers.go:generateChain",
        "core/chain_makers.go:BlockGen.AddTxWithChain",
        "miner/worker.go:worker.commitNewWork",
        "miner/worker.go:worker.commitTransactions",
        "miner/worker.go:worker.commitTransaction",
        "miner/worker.go:worker.commit",
        "core/message_context.go:MessageContext.preCheck",
        "core/message_context.go:MessageContext.buyGas",
        "core/message_context.go:MessageContext.refundGas",
        "core/state_processor.go:StateProcessor.ApplyMessageEntry",
        "core/state_transition.go:StateTransition.TransitionDb",
        "core/evm.go:NewEVMContext",
        "core/evm.go:GetHashFn",
        "staking/endblock.go:EndBlock",
        "staking/endblock.go:rewardsToPool",
        "staking/endblock.go:blockRewards",
        "staking/endblock.go:Staking.endStakingPeriod",
        "staking/endblock.go:Staking.distributeRewards",
        "staking/slash.go:Staking.slashing",
        "staking/slash.go:Staking.replaySlashing",
        "staking/slash.go:Staking.processEvidences",
        "staking/slash.go:doPenalize",
        "staking/slash_youv5.go:Staking.processDoubleSignV5",
        "staking/delegation_handler.go:checkAndUpdateTotalPendingStakesOfValidator",
        "core/state/statedb_staking.go:StateDB.GetStakingRecordValue",
        "core/state/statedb_staking.go:StateDB.GetStakingRecord",
        "core/state/statedb_staking.go:StateDB.AddStakingRecord",
        "core/state/statedb_staking.go:StateDB.getStakingRecord",
        "core/state/statedb_staking.go:StateDB.updateStakingTrie",
        "core/blockchain.go:BlockChain.verifyAllSideChainBlocks",
        "core/blockchain.go:BlockChain.insertSidechain",
        "staking/endblock.go:processPendingTxs",
        "core/state/statedb.go:StateDB.Finalise",
        "core/state/statedb.go:StateDB.IntermediateRoot",
        "core/state/statedb.go:StateDB.Commit",
    ],
    "level_text": "Coq theorems over all states, candidate transaction lists, evidence pools and admissible iteration orders, with transaction execution, signer resolution, the penalty and the period-end hook as arbitrary functions: (1) every Go map / sync.Map iteration inventoried by go/ast in core/state_processor.go, staking/*.go and core/state/*.go is either paired with a Gallina model of its loop body and a proof that the result is invariant under permutation of the iterated entries, or listed as off the execution path, and the regenerated inventory equals the classified set (a new map range breaks the bridge); rewardsToPool and distributeRewards as wholes are schedule-free; (2) evidence processing is independent of the signer cache, and every sequence of staking-record operations gives on a carried StateDB whose object cache is coherent with its trie what it gives on a fresh StateDB (coherence is an invariant of all operations, including the failing pending-total check; the harness checks it on the real StateDB after every block); (3) processing a block is independent of iteration orders and cache contents (the chain head is no input since fix ec9154c); (3a) the block gas pool: for every candidate sequence and every mix of build-time failures the worker's pool is non-negative and never fuller than an importer's, so every admitted transaction can buy its gas limit on import and the gas used stays within the block gas limit (the worker's own log records of every candidate - applied, nonce, no money for the gas, refused by the pool, value transfer impossible - and its final pool are checked against the model in Coq); (3b) the block context (number, coinbase, time, gas limit, BLOCKHASH over the block's own parent chain) is an explicit input of block processing: the result depends on the own ancestry within the reach of BLOCKHASH only, not on the contents of the ancestor-hash cache nor on which sibling the process executed before; (4a) forks: a branch of any length built block after block is accepted with the builder's states and receipts by the block-after-block import (ordinary import of the branch and the re-import after a side-chain verification; unconditional when the lookups agree at the fork point) and by the side-chain verification outside the open finding, the executing node's database entering as the transaction-lookup index of the period-end hook; the full side-chain statement is refuted in the model and on the real code; (4) every block the builder assembles from any candidates and any evidence pool is accepted with the builder's state and receipts (unconditional since fixes e1d256e and ec9154c; the two former finding classes are regression cases in the corpus). The model is tied to the code by running real chains: blocks built by the real miner worker (and by chain_makers) with the staking module, imported by BlockChain.InsertChain on a second node, re-executed on fresh state objects on a third and re-run in fresh processes; per-block observations are checked against the model inside Coq.",
    "level_note": "Trusted: Coq kernel + vm_compute; the hand model's fidelity rests on the differential check (reach reported in evidence); the EVM, BLS verification, takePenalty and the period-end handlers are oracles (functions) in the theorems; tries are modelled as finite maps (canonicity of the root is C13's statement); which inventoried sites are off the execution path is a reviewed classification, not a call-graph proof; no axioms.",
    "harness": "c06",
    "hooks": ["miner/zz_verif_c06.go", "staking/zz_verif_c06.go", "core/state/zz_verif_c06.go"],
    "translators": [["ranges", "-out", "{gen}/C06MapRanges.v"]],
    "coq_targets": ["C06/Model.vo", "C06/ProofsA.vo", "C06/ProofsB.vo", "C06/ProofsC.vo", "C06/ProofsD.vo", "C06/ProofsE.vo", "C06/ProofsF.vo", "C06/ProofsG.vo", "gen/C06MapRanges.vo", "C06/Bridge.vo", "C06/Properties.vo"],
    "properties_v": "C06/Properties.v",
    "obligations": [
        "C06_order_free", "C06_rewards_order_free", "C06_distribute_order_free", "C06_bridge", "C06_cache_free", "C06_object_cache_free", "C06_cache_coherence_invariant",
        "C06_deterministic", "C06_builder_deterministic", "C06_builder_validator",
        "C06_full_holds", "C06_gas_pool_never_underflows", "C06_gas_used_within_limit", "C06_execution_depends_only_on_own_ancestry", "C06_fork_import_holds_outside", "C06_fork_canonical_import", "C06_fork_side_chain_refuted", "C06_nonvacuous_rewards", "C06_nonvacuous_bridge", "C06_nonvacuous_agreement", "C06_nonvacuous_object_cache", "C06_nonvacuous_fork", "C06_nonvacuous_gas_pool", "C06_nonvacuous_block_ctx",
    ],
    # -n counts BLOCKS executed on the implementation (each yields 1-3 model cases)
    "cases": {"quick": 450, "thorough": 6000},
    "shard": 450,
    "search_factor": 3,
    "drift_boost": 3,
    "gen_args": [],
    "allowed_axioms": [],
    "finding_key": lambda h: h.get("what") if isinstance(h, dict) else None,
    "trusted_base": [
        "Coq 8.16.1 kernel (vm_compute for the finite bridge check, the witnesses and the non-vacuity examples; no native_compute)",
        "no axioms: every obligation is Closed under the global context",
        "hand-written model coq/C06/Model.v of StateProcessor.Process / ValidateState, worker.commitNewWork / commit (chain_makers genblock), staking.EndBlock: slashing / replaySlashing / processDoubleSignV5 classification, blockRewards, rewardsToPool, distributeRewards' record arithmetic, and of the body of every on-path map iteration",
        "correspondence harness harness/cmd/c06 (Go): three real BlockChain nodes over memory databases, the real miner worker as builder (hook miner/zz_verif_c06.go starts no goroutines), real TxPool, real BLS evidence verification, a fake consensus engine (solo + fixed coinbase + immediate seal); in-Coq evaluation of the model on the observations",
        "translator 'c06 ranges' (go/ast, syntactic type resolution; fails loudly on a range expression it cannot classify)",
        "build-time replacement of quic-go's internal/handshake/unsafe.go (layout check only) so that a binary linking the miner package starts under Go 1.23",
        "the classification of inventoried sites as off the execution path (reasons in coq/C06/Bridge.v)",
    ],
    "assumptions": [
        "transaction execution (ApplyMessageEntry + Finalise), BLS signer resolution, doPenalize/takePenalty, apply of the reward outcome to the state and endStakingPeriod's handlers are functions of their arguments (section variables); their own determinism is the subject of C15/C16/C05/C07",
        "tries and Go maps are finite maps; roots, receipt hash and bloom are functions of the content (canonicity of the trie root: C13)",
        "the object-cache theorem covers the staking-record cache (GetStakingRecordValue / AddStakingRecord / updateStakingTrie / ResetStakingTrie and the pending-total check); account and validator object caches are covered by the carried-StateDB differential only",
        "side-chain import is driven on a node whose database already holds the fork's blocks and their transaction lookup entries, with forks of at most 8 blocks and evidence look-back blocks on the canonical prefix; without that preparation the path fails in ways listed as open findings / described in fixes/C06_side_chain_*.md",
        "block context: the EVM applies the GetHash function pointwise (exec_reads_hashes_pointwise); the ancestor-hash cache, if any, agrees with the ancestry of the block being executed (hash_memo_ok; per-message cache in the code as it is); the harness executes siblings alternately in one process and imports both branches in both orders with block-context readers at the same heights",
        "importer pre-history = restart: covered by the harness only (an importer stopped and reopened from its database - new BlockChain, state database, trie-node cache and staking module - at period ends and random block boundaries must import the remaining blocks with the builder's receipts, no panic); persistence of out-of-trie blobs is C10's subject in the model",
        "gas pool: the outcome of applying a candidate (applied / which failure, gas handed back) is an input of the pool model; the block-level theorems treat applicability as one oracle on both sides, which C06_gas_pool_never_underflows justifies for the pool; the worker's loop break below 21000 and the pool refusal are modelled, the interrupt is not",
        "forks: endStakingPeriod reads the node's transaction lookup at the pending hashes of the staking records only (period_end_framed); reorg bookkeeping (canonical number index, lookup deletion) and header verification of side-chain blocks are outside the model and covered by the harness' two-branch histories",
        "Go map keys are distinct (NoDup hypotheses of the keyed sites); blobs are content-addressed (Commit site)",
        "YouV5 parameters; uint64 wrap-around, the gas-pool break and the interrupt of commitTransactions (they only shorten the candidate list) are outside the model; time.Now in the worker is an input (the harness pins it through the parent time)",
        "logging.Crit / panics (division by zero in rewardsToPool when no role has an online validator, a coinbase that is not a validator) are modelled as Crash on both paths",
    ],
    "modelled": [
        "core.StateProcessor.Process", "core.BlockValidator.ValidateState", "miner.worker.commitNewWork/commitTransactions/commit",
        "core.generateChain (genblock)", "staking.EndBlock", "staking.blockRewards", "staking.rewardsToPool", "staking.distributeRewards (record arithmetic + final loop)",
        "staking.slashing", "staking.replaySlashing", "staking.processEvidences", "staking.processDoubleSignV5 (classification)",
        "state.StateDB.Finalise / IntermediateRoot / Commit / updateStakingTrie (map loops)", "state.stateObject.finalise / updateTrie (map loops)",
        "state.StateDB.GetStakingRecordValue / AddStakingRecord / getStakingRecord / updateStakingTrie / ResetStakingTrie, staking.checkAndUpdateTotalPendingStakesOfValidator (object cache model)",
        "core.NewEVMContext / GetHashFn, vm.opBlockhash (block context, ancestor-hash cache)",
        "miner.worker.commitTransactions/commitTransaction gas pool, core.MessageContext.buyGas/refundGas, core.StateProcessor.ApplyMessageEntry failure points (gas pool model)",
        "core.BlockChain.insertSidechain / verifyAllSideChainBlocks and the re-import (import_chain), staking.processPendingTxs' use of the transaction lookup (index argument of the period-end hook)",
        "state.ValidatorIndex.List/EncodeRLP/DeepCopy/Empty, StateDB.GetValidators (sync.Map ranges)",
    ],
    "partial": [
        "C06_fork_import_holds_outside: side-chain verification (and any import from a lookup index that differs from the builder's) agrees with the builder only while the importing node's transaction lookup resolves the pending staking-transaction hashes at every period-end block of the branch as the builder's does (open finding: processPendingTxs reads the canonical transaction lookup; C06_fork_side_chain_refuted)",
    ],
}
