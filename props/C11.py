TXROOT = "side-chain-skips-tx-root-check"


# the defects found earlier are repaired in /repo (dee6410, 2b21c7f, 3eba51b, 0702a5f): their
# reappearance is an unlisted oracle hit.  One open finding (fixes/C11_side_chain_skips_tx_root_check.md):
# only the "made canonical by reorg WITHOUT being executed" form of a tx-root-invalid block is listed;
# an invalid block that is imported as head is always unlisted
def _key(h):
    w = h.get("what", "") if isinstance(h, dict) else str(h)
    if w.endswith("canonical block's body does not hash to its header's transaction root (made canonical by reorg without being executed)") \
            or w.endswith("invalid-block-canonical: tx-root-only-invalid block made canonical by reorg without being executed"):
        return TXROOT
    return w


SPEC = {
    "level_text": "Coq theorems, by induction over all histories of offered batches (any block tree, any order/grouping, any recursion fuel) and over all write budgets (= all crash points), about a hand-written executable model of InsertChain / insertChain's error dispatch / insertSidechain / verifyAllSideChainBlocks / WriteBlockWithState / reorg / stageHead / loadLastState / repair over abstract blocks: (1) after every history the number->hash index from genesis to head is a parent-linked chain of stored blocks, the head state is on disk, every lookup entry points into a canonical block at or below the head (C11_import_chain_consistent, unconditional); (1b) only valid blocks are canonical: block validity is checked on every dispatch path of the model (plain, known, ErrExistCanonical at index 0 -> side chain -> handed back, ErrExistCanonical with i > 0, pruned ancestor, future) and no block failing the signature, consensus-field, body or state check is anywhere in the index after any history and at any crash point - proved for trees without a block whose ONLY flaw is the transaction root committed in its header (C11_only_valid_blocks_canonical_holds_outside) and refuted by a witness for trees with one (C11_only_valid_blocks_canonical_refuted; open finding side-chain-skips-tx-root-check: verifyAllSideChainBlocks does not compare the transaction root); (2) whatever database write of whatever import the process dies after, the restart succeeds and the restarted node is consistent in the same sense; (3) the restarted node stays consistent under any further history; (4) not-wedged for every batch that extends the head linearly and for every batch whose first head switch reorganises the chain (first block on any stored block with state, head anywhere, linear rest): after any crash point, offering the batch again yields exactly the database and head of the node that never crashed. The model is compared with the real core.BlockChain on every run inside Coq: error class, classified write sequence and abstract database after each batch; restart head, consistency verdict, re-import result and head after one further valid block at every crash point of every batch; restart on databases that lost state roots (repair).",
    "level_note": "Trusted: Coq kernel + vm_compute (witnesses, non-vacuity, in-Coq model runs); fidelity of the hand model rests on the differential check (generator reach in evidence); header verification is the labelled test engine harness/cmd/c11/engine.go, which mirrors ucon.Server.verifyHeader's order of chain-dependent checks and computes all verdicts of a batch on the chain as it is when insertChain starts (one legal schedule of the real, concurrent VerifyHeaders); state = one root (validator/staking roots constant, asserted by the harness); LRU caches transparent; not-wedged is proved for linear extensions of the head and otherwise (side-chain / fork-switch batches) established by enumeration on the implementation (oracle); no axioms.",
    "harness": "c11",
    "fingerprint_funcs": [
        "core/blockchain.go:BlockChain.InsertChain", "core/blockchain.go:BlockChain.insertChain",
        "core/blockchain.go:BlockChain.insertSidechain", "core/blockchain.go:BlockChain.verifyAllSideChainBlocks",
        "core/blockchain.go:BlockChain.WriteBlockWithState", "core/blockchain.go:BlockChain.WriteBlockWithoutState",
        "core/blockchain.go:BlockChain.reorg", "core/blockchain.go:BlockChain.insert", "core/blockchain.go:BlockChain.updateHeadBlock",
        "core/blockchain.go:stageHead", "core/blockchain.go:BlockChain.adoptHead",
        "core/blockchain.go:BlockChain.loadLastState", "core/blockchain.go:BlockChain.repair",
        "core/blockchain.go:BlockChain.ResetWithGenesisBlock", "core/blockchain.go:BlockChain.HasBlock",
        "core/blockchain.go:BlockChain.HasBlockAndState", "core/blockchain.go:BlockChain.GetBlock",
        "core/blockchain.go:BlockChain.GetBlockByNumber", "core/blockchain.go:BlockChain.GetBlockByHash",
        "core/blockchain.go:NewBlockChain", "core/headerchain.go:NewHeaderChain", "core/headerchain.go:HeaderChain.GetHeader",
        "core/headerchain.go:HeaderChain.GetHeaderByNumber", "core/headerchain.go:HeaderChain.SetCurrentHeader",
        "core/block_validator.go:BlockValidator.ValidateBody", "core/protocol_version_processor.go:BlockChain.VerifyYouVersionState",
        "core/rawdb/accessors_chain.go:WriteBlock", "core/rawdb/accessors_chain.go:ReadBlock", "core/rawdb/accessors_chain.go:WriteHeader",
        "core/rawdb/accessors_chain.go:WriteCanonicalHash", "core/rawdb/accessors_chain.go:ReadCanonicalHash",
        "core/rawdb/accessors_chain.go:WriteHeadBlockHash", "core/rawdb/accessors_chain.go:ReadHeadBlockHash",
        "core/rawdb/accessors_chain.go:HasBody", "core/rawdb/accessors_indexes.go:WriteTxLookupEntries",
        "core/rawdb/accessors_indexes.go:DeleteTxLookupEntry", "core/rawdb/accessors_indexes.go:ReadTxLookupEntry",
        "consensus/ucon/consensus.go:Server.verifyHeader", "consensus/ucon/consensus.go:Server.verifyCascadingFields",
        "consensus/ucon/consensus.go:Server.VerifySideChainHeader", "consensus/ucon/consensus.go:Server.VerifySeal",
    ],
    "drift_boost": 2,
    "hooks": [],
    "translators": [["calls", "-out", "{gen}/C11Calls.v"]],
    "coq_targets": ["C11/Model.vo", "C11/ProofsA.vo", "C11/ProofsB.vo", "C11/ProofsC.vo", "C11/ProofsD.vo", "C11/ProofsE.vo",
                    "C11/ProofsF.vo", "C11/ProofsG.vo", "C11/ProofsH.vo", "C11/ProofsI.vo", "C11/ProofsJ.vo", "C11/ProofsK.vo", "C11/ProofsL.vo", "C11/ProofsM.vo", "gen/C11Calls.vo", "C11/Bridge.vo", "C11/Properties.vo"],
    "coq_dirs": ["C11"],
    "properties_v": "C11/Properties.v",
    "obligations": [
        "C11_batch_call_inventory", "C11_head_switch_is_one_write",
        "C11_import_chain_consistent", "C11_only_valid_blocks_canonical_holds_outside", "C11_only_valid_blocks_canonical_refuted",
        "C11_crash_consistent", "C11_restarted_node_stays_consistent",
        "C11_not_wedged_linear_batch", "C11_not_wedged_reorganising_batch", "C11_not_wedged_next_block_partial",
        "C11_nonvacuous_import", "C11_nonvacuous_crash", "C11_nonvacuous_next_block", "C11_nonvacuous_linear_batch", "C11_nonvacuous_reorganising_batch",
        "C11_regression_witnesses",
    ],
    "cases": {"quick": 900, "thorough": 12000},
    "shard": 900,
    "search_factor": 3,
    "gen_args": [],
    "allowed_axioms": [],
    "finding_key": _key,
    "trusted_base": [
        "Coq 8.16.1 kernel (vm_compute for witnesses, non-vacuity examples and the in-Coq runs of the model; no native_compute)",
        "no axioms: every obligation is Closed under the global context",
        "hand-written model coq/C11/Model.v of the functions listed under 'modelled'",
        "correspondence harness harness/cmd/c11 (Go): logging wrapper of youdb.MemDatabase (every write/batch classified, database frozen after each), real chain maker, abstraction of hashes/roots/tx hashes to small numbers, error classification by message",
        "translator 'c11 calls' (go/ast inventory of NewBatch/Write/Reset/ValueSize in the import and head-switch functions of core/blockchain.go -> coq/gen/C11Calls.v) and coq/C11/Bridge.v, which pins it: one Write per block, one Write per head switch, no Reset, no ValueSize test",
        "labelled test engine harness/cmd/c11/engine.go standing in for ucon (mirrors verifyHeader's check order, VerifySeal, VerifySideChainHeader; eager VerifyHeaders)",
        "the harness' property oracle (judge) on the real database for the VIOLATION decision",
    ],
    "assumptions": [
        "size thresholds: a third of the generated cases run with batches that over-report ValueSize() by 2^20 (every 'flush when the batch reaches IdealBatchSize' site fires after the first entry), a few real-size cases per run stage more than 100 KiB in one reorg (oracle only, not sent to the Coq model); the batch-call inventory is pinned by Bridge.v",
        "crash granularity is one youdb write or one atomic batch; memory is lost, the database is exactly the prefix of writes",
        "the harness follows one crash per run (crash, restart, re-import, one further block); the theorems C11_crash_consistent / C11_restarted_node_stays_consistent start from a crash-free history, but the restarted node satisfies the same invariant as a fresh one (ProofsI.J_fresh), so they apply again after each restart",
        "the trie database commit of one state root is one batch; validator and staking roots do not change in generated chains (asserted)",
        "body validity is a class per block: 0 valid, 1 body does not match the header and does not execute, 5 only the header's transaction root is wrong (executes to the header's state/receipt/bloom/gas), 2/3/4/6/7 state root / gas used / receipts content / receipt root / bloom mismatch after execution; the generator places every class (and every header class) at every index of every dispatch path (invalidCase)",
        "header verification is an oracle with classes good / bad signature / bad consensus field / future; VerifyHeaders verdicts are taken on the chain as it is when insertChain starts",
        "engine look-back distance is 2 rounds; protocol-version lookup (VersionForRound) succeeds (generated trees are at most 8 deep = protocolRoundBack)",
        "blocks of a batch that are unknown to the tree do not occur; block numbers equal parent number + 1 is NOT assumed by the theorems (the model checks numbers where the code does)",
        "the future-block queue is never drained (procFutureBlocks runs on a 5 s ticker; runs last milliseconds)",
        "a panic inside an import kills the node (the model stops writing); chainMu stays locked in the real code",
        "the in-memory LRU caches are transparent (they only hold what was read from the database; nothing is deleted on the import paths)",
    ],
    "modelled": [
        "core.(*BlockChain).InsertChain", "core.(*BlockChain).insertChain", "core.(*BlockChain).insertSidechain",
        "core.(*BlockChain).verifyAllSideChainBlocks", "core.(*BlockChain).WriteBlockWithState", "core.(*BlockChain).WriteBlockWithoutState",
        "core.(*BlockChain).reorg", "core.stageHead", "core.(*BlockChain).adoptHead", "core.(*BlockChain).insert (genesis reset only)",
        "core.(*BlockChain).loadLastState", "core.(*BlockChain).repair", "core.(*BlockChain).ResetWithGenesisBlock",
        "core.(*BlockChain).HasBlock", "core.(*BlockChain).HasBlockAndState", "core.(*BlockChain).GetBlock", "core.(*BlockChain).GetBlockByNumber",
        "core.(*BlockChain).GetBlockByHash", "core.(*BlockChain).VerifyYouVersionState (first-parent lookup)",
        "core.(*HeaderChain).GetHeader", "core.(*HeaderChain).GetHeaderByNumber", "core.(*HeaderChain).SetCurrentHeader", "core.NewHeaderChain (head lookup)",
        "core.(*BlockValidator).ValidateBody", "rawdb.WriteBlock", "rawdb.WriteCanonicalHash", "rawdb.WriteHeadBlockHash", "rawdb.WriteHeadHeaderHash",
        "rawdb.WriteTxLookupEntries", "rawdb.DeleteTxLookupEntry", "rawdb.WriteReceipts", "rawdb.ReadBlock", "rawdb.ReadCanonicalHash",
    ],
    "partial": [
        "C11_only_valid_blocks_canonical: holds outside the open finding side-chain-skips-tx-root-check (no block of body class 5 = header commits to a wrong transaction root, content/state/receipts otherwise consistent), refuted inside it (corpus/C11/w6_tx_root_only_via_sidechain.json runs the Coq witness against the implementation; repair in fixes/C11_side_chain_skips_tx_root_check.diff). C11_restarted_node_stays_consistent carries the same hypothesis for its fourth clause",
        "C11_not_wedged: proved (exact equality of database and head after the re-import, any crash point, after any history) for (a) every batch that extends the head linearly (C11_not_wedged_linear_batch), (b) every batch whose first block is a new block on ANY stored block with state while the head is anywhere - the first head switch reorganises: side chain with state becoming canonical, re-extension of the old chain after a switch to a shorter fork with stale index entries above the head, reorg with an empty old chain - followed by a linear rest (C11_not_wedged_reorganising_batch; side conditions: no index entries above the first block's parent, reorg finds the fork point, the version-state check finds a canonical header below the batch), (c) a single block over stale higher entries (C11_not_wedged_next_block_partial). NOT proved, oracle-only (every crash point enumerated on the implementation and in the model: 100 000+ crash points per thorough run, re-imported database identical to the crash-free one except for the receipts of a re-executed canonical block, see below): batches whose first block's height is occupied by another canonical block (ErrExistCanonical at index 0 or ErrPrunedAncestor -> insertSidechain -> nested insertChain) and blocks imported over an index entry at their own height (ErrExistCanonical with i > 0: switch to a shorter or equal fork inside one batch); the missing piece is the resumption argument across insertSidechain (store phase + nested import whose verdicts are taken on another database) and a step lemma for occupied heights. Known residue, outside the property's clauses: a canonical block without own state that is re-executed gets its receipts only in the third write; killed after its state commit it is 'known' afterwards and its receipts are never written (19 of 8 021 crash points of a quick run)",
        "no-panic in crash-free histories is observed (oracle) but not proved; the theorems cover panicking imports (the node is dead, its database still consistent)",
        "ACoCHT validation, light-client pruning, SetHead, fast-sync paths and the real ucon engine are not modelled",
    ],
}
