HEAD_SWITCH = "head-switch-not-atomic"
BLOCK_WRITE = "block-write-not-atomic"
SIDE_SIG = "side-chain-skips-signature-check"

# consequences of the non-atomic head switch seen at crash points inside it; every
# other consequence (restart failed, head state missing, panic ...) is NOT listed
_HEAD_SWITCH_WHATS = {
    "lookup-into-noncanonical", "head-not-canonical", "chain-not-linked",
    "after re-import: lookup-into-noncanonical",
    "wedged: head differs from the node that never crashed",
}


def _key(h):
    w = h.get("what", "") if isinstance(h, dict) else str(h)
    pre = "crash-in-head-switch: "
    if w.startswith(pre) and w[len(pre):] in _HEAD_SWITCH_WHATS:
        return HEAD_SWITCH
    if w == "crash-in-block-write: panic when the interrupted batch is offered again":
        return BLOCK_WRITE
    if w.endswith("invalid-block-canonical: bad-signature block"):
        return SIDE_SIG
    return w


SPEC = {
    "level_text": "Coq theorems, by induction over all histories of offered batches (any block tree, any order/grouping, any recursion fuel) and over all write budgets (= all crash points), about a hand-written executable model of InsertChain / insertChain's error dispatch / insertSidechain / verifyAllSideChainBlocks / WriteBlockWithState / reorg / insert / loadLastState / repair over abstract blocks: (1) after every history the number->hash index from genesis to head is a parent-linked chain of stored blocks, the head state is on disk and every lookup entry points into a canonical block at or below the head; (2) no block failing the consensus-field, body or state check is ever in the index (holds outside the listed bad-signature finding); (3) at EVERY crash point the restart succeeds; (4) at every crash point that is not an inner write of a head switch the restarted node is consistent. The head-switch window, the body-without-header window and the bad-signature side-chain path are refuted by machine-checked witnesses (three open findings with repairs in /verif/fixes). The model is compared with the real core.BlockChain on every run inside Coq: error class, classified write sequence and abstract database after each batch; restart head, consistency verdict, re-import result and head after one further valid block at every crash point of every batch.",
    "level_note": "Trusted: Coq kernel + vm_compute (witnesses, non-vacuity, in-Coq model runs); fidelity of the hand model rests on the differential check (generator reach in evidence); header verification is the labelled test engine harness/cmd/c11/engine.go, which mirrors ucon.Server.verifyHeader's order of chain-dependent checks and computes all verdicts of a batch on the chain as it is when insertChain starts (one legal schedule of the real, concurrent VerifyHeaders); state = one root (validator/staking roots constant, asserted by the harness); LRU caches transparent; not-wedged is established positively only by enumeration on the implementation (oracle), the theorem side is the two refutations; no axioms.",
    "harness": "c11",
    "hooks": [],
    "translators": [],
    "coq_targets": ["C11/Model.vo", "C11/ProofsA.vo", "C11/ProofsB.vo", "C11/ProofsC.vo", "C11/ProofsD.vo", "C11/ProofsE.vo",
                    "C11/ProofsF.vo", "C11/ProofsG.vo", "C11/ProofsH.vo", "C11/ProofsI.vo", "C11/Properties.vo"],
    "coq_dirs": ["C11"],
    "properties_v": "C11/Properties.v",
    "obligations": [
        "C11_import_chain_consistent", "C11_import_no_invalid_canonical_holds_outside", "C11_import_refuted",
        "C11_restart_succeeds", "C11_crash_consistent_outside_head_switch", "C11_crash_no_invalid_canonical",
        "C11_crash_refuted", "C11_not_wedged_refuted", "C11_body_without_header_panics",
        "C11_nonvacuous_import", "C11_nonvacuous_crash",
    ],
    "cases": {"quick": 900, "thorough": 12000},
    "shard": 900,
    "search_factor": 3,
    "gen_args": [],
    "allowed_axioms": [],
    "finding_key": _key,
    "trusted_base": [
        "Coq 8.16.1 kernel (vm_compute for witnesses, non-vacuity examples and the in-Coq runs of the model; no native_compute)",
        "no axioms: every obligation is Closed under the global context",
        "hand-written model coq/C11/Model.v of the functions listed under 'modelled'",
        "correspondence harness harness/cmd/c11 (Go): logging wrapper of youdb.MemDatabase (every write/batch classified, database frozen after each), real chain maker, abstraction of hashes/roots/tx hashes to small numbers, error classification by message",
        "labelled test engine harness/cmd/c11/engine.go standing in for ucon (mirrors verifyHeader's check order, VerifySeal, VerifySideChainHeader; eager VerifyHeaders)",
        "the harness' property oracle (judge) on the real database for the VIOLATION decision",
    ],
    "assumptions": [
        "crash granularity is one youdb write or one atomic batch; memory is lost, the database is exactly the prefix of writes",
        "one crash per run: histories are crash-free up to the interrupted import (crash, restart, re-import, one further block are then followed without a second crash)",
        "the trie database commit of one state root is one batch; validator and staking roots do not change in generated chains (asserted)",
        "header verification is an oracle with classes good / bad signature / bad consensus field / future; VerifyHeaders verdicts are taken on the chain as it is when insertChain starts",
        "engine look-back distance is 2 rounds; protocol-version lookup (VersionForRound) succeeds (generated trees are at most 8 deep = protocolRoundBack)",
        "blocks of a batch that are unknown to the tree do not occur; block numbers equal parent number + 1 is NOT assumed by the theorems (the model checks numbers where the code does)",
        "the future-block queue is never drained (procFutureBlocks runs on a 5 s ticker; runs last milliseconds)",
        "a panic inside an import kills the node (the model stops writing); chainMu stays locked in the real code",
        "the in-memory LRU caches are transparent (they only hold what was read from the database; nothing is deleted on the import paths)",
    ],
    "modelled": [
        "core.(*BlockChain).InsertChain", "core.(*BlockChain).insertChain", "core.(*BlockChain).insertSidechain",
        "core.(*BlockChain).verifyAllSideChainBlocks", "core.(*BlockChain).WriteBlockWithState", "core.(*BlockChain).WriteBlockWithoutState",
        "core.(*BlockChain).reorg", "core.(*BlockChain).insert", "core.(*BlockChain).updateHeadBlock",
        "core.(*BlockChain).loadLastState", "core.(*BlockChain).repair", "core.(*BlockChain).ResetWithGenesisBlock",
        "core.(*BlockChain).HasBlock", "core.(*BlockChain).HasBlockAndState", "core.(*BlockChain).GetBlock", "core.(*BlockChain).GetBlockByNumber",
        "core.(*BlockChain).GetBlockByHash", "core.(*BlockChain).VerifyYouVersionState (first-parent lookup)",
        "core.(*HeaderChain).GetHeader", "core.(*HeaderChain).GetHeaderByNumber", "core.(*HeaderChain).SetCurrentHeader", "core.NewHeaderChain (head lookup)",
        "core.(*BlockValidator).ValidateBody", "rawdb.WriteBlock", "rawdb.WriteCanonicalHash", "rawdb.WriteHeadBlockHash", "rawdb.WriteHeadHeaderHash",
        "rawdb.WriteTxLookupEntries", "rawdb.DeleteTxLookupEntry", "rawdb.WriteReceipts", "rawdb.ReadBlock", "rawdb.ReadCanonicalHash",
    ],
    "partial": [
        "C11_not_wedged: no positive theorem; refuted inside both non-atomic windows (C11_not_wedged_refuted, C11_body_without_header_panics); outside them it is checked by enumeration of every crash point on the implementation (oracle) and by the model/implementation comparison of the re-import, not proved",
        "clause 'invalid block never canonical' holds outside the finding class 'tree contains a bad-signature block' (C11_import_no_invalid_canonical_holds_outside, C11_import_refuted)",
        "crash consistency holds outside the finding class 'killed at an inner write of a head switch' (C11_crash_consistent_outside_head_switch, C11_crash_refuted); restart success holds at all crash points",
        "no-panic in crash-free histories is observed (oracle) but not proved; the theorems cover panicking imports (the node is dead, its database still consistent)",
        "ACoCHT validation, light-client pruning, SetHead, fast-sync paths and the real ucon engine are not modelled",
    ],
}
