# The finding "choose panics when the committee size exceeds the total stake" was repaired in /repo by commit
# 839997b (fixes/C04_choose_panics_committee_exceeds_total.{md,diff}).  It is no longer listed as open: the witnesses
# stay in corpus/C04 and a regression is reported as a VIOLATION.

SPEC = {
    "level_text": "Coq theorems over all hashes, stakes and probabilities: search returns the least satisfying index; the model's executable distribution function is the binomial distribution (trial recursion = closed-form sum, mirror law); with exact arithmetic choose returns, in every regime (hash 0/max, mirrored upper-tail search, linear scan, binary search), the least j in [0,stake] with hash/(2^256-1) <= F(j), and 0 <= j <= stake for any kernel; MakeM is injective; the verifiers accept exactly the recomputed positive seat count, a credential only for its key/seed/index/step/seats (VRF soundness as hypothesis), a priority only if it is the maximum seat hash. The code's float64 kernel is not modelled: the implementation's seat counts are compared with the exact quantile within a stated band on every run (Coq model for stakes <= 240, an independent 640-bit oracle in the harness for stakes up to 10^7), and credentials are verified with the real secp256k1 VRF under every single-field perturbation.",
    "level_note": "partial: quantile equality is proved for exact arithmetic; float64 rounding of the implementation is validated only within the band eps = 1e-9 + n*2e-14 + (j+2)/p*2^-50 relative to min(F,1-F). Finding fixed by /repo commit 839997b: choose panicked when committee > total (C04_unrepaired_panics_iff / C04_unrepaired_total_refuted; C04_total holds for the code as it is). No axioms.",
    "harness": "c04",
    "hooks": ["consensus/ucon/zz_verif_c04.go"],
    "translators": [],
    "coq_targets": ["C04/Model.vo", "C04/ProofsSearch.vo", "C04/ProofsBinom.vo", "C04/ProofsChoose.vo",
                    "C04/ProofsProtocol.vo", "C04/Properties.vo"],
    "properties_v": "C04/Properties.v",
    "obligations": [
        "C04_search_least", "C04_search_postcondition",
        "C04_cdf_is_trial_distribution", "C04_cdf_closed_form", "C04_cdf_mirror",
        "C04_quantile_partial", "C04_quantile_any_committee_partial", "C04_quantile_unique",
        "C04_seats_total_in_range", "C04_seats_in_range_any_kernel",
        "C04_unrepaired_panics_iff", "C04_unrepaired_total_refuted", "C04_total", "C04_repair_agrees",
        "C04_MakeM_injective", "C04_verifier_agrees", "C04_prover_verifier_agree", "C04_credential_binding",
        "C04_priority_accept_iff", "C04_priority_max",
        "C04_nonvacuous_search", "C04_nonvacuous_quantile", "C04_nonvacuous_finding",
        "C04_nonvacuous_credential", "C04_nonvacuous_priority", "C04_nonvacuous_MakeM",
    ],
    "cases": {"quick": 600, "thorough": 7200},
    "shard": 600,
    "search_factor": 3,
    "gen_args": [],
    "allowed_axioms": [],
    "finding_key": lambda h: h.get("what"),
    "trusted_base": [
        "Coq 8.16.1 kernel (vm_compute for the non-vacuity examples, the refutation witness and the in-Coq model run; no native_compute)",
        "no axioms: every obligation is Closed under the global context",
        "hand-written model coq/C04/Model.v of search / choose / MakeM / computePriority / VrfSortition / VrfVerifySortition / VrfVerifyPriority; the float64 kernel distuv.Binomial.CDF is replaced by the exact binomial distribution function",
        "correspondence harness harness/cmd/c04 (Go, real secp256k1 VRF and Keccak) + in-Coq evaluation of the model on the same cases, seat counts compared within the float band",
        "the harness' own 640-bit big.Float statement of the binomial quantile (oracle for stakes up to 10^7)",
        "hook hooks/consensus/ucon/zz_verif_c04.go (exports choose, search, computePriority, maxVrfHashValue; no behaviour)",
    ],
    "assumptions": [
        "float band: the implementation's seat count may differ by one from the exact quantile when hash/(2^256-1) lies within eps*min(F,1-F) of F(j*) or F(j*-1), eps = 1e-9 + n*2e-14 + (j*+2)/p*2^-50 (float64 rounding of 1-p and of cephes.Incbet); a +-1 difference on that set of hashes cannot be decided",
        "VRF completeness (C04_prover_verifier_agree) and VRF proof binding - a proof verifies for one key and one message only (C04_credential_binding) - are hypotheses standing for the secp256k1 VRF; the harness exercises them with the real VRF on every single-field perturbation",
        "Keccak and the VRF enter the model as section variables (tables of observed values in the model run)",
        "committee/total >= 0 (threshold is a uint64, total stake is positive; a negative probability would still panic in cephes.Incbet and is not modelled)",
        "stakes fit int64 and seat counts uint32 (stake <= 10^7 in the property); hashes are 32 bytes, step and round index uint32",
        "committee/total = 0 with the single hash 2^256-1 returns the whole stake (model and code agree; the quantile theorem assumes 0 < committee/total)",
        "architecture-dependent FMA contraction of float64 expressions is outside the model",
    ],
    "modelled": ["ucon.search", "ucon.choose", "ucon.MakeM", "ucon.computePriority", "ucon.VrfComputePriority",
                 "ucon.VrfSortition", "ucon.VrfVerifySortition", "ucon.VrfVerifyPriority"],
    "partial": [
        "C04_quantile_partial / C04_quantile_any_committee_partial: proved for exact arithmetic; the float64 kernel (gonum cephes.Incbet, 1-p in float64) is validated within the band only",
    ],
}
