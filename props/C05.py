# C05 findings live in /verif/known_findings.json: two fixed (0c3d6f7 two different
# hashes, e1d256e zero-penalty evidence confirmed) and two open
# (cross-kind-pair-accepted, next-index-pair-accepted - they need a protocol
# change).  Oracle hits are matched to open findings by their `what` key; a hit
# of a fixed class or of any other class is a VIOLATION.
SPEC = {
    "fingerprint_funcs": [
        "staking/slash_youv5.go:Staking.processDoubleSignV5",
        "staking/slash.go:Staking.processEvidences",
        "staking/slash.go:Staking.slashing",
        "staking/slash.go:Staking.replaySlashing",
        "staking/slash.go:doPenalize",
        "staking/slash.go:takePenalty",
        "core/protocol_version_processor.go:BlockChain.LookBackVldReaderForRound",
        "consensus/ucon/voter.go:Voter.signVote",
        "consensus/ucon/voter.go:Voter.processVoteMsg",
        "consensus/ucon/vote_bls.go:VoteBLSMgr.SignVote",
    ],
    "level_text": "Coq theorems over all evidence lists, ledgers, look-back chains and signature oracles: an honest validator can be slashed only through one of the listed finding classes (refuted in full strength, with witnesses) - also with the honest vote set instantiated by histories of C03's Voter model and the one-vote-per-kind bound discharged by C03_voter_one_vote / C02_one_vote; real equivocation is always acted on; doPenalize runs at most once per validator and block and an evidence acts at one height; takePenalty never exceeds the amount, never drives a source negative and accounts for every unit; the validator's replay of the builder's slash data reproduces the builder's effects outside the zero-penalty class. The hand model mirrors processDoubleSignV5 / processEvidences / slashing / replaySlashing / doPenalize / takePenalty / LookBackVldReaderForRound and is compared inside Coq with the real code (real BLS keys and signatures, real state database and header store) on hundreds of adversarial cases per run; the votes evidences are assembled from come from real honest Voter runs (updateContext / judgeVoteCount / signVote / VoteBLSMgr.SignVote) on the same world, and the honest double-vote detector (processVoteMsg) is checked to post exactly the evidences for two different hashes of one kind.",
    "level_note": "Trusted: Coq kernel + vm_compute; BLS enters as a function with the ideal-signature hypothesis; fidelity of the hand model rests on the differential check (reach reported in evidence); uint64 wrap-around, RLP decoding and the ValidatorsStat bookkeeping are outside the model; two findings are fixed in /repo (0c3d6f7, e1d256e; their witnesses are regression cases), two stay open in known_findings.json (cross-kind pair, next-index pair: the vote kind is not signed) with witnesses in corpus/C05 and a write-up in fixes/.",
    "harness": "c05",
    "hooks": ["core/zz_verif_c05.go", "staking/zz_verif_c05.go", "consensus/ucon/zz_verif_c05.go"],
    "translators": [["params", "-out", "{gen}/C05Params.v"]],
    "coq_targets": ["C05/Model.vo", "C05/ProofsPenalty.vo", "C05/ProofsShares.vo", "C05/ProofsEvidence.vo", "C05/ProofsHonest.vo",
                    # the voter-level guarantee is imported from C02 / C03 (not modified): build them first
                    "C02/Model.vo", "C02/Proofs.vo", "C03/Model.vo", "C03/ProofsA.vo", "C03/ProofsB.vo", "C03/ProofsC.vo",
                    "C03/ProofsD.vo", "C03/ProofsE.vo", "C03/Properties.vo", "C05/ProofsVoter.vo",
                    "gen/C05Params.vo", "C05/Bridge.vo", "C05/Properties.vo"],
    "coq_dirs": ["C05", "C02", "C03", "Lib", "gen"],   # forbidden-vernacular scan covers the imported developments too
    "properties_v": "C05/Properties.v",
    "obligations": [
        "C05_honest_safe_refuted", "C05_honest_safe_outside_now", "C05_single_hash_evidence_inert", "C05_voter_one_vote_per_kind", "C05_voter_safe_outside_now", "C05_voter_safe_outside", "C05_voter_record_kept", "C05_voter_lives_pass_the_check", "C05_nonvacuous_voter",
        "C05_honest_safe_outside", "C05_honest_record_kept", "C05_duplicate_class",
        "C05_real_equivocation_punished", "C05_once", "C05_once_token_bound", "C05_one_height",
        "C05_bound", "C05_shares", "C05_penalize_effects", "C05_builder_validator", "C05_builder_validator_outside", "C05_builder_validator_refuted_before_repair",
        "C05_real_params_ok", "C05_vote_kinds_agree", "C05_tree_is_repaired", "C05_nonvacuous_honest", "C05_nonvacuous_bound", "C05_nonvacuous_builder",
    ],
    "cases": {"quick": 500, "thorough": 6000},
    "shard": 500,
    "drift_boost": 3,
    "gen_args": [],
    "allowed_axioms": [],
    "finding_key": lambda h: h.get("what"),
    "trusted_base": [
        "Coq 8.16.1 kernel (vm_compute for the witnesses, the non-vacuity examples and the finite parameter check; no native_compute); coqchk in the thorough tier",
        "no axioms: every obligation is Closed under the global context",
        "hand-written model coq/C05/Model.v of processDoubleSignV5 / processEvidences / slashing / replaySlashing / doPenalize / takePenalty / LookBackVldReaderForRound",
        "BLS verification is a function parameter of the model; theorems about honest validators assume ideal signatures (a signature valid under an honest key was produced by its owner on exactly that hash||round||index)",
        "correspondence harness harness/cmd/c05 (Go, real BLS keys and signatures, real StateDB / header store / BlockChain look-back via add-only hooks) + in-Coq evaluation of the model on the same cases; the harness' own validator-set ordering, look-back arithmetic and signature-validity table",
        "life runs: a real Voter on a real VoteDB (one store kept across restarts, kill points inside the vote-record write) driven through step / re-entry / restart histories; every vote sent is checked in Coq against the C03/C02 bound (votes_ok) and every same-kind pair is fed to the real builder and validator evidence paths",
        "consensus side (oracle only, no Coq model): real Voter objects with stub sortition/priority callbacks; completion of the asynchronous event mux is detected through the voter's own 'SelfVote.' / 'DoubleVote.' log records",
        "translator 'c05 params' (StakeUint, CommissionRateBase, 2*ACoCHTFrequency, PenaltyFractionForDoubleSign of all nets -> coq/gen/C05Params.v)",
        "the harness' measurement of which of the two repairs (0c3d6f7, e1d256e) the working tree contains (passed to the model as fx with every case and written to coq/gen/C05Params.v, where Bridge.v requires it to be fx_now)",
    ],
    "assumptions": [
        "one vote per kind and (round, index), two for next-index: a HYPOTHESIS only in the abstract theorems C05_honest_safe_outside(_now); DISCHARGED in C05_voter_safe_outside(_now), where the honest vote set is what histories of C03's Voter model post and the bound is C03_voter_one_vote / C02_one_vote (coq/C02, coq/C03 imported unchanged; their own model-to-code ties are those of the C02 / C03 checks)",
        "ideal BLS signatures (hypothesis unforgeable); distinct (hash, round, index) give distinct payloads (hash is 32 bytes, index 4 bytes)",
        "ledger entries are well formed for the bound theorems: Stake > 0, Stake >= SelfStake + sum of delegation stakes, stakes >= 0, delegators distinct (C08's invariant); outside it the model still mirrors the code (the harness generates such ledgers) but no bound is claimed",
        "a validator with Stake = 0 and a positive penalty makes takePenalty panic (division by zero); the model returns None, the harness matches the panic, the theorems carry v_stake <> 0",
        "uint64 wrap-around of rounds / expel heights and uint32 signer indexes beyond the set are modelled with unbounded N; header numbers are >= 1 (the parent height is header number - 1)",
        "RLP encoding/decoding of evidences and slash data is not modelled (undecodable data is a separate evidence / slash-data constructor)",
        "ValidatorsStat totals and the validator journal (C08, C09) are not modelled",
        "delegations are sorted by delegator without duplicates (UpdateDelegationFrom's binary search)",
    ],
    "modelled": ["staking.(*Staking).processDoubleSignV5", "staking.(*Staking).processEvidences", "staking.(*Staking).slashing",
                 "staking.(*Staking).replaySlashing (parent height = header number - 1)", "staking.doPenalize", "staking.takePenalty",
                 "core.(*BlockChain).LookBackVldReaderForRound"],
    "partial": [
        "C05_honest_safe_outside_now / C05_honest_safe_outside: the full-strength clause (honest validators are never slashed) is refuted for the tree as it is (C05_honest_safe_refuted, open findings cross-kind-pair-accepted / next-index-pair-accepted); what is proved is that slashing an honest validator requires an evidence of exactly that class",
    ],
}
