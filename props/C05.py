# Open findings of C05, listed here until the lead moves them to
# /verif/known_findings.json (builders do not edit shared files).  Each key is
# the `what` of the harness' oracle hits; a hit with another key is a VIOLATION.
KNOWN = [
    {"property": "C05", "status": "open", "key": "duplicate-signature-accepted",
     "text": "processDoubleSignV5 never compares the hashes of an evidence: one honest vote signature listed twice is accepted "
             "and the honest signer is slashed and expelled (witness corpus/C05/w1_same_signature_twice.json, "
             "repair fixes/C05_evidence_without_two_different_hashes.diff)",
     "witness": ["corpus/C05/w1_same_signature_twice.json"]},
    {"property": "C05", "status": "open", "key": "cross-kind-pair-accepted",
     "text": "the signed vote payload is hash||round||index without the vote kind: an honest prevote(A) plus the same validator's "
             "honest precommit/certificate/next-index vote for B is accepted as double-sign evidence "
             "(witness corpus/C05/w2_prevote_and_precommit.json; needs a version-gated protocol change, see fixes/C05_vote_kind_not_signed.md)",
     "witness": ["corpus/C05/w2_prevote_and_precommit.json"]},
    {"property": "C05", "status": "open", "key": "next-index-pair-accepted",
     "text": "an honest voter emits two next-index votes (empty hash, then the marked block) in one round/index; relabelled they are "
             "accepted as double-sign evidence (witness corpus/C05/w3_two_next_index_votes.json, see fixes/C05_vote_kind_not_signed.md)",
     "witness": ["corpus/C05/w3_two_next_index_votes.json"]},
    {"property": "C05", "status": "open", "key": "zero-penalty-builder-only",
     "text": "when the computed penalty is zero the block builder still expels the signer (doPenalize) but leaves the evidence out of "
             "header.SlashData, so validators replaying the block keep the signer online: state roots diverge "
             "(witness corpus/C05/w4_zero_penalty_builder_only.json, repair fixes/C05_zero_penalty_builder_only.diff)",
     "witness": ["corpus/C05/w4_zero_penalty_builder_only.json"]},
]


def check(pid, tier, seed):
    """standard_check with the C05 findings above treated as listed."""
    import vf
    orig = vf.load_known

    def load_known(p):
        ks = orig(p)
        if p == "C05":
            have = {k.get("key") for k in ks}
            ks = ks + [k for k in KNOWN if k["key"] not in have]
        return ks
    vf.load_known = load_known
    try:
        return vf.standard_check(pid, tier, seed)
    finally:
        vf.load_known = orig


SPEC = {
    "check": check,
    "fingerprint_funcs": [
        "staking/slash_youv5.go:Staking.processDoubleSignV5",
        "staking/slash.go:Staking.processEvidences",
        "staking/slash.go:Staking.slashing",
        "staking/slash.go:Staking.replaySlashing",
        "staking/slash.go:doPenalize",
        "staking/slash.go:takePenalty",
        "core/protocol_version_processor.go:BlockChain.LookBackVldReaderForRound",
    ],
    "level_text": "Coq theorems over all evidence lists, ledgers, look-back chains and signature oracles: an honest validator can be slashed only through one of the listed finding classes (refuted in full strength, with witnesses); real equivocation is always acted on; doPenalize runs at most once per validator and block and an evidence acts at one height; takePenalty never exceeds the amount, never drives a source negative and accounts for every unit; the validator's replay of the builder's slash data reproduces the builder's effects outside the zero-penalty class. The hand model mirrors processDoubleSignV5 / processEvidences / slashing / replaySlashing / doPenalize / takePenalty / LookBackVldReaderForRound and is compared inside Coq with the real code (real BLS keys and signatures, real state database and header store) on hundreds of adversarial cases per run.",
    "level_note": "Trusted: Coq kernel + vm_compute; BLS enters as a function with the ideal-signature hypothesis; fidelity of the hand model rests on the differential check (reach reported in evidence); uint64 wrap-around, RLP decoding and the ValidatorsStat bookkeeping are outside the model; four open findings are listed in props/C05.py (KNOWN) with witnesses in corpus/C05 and write-ups in fixes/.",
    "harness": "c05",
    "hooks": ["core/zz_verif_c05.go", "staking/zz_verif_c05.go"],
    "translators": [["params", "-out", "{gen}/C05Params.v"]],
    "coq_targets": ["C05/Model.vo", "C05/ProofsPenalty.vo", "C05/ProofsEvidence.vo", "C05/ProofsHonest.vo",
                    "gen/C05Params.vo", "C05/Bridge.vo", "C05/Properties.vo"],
    "properties_v": "C05/Properties.v",
    "obligations": [
        "C05_honest_safe_refuted", "C05_honest_safe_outside", "C05_honest_record_kept", "C05_duplicate_class",
        "C05_real_equivocation_punished", "C05_once", "C05_once_token_bound", "C05_one_height",
        "C05_bound", "C05_penalize_effects", "C05_builder_validator_outside", "C05_builder_validator_refuted",
        "C05_real_params_ok", "C05_nonvacuous_honest", "C05_nonvacuous_bound", "C05_nonvacuous_builder",
    ],
    "cases": {"quick": 500, "thorough": 6000},
    "shard": 500,
    "gen_args": [],
    "allowed_axioms": [],
    "finding_key": lambda h: h.get("what"),
    "trusted_base": [],
    "assumptions": [],
    "modelled": [],
    "partial": [],
}
