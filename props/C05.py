# Open findings of C05, listed here until the lead moves them to
# /verif/known_findings.json (builders do not edit shared files).  Each key is
# the `what` of the harness' oracle hits; a hit with another key is a VIOLATION.
KNOWN = [
    {"property": "C05", "status": "open", "key": "duplicate-signature-accepted",
     "text": "processDoubleSignV5 never compares the hashes of an evidence: one honest vote signature listed twice is accepted "
             "and the honest signer is slashed and expelled (witness corpus/C05/w1_same_signature_twice.json, "
             "repair fixes/C05_evidence_without_two_different_hashes.diff)",
     "witness": ["corpus/C05/w1_same_signature_twice.json"]},
    {"property": "C05", "status": "open", "key": "cross-kind-pair-accepted",
     "text": "the signed vote payload is hash||round||index without the vote kind: an honest prevote(A) plus the same validator's "
             "honest precommit/certificate/next-index vote for B is accepted as double-sign evidence "
             "(witness corpus/C05/w2_prevote_and_precommit.json; needs a version-gated protocol change, see fixes/C05_vote_kind_not_signed.md)",
     "witness": ["corpus/C05/w2_prevote_and_precommit.json"]},
    {"property": "C05", "status": "open", "key": "next-index-pair-accepted",
     "text": "an honest voter emits two next-index votes (empty hash, then the marked block) in one round/index; relabelled they are "
             "accepted as double-sign evidence (witness corpus/C05/w3_two_next_index_votes.json, see fixes/C05_vote_kind_not_signed.md)",
     "witness": ["corpus/C05/w3_two_next_index_votes.json"]},
    {"property": "C05", "status": "open", "key": "zero-penalty-builder-only",
     "text": "when the computed penalty is zero the block builder still expels the signer (doPenalize) but leaves the evidence out of "
             "header.SlashData, so validators replaying the block keep the signer online: state roots diverge "
             "(witness corpus/C05/w4_zero_penalty_builder_only.json, repair fixes/C05_zero_penalty_builder_only.diff)",
     "witness": ["corpus/C05/w4_zero_penalty_builder_only.json"]},
]


def check(pid, tier, seed):
    """standard_check with the C05 findings above treated as listed."""
    import vf
    orig = vf.load_known

    def load_known(p):
        ks = orig(p)
        if p == "C05":
            have = {k.get("key") for k in ks}
            ks = ks + [k for k in KNOWN if k["key"] not in have]
        return ks
    vf.load_known = load_known
    try:
        return vf.standard_check(pid, tier, seed)
    finally:
        vf.load_known = orig


SPEC = {
    "check": check,
    "fingerprint_funcs": [
        "staking/slash_youv5.go:Staking.processDoubleSignV5",
        "staking/slash.go:Staking.processEvidences",
        "staking/slash.go:Staking.slashing",
        "staking/slash.go:Staking.replaySlashing",
        "staking/slash.go:doPenalize",
        "staking/slash.go:takePenalty",
        "core/protocol_version_processor.go:BlockChain.LookBackVldReaderForRound",
        "consensus/ucon/voter.go:Voter.signVote",
        "consensus/ucon/voter.go:Voter.processVoteMsg",
        "consensus/ucon/vote_bls.go:VoteBLSMgr.SignVote",
    ],
    "level_text": "Coq theorems over all evidence lists, ledgers, look-back chains and signature oracles: an honest validator can be slashed only through one of the listed finding classes (refuted in full strength, with witnesses); real equivocation is always acted on; doPenalize runs at most once per validator and block and an evidence acts at one height; takePenalty never exceeds the amount, never drives a source negative and accounts for every unit; the validator's replay of the builder's slash data reproduces the builder's effects outside the zero-penalty class. The hand model mirrors processDoubleSignV5 / processEvidences / slashing / replaySlashing / doPenalize / takePenalty / LookBackVldReaderForRound and is compared inside Coq with the real code (real BLS keys and signatures, real state database and header store) on hundreds of adversarial cases per run; the votes evidences are assembled from come from real honest Voter runs (updateContext / judgeVoteCount / signVote / VoteBLSMgr.SignVote) on the same world, and the honest double-vote detector (processVoteMsg) is checked to post exactly the evidences for two different hashes of one kind.",
    "level_note": "Trusted: Coq kernel + vm_compute; BLS enters as a function with the ideal-signature hypothesis; fidelity of the hand model rests on the differential check (reach reported in evidence); uint64 wrap-around, RLP decoding and the ValidatorsStat bookkeeping are outside the model; four open findings are listed in props/C05.py (KNOWN) with witnesses in corpus/C05 and write-ups in fixes/.",
    "harness": "c05",
    "hooks": ["core/zz_verif_c05.go", "staking/zz_verif_c05.go", "consensus/ucon/zz_verif_c05.go"],
    "translators": [["params", "-out", "{gen}/C05Params.v"]],
    "coq_targets": ["C05/Model.vo", "C05/ProofsPenalty.vo", "C05/ProofsShares.vo", "C05/ProofsEvidence.vo", "C05/ProofsHonest.vo",
                    "gen/C05Params.vo", "C05/Bridge.vo", "C05/Properties.vo"],
    "properties_v": "C05/Properties.v",
    "obligations": [
        "C05_honest_safe_refuted", "C05_honest_safe_outside", "C05_honest_record_kept", "C05_duplicate_class",
        "C05_real_equivocation_punished", "C05_once", "C05_once_token_bound", "C05_one_height",
        "C05_bound", "C05_shares", "C05_penalize_effects", "C05_builder_validator_outside", "C05_builder_validator_refuted",
        "C05_real_params_ok", "C05_vote_kinds_agree", "C05_nonvacuous_honest", "C05_nonvacuous_bound", "C05_nonvacuous_builder",
    ],
    "cases": {"quick": 500, "thorough": 6000},
    "shard": 500,
    "drift_boost": 3,
    "gen_args": [],
    "allowed_axioms": [],
    "finding_key": lambda h: h.get("what"),
    "trusted_base": [
        "Coq 8.16.1 kernel (vm_compute for the witnesses, the non-vacuity examples and the finite parameter check; no native_compute); coqchk in the thorough tier",
        "no axioms: every obligation is Closed under the global context",
        "hand-written model coq/C05/Model.v of processDoubleSignV5 / processEvidences / slashing / replaySlashing / doPenalize / takePenalty / LookBackVldReaderForRound",
        "BLS verification is a function parameter of the model; theorems about honest validators assume ideal signatures (a signature valid under an honest key was produced by its owner on exactly that hash||round||index)",
        "correspondence harness harness/cmd/c05 (Go, real BLS keys and signatures, real StateDB / header store / BlockChain look-back via add-only hooks) + in-Coq evaluation of the model on the same cases; the harness' own validator-set ordering, look-back arithmetic and signature-validity table",
        "consensus side (oracle only, no Coq model): real Voter objects with stub sortition/priority callbacks; completion of the asynchronous event mux is detected through the voter's own 'SelfVote.' / 'DoubleVote.' log records",
        "translator 'c05 params' (StakeUint, CommissionRateBase, 2*ACoCHTFrequency, PenaltyFractionForDoubleSign of all nets -> coq/gen/C05Params.v)",
        "the harness' measurement of which of the two proposed repairs the working tree contains (passed to the model as fx)",
    ],
    "assumptions": [
        "C02 (proved separately): an honest validator signs at most one vote per kind and (round, index), two for next-index - hypothesis one_vote_per_kind of the honest-validator theorems",
        "ideal BLS signatures (hypothesis unforgeable); distinct (hash, round, index) give distinct payloads (hash is 32 bytes, index 4 bytes)",
        "ledger entries are well formed for the bound theorems: Stake > 0, Stake >= SelfStake + sum of delegation stakes, stakes >= 0, delegators distinct (C08's invariant); outside it the model still mirrors the code (the harness generates such ledgers) but no bound is claimed",
        "a validator with Stake = 0 and a positive penalty makes takePenalty panic (division by zero); the model returns None, the harness matches the panic, the theorems carry v_stake <> 0",
        "uint64 wrap-around of rounds / expel heights and uint32 signer indexes beyond the set are modelled with unbounded N",
        "RLP encoding/decoding of evidences and slash data is not modelled (undecodable data is a separate evidence / slash-data constructor)",
        "ValidatorsStat totals and the validator journal (C08, C09) are not modelled",
        "delegations are sorted by delegator without duplicates (UpdateDelegationFrom's binary search)",
    ],
    "modelled": ["staking.(*Staking).processDoubleSignV5", "staking.(*Staking).processEvidences", "staking.(*Staking).slashing",
                 "staking.(*Staking).replaySlashing", "staking.doPenalize", "staking.takePenalty",
                 "core.(*BlockChain).LookBackVldReaderForRound"],
    "partial": [
        "C05_honest_safe_outside: the full-strength clause (honest validators are never slashed) is refuted (C05_honest_safe_refuted); what is proved is that slashing an honest validator requires an evidence of a listed finding class",
        "C05_builder_validator_outside: holds outside the zero-penalty class (refuted inside it by C05_builder_validator_refuted) or with the proposed repair",
    ],
}
