#!/usr/bin/env python3
"""Shared driver for every property check (see DESIGN.md 1.4).

A property is described by a module props/<ID>.py exposing a dict SPEC:

  harness      : name of the Go command under harness/cmd (binary build/<name>)
  hooks        : list of package paths (relative to /repo) whose hook file
                 /verif/hooks/<pkg>/zz_verif_hooks.go is overlaid (tag verif)
  translators  : list of [args...] run with the harness binary before Coq is
                 built (they write coq/gen/*.v; "{gen}" expands to coq/gen)
  coq_targets  : list of .vo targets (relative to coq/) to make
  properties_v : the Properties.v file whose theorems are the obligations
  obligations  : list of theorem / example names that must be present in the
                 compiled Properties file (checked in the coqc output of
                 "Print Assumptions")
  cases        : {"quick": n, "thorough": n}
  gen_args     : extra args for "<harness> gen"
  trusted_base, assumptions, level_text ...
"""
import fcntl
import hashlib
import importlib
import json
import os
import re
import shutil
import subprocess
import sys
import time

VERIF = "/verif"
REPO = os.environ.get("VERIF_REPO", "/repo")   # a scratch worktree may be checked instead of /repo
BUILD = os.path.join(VERIF, "build")
COQ = os.path.join(VERIF, "coq")
GOENV = dict(os.environ, GOFLAGS="-mod=mod", GOPROXY="off", GOSUMDB="off",
             GOTOOLCHAIN="local", CGO_ENABLED="1")

FORBIDDEN = re.compile(r"\b(Admitted|admit|Axiom|Parameter|Conjecture|Unset Guard|bypass_check|Admit Obligations)\b")


def sh(cmd, cwd=None, env=None, timeout=None, inp=None):
    p = subprocess.run(cmd, cwd=cwd, env=env, stdout=subprocess.PIPE, stderr=subprocess.STDOUT,
                       timeout=timeout, input=inp, universal_newlines=True)
    return p.returncode, p.stdout


class Lock:
    def __init__(self, name):
        os.makedirs(BUILD, exist_ok=True)
        self.path = os.path.join(BUILD, name + ".lock")

    def __enter__(self):
        self.f = open(self.path, "w")
        fcntl.flock(self.f, fcntl.LOCK_EX)

    def __exit__(self, *a):
        fcntl.flock(self.f, fcntl.LOCK_UN)
        self.f.close()


def overlay_file(name, hooks):
    """hooks: list of paths relative to /verif/hooks, e.g. "core/state/zz_verif_c09.go";
    each is overlaid onto <REPO>/<same path> (files carry //go:build verif)."""
    rep = {}
    for rel in hooks or []:
        rep[os.path.join(REPO, rel)] = os.path.join(VERIF, "hooks", rel)
    path = os.path.join(BUILD, "overlay_%s.json" % name)
    os.makedirs(BUILD, exist_ok=True)
    with open(path, "w") as fh:
        json.dump({"Replace": rep}, fh, indent=1)
    return path


def build_harness(name, hooks=None):
    """Builds harness/cmd/<name> against /repo's working tree."""
    h = os.path.join(VERIF, "harness")
    with Lock("go"):
        shutil.copyfile(os.path.join(REPO, "go.sum"), os.path.join(h, "go.sum"))
        ov = overlay_file(name, hooks)
        out = os.path.join(BUILD, name)
        cmd = ["go", "build", "-tags", "verif", "-overlay", ov, "-o", out]
        if REPO != "/repo":
            mf = os.path.join(BUILD, "alt_%s.go.mod" % name)
            open(mf, "w").write(open(os.path.join(h, "go.mod")).read().replace("=> /repo", "=> " + REPO))
            shutil.copyfile(os.path.join(REPO, "go.sum"), os.path.join(BUILD, "alt_%s.go.sum" % name))
            cmd += ["-modfile", mf]
        rc, log = sh(cmd + ["./cmd/" + name], cwd=h, env=GOENV, timeout=1500)
    return rc == 0, log, out


def all_specs():
    import glob
    out = {}
    for p in sorted(glob.glob(os.path.join(VERIF, "props", "C*.py"))):
        pid = os.path.basename(p)[:-3]
        try:
            out[pid] = importlib.import_module("props." + pid).SPEC
        except Exception as e:   # a half-written spec of another property must not break this one
            print("warning: props/%s.py does not load: %s" % (pid, e))
    return out


def write_coqproject():
    """_CoqProject = union of every property's coq_files (+ Lib), regenerated so
    that properties can be added independently.  Returns True if it changed."""
    files = set()
    for pid, spec in all_specs().items():
        for t in spec.get("coq_files", [x[:-1] for x in spec["coq_targets"]]):
            if t.startswith("gen/") or os.path.exists(os.path.join(COQ, t)):
                files.add(t)
    libdir = os.path.join(COQ, "Lib")
    if os.path.isdir(libdir):
        for f in os.listdir(libdir):
            if f.endswith(".v") and not f.startswith("_"):
                files.add("Lib/" + f)
    txt = "-Q . VF\n" + "\n".join(sorted(files)) + "\n"
    p = os.path.join(COQ, "_CoqProject")
    old = open(p).read() if os.path.exists(p) else ""
    if old != txt or not os.path.exists(os.path.join(COQ, "Makefile")):
        open(p, "w").write(txt)
        sh(["coq_makefile", "-f", "_CoqProject", "-o", "Makefile"], cwd=COQ)
        return True
    return False


def coq_make(targets, jobs=16, timeout=3000):
    with Lock("coq"):
        write_coqproject()
        rc, log = sh(["timeout", str(timeout), "make", "-j%d" % jobs] + targets, cwd=COQ, timeout=timeout + 60)
    return rc == 0, log


def coqc(path, cwd, extra_q=None, timeout=1200):
    cmd = ["timeout", str(timeout), "coqc", "-Q", COQ, "VF"]
    if extra_q:
        cmd += ["-Q", extra_q[0], extra_q[1]]
    cmd.append(path)
    return sh(cmd, cwd=cwd, timeout=timeout + 60)


def grep_forbidden(dirs):
    bad = []
    for d in dirs:
        for root, _, files in os.walk(d):
            for f in files:
                if f.endswith(".v"):
                    p = os.path.join(root, f)
                    txt = open(p).read()
                    # strip comments (non-nested is enough for our sources)
                    txt2 = re.sub(r"\(\*.*?\*\)", "", txt, flags=re.S)
                    for m in FORBIDDEN.finditer(txt2):
                        bad.append("%s: %s" % (p, m.group(0)))
    return bad


def parse_assumptions(log):
    """Splits coqc output of a Properties.v into {theorem: [axioms]}.

    Properties files print, for each obligation, a marker line produced by
    `Print Assumptions name.` preceded by our own `(* OBLIGATION name *)`
    convention: we rely on the order of Print Assumptions commands instead."""
    blocks = []
    cur = None
    for line in log.splitlines():
        if line.startswith("Closed under the global context"):
            blocks.append([])
            cur = None
        elif line.startswith("Axioms:"):
            cur = []
            blocks.append(cur)
        elif cur is not None and line.strip():
            if re.match(r"^\S", line) and ":" in line:
                cur.append(line.split(":")[0].strip())
            elif re.match(r"^\S", line):
                cur.append(line.strip())
    return blocks


def fingerprints(funcs):
    """normalised-AST hashes of the Go functions a hand model mirrors (T6)."""
    if not funcs:
        return {}
    h = os.path.join(VERIF, "harness")
    out = os.path.join(BUILD, "fingerprint")
    with Lock("go"):
        if not os.path.exists(out):
            sh(["go", "build", "-o", out, "./cmd/fingerprint"], cwd=h, env=GOENV, timeout=600)
    rc, txt = sh([out, REPO] + list(funcs))
    res = {}
    for line in txt.splitlines():
        parts = line.split()
        if len(parts) == 2:
            res[parts[0]] = parts[1]
    return res


def recorded_fingerprints(pid):
    p = os.path.join(VERIF, "props", "fingerprints.json")
    if not os.path.exists(p):
        return {}
    return json.load(open(p)).get(pid, {})


def load_known(pid):
    p = os.path.join(VERIF, "known_findings.json")
    if not os.path.exists(p):
        return []
    return [k for k in json.load(open(p)).get("findings", []) if k.get("property") == pid]


class Run:
    def __init__(self, pid, tier, seed):
        self.pid, self.tier, self.seed = pid, tier, seed
        self.t0 = time.time()
        self.spec = importlib.import_module("props." + pid).SPEC
        self.dir = os.path.join(BUILD, pid)
        os.makedirs(self.dir, exist_ok=True)
        # shard directories of earlier (possibly larger, boosted) runs are dead weight
        for old in os.listdir(self.dir):
            if old.startswith("shard"):
                shutil.rmtree(os.path.join(self.dir, old), ignore_errors=True)
        self.log = []
        self.obligations = 0
        self.discharged = 0
        self.broken = []          # names of obligations / correspondences that no longer check
        self.axioms = {}
        self.violations = []      # (replay_path, found_input: bool)
        self.known_lines = []
        self.result = None
        self.mismatch_count = 0
        self.traces = 0
        # change-directed budget (DESIGN 1.3-C): a modelled function whose
        # normalised AST differs from the recorded one multiplies the case budget
        cur = fingerprints(self.spec.get("fingerprint_funcs", []))
        rec = recorded_fingerprints(pid)
        self.drift = sorted(k for k in cur if rec.get(k) and rec[k] != cur[k])
        self.boost = int(self.spec.get("drift_boost", 5)) if self.drift else 1
        if self.drift:
            self.say("modelled functions changed since the model was written (budget x%d): %s" % (self.boost, ", ".join(self.drift)))

    def say(self, *a):
        msg = " ".join(str(x) for x in a)
        self.log.append(msg)
        print(msg, flush=True)

    # ---- steps ----------------------------------------------------------
    def build(self):
        ok, log, self.bin = build_harness(self.spec["harness"], self.spec.get("hooks"))
        if not ok:
            self.say("harness build failed:\n" + log[-3000:])
            self.broken.append("harness-build (the hooks or the API the harness uses no longer compile against /repo)")
        return ok

    def translate(self):
        gen = os.path.join(COQ, "gen")
        os.makedirs(gen, exist_ok=True)
        for args in self.spec.get("translators", []):
            args = [a.replace("{gen}", gen) for a in args]
            rc, log = sh([self.bin] + args, cwd=self.dir, env=GOENV, timeout=600)
            if rc != 0:
                self.say("translator failed: %s\n%s" % (args, log[-2000:]))
                self.broken.append("translator " + " ".join(args))

    def proofs(self):
        """Builds the closure of the property's theorems and re-checks the
        Properties file itself, collecting Print Assumptions."""
        spec = self.spec
        names = spec["obligations"]
        self.obligations = len(names)
        if self.tier == "thorough":
            # rebuild this property's own files from scratch
            for t in spec["coq_targets"]:
                for ext in (".vo", ".vok", ".vos", ".glob"):
                    p = os.path.join(COQ, t[:-3] + ext)
                    if os.path.exists(p):
                        os.remove(p)
        ok, log = coq_make(spec["coq_targets"])
        if not ok:
            self.say("coq build failed:\n" + log[-3000:])
            m = re.findall(r'File "\./([^"]+)", line (\d+)', log)
            where = ", ".join("%s:%s" % x for x in m) or "see log"
            self.broken.append("coq-build: " + where)
            return False
        bad = grep_forbidden([os.path.join(COQ, d) for d in spec.get("coq_dirs", [self.pid, "Lib", "gen"])])
        if bad:
            self.say("forbidden vernacular: " + "; ".join(bad))
            self.broken.append("forbidden vernacular: " + "; ".join(bad))
            return False
        # re-run the Properties file to get the assumptions of every obligation
        pv = spec["properties_v"]
        with Lock("coq"):
            rc, out = coqc(pv, COQ)
        if rc != 0:
            self.say("Properties file does not check:\n" + out[-2000:])
            self.broken.append("coqc " + pv)
            return False
        src = open(os.path.join(COQ, pv)).read()
        printed = re.findall(r"Print Assumptions (\w+)\.", src)
        blocks = parse_assumptions(out)
        if len(blocks) != len(printed):
            self.say("cannot match Print Assumptions output (%d blocks, %d commands)" % (len(blocks), len(printed)))
        for n, b in zip(printed, blocks):
            self.axioms[n] = b
        done = 0
        for n in names:
            if re.search(r"\b(Theorem|Lemma|Example|Corollary)\s+%s\b" % re.escape(n), src) and n in self.axioms:
                allowed = set(spec.get("allowed_axioms", []))
                extra = [a for a in self.axioms[n] if a not in allowed]
                if extra:
                    self.say("obligation %s depends on unlisted axioms %s" % (n, extra))
                    self.broken.append("axioms of " + n)
                else:
                    done += 1
            else:
                self.say("obligation %s missing from %s" % (n, pv))
                self.broken.append("obligation " + n)
        self.discharged = done
        if self.tier == "thorough" and spec.get("coqchk", True):
            vo = pv[:-2].replace("/", ".")
            with Lock("coq"):
                rc, out = sh(["timeout", "3000", "coqchk", "-silent", "-o", "-Q", COQ, "VF", "VF." + vo], cwd=COQ)
            self.coqchk = out[-1500:]
            if rc != 0:
                self.say("coqchk failed:\n" + out[-2000:])
                self.broken.append("coqchk " + vo)
        return not self.broken

    def correspondence(self, ncases=None, seed=None, tag=""):
        """Runs the implementation on generated cases and the model on the same
        cases inside Coq; returns list of mismatching case indexes."""
        spec = self.spec
        n = ncases or spec["cases"][self.tier] * self.boost
        seed = self.seed if seed is None else seed
        shard = int(spec.get("shard", 1000))
        mism_total = []
        self.results = []   # results of this campaign only
        k = 0
        remaining = n
        while remaining > 0:
            m = min(shard, remaining)
            d = os.path.join(self.dir, "shard%d%s" % (k, tag))
            shutil.rmtree(d, ignore_errors=True)
            os.makedirs(d)
            args = [self.bin, "gen", "-seed", str(seed + 7919 * k), "-n", str(m), "-out", d] + \
                [a.replace("{tier}", self.tier) for a in spec.get("gen_args", [])]
            if k > 0:
                args += ["-corpus", "/nonexistent"]
            rc, log = sh(args, cwd=d, env=GOENV, timeout=3000)
            if rc != 0:
                self.say("harness gen failed (rc=%d):\n%s" % (rc, log[-3000:]))
                self.broken.append("harness-run: the implementation run itself failed (panic or error), see log")
                self.harness_log = log[-4000:]
                return None
            res = json.load(open(os.path.join(d, "result.json")))
            rc, out = coqc("Cases.v", d, timeout=2400)
            flat = " ".join(out.split())
            mm = re.search(r"M = \[(.*?)\] : list", flat)
            if rc != 0 or not mm:
                self.say("model run failed:\n" + out[-2000:])
                self.broken.append("model-run (Cases.v does not evaluate)")
                return None
            idx = [int(x.strip().rstrip("%N")) for x in mm.group(1).split(";") if x.strip()]
            res["_mismatch"] = idx
            res["_dir"] = d
            self.results.append(res)
            mism_total += [(k, i) for i in idx]
            self.traces += res["cases"]
            remaining -= m
            k += 1
        return mism_total

    # ---- reporting ------------------------------------------------------
    def replay_file(self, name, obj):
        d = os.path.join(VERIF, "replays")
        os.makedirs(d, exist_ok=True)
        p = os.path.join(d, "%s_%s.json" % (self.pid, name))
        with open(p, "w") as fh:
            json.dump(obj, fh, indent=1)
        return p

    def violation(self, replay_path, found):
        line = "VIOLATION property=%s replay=%s" % (self.pid, replay_path)
        if not found:
            line += " no-failing-input-found"
        self.violations.append(line)
        print(line, flush=True)

    def known(self, text):
        line = "KNOWN-FINDING: property=%s %s" % (self.pid, text)
        self.known_lines.append(line)
        print(line, flush=True)

    def evidence(self, extra=None):
        spec = self.spec
        dist, samples, cases, distinct, hits = {}, [], 0, 0, 0
        for r in getattr(self, "results", []) or []:
            for k, v in r["distribution"].items():
                dist[k] = dist.get(k, 0) + v
            samples += r["samples"][:3]
            cases += r["cases"]
            distinct += r["distinct"]
            hits += len(r["oracle_hits"])
        rule = (self.results[0]["rule"] if getattr(self, "results", None) else "")
        cov = {
            "obligations": max(self.obligations, 1),
            "discharged": self.discharged,
            "checker_cmd": "make -C /verif/coq %s && coqc -Q /verif/coq VF %s   (Coq 8.16.1; thorough tier adds coqchk -o)"
                           % (" ".join(spec["coq_targets"]), spec["properties_v"]),
            "trusted_base": spec["trusted_base"],
            "obligation_names": spec["obligations"],
            "axioms_reported": {k: (v or ["Closed under the global context"]) for k, v in self.axioms.items()},
            "traces_validated_against_impl": self.traces,
            "evaluations": max(cases, 1),
            "distinct_nontrivial": distinct,
            "rule": rule,
            "samples": samples[:8] if samples else [{"note": "no correspondence cases ran", "broken": self.broken}],
            "distribution": dist,
            "model_vs_impl_mismatches": self.mismatch_count,
            "oracle_hits": hits,
            "broken": self.broken,
            "known_findings_printed": self.known_lines,
            "partial": spec.get("partial", []),
            "fingerprint_drift": self.drift,
            "modelled_functions": spec.get("modelled", []),
        }
        if extra:
            cov.update(extra)
        if hasattr(self, "coqchk"):
            cov["coqchk_tail"] = self.coqchk
        ev = {
            "property_id": self.pid, "tier": self.tier, "seed": self.seed, "level": "proof",
            "coverage": cov, "assumptions": spec["assumptions"],
            "wall_s": round(time.time() - self.t0, 2), "violations": len(self.violations),
        }
        os.makedirs(os.path.join(VERIF, "evidence"), exist_ok=True)
        # evidence/<id>.json describes runs against /repo only; a trial against a scratch
        # worktree (VERIF_REPO) writes next to the build output instead
        evpath = os.path.join(VERIF, "evidence", self.pid + ".json") if REPO == "/repo" \
            else os.path.join(BUILD, "evidence_trial_%s.json" % self.pid)
        with open(evpath, "w") as fh:
            json.dump(ev, fh, indent=1)


def _unlisted(spec, known, results):
    out = []
    for res in results:
        for h in res["oracle_hits"]:
            key = spec["finding_key"](h) if "finding_key" in spec else None
            if not [k for k in known if k.get("key") == key]:
                out.append(h)
    return out


def standard_check(pid, tier, seed):
    """The flow shared by all hand-modelled properties."""
    r = Run(pid, tier, seed)
    spec = r.spec
    r.results = []
    if not r.build():
        rp = r.replay_file("build", {"no_longer_checks": r.broken, "log": r.log[-1]})
        r.violation(rp, False)
        r.evidence()
        return 1
    r.translate()
    r.proofs()
    known = [k for k in load_known(pid) if k.get("status") == "open"]
    first = None
    mism = r.correspondence()
    if mism is not None:
        first = (mism, list(r.results))
        r.mismatch_count = len(mism)
        if mism:
            r.broken.append("correspondence: model and implementation disagree on %d of %d cases" % (len(mism), r.traces))
    all_results = list(r.results)
    unlisted = _unlisted(spec, known, all_results)
    if r.broken and not unlisted and mism is not None and spec.get("search", True):
        r.say("an obligation or the correspondence broke: searching the implementation for a failing input ...")
        if r.correspondence(ncases=spec["cases"][tier] * spec.get("search_factor", 6), seed=seed + 104729, tag="s") is not None:
            unlisted = _unlisted(spec, known, r.results)
            all_results += r.results
    r.results = all_results
    for k in known:
        r.known(k["text"])
    rc = 0
    if unlisted:
        h = unlisted[0]
        rp = r.replay_file("oracle", {"what": h.get("what") if isinstance(h, dict) else str(h), "input": h,
                                      "no_longer_checks": r.broken,
                                      "replay_cmd": "/verif/bin/check %s --replay <this file>" % pid})
        r.violation(rp, True)
        rc = 1
    elif r.broken:
        obj = {"no_longer_checks": r.broken}
        if first and first[0]:
            k, i = first[0][0]
            try:
                obj["first_disagreeing_case"] = first[1][k]["case_descs"][i]
            except Exception:
                pass
        rp = r.replay_file("broken", obj)
        r.violation(rp, False)
        rc = 1
    r.evidence()
    return rc


def main():
    import argparse
    ap = argparse.ArgumentParser()
    ap.add_argument("pid")
    ap.add_argument("--tier", default=os.environ.get("VERIF_TIER", "quick"))
    ap.add_argument("--replay")
    a = ap.parse_args()
    seed = int(os.environ.get("VERIF_SEED", "1") or 1)
    sys.path.insert(0, VERIF)
    spec = importlib.import_module("props." + a.pid).SPEC
    if a.replay:
        ok, log, binp = build_harness(spec["harness"], spec.get("hooks"))
        if not ok:
            print(log)
            sys.exit(2)
        obj = json.load(open(a.replay))
        tmp = os.path.join(BUILD, "replay_input.json")
        json.dump(obj.get("input", obj), open(tmp, "w"))
        rc, out = sh([binp, "replay", "-file", tmp], env=GOENV)
        print(out)
        sys.exit(rc)
    fn = spec.get("check", standard_check)
    # one run per property at a time: a trial (VERIF_REPO) and a normal run share the
    # harness binary and coq/gen files of the property
    with Lock("prop_" + a.pid):
        rc = fn(a.pid, a.tier, seed)
    sys.exit(rc)


if __name__ == "__main__":
    main()
