//go:build verif
// +build verif

// Add-only hook for property C08 (validator statistics).  No behaviour: it lets the
// harness run the unexported end-of-block code of package staking UNMODIFIED on a
// state the harness has built: the take-effect handlers of the staking transactions
// (teCreate, teUpdate, teDeposit, teWithdraw, teChangeStatus, teDelegationAdd,
// teDelegationSub, teNoop), the penalty code (doPenalize / takePenalty,
// inactivitySlashing, recoverFromExpiredExpelling) and the rewards code
// (rewardsToPool, distributeRewards, settleValidatorRewards).
package staking

import (
	"math/big"

	"github.com/youchainhq/go-youchain/common"
	"github.com/youchainhq/go-youchain/core/state"
	"github.com/youchainhq/go-youchain/core/types"
	"github.com/youchainhq/go-youchain/local"
	"github.com/youchainhq/go-youchain/params"
	"github.com/youchainhq/go-youchain/rlp"
)

func verifC08Header(cfg *params.YouParams, height uint64, coinbase common.Address, gasRewards *big.Int) *types.Header {
	if gasRewards == nil {
		gasRewards = new(big.Int)
	}
	return &types.Header{Number: new(big.Int).SetUint64(height), CurrVersion: cfg.Version, Coinbase: coinbase,
		GasRewards: new(big.Int).Set(gasRewards), Subsidy: new(big.Int)}
}

func verifC08Ctx(st *state.StateDB, cfg *params.YouParams, h *types.Header) *context {
	return &context{config: cfg, db: st, header: h, receipt: &types.Receipt{}, recorder: local.FakeRecorder()}
}

// VerifC08TakeEffect runs the take-effect handler registered for action on payload, as takeEffectEntry does.
func VerifC08TakeEffect(st *state.StateDB, cfg *params.YouParams, from common.Address, action ActionType, payload []byte, height, nonce uint64) error {
	to := params.StakingModuleAddress
	msg := types.NewMessage(from, &to, nonce, new(big.Int), 0, new(big.Int), nil, false)
	ctx := &messageContext{
		Msg:     msg,
		State:   st,
		Cfg:     cfg,
		Header:  verifC08Header(cfg, height, common.Address{}, nil),
		Receipt: &types.Receipt{},
	}
	return getTeHandler(action)(ctx, payload)
}

// VerifC08DelegationSub runs teDelegationSub.
func VerifC08DelegationSub(st *state.StateDB, cfg *params.YouParams, from, validator common.Address, amount *big.Int, height uint64) error {
	payload, err := rlp.EncodeToBytes(&TxDelegation{Validator: validator, Value: new(big.Int).Set(amount)})
	if err != nil {
		return err
	}
	return VerifC08TakeEffect(st, cfg, from, DelegationSub, payload, height, 0)
}

// VerifC08Penalize runs doPenalize (takePenalty inside) on the stored record of validator; false = no such validator.
func VerifC08Penalize(st *state.StateDB, cfg *params.YouParams, typ string, validator common.Address, amount *big.Int, height uint64) bool {
	val := st.GetValidatorByMainAddr(validator)
	if val == nil {
		return false
	}
	doPenalize(cfg, typ, st, verifC08Header(cfg, height, common.Address{}, nil), val, new(big.Int).Set(amount), height)
	return true
}

// VerifC08Inactivity runs slashingAndRecoveringYouV5 (inactivitySlashing / recoverFromExpiredExpelling over GetValidatorsForUpdate).
func VerifC08Inactivity(st *state.StateDB, cfg *params.YouParams, height uint64) {
	slashingAndRecoveringYouV5(verifC08Ctx(st, cfg, verifC08Header(cfg, height, common.Address{}, nil)))
}

// VerifC08RewardsToPool runs rewardsToPool with the given proposer and gas rewards.
func VerifC08RewardsToPool(st *state.StateDB, cfg *params.YouParams, proposer common.Address, gasRewards *big.Int, height uint64) {
	rewardsToPool(verifC08Ctx(st, cfg, verifC08Header(cfg, height, proposer, gasRewards)))
}

// VerifC08DistributeRewards runs Staking.distributeRewards (settleValidatorRewards inside).
func VerifC08DistributeRewards(st *state.StateDB, cfg *params.YouParams, height uint64) error {
	_, err := (&Staking{}).distributeRewards(verifC08Ctx(st, cfg, verifC08Header(cfg, height, common.Address{}, nil)))
	return err
}

// VerifC08Settle runs settleValidatorRewards on the stored record of validator.
func VerifC08Settle(st *state.StateDB, cfg *params.YouParams, validator common.Address, height uint64) bool {
	val := st.GetValidatorByMainAddr(validator)
	if val == nil {
		return false
	}
	settleValidatorRewards(verifC08Ctx(st, cfg, verifC08Header(cfg, height, common.Address{}, nil)), val, height)
	return true
}
