//go:build verif
// +build verif

// Add-only hook for property C08 (validator statistics).  No behaviour: it lets the
// harness run the unexported take-effect handler of a delegation withdrawal
// (teDelegationSub: UpdateDelegation, then - when the validator's total stake falls
// below MinStakes - Status = Offline written into the stored record in place and
// UpdateValidator(stored, copy)) unmodified on a state the harness has built.
package staking

import (
	"math/big"

	"github.com/youchainhq/go-youchain/common"
	"github.com/youchainhq/go-youchain/core/state"
	"github.com/youchainhq/go-youchain/core/types"
	"github.com/youchainhq/go-youchain/params"
	"github.com/youchainhq/go-youchain/rlp"
)

func VerifC08DelegationSub(st *state.StateDB, cfg *params.YouParams, from, validator common.Address, amount *big.Int, height uint64) error {
	payload, err := rlp.EncodeToBytes(&TxDelegation{Validator: validator, Value: new(big.Int).Set(amount)})
	if err != nil {
		return err
	}
	to := params.StakingModuleAddress
	msg := types.NewMessage(from, &to, 0, new(big.Int), 0, new(big.Int), nil, false)
	ctx := &messageContext{
		Msg:     msg,
		State:   st,
		Cfg:     cfg,
		Header:  &types.Header{Number: new(big.Int).SetUint64(height), CurrVersion: cfg.Version},
		Receipt: &types.Receipt{},
	}
	return teDelegationSub(ctx, payload)
}
