//go:build verif
// +build verif

// Add-only hooks for property C08 (validator statistics).  No behaviour.  This file only
// holds the registry; every unexported function of package staking that the harness runs
// UNMODIFIED has its own file zz_verif_c08_<name>.go that registers one wrapper here.  A
// tree in which the signature of such a function has changed still builds the harness
// without that file (props/C08.py drops the files that do not compile and reports them);
// the whole-block scenarios use the exported staking.EndBlock and need no hook at all.
package staking

// VerifC08 maps a hook name to its wrapper (a func value; the harness asserts the type).
var VerifC08 = map[string]interface{}{}
