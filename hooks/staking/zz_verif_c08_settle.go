//go:build verif
// +build verif

// C08 hook: settleValidatorRewards on the stored record of a validator.
package staking

import (
	"math/big"

	"github.com/youchainhq/go-youchain/common"
	"github.com/youchainhq/go-youchain/core/state"
	"github.com/youchainhq/go-youchain/core/types"
	"github.com/youchainhq/go-youchain/local"
	"github.com/youchainhq/go-youchain/params"
)

func verifC08Ctx_settle(st *state.StateDB, cfg *params.YouParams, height uint64, coinbase common.Address, gasRewards *big.Int) *context {
	h := &types.Header{Number: new(big.Int).SetUint64(height), CurrVersion: cfg.Version, Coinbase: coinbase,
		GasRewards: new(big.Int).Set(gasRewards), Subsidy: new(big.Int)}
	return &context{config: cfg, db: st, header: h, receipt: &types.Receipt{}, recorder: local.FakeRecorder()}
}

func init() {
	VerifC08["settle"] = func(st *state.StateDB, cfg *params.YouParams, validator common.Address, height uint64) bool {
		val := st.GetValidatorByMainAddr(validator)
		if val == nil {
			return false
		}
		settleValidatorRewards(verifC08Ctx_settle(st, cfg, height, common.Address{}, new(big.Int)), val, height)
		return true
	}
}
