//go:build verif
// +build verif

// C08 hook: the take-effect handlers of the staking transactions (getTeHandler / messageContext),
// as takeEffectEntry runs them.
package staking

import (
	"math/big"

	"github.com/youchainhq/go-youchain/common"
	"github.com/youchainhq/go-youchain/core/state"
	"github.com/youchainhq/go-youchain/core/types"
	"github.com/youchainhq/go-youchain/params"
)

func init() {
	VerifC08["te"] = func(st *state.StateDB, cfg *params.YouParams, from common.Address, action ActionType, payload []byte, height, nonce uint64) error {
		to := params.StakingModuleAddress
		msg := types.NewMessage(from, &to, nonce, new(big.Int), 0, new(big.Int), nil, false)
		ctx := &messageContext{
			Msg:     msg,
			State:   st,
			Cfg:     cfg,
			Header:  &types.Header{Number: new(big.Int).SetUint64(height), CurrVersion: cfg.Version, GasRewards: new(big.Int), Subsidy: new(big.Int)},
			Receipt: &types.Receipt{},
		}
		return getTeHandler(action)(ctx, payload)
	}
}
