//go:build verif
// +build verif

package staking

import "github.com/youchainhq/go-youchain/core"

// VerifC17Handler exposes the unexported handler lookup of the staking
// converter (getHandler) so that the C17 harness can ask, on a scratch copy of
// the state, what the handler of an action answers.  No behaviour is added.
func VerifC17Handler(a ActionType) func(ctx *core.MessageContext, payload []byte) error {
	return getHandler(a)
}
