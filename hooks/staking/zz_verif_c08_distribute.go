//go:build verif
// +build verif

// C08 hook: Staking.distributeRewards (settleValidatorRewards inside).
package staking

import (
	"math/big"

	"github.com/youchainhq/go-youchain/common"
	"github.com/youchainhq/go-youchain/core/state"
	"github.com/youchainhq/go-youchain/core/types"
	"github.com/youchainhq/go-youchain/local"
	"github.com/youchainhq/go-youchain/params"
)

func verifC08Ctx_distribute(st *state.StateDB, cfg *params.YouParams, height uint64, coinbase common.Address, gasRewards *big.Int) *context {
	h := &types.Header{Number: new(big.Int).SetUint64(height), CurrVersion: cfg.Version, Coinbase: coinbase,
		GasRewards: new(big.Int).Set(gasRewards), Subsidy: new(big.Int)}
	return &context{config: cfg, db: st, header: h, receipt: &types.Receipt{}, recorder: local.FakeRecorder()}
}

func init() {
	VerifC08["distribute"] = func(st *state.StateDB, cfg *params.YouParams, height uint64) error {
		_, err := (&Staking{}).distributeRewards(verifC08Ctx_distribute(st, cfg, height, common.Address{}, new(big.Int)))
		return err
	}
}
