//go:build verif
// +build verif

// Add-only hook for property C07 (token conservation).  No behaviour: it
// exports the evidence list of a Staking value, lets the harness attach a
// chain, and builds a double-sign evidence whose signer address is already
// cached (the cache the real code fills after verifying the BLS signatures),
// so that processDoubleSignV5 / doPenalize / takePenalty run unmodified.
package staking

import (
	"github.com/youchainhq/go-youchain/common"
	"github.com/youchainhq/go-youchain/core"
	"github.com/youchainhq/go-youchain/rlp"
)

// VerifSetChainC07 sets the unexported chain field (normally done by Start).
func VerifSetChainC07(s *Staking, bc *core.BlockChain) { s.blockChain = bc }

// VerifSetEvidencesC07 replaces the pending evidence list.
func VerifSetEvidencesC07(s *Staking, evs []Evidence) {
	s.mutex.Lock()
	s.evidences = evs
	s.mutex.Unlock()
}

// VerifEvidenceRoundsC07 returns (round, cached signer, whether the signatures
// are for different hashes) of the pending evidences.
func VerifEvidenceRoundsC07(s *Staking) (rounds []uint64, signers []common.Address, differ []bool) {
	s.mutex.RLock()
	defer s.mutex.RUnlock()
	for i := range s.evidences {
		var d EvidenceDoubleSignV5
		if err := rlpDecodeC07(s.evidences[i].Data, &d); err != nil {
			continue
		}
		a, _ := s.evidences[i].addr.Load().(common.Address)
		rounds = append(rounds, d.Round)
		signers = append(signers, a)
		df := false
		for _, si := range d.Signs {
			if si.Hash != d.Signs[0].Hash {
				df = true
			}
		}
		differ = append(differ, df)
	}
	return
}

// VerifDoubleSignC07 is a double-sign evidence for `round` whose signer has
// already been resolved to `signer`; with differ=false both signatures are for
// the same hash (one vote listed twice: not an offence).
func VerifDoubleSignC07(round uint64, signer common.Address, differ bool) Evidence {
	second := common.Hash{1}
	if differ {
		second = common.Hash{2}
	}
	ev := NewEvidence(EvidenceDoubleSignV5{Round: round, RoundIndex: 1, SignerIdx: 0, VoteType: Prevote,
		Signs: []*SignInfo{{Hash: common.Hash{1}, Sign: []byte{1}}, {Hash: second, Sign: []byte{2}}}})
	ev.addr.Store(signer)
	return ev
}

func rlpDecodeC07(b []byte, v interface{}) error { return rlp.DecodeBytes(b, v) }
