//go:build verif
// +build verif

// C08 hook: doPenalize (takePenalty inside) on the stored record of a validator; false = no such validator.
package staking

import (
	"math/big"

	"github.com/youchainhq/go-youchain/common"
	"github.com/youchainhq/go-youchain/core/state"
	"github.com/youchainhq/go-youchain/core/types"
	"github.com/youchainhq/go-youchain/params"
)

func init() {
	VerifC08["penalize"] = func(st *state.StateDB, cfg *params.YouParams, typ string, validator common.Address, amount *big.Int, height uint64) bool {
		val := st.GetValidatorByMainAddr(validator)
		if val == nil {
			return false
		}
		h := &types.Header{Number: new(big.Int).SetUint64(height), CurrVersion: cfg.Version, GasRewards: new(big.Int), Subsidy: new(big.Int)}
		doPenalize(cfg, typ, st, h, val, new(big.Int).Set(amount), height)
		return true
	}
}
