//go:build verif
// +build verif

// Add-only hook for property C06.  No behaviour: attaches a chain to a
// Staking value (normally done by Start, which also spawns event loops) and
// gives synchronous access to the pending evidence list that the event loop
// normally fills.
package staking

import "github.com/youchainhq/go-youchain/core"

// VerifSetChainC06 sets the unexported chain field.
func VerifSetChainC06(s *Staking, bc *core.BlockChain) { s.blockChain = bc }

// VerifAddEvidenceC06 appends one evidence to the pending list (what the
// event loop does on an Evidence event).
func VerifAddEvidenceC06(s *Staking, ev Evidence) {
	s.mutex.Lock()
	s.evidences = append(s.evidences, ev)
	s.mutex.Unlock()
}

// VerifPendingEvidencesC06 returns a copy of the pending evidence list.
func VerifPendingEvidencesC06(s *Staking) []Evidence {
	s.mutex.RLock()
	defer s.mutex.RUnlock()
	out := make([]Evidence, len(s.evidences))
	copy(out, s.evidences)
	return out
}
