//go:build verif
// +build verif

// Add-only hook for property C05 (double-sign evidence).  No behaviour: it
// exports the unexported evidence pipeline (slashing / replaySlashing /
// processEvidences) and the penalty functions (doPenalize / takePenalty) so
// that the harness can run them unmodified on states it builds.
package staking

import (
	"math/big"

	"github.com/youchainhq/go-youchain/common"
	"github.com/youchainhq/go-youchain/core"
	"github.com/youchainhq/go-youchain/core/state"
	"github.com/youchainhq/go-youchain/core/types"
	"github.com/youchainhq/go-youchain/params"
)

// VerifSetChainC05 sets the unexported chain field (normally done by Start).
func VerifSetChainC05(s *Staking, bc *core.BlockChain) { s.blockChain = bc }

// VerifSetEvidencesC05 replaces the pending evidence list of the builder.
func VerifSetEvidencesC05(s *Staking, evs []Evidence) {
	s.mutex.Lock()
	s.evidences = evs
	s.mutex.Unlock()
}

// VerifEvidencesC05 returns a copy of the pending evidence list.
func VerifEvidencesC05(s *Staking) []Evidence {
	s.mutex.RLock()
	defer s.mutex.RUnlock()
	out := make([]Evidence, len(s.evidences))
	copy(out, s.evidences)
	return out
}

func verifCtxC05(bc *core.BlockChain, config *params.YouParams, db *state.StateDB, header *types.Header, receipt *types.Receipt) *context {
	return &context{chain: bc, config: config, db: db, header: header, receipt: receipt}
}

// VerifSlashingC05 runs the block builder's path (Staking.slashing).
func VerifSlashingC05(s *Staking, config *params.YouParams, db *state.StateDB, header *types.Header, receipt *types.Receipt) (confirmed, pending []Evidence, affected []*common.Address, err error) {
	return s.slashing(verifCtxC05(s.blockChain, config, db, header, receipt))
}

// VerifReplaySlashingC05 runs the block validator's path (Staking.replaySlashing).
func VerifReplaySlashingC05(s *Staking, config *params.YouParams, db *state.StateDB, header *types.Header, receipt *types.Receipt) (confirmed, pending []Evidence, affected []*common.Address, err error) {
	return s.replaySlashing(verifCtxC05(s.blockChain, config, db, header, receipt))
}

// VerifProcessEvidencesC05 runs processEvidences directly.
func VerifProcessEvidencesC05(s *Staking, config *params.YouParams, db *state.StateDB, header *types.Header, parentHeight *big.Int, receipt *types.Receipt, evs []Evidence) (confirmed, pending []Evidence, affected []*common.Address) {
	return s.processEvidences(config, db, header, parentHeight, receipt, evs)
}

// VerifDoPenalizeC05 runs doPenalize.
func VerifDoPenalizeC05(config *params.YouParams, typ string, db *state.StateDB, header *types.Header, val *state.Validator, amount *big.Int, round uint64) (*big.Int, []*SlashWithdrawRecord, []*PenaltyRecord) {
	return doPenalize(config, typ, db, header, val, amount, round)
}

// VerifTakePenaltyC05 runs takePenalty.
func VerifTakePenaltyC05(db *state.StateDB, val *state.Validator, amount *big.Int) (*state.Validator, *big.Int, []*SlashWithdrawRecord, []*PenaltyRecord) {
	return takePenalty(db, val, amount)
}
