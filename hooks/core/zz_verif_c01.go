//go:build verif
// +build verif

// Add-only verification hook (property C01): exports the unexported constant
// protocolRoundBack so that the model's look-back arithmetic is tied to it.
// No behaviour.
package core

// VerifC01ProtocolRoundBack is protocolRoundBack (protocol_version_processor.go).
func VerifC01ProtocolRoundBack() uint64 { return protocolRoundBack }
