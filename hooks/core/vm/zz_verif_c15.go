//go:build verif
// +build verif

// Add-only verification hook for property C15 (never copied into the repository;
// overlaid at build time by /verif/lib/vf.py).  It only exports unexported
// data: the fields of the jump table and the shared integer pool.
package vm

import (
	"math/big"
	"reflect"
	"runtime"
	"strings"
)

// VerifC15Op is the exported view of one jump table entry.
type VerifC15Op struct {
	Valid       bool
	ConstantGas uint64
	MinStack    int
	MaxStack    int
	Halts       bool
	Jumps       bool
	Writes      bool
	Reverts     bool
	Returns     bool
	HasDynamic  bool
	HasMemory   bool
	Execute     string // name of the execute function ("opAdd", "makePush", ...)
	Dynamic     string
	Memory      string
	Name        string // OpCode.String()
}

func verifC15FuncName(f interface{}) string {
	v := reflect.ValueOf(f)
	if !v.IsValid() || v.IsNil() {
		return ""
	}
	fn := runtime.FuncForPC(v.Pointer())
	if fn == nil {
		return "?"
	}
	n := fn.Name()
	if i := strings.LastIndex(n, "/"); i >= 0 {
		n = n[i+1:]
	}
	n = strings.TrimPrefix(n, "vm.")
	// closures: keep only the name of the function that made them (the rest of
	// the symbol depends on inlining decisions of the compiler)
	for _, seg := range strings.Split(n, ".") {
		if strings.HasPrefix(seg, "make") || seg == "memoryCopierGas" {
			return seg
		}
	}
	return n
}

// VerifC15JumpTable dumps the jump table selected for an EVM version.
func VerifC15JumpTable(evmVersion string) []VerifC15Op {
	jt := GetJumpTable(evmVersion)
	out := make([]VerifC15Op, 256)
	for i := 0; i < 256; i++ {
		o := jt[i]
		out[i] = VerifC15Op{
			Valid: o.valid, ConstantGas: o.constantGas, MinStack: o.minStack, MaxStack: o.maxStack,
			Halts: o.halts, Jumps: o.jumps, Writes: o.writes, Reverts: o.reverts, Returns: o.returns,
			HasDynamic: o.dynamicGas != nil, HasMemory: o.memorySize != nil,
			Name: OpCode(i).String(),
		}
		if o.valid {
			out[i].Execute = verifC15FuncName(o.execute)
			out[i].Dynamic = verifC15FuncName(o.dynamicGas)
			out[i].Memory = verifC15FuncName(o.memorySize)
		}
	}
	return out
}

// VerifC15SetPool replaces the process-wide pool of integer pools by a single
// pool holding exactly the given cells (index 0 = bottom; get() pops the last).
func VerifC15SetPool(cells []*big.Int) {
	poolOfIntPools.lock.Lock()
	defer poolOfIntPools.lock.Unlock()
	ip := newIntPool()
	ip.pool.data = append(ip.pool.data, cells...)
	poolOfIntPools.pools = append(poolOfIntPools.pools[:0], ip)
}

// VerifC15GetPool returns the cells of the integer pool that the last finished
// Run gave back (bottom first), or nil if there is none.
func VerifC15GetPool() []*big.Int {
	poolOfIntPools.lock.Lock()
	defer poolOfIntPools.lock.Unlock()
	if len(poolOfIntPools.pools) == 0 {
		return nil
	}
	ip := poolOfIntPools.pools[len(poolOfIntPools.pools)-1]
	return append([]*big.Int(nil), ip.pool.data...)
}

// VerifC15PoolLimit is the constant poolLimit.
const VerifC15PoolLimit = poolLimit

// VerifC15VerifyPool is the build-time constant verifyPool.
const VerifC15VerifyPool = verifyPool

// VerifC15MemoryGasCost calls memoryGasCost on a memory of the given (small)
// length and last gas cost; memoryGasCost itself allocates nothing.
func VerifC15MemoryGasCost(memLen, last, newSize uint64) (uint64, uint64, error) {
	m := &Memory{store: make([]byte, memLen), lastGasCost: last}
	fee, err := memoryGasCost(m, newSize)
	return fee, m.lastGasCost, err
}
