//go:build verif
// +build verif

// Add-only read access for the C16 verification harness (overlaid at build
// time, never part of the repository).  Only reads unexported data.

package vm

// VerifC16Op is the exported view of one jump table row.
type VerifC16Op struct {
	Name        string
	Valid       bool
	ConstantGas uint64
	MinStack    int
	MaxStack    int
	Halts       bool
	Jumps       bool
	Writes      bool
	Reverts     bool
	Returns     bool
	HasDynamic  bool
	HasMemory   bool
}

// VerifC16JumpTable dumps the jump table selected for an EVM version.
func VerifC16JumpTable(evmVersion string) []VerifC16Op {
	jt := GetJumpTable(evmVersion)
	out := make([]VerifC16Op, 256)
	for i := 0; i < 256; i++ {
		o := jt[i]
		out[i] = VerifC16Op{Name: OpCode(i).String(), Valid: o.valid, ConstantGas: o.constantGas,
			MinStack: o.minStack, MaxStack: o.maxStack, Halts: o.halts, Jumps: o.jumps, Writes: o.writes,
			Reverts: o.reverts, Returns: o.returns, HasDynamic: o.dynamicGas != nil, HasMemory: o.memorySize != nil}
	}
	return out
}

// VerifC16CallGasTemp is the gas the last gasCall* computed for the callee.
func (evm *EVM) VerifC16CallGasTemp() uint64 { return evm.callGasTemp }

// VerifC16Depth is the current call depth.
func (evm *EVM) VerifC16Depth() int { return evm.depth }

// VerifC16ReadOnly tells whether the active interpreter is in static mode.
func (evm *EVM) VerifC16ReadOnly() bool {
	if in, ok := evm.interpreter.(*EVMInterpreter); ok {
		return in.readOnly
	}
	return false
}
