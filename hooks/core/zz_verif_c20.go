//go:build verif
// +build verif

// Add-only hook for property C20 (transaction pool).  It exports unexported
// pool internals to the harness and lets the harness run single critical
// sections of pool.mu (the functions called are the real ones).  The only
// piece of behaviour that lives here is VerifEvict, a copy of the body of the
// "case <-evict.C" branch of TxPool.loop with the clock test replaced by a
// caller-supplied predicate; `c20 locks` fingerprints that branch in the
// working tree so that an edit there is reported as a broken tie.
package core

import (
	"math/big"
	"sort"
	"time"

	"github.com/youchainhq/go-youchain/common"
	"github.com/youchainhq/go-youchain/core/types"
)

// VerifTestProcessor is tx_pool_test.go's testProcessor.
func VerifTestProcessor() Processor {
	return &StateProcessor{txConverters: make(map[common.Address]TxConverter), defaultConverter: &DefaultConverter{}}
}

// VerifSetEvictionInterval changes the package-level ticker period (must be
// called before NewTxPool).
func VerifSetEvictionInterval(d time.Duration) { evictionInterval = d }

// VerifListView is one txList as stored (no Flatten, no cache side effects).
type VerifListView struct {
	Hashes   []common.Hash // by ascending nonce, from the items map
	Nonces   []uint64
	Strict   bool
	HasCache bool
	Cache    []common.Hash
	CostCap  *big.Int
	GasCap   uint64
	IndexLen int
	Index    []uint64 // the nonce heap as the array container/heap maintains
}

type VerifAccount struct {
	Addr       common.Address
	Pending    *VerifListView
	Queue      *VerifListView
	PoolNonce  uint64 // pendingNonces effective value (no caching side effect on the map)
	HasBeat    bool
	Beat       time.Time
	Local      bool
	StateNonce uint64
	Balance    *big.Int
}

type VerifSnapshot struct {
	Accounts    []VerifAccount
	All         []common.Hash
	PricedLen   int
	PricedLive  int // heap entries whose hash is in all
	PricedDup   bool
	Stales      int
	MaxGas      uint64
	GasPrice    *big.Int
	PendingKeys int
	QueueKeys   int
}

func verifList(l *txList) *VerifListView {
	if l == nil {
		return nil
	}
	v := &VerifListView{Strict: l.strict, CostCap: new(big.Int).Set(l.costcap), GasCap: l.gascap, IndexLen: l.txs.index.Len(), Index: append([]uint64{}, (*l.txs.index)...)}
	for n := range l.txs.items {
		v.Nonces = append(v.Nonces, n)
	}
	sort.Slice(v.Nonces, func(i, j int) bool { return v.Nonces[i] < v.Nonces[j] })
	for _, n := range v.Nonces {
		v.Hashes = append(v.Hashes, l.txs.items[n].Hash())
	}
	if l.txs.cache != nil {
		v.HasCache = true
		for _, tx := range l.txs.cache {
			v.Cache = append(v.Cache, tx.Hash())
		}
	}
	return v
}

// VerifSnapshot reads the pool's views under the pool lock.
func (pool *TxPool) VerifSnapshot(addrs []common.Address) *VerifSnapshot {
	pool.mu.Lock()
	defer pool.mu.Unlock()
	s := &VerifSnapshot{MaxGas: pool.currentMaxGas, GasPrice: new(big.Int).Set(pool.gasPrice),
		PendingKeys: len(pool.pending), QueueKeys: len(pool.queue)}
	for _, a := range addrs {
		va := VerifAccount{Addr: a, Pending: verifList(pool.pending[a]), Queue: verifList(pool.queue[a])}
		pool.pendingNonces.lock.Lock()
		if n, ok := pool.pendingNonces.nonces[a]; ok {
			va.PoolNonce = n
		} else {
			va.PoolNonce = pool.pendingNonces.fallback.GetNonce(a)
		}
		pool.pendingNonces.lock.Unlock()
		va.Beat, va.HasBeat = pool.beats[a]
		va.Local = pool.locals.contains(a)
		va.StateNonce = pool.currentState.GetNonce(a)
		va.Balance = new(big.Int).Set(pool.currentState.GetBalance(a))
		s.Accounts = append(s.Accounts, va)
	}
	pool.all.Range(func(h common.Hash, tx *types.Transaction) bool {
		s.All = append(s.All, h)
		return true
	})
	sort.Slice(s.All, func(i, j int) bool { return string(s.All[i][:]) < string(s.All[j][:]) })
	s.PricedLen = len(*pool.priced.items)
	s.Stales = pool.priced.stales
	seen := map[common.Hash]bool{}
	for _, tx := range *pool.priced.items {
		h := tx.Hash()
		if pool.all.Get(h) != nil {
			s.PricedLive++
			if seen[h] {
				s.PricedDup = true
			}
			seen[h] = true
		}
	}
	return s
}

// VerifAddLocked is the first critical section of addTxs.
func (pool *TxPool) VerifAddLocked(txs []*types.Transaction, local bool) ([]error, []common.Address) {
	for _, tx := range txs {
		types.Sender(pool.signer, tx)
	}
	pool.mu.Lock()
	errs, dirty := pool.addTxsLocked(txs, local)
	pool.mu.Unlock()
	var out []common.Address
	for a := range dirty.accounts {
		out = append(out, a)
	}
	return errs, out
}

// VerifReorg runs one runReorg (the second critical section) synchronously
// with an arbitrary (possibly merged) request.
func (pool *TxPool) VerifReorg(reset bool, oldHead, newHead *types.Header, dirty []common.Address, haveDirty bool) {
	var req *txpoolResetRequest
	if reset {
		req = &txpoolResetRequest{oldHead, newHead}
	}
	var set *accountSet
	if haveDirty {
		set = newAccountSet(pool.signer, dirty...)
	}
	done := make(chan struct{})
	pool.runReorg(done, req, set, make(map[common.Address]*txSortedMap))
	<-done
}

// VerifRequestReset goes through scheduleReorgLoop like TxPool.loop does.
func (pool *TxPool) VerifRequestReset(oldHead, newHead *types.Header) {
	<-pool.requestReset(oldHead, newHead)
}

// VerifReq is one event handed to the scheduler during VerifCoalesced.
//   Reset:        a head change (what loop() does on a ChainHeadEvent)
//   Txs != nil:   a remote submission (what addTxs does: addTxsLocked under the
//                 lock, then a promotion request for the dirty accounts)
//   otherwise:    a promotion request for Dirty
type VerifReq struct {
	Reset    bool
	Old, New *types.Header
	Dirty    []common.Address
	Txs      []*types.Transaction
}

// VerifCoalesced delivers a burst of events to scheduleReorgLoop while a run is
// in flight, without awaiting any of them: the pool lock is held by the caller's
// goroutine, an (empty) promotion request makes the scheduler launch a run that
// blocks on that lock (a no-op run when it gets the lock: nothing to promote), and every further request is therefore merged by the
// scheduler into the one next run.  Returns after all requested runs are done,
// with the per-submission errors and dirty accounts.
func (pool *TxPool) VerifCoalesced(reqs []VerifReq, atReset func(i int)) ([][]error, [][]common.Address) {
	for _, r := range reqs {
		for _, tx := range r.Txs {
			types.Sender(pool.signer, tx)
		}
	}
	errs := make([][]error, len(reqs))
	dirties := make([][]common.Address, len(reqs))
	var dones []chan struct{}

	pool.mu.Lock()
	// The run for d0 is launched as soon as the scheduler has taken note that the
	// previous run ended; from then on requests get the done channel of the NEXT
	// run.  Empty promotion requests are repeated until that is the case (they
	// merge into nothing), so that exactly the events below form the next run.
	d0 := pool.requestPromoteExecutables(newAccountSet(pool.signer))
	dones = append(dones, d0)
	for n := 0; ; n++ {
		d := pool.requestPromoteExecutables(newAccountSet(pool.signer))
		if d != d0 {
			dones = append(dones, d)
			break
		}
		if n > 1000000 {
			panic("VerifCoalesced: the scheduler never launched the blocked run")
		}
	}
	for i, r := range reqs {
		switch {
		case r.Reset:
			if atReset != nil {
				atReset(i) // the chain is on the new head when its event is delivered
			}
			dones = append(dones, pool.requestReset(r.Old, r.New))
		case r.Txs != nil:
			es, dirty := pool.addTxsLocked(r.Txs, false)
			errs[i] = es
			for a := range dirty.accounts {
				dirties[i] = append(dirties[i], a)
			}
			dones = append(dones, pool.requestPromoteExecutables(dirty))
		default:
			dones = append(dones, pool.requestPromoteExecutables(newAccountSet(pool.signer, r.Dirty...)))
		}
	}
	pool.mu.Unlock()
	for _, d := range dones {
		<-d
	}
	return errs, dirties
}

// VerifRemoveTx is removeTx under the pool lock.
func (pool *TxPool) VerifRemoveTx(hash common.Hash, outofbound bool) {
	pool.mu.Lock()
	defer pool.mu.Unlock()
	pool.removeTx(hash, outofbound)
}

// VerifEvict: body of the eviction branch of TxPool.loop, clock test replaced.
func (pool *TxPool) VerifEvict(expired func(common.Address) bool) {
	pool.mu.Lock()
	for addr := range pool.queue {
		// Skip local transactions from the eviction mechanism
		if pool.locals.contains(addr) {
			continue
		}
		// Any non-locals old enough should be removed
		if expired(addr) {
			for _, tx := range pool.queue[addr].Flatten() {
				pool.removeTx(tx.Hash(), true)
			}
		}
	}
	pool.mu.Unlock()
}

// VerifLifetimeExpired is the clock test of the eviction branch.
func (pool *TxPool) VerifLifetimeExpired(addr common.Address) bool {
	return time.Since(pool.beats[addr]) > pool.config.Lifetime
}

func (pool *TxPool) VerifTransactionsNumber() (int, int) { return pool.TransactionsNumber() }
