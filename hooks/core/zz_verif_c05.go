//go:build verif
// +build verif

// Add-only hook for property C05 (double-sign evidence).  No behaviour: it
// only builds a BlockChain value backed by a caller-supplied key-value store
// and state database, so that the real LookBackVldReaderForRound /
// VersionForRound / GetHeaderByNumber / GetVldReader / CurrentHeader run on
// headers and validator tries the harness wrote with core/rawdb and
// state.StateDB.Commit - without a consensus engine or genesis set-up.
package core

import (
	lru "github.com/hashicorp/golang-lru"
	"github.com/youchainhq/go-youchain/core/state"
	"github.com/youchainhq/go-youchain/core/types"
	"github.com/youchainhq/go-youchain/youdb"
)

// VerifStubChainC05 returns a BlockChain that reads headers from db and
// validator tries from sdb, with `head` as current header.
func VerifStubChainC05(db youdb.Database, sdb state.Database, head *types.Header) *BlockChain {
	hcache, _ := lru.New(64)
	ncache, _ := lru.New(64)
	hc := &HeaderChain{chainDb: db, headerCache: hcache, numberCache: ncache}
	hc.currentHeader.Store(head)
	bc := &BlockChain{hc: hc, db: db, stateCache: sdb}
	hc.parent = bc
	return bc
}

// VerifSetHeadC05 moves the current header of a stub chain.
func VerifSetHeadC05(bc *BlockChain, head *types.Header) { bc.hc.currentHeader.Store(head) }
