//go:build verif
// +build verif

// Add-only hook for property C07 (token conservation).  No behaviour: it only
// builds a BlockChain value whose CurrentHeader() answers with a header chosen
// by the harness, so that a Staking value has a non-nil chain without a consensus
// engine and a database-backed chain.  (Until ec9154c the sealing path of
// staking.EndBlock asked it for the parent height; now the height comes from the
// block's own header and the harness leaves this head at genesis.)
package core

import "github.com/youchainhq/go-youchain/core/types"

// VerifStubChainC07 returns a BlockChain that only knows its current header.
func VerifStubChainC07(head *types.Header) *BlockChain {
	hc := &HeaderChain{}
	hc.currentHeader.Store(head)
	return &BlockChain{hc: hc}
}

// VerifSetHeadC07 moves the current header of a stub chain.
func VerifSetHeadC07(bc *BlockChain, head *types.Header) { bc.hc.currentHeader.Store(head) }
