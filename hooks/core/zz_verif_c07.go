//go:build verif
// +build verif

// Add-only hook for property C07 (token conservation).  No behaviour: it only
// builds a BlockChain value whose CurrentHeader() answers with a header chosen
// by the harness, so that the real staking.EndBlock (sealing path, which asks
// the chain for the parent height before it processes evidences) can run
// without a consensus engine and a database-backed chain.
package core

import "github.com/youchainhq/go-youchain/core/types"

// VerifStubChainC07 returns a BlockChain that only knows its current header.
func VerifStubChainC07(head *types.Header) *BlockChain {
	hc := &HeaderChain{}
	hc.currentHeader.Store(head)
	return &BlockChain{hc: hc}
}

// VerifSetHeadC07 moves the current header of a stub chain.
func VerifSetHeadC07(bc *BlockChain, head *types.Header) { bc.hc.currentHeader.Store(head) }
