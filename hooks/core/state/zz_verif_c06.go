//go:build verif
// +build verif

// Add-only hook for property C06.  No behaviour: read-only comparison of the
// StateDB's staking-record object cache with the staking trie of the same
// StateDB (what a fresh StateDB opened on the same root would read).
package state

import (
	"bytes"
	"fmt"
	"sort"

	"github.com/youchainhq/go-youchain/common/hexutil"
	"github.com/youchainhq/go-youchain/rlp"
)

// VerifStakingCacheIncoherentC06 lists every cached staking record that is not
// marked dirty and differs from the record stored in the staking trie.
func VerifStakingCacheIncoherentC06(st *StateDB) []string {
	var keys []biAddress
	for k := range st.stakingRecords {
		keys = append(keys, k)
	}
	sort.Slice(keys, func(i, j int) bool { return bytes.Compare(keys[i][:], keys[j][:]) < 0 })
	var out []string
	for _, k := range keys {
		if _, dirty := st.stakingRecordsDirty[k]; dirty {
			continue
		}
		obj := st.stakingRecords[k]
		if obj == nil {
			continue
		}
		enc, _ := st.stakingTrie.TryGet(k[:])
		if len(enc) == 0 {
			out = append(out, fmt.Sprintf("record %s cached (value %v) but absent from the trie", hexutil.Encode(k[:]), obj.record.FinalValue))
			continue
		}
		var data Record
		if err := rlp.DecodeBytes(enc, &data); err != nil {
			out = append(out, fmt.Sprintf("record %s: trie entry does not decode", hexutil.Encode(k[:])))
			continue
		}
		same := data.FinalValue != nil && obj.record.FinalValue != nil && data.FinalValue.Cmp(obj.record.FinalValue) == 0 &&
			len(data.TxHashes) == len(obj.record.TxHashes)
		if same {
			for i := range data.TxHashes {
				if data.TxHashes[i] != obj.record.TxHashes[i] {
					same = false
				}
			}
		}
		if !same {
			out = append(out, fmt.Sprintf("record %s: cache holds value %v (%d txs), trie holds %v (%d txs)", hexutil.Encode(k[:]),
				obj.record.FinalValue, len(obj.record.TxHashes), data.FinalValue, len(data.TxHashes)))
		}
	}
	return out
}
