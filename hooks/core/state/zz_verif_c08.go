//go:build verif
// +build verif

// Read-only views of unexported validator / delegation bookkeeping for the C08
// harness.  Add-only; no behaviour.
package state

import (
	"math/big"

	"github.com/youchainhq/go-youchain/common"
	"github.com/youchainhq/go-youchain/rlp"
)

// VerifC08Val is the raw content of a cached validator object.
type VerifC08Val struct {
	Present bool
	Deleted bool
	Val     *Validator
	Cap     int
}

// VerifC08Raw returns the entry of validatorObjects for addr without loading.
func (st *StateDB) VerifC08Raw(addr common.Address) VerifC08Val {
	obj, ok := st.validatorObjects.Load(addr)
	if !ok || obj == nil {
		return VerifC08Val{}
	}
	v := obj.(*Validator)
	return VerifC08Val{Present: true, Deleted: v.deleted, Val: v, Cap: cap(v.Delegations)}
}

// VerifC08Trie decodes the valinfo- entry of addr from the validator trie
// without caching it.  ok=false if absent; bad=true if present but undecodable.
func (st *StateDB) VerifC08Trie(addr common.Address) (v *Validator, ok bool, bad bool) {
	enc, err := st.readStakingData(addr, validatorFlag)
	if err != nil || len(enc) == 0 {
		return nil, false, false
	}
	var data Validator
	if err := rlp.DecodeBytes(enc, &data); err != nil {
		return nil, true, true
	}
	return &data, true, false
}

// VerifC08Index returns the in-memory index (sorted) without reloading it.
func (st *StateDB) VerifC08Index() []common.Address {
	if st.validatorIndex == nil {
		return nil
	}
	return st.validatorIndex.List()
}

// VerifC08TrieIndex returns the persisted index; present=false if never written.
func (st *StateDB) VerifC08TrieIndex() (list []common.Address, present bool) {
	data, err := st.readStakingData(common.Address{}, validatorIndexFlag)
	if err != nil || len(data) == 0 {
		return nil, false
	}
	index := NewValidatorIndex()
	if err := rlp.DecodeBytes(data, index); err != nil {
		return nil, false
	}
	return index.List(), true
}

// VerifC08TrieStat returns the persisted statistics (zero if never written).
func (st *StateDB) VerifC08TrieStat() *ValidatorsStat {
	s, err := st.loadValidatorsStat()
	if err != nil || s == nil {
		return NewValidatorsStat()
	}
	return s
}

// VerifC08Acct is the delegation part of an account object.
type VerifC08Acct struct {
	Present     bool
	Balance     *big.Int
	Loaded      bool
	Dirty       bool
	List        []common.Address // cache if loaded, else the blob if it exists
	HashEmpty   bool
	BlobPresent bool
}

func (st *StateDB) VerifC08Account(addr common.Address) VerifC08Acct {
	so := st.getStateObject(addr)
	if so == nil {
		return VerifC08Acct{}
	}
	r := VerifC08Acct{Present: true, Balance: new(big.Int).Set(so.data.DelegationBalance), Loaded: so.delegations != nil, Dirty: so.dirtyDlgs}
	r.HashEmpty = len(so.DelegationsHash()) == 0
	var blob []common.Address
	if !r.HashEmpty {
		bs, err := st.db.TrieDB().Node(common.BytesToHash(so.DelegationsHash()))
		if err == nil {
			dl := new(common.SortedAddresses)
			if rlp.DecodeBytes(bs, dl) == nil {
				r.BlobPresent = true
				blob = append([]common.Address{}, (*dl)...)
			}
		}
	}
	if r.Loaded {
		r.List = append([]common.Address{}, so.delegations...)
	} else {
		r.List = blob
	}
	return r
}

// VerifC08Counters: journal lengths, number of valid revisions, next id, dirty set.
func (st *StateDB) VerifC08Counters() (aj, vj, revs, next int, dirty []common.Address) {
	var l addressList
	for a := range st.validatorObjectsDirty {
		l = append(l, a)
	}
	verifC08SortAddrs(l)
	return len(st.journal.entries), len(st.validatorJournal.entries), len(st.validRevisions), st.nextRevisionId, l
}

func verifC08SortAddrs(l addressList) {
	for i := 1; i < len(l); i++ {
		for j := i; j > 0 && l.Less(j, j-1); j-- {
			l.Swap(j, j-1)
		}
	}
}

// VerifC08AcctDirty returns stateObjectsDirty, sorted.
func (st *StateDB) VerifC08AcctDirty() []common.Address {
	var l addressList
	for a := range st.stateObjectsDirty {
		l = append(l, a)
	}
	verifC08SortAddrs(l)
	return l
}

// VerifC08JournalDirties returns the addresses dirtied by the validator journal.
func (st *StateDB) VerifC08JournalDirties() map[common.Address]bool {
	m := map[common.Address]bool{}
	for a := range st.validatorJournal.dirties {
		m[a] = true
	}
	return m
}

// VerifC08RevisionIds returns the ids of the valid revisions, oldest first.
func (st *StateDB) VerifC08RevisionIds() []int {
	out := make([]int, 0, len(st.validRevisions))
	for _, r := range st.validRevisions {
		out = append(out, r.id)
	}
	return out
}
