//go:build verif
// +build verif

// Add-only read access for the C16 verification harness (overlaid at build
// time, never part of the repository).  Only reads unexported fields.

package state

import (
	"github.com/youchainhq/go-youchain/common"
)

// VerifC16Live returns the addresses of all live (loaded or created, not
// deleted) state objects together with every storage key the object has seen
// (dirty, pending or cached origin).
func (st *StateDB) VerifC16Live() map[common.Address][]common.Hash {
	out := make(map[common.Address][]common.Hash, len(st.stateObjects))
	for a, o := range st.stateObjects {
		if o == nil || o.deleted {
			continue
		}
		seen := map[common.Hash]bool{}
		var ks []common.Hash
		for _, m := range []Storage{o.dirtyStorage, o.pendingStorage, o.originStorage} {
			for k := range m {
				if !seen[k] {
					seen[k] = true
					ks = append(ks, k)
				}
			}
		}
		out[a] = ks
	}
	return out
}

// VerifC16JournalLen is the current length of the account journal.
func (st *StateDB) VerifC16JournalLen() int { return st.journal.length() }

// VerifC16LogSize is the block-wide log counter AddLog stamps into Log.Index.
func (st *StateDB) VerifC16LogSize() uint { return st.logSize }
