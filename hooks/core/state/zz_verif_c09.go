//go:build verif
// +build verif

// Add-only read access for the C09 verification harness (overlaid at build
// time, never part of the repository).  Nothing here changes behaviour: every
// function only reads unexported fields of StateDB.

package state

import (
	"bytes"
	"fmt"
	"math/big"

	"github.com/youchainhq/go-youchain/common"
	"github.com/youchainhq/go-youchain/crypto"
	"github.com/youchainhq/go-youchain/rlp"
)

// VerifC09Internals is a copy of the bookkeeping behind Snapshot/RevertToSnapshot.
type VerifC09Internals struct {
	JournalLen     int
	ValJournalLen  int
	NextRevisionId int
	Revs           [][2]int // id, journalIndex
	ValRevs        [][2]int
	Dirties        map[common.Address]int
	ValDirties     map[common.Address]int
	Pending        map[common.Address]bool
	ObjDirty       map[common.Address]bool
	ValObjDirty    map[common.Address]bool
	Index          map[common.Address]bool
	LogSize        uint
	StatModified   bool
}

func (st *StateDB) VerifC09Internals() VerifC09Internals {
	r := VerifC09Internals{
		JournalLen:     st.journal.length(),
		ValJournalLen:  st.validatorJournal.length(),
		NextRevisionId: st.nextRevisionId,
		Dirties:        map[common.Address]int{},
		ValDirties:     map[common.Address]int{},
		Pending:        map[common.Address]bool{},
		ObjDirty:       map[common.Address]bool{},
		ValObjDirty:    map[common.Address]bool{},
		Index:          map[common.Address]bool{},
		LogSize:        st.logSize,
		StatModified:   st.validatorsStatModified,
	}
	for _, v := range st.validRevisions {
		r.Revs = append(r.Revs, [2]int{v.id, v.journalIndex})
	}
	for _, v := range st.valValidRevisions {
		r.ValRevs = append(r.ValRevs, [2]int{v.id, v.journalIndex})
	}
	for a, n := range st.journal.dirties {
		r.Dirties[a] = n
	}
	for a, n := range st.validatorJournal.dirties {
		r.ValDirties[a] = n
	}
	for a := range st.stateObjectsPending {
		r.Pending[a] = true
	}
	for a := range st.stateObjectsDirty {
		r.ObjDirty[a] = true
	}
	for a := range st.validatorObjectsDirty {
		r.ValObjDirty[a] = true
	}
	if st.validatorIndex != nil {
		for _, a := range st.validatorIndex.List() {
			r.Index[a] = true
		}
	}
	return r
}

// VerifC09Delegations returns the delegation balance and the delegation list
// of a live, not deleted account (ok=false otherwise).
func (st *StateDB) VerifC09Delegations(addr common.Address) (*big.Int, []common.Address, bool) {
	obj := st.getStateObject(addr)
	if obj == nil {
		return new(big.Int), nil, false
	}
	dl := obj.Delegations()
	out := make([]common.Address, len(dl))
	copy(out, dl)
	return new(big.Int).Set(obj.DelegationBalance()), out, true
}

// VerifC09PeekValidator reads a validator the way getValidator does but without
// inserting a trie-loaded object into the live map.  live/deletedFlag describe
// the raw entry of validatorObjects.
func (st *StateDB) VerifC09PeekValidator(addr common.Address) (val *Validator, live bool, deletedFlag bool) {
	if obj, ok := st.validatorObjects.Load(addr); ok && obj != nil {
		v := obj.(*Validator)
		if v.deleted {
			return nil, true, true
		}
		return v, true, false
	}
	enc, err := st.readStakingData(addr, validatorFlag)
	if err != nil || len(enc) == 0 {
		return nil, false, false
	}
	var data Validator
	if err := rlp.DecodeBytes(enc, &data); err != nil {
		return nil, false, false
	}
	return &data, false, false
}

// VerifC09PeekLive reports whether the live map holds an entry (deleted or not) for addr.
func (st *StateDB) VerifC09PeekLive(addr common.Address) bool {
	obj, ok := st.validatorObjects.Load(addr)
	return ok && obj != nil
}

// VerifC09StorageCached reports whether every slot of the live object at addr that has a dirty or
// pending value also has its committed value cached in originStorage (the model merges
// originStorage with the storage trie, which is only sound under this invariant of SetState).
func (st *StateDB) VerifC09StorageCached(addr common.Address) bool {
	obj := st.stateObjects[addr]
	if obj == nil {
		return true
	}
	for k := range obj.dirtyStorage {
		if _, ok := obj.originStorage[k]; !ok {
			return false
		}
	}
	for k := range obj.pendingStorage {
		if _, ok := obj.originStorage[k]; !ok {
			return false
		}
	}
	return true
}

// VerifC09DelegationsConsistent reports whether the delegation list of the live account at addr hashes
// to its DelegationsHash (an empty list goes with an empty hash).
func (st *StateDB) VerifC09DelegationsConsistent(addr common.Address) (ok bool, detail string) {
	defer func() {
		if r := recover(); r != nil {
			ok, detail = false, fmt.Sprint("reading the list panics: ", r)
		}
	}()
	obj := st.getStateObject(addr)
	if obj == nil {
		return true, ""
	}
	dl := obj.Delegations()
	h := obj.DelegationsHash()
	if dl.Len() == 0 {
		if len(h) == 0 {
			return true, ""
		}
		return false, fmt.Sprintf("empty list, hash %x", h)
	}
	bs, err := rlp.EncodeToBytes(dl)
	if err != nil {
		return false, err.Error()
	}
	want := crypto.Keccak256Hash(bs).Bytes()
	if !bytes.Equal(want, h) {
		return false, fmt.Sprintf("list %x hashes to %x, DelegationsHash is %x", dl, want, h)
	}
	return true, ""
}
