//go:build verif
// +build verif

// Add-only hook for property C07: read-only access to an account's
// delegation index (the list GetCountOfDelegateTo counts) for state dumps.
package state

import "github.com/youchainhq/go-youchain/common"

// VerifDelegationsOfC07 returns the validators the account's index lists.
func VerifDelegationsOfC07(st *StateDB, a common.Address) []common.Address {
	obj := st.getStateObject(a)
	if obj == nil {
		return nil
	}
	out := []common.Address{}
	for _, v := range obj.Delegations() {
		out = append(out, v)
	}
	return out
}
