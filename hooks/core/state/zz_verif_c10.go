//go:build verif
// +build verif

// Read-only access for the C10 verification harness (overlaid at build time,
// never part of the repository).  Nothing here changes behaviour.

package state

import (
	"math/big"
	"sort"

	"github.com/youchainhq/go-youchain/common"
)

// VerifC10Index returns the in-memory validator index as it is (no reload).
func (st *StateDB) VerifC10Index() []common.Address {
	if st.validatorIndex == nil {
		return nil
	}
	return st.validatorIndex.List()
}

// VerifC10Prel returns the pending relationship list (delegator, validator).
func (st *StateDB) VerifC10Prel() [][2]common.Address {
	if st.pendingRelats == nil {
		return nil
	}
	out := make([][2]common.Address, 0, len(st.pendingRelats.r))
	for _, bi := range st.pendingRelats.r {
		d, v := bi.Split()
		out = append(out, [2]common.Address{d, v})
	}
	return out
}

// VerifC10Delegations returns delegation balance and delegation list of a
// live account; ok=false if the account does not exist.  It may panic exactly
// where stateObject.Delegations panics.
func (st *StateDB) VerifC10Delegations(addr common.Address) (*big.Int, []common.Address, bool) {
	obj := st.getStateObject(addr)
	if obj == nil {
		return new(big.Int), nil, false
	}
	bal := new(big.Int).Set(obj.DelegationBalance())
	dl := obj.Delegations()
	out := make([]common.Address, len(dl))
	copy(out, dl)
	return bal, out, true
}

// VerifC10DelegationBalance never panics.
func (st *StateDB) VerifC10DelegationBalance(addr common.Address) *big.Int {
	obj := st.getStateObject(addr)
	if obj == nil {
		return new(big.Int)
	}
	return new(big.Int).Set(obj.DelegationBalance())
}

// VerifC10CopyInfo describes the bookkeeping a Copy starts from.
type VerifC10CopyInfo struct {
	JournalDirty  []common.Address // journal.dirties (accounts)
	ValJournal    []common.Address // validatorJournal.dirties
	DirtyDlgs     []common.Address // live objects with dirtyDlgs
	PendingDirty  []common.Address // in stateObjectsPending and stateObjectsDirty
}

func (st *StateDB) VerifC10CopyInfo() VerifC10CopyInfo {
	var r VerifC10CopyInfo
	for a := range st.journal.dirties {
		r.JournalDirty = append(r.JournalDirty, a)
	}
	for a := range st.validatorJournal.dirties {
		r.ValJournal = append(r.ValJournal, a)
	}
	for a, o := range st.stateObjects {
		if o.dirtyDlgs {
			r.DirtyDlgs = append(r.DirtyDlgs, a)
		}
	}
	for a := range st.stateObjectsPending {
		if _, ok := st.stateObjectsDirty[a]; ok {
			r.PendingDirty = append(r.PendingDirty, a)
		}
	}
	for _, l := range [][]common.Address{r.JournalDirty, r.ValJournal, r.DirtyDlgs, r.PendingDirty} {
		l := l
		sort.Slice(l, func(i, j int) bool { return l[i].Big().Cmp(l[j].Big()) < 0 })
	}
	return r
}

// VerifC10Roots hashes the three tries as they are (no flush).
func (st *StateDB) VerifC10Roots() [3]common.Hash {
	return [3]common.Hash{st.trie.Hash(), st.valTrie.Hash(), st.stakingTrie.Hash()}
}
