//go:build verif
// +build verif

package state

// C14 hook: the pending-relationship record is an unexported type with custom
// RLP coders; the harness needs a fresh instance to decode into / encode from.
func VerifC14NewPendingRelationship() interface{} { return newPendingRelationship() }
