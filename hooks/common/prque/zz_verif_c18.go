//go:build verif
// +build verif

// Verification hook (C18): read-only view of the queue contents.
package prque

// VerifC18Items returns the values currently stored in the queue (heap order).
func (p *Prque) VerifC18Items() []interface{} {
	out := make([]interface{}, 0, p.cont.size)
	for i := 0; i < p.cont.size; i++ {
		out = append(out, p.cont.blocks[i/blockSize][i%blockSize].value)
	}
	return out
}
