//go:build verif
// +build verif

// Verification hooks (C18): names for the unexported queue types and read
// access to the queue's body-download bookkeeping.  No behaviour is added; the
// only writes are the package tunables blockCacheItems / blockCacheMemory
// (already variables) and the timestamp of a pending request, which stands for
// the passing of time.
package downloader

import (
	"sync/atomic"
	"time"

	"github.com/youchainhq/go-youchain/common"
	"github.com/youchainhq/go-youchain/core/types"
)

type VerifC18Queue = queue
type VerifC18Request = fetchRequest
type VerifC18Result = fetchResult
type VerifC18Peer = peerConnection

var (
	VerifC18ErrNoFetchesPending = errNoFetchesPending
	VerifC18ErrStaleDelivery    = errStaleDelivery
	VerifC18ErrInvalidChain     = errInvalidChain
	VerifC18ErrInvalidBody      = errInvalidBody
	VerifC18MaxResultsProcess   = maxResultsProcess
)

// VerifC18NewQueue sets the cache tunables and returns newQueue().
func VerifC18NewQueue(cacheItems, cacheMemory int) *queue {
	blockCacheItems = cacheItems
	blockCacheMemory = cacheMemory
	return newQueue()
}

func VerifC18NewPeer(id string) *peerConnection { return newPeerConnection(id, nil, nil) }

func (p *peerConnection) VerifC18ID() string { return p.id }
func (p *peerConnection) VerifC18Lacking() []common.Hash {
	p.lock.RLock()
	defer p.lock.RUnlock()
	out := make([]common.Hash, 0, len(p.lacking))
	for h := range p.lacking {
		out = append(out, h)
	}
	return out
}

func (r *fetchRequest) VerifC18PeerID() string { return r.Peer.id }

type VerifC18Slot struct {
	Index   int
	Pending int
	Hash    common.Hash
	Header  *types.Header
	Txs     types.Transactions
}

type VerifC18Dump struct {
	HeaderHead  common.Hash
	TaskPool    []common.Hash
	TaskQueue   []*types.Header
	PendPool    map[string][]*types.Header
	DonePool    []common.Hash
	Cache       []VerifC18Slot
	CacheLen    int
	Offset      uint64
	ResultSize  float64
	CacheMemory int
	Processable int
}

func (q *queue) VerifC18Dump() VerifC18Dump {
	q.lock.Lock()
	defer q.lock.Unlock()
	d := VerifC18Dump{HeaderHead: q.headerHead, PendPool: map[string][]*types.Header{}, CacheLen: len(q.resultCache),
		Offset: q.resultOffset, ResultSize: float64(q.resultSize), CacheMemory: blockCacheMemory,
		Processable: q.countProcessableItems()}
	for h := range q.blockTaskPool {
		d.TaskPool = append(d.TaskPool, h)
	}
	for _, it := range q.blockTaskQueue.VerifC18Items() {
		d.TaskQueue = append(d.TaskQueue, it.(*types.Header))
	}
	for id, req := range q.blockPendPool {
		d.PendPool[id] = append([]*types.Header{}, req.Headers...)
	}
	for h := range q.blockDonePool {
		d.DonePool = append(d.DonePool, h)
	}
	for i, r := range q.resultCache {
		if r != nil {
			d.Cache = append(d.Cache, VerifC18Slot{i, r.Pending, r.Hash, r.Header, r.Transactions})
		}
	}
	return d
}

// VerifC18SetRequestTime moves the start time of the pending body request of a peer.
func (q *queue) VerifC18SetRequestTime(id string, t time.Time) bool {
	q.lock.Lock()
	defer q.lock.Unlock()
	if r, ok := q.blockPendPool[id]; ok {
		r.Time = t
		return true
	}
	return false
}

func (r *fetchResult) VerifC18Header() *types.Header     { return r.Header }
func (r *fetchResult) VerifC18Txs() types.Transactions   { return r.Transactions }
func (r *fetchRequest) VerifC18Headers() []*types.Header { return r.Headers }

// ---- end-to-end campaign: the real fetchBodies / fetchParts loop -------------------

// VerifC18SetTiming shortens the package's timing tunables (already variables)
// so that request expiry happens within a few hundred milliseconds.
func VerifC18SetTiming(rttMin, rttMax, ttlMax time.Duration) {
	rttMinEstimate, rttMaxEstimate, ttlLimit = rttMin, rttMax, ttlMax
}

// VerifC18BeginSync does what synchronise() does before syncWithPeer, on the
// downloader's one queue object: Reset of queue and peers, cancel channel,
// master peer, FullSync, then syncWithPeer's Prepare(origin+1).
func (d *Downloader) VerifC18BeginSync(master string, origin uint64, cacheItems int) {
	blockCacheItems = cacheItems
	d.queue.Reset()
	d.peers.Reset()
	for _, ch := range []chan bool{d.bodyWakeCh, d.receiptWakeCh} {
		select {
		case <-ch:
		default:
		}
	}
	select {
	case <-d.bodyCh:
	default:
	}
	d.cancelLock.Lock()
	d.cancelCh = make(chan struct{})
	d.cancelPeer = master
	d.cancelLock.Unlock()
	d.mode = FullSync
	d.queue.Prepare(origin+1, d.mode)
}

func (d *Downloader) VerifC18Queue() *queue      { return d.queue }
func (d *Downloader) VerifC18FetchBodies() error { return d.fetchBodies() }
func (d *Downloader) VerifC18ProcessFullSyncContent(origin uint64) error {
	return d.processFullSyncContent(origin)
}
func (d *Downloader) VerifC18RequestTTL() time.Duration { return d.requestTTL() }

// VerifC18WakeBodies is what processHeaders does after scheduling a batch
// (cont=true, non blocking) and at the end of the header stream (cont=false).
func (d *Downloader) VerifC18WakeBodies(cont bool) {
	if cont {
		select {
		case d.bodyWakeCh <- true:
		default:
		}
		return
	}
	select {
	case d.bodyWakeCh <- false:
	case <-d.cancelCh:
	}
}

var (
	VerifC18ErrNoPeers          = errNoPeers
	VerifC18ErrPeersUnavailable = errPeersUnavailable
	VerifC18ErrTimeout          = errTimeout
	VerifC18ErrCanceled         = errCanceled
)

// VerifC18BodyBusy tells whether the peer is marked busy for body fetches.
func (d *Downloader) VerifC18BodyBusy(id string) (busy bool, registered bool) {
	p := d.peers.Peer(id)
	if p == nil {
		return false, false
	}
	return atomic.LoadInt32(&p.blockIdle) != 0, true
}
