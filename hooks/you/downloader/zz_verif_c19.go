//go:build verif
// +build verif

// Verification hook (C19): runs trieSync.processNodeData (the caller that
// hashes a delivered blob before handing it to trie.Sync.Process) on a bare
// trieSync holding only the scheduler and the hasher.  No behaviour is added.
package downloader

import (
	"math/big"
	"sort"

	"github.com/youchainhq/go-youchain/common"
	"github.com/youchainhq/go-youchain/core/types"
	"github.com/youchainhq/go-youchain/trie"
	"github.com/youchainhq/go-youchain/youdb"
)

// VerifC19TrieSync feeds single blobs through trieSync.process (and so through
// processNodeData, whatever its signature is) on a trieSync built by the real
// constructor; the request carries no items, only the delivered blob.
type VerifC19TrieSync struct {
	s *trieSync
	p *peerConnection
}

func VerifC19NewTrieSync(sched *trie.Sync) *VerifC19TrieSync {
	d := &Downloader{peers: newPeerSet()}
	p := newPeerConnection("single", nil, nil)
	d.peers.peers["single"] = p
	return &VerifC19TrieSync{newTrieSync(d, types.KindState, nil, sched), p}
}

// ProcessNodeData returns what process() made of the blob: delivered (0/1), the
// increments of the duplicate / unexpected counters, and the aborting error.
func (v *VerifC19TrieSync) ProcessNodeData(blob []byte) (int, uint64, uint64, error) {
	d0, u0 := v.s.d.syncStatsState.duplicate, v.s.d.syncStatsState.unexpected
	req := &trieReq{peer: v.p, response: [][]byte{blob}, tasks: make(map[common.Hash]*trieTask)}
	n, err := v.s.process(req)
	return n, v.s.d.syncStatsState.duplicate - d0, v.s.d.syncStatsState.unexpected - u0, err
}

// ---- trieSync request bookkeeping (fillTasks / process / commit) -------------
// A trieSync built by the real constructor on a Downloader that holds nothing
// but a peer set; the harness plays runTrieSync's dispatcher and the peers.

type VerifC19Caller struct {
	s *trieSync
	d *Downloader
}

type VerifC19Req struct{ r *trieReq }

func VerifC19NewCaller(sched *trie.Sync, db youdb.Database, state bool, peers []string) *VerifC19Caller {
	d := &Downloader{peers: newPeerSet()}
	kind := types.KindValidator
	if state {
		kind = types.KindState
	}
	c := &VerifC19Caller{newTrieSync(d, kind, db, sched), d}
	c.SetPeers(peers)
	return c
}

// SetPeers replaces the registered peer set (peers joining / leaving).
func (c *VerifC19Caller) SetPeers(ids []string) {
	m := make(map[string]*peerConnection)
	for _, id := range ids {
		if p, ok := c.d.peers.peers[id]; ok {
			m[id] = p
		} else {
			m[id] = newPeerConnection(id, nil, nil)
		}
	}
	c.d.peers.peers = m
}

func (c *VerifC19Caller) NumPeers() int { return c.d.peers.Len() }

func (c *VerifC19Caller) FillTasks(peer string, n int) *VerifC19Req {
	p := c.d.peers.peers[peer]
	if p == nil {
		p = newPeerConnection(peer, nil, nil)
	}
	req := &trieReq{peer: p}
	c.s.fillTasks(n, req)
	return &VerifC19Req{req}
}

func (r *VerifC19Req) Items() []common.Hash { return append([]common.Hash{}, r.r.items...) }

// Tasks lists req.tasks (hash -> peers tried).
func (r *VerifC19Req) Tasks() map[common.Hash][]string { return dumpTasks(r.r.tasks) }

func dumpTasks(t map[common.Hash]*trieTask) map[common.Hash][]string {
	out := make(map[common.Hash][]string)
	for h, k := range t {
		var a []string
		for id := range k.attempts {
			a = append(a, id)
		}
		sort.Strings(a)
		out[h] = a
	}
	return out
}

// Process runs trieSync.process; response == nil means the request timed out
// or the peer dropped.
func (c *VerifC19Caller) Process(r *VerifC19Req, response [][]byte, dropped bool) (int, error) {
	r.r.response = response
	r.r.dropped = dropped
	return c.s.process(r.r)
}

func (c *VerifC19Caller) Commit(force bool) error { return c.s.commit(force) }

func (c *VerifC19Caller) Tasks() map[common.Hash][]string { return dumpTasks(c.s.tasks) }

func (c *VerifC19Caller) Counters() (int, int) { return c.s.numUncommitted, c.s.bytesUncommitted }

// ---- launching: launchTrieSync / trieFetcher / run / loop ------------------------
// A Downloader with exactly what the trie sync entry points touch (channels, peer
// set, a chain that only knows TrieBackingDb).  The fetcher goroutine is started
// by the harness, so that "the fetcher is busy" can be staged.  Everything below
// calls the real functions; nothing is re-implemented.

type verifC19Chain struct {
	LightChain
	db youdb.Database
}

// TrieBackingDb as core.BlockChain.TrieBackingDb: the plain database for the state,
// validator and staking tries, prefixed tables for the CHT and the BLT (the
// harness checks the prefixes against core.ChtTablePrefix / BloomTrieTablePrefix).
func (c *verifC19Chain) TrieBackingDb(kind types.TrieKind) youdb.Database {
	switch kind {
	case types.KindCht:
		return youdb.NewTable(c.db, VerifC19ChtPrefix)
	case types.KindBlt:
		return youdb.NewTable(c.db, VerifC19BltPrefix)
	default:
		return c.db
	}
}
func (c *verifC19Chain) UpdateTrustedCht(*types.Header) error { return nil }
func (c *verifC19Chain) UpdateTrustedBlt(*types.Header) error { return nil }

const (
	VerifC19ChtPrefix = "cht-"
	VerifC19BltPrefix = "blt-"
)

// the CHT / BLT entry points (fetchCht / fetchBlt -> fetchAcTrie -> syncCht / syncBlt)
func (l *VerifC19Launcher) FetchCht(root common.Hash) error {
	return l.d.fetchCht(&types.Header{Number: new(big.Int), ChtRoot: root.Bytes()})
}
func (l *VerifC19Launcher) FetchBlt(root common.Hash) error {
	return l.d.fetchBlt(&types.Header{Number: new(big.Int), BltRoot: root.Bytes()})
}

type VerifC19Launcher struct{ d *Downloader }

func VerifC19NewLauncher(db youdb.Database) *VerifC19Launcher {
	return &VerifC19Launcher{&Downloader{
		lightchain:    &verifC19Chain{db: db},
		peers:         newPeerSet(),
		dropPeer:      func(string) {},
		quitCh:        make(chan struct{}),
		cancelCh:      make(chan struct{}),
		trieCh:        make(chan dataPack),
		trieSyncStart: make(chan *trieSync),
		trackTrieReq:  make(chan *trieReq),
		rttEstimate:   uint64(rttMaxEstimate),
		rttConfidence: uint64(1000000),
	}}
}

func (l *VerifC19Launcher) StartFetcher() { go l.d.trieFetcher() }
func (l *VerifC19Launcher) Cancel()       { l.d.cancel() }
func (l *VerifC19Launcher) Quit() {
	l.d.quitLock.Lock()
	select {
	case <-l.d.quitCh:
	default:
		close(l.d.quitCh)
	}
	l.d.quitLock.Unlock()
}

// NewCycle re-creates the cancel channel, as synchronise does when a sync cycle starts.
func (l *VerifC19Launcher) NewCycle() {
	l.d.cancelLock.Lock()
	l.d.cancelCh = make(chan struct{})
	l.d.cancelLock.Unlock()
}

func (l *VerifC19Launcher) RegisterPeer(id string, p Peer) error { return l.d.RegisterPeer(id, p) }
func (l *VerifC19Launcher) UnregisterPeer(id string) error       { return l.d.peers.Unregister(id) }
func (l *VerifC19Launcher) DeliverNodeData(id string, data [][]byte) error {
	return l.d.DeliverNodeData(id, data)
}

func (l *VerifC19Launcher) FetchVldTrie(root common.Hash) error     { return l.d.FetchVldTrie(root) }
func (l *VerifC19Launcher) FetchStakingTrie(root common.Hash) error { return l.d.fetchStakingTrie(root) }

// VerifC19Task is a launched state sync (syncState returns once the task was
// handed to the fetcher or closed by launchTrieSync).
type VerifC19Task struct{ t *trieSync }

func (l *VerifC19Launcher) SyncState(root common.Hash) *VerifC19Task {
	return &VerifC19Task{l.d.syncState(root)}
}
func (t *VerifC19Task) Wait() error { return t.t.Wait() }
func (t *VerifC19Task) Pending() int { return t.t.sched.Pending() }

var (
	VerifC19ErrCanceled        = errCanceled
	VerifC19ErrCancelTrieFetch = errCancelTrieFetch
)
