//go:build verif
// +build verif

// Verification hook (C19): runs trieSync.processNodeData (the caller that
// hashes a delivered blob before handing it to trie.Sync.Process) on a bare
// trieSync holding only the scheduler and the hasher.  No behaviour is added.
package downloader

import (
	"github.com/youchainhq/go-youchain/common"
	"github.com/youchainhq/go-youchain/trie"
	"golang.org/x/crypto/sha3"
)

type VerifC19TrieSync struct{ s *trieSync }

func VerifC19NewTrieSync(sched *trie.Sync) *VerifC19TrieSync {
	return &VerifC19TrieSync{&trieSync{sched: sched, keccak: sha3.NewLegacyKeccak256()}}
}

func (v *VerifC19TrieSync) ProcessNodeData(blob []byte) (bool, common.Hash, error) {
	return v.s.processNodeData(blob)
}
