//go:build verif
// +build verif

// Verification hooks (C19): read-only projections of decodeNode and of the
// scheduler state of trie.Sync.  No behaviour is added.
package trie

import (
	"sort"

	"github.com/youchainhq/go-youchain/common"
)

// VerifC19Child is one direct child of a decoded node as Sync.children sees it.
type VerifC19Child struct {
	Kind  int // 0 = hashNode, 1 = valueNode, 2 = embedded node (ignored by Sync)
	Hash  common.Hash
	Value []byte
}

// VerifC19Node is the projection of a decoded trie node.
type VerifC19Node struct {
	Short    bool
	KeyLen   int // len(shortNode.Key) (hex nibbles incl. terminator)
	Children []VerifC19Child
}

// VerifC19Decode runs decodeNode (as Sync.Process and Sync.AddSubTrie do) and
// lists the direct children in the order Sync.children walks them.
func VerifC19Decode(hash, blob []byte) (*VerifC19Node, error) {
	n, err := decodeNode(hash, blob, 0)
	if err != nil {
		return nil, err
	}
	proj := func(c node) VerifC19Child {
		switch c := c.(type) {
		case hashNode:
			return VerifC19Child{Kind: 0, Hash: common.BytesToHash(c)}
		case valueNode:
			return VerifC19Child{Kind: 1, Value: append([]byte{}, c...)}
		default:
			return VerifC19Child{Kind: 2}
		}
	}
	out := &VerifC19Node{}
	switch n := n.(type) {
	case *shortNode:
		out.Short = true
		out.KeyLen = len(n.Key)
		out.Children = []VerifC19Child{proj(n.Val)}
	case *fullNode:
		for i := 0; i < 17; i++ {
			if n.Children[i] != nil {
				out.Children = append(out.Children, proj(n.Children[i]))
			}
		}
	default:
		return nil, nil
	}
	return out, nil
}

// VerifC19Req is one pending request of a Sync.
type VerifC19Req struct {
	Hash    common.Hash
	Raw     bool
	HasData bool
	HasCb   bool
	Depth   int
	Deps    int
	Parents []common.Hash // in slice order
}

// VerifC19Dump lists the pending requests (sorted by hash) and the membatch
// completion order.
func (s *Sync) VerifC19Dump() ([]VerifC19Req, []common.Hash) {
	var reqs []VerifC19Req
	for h, r := range s.requests {
		q := VerifC19Req{Hash: h, Raw: r.raw, HasData: r.data != nil, HasCb: r.callback != nil, Depth: r.depth, Deps: r.deps}
		for _, p := range r.parents {
			q.Parents = append(q.Parents, p.hash)
		}
		reqs = append(reqs, q)
	}
	sort.Slice(reqs, func(i, j int) bool { return string(reqs[i].Hash[:]) < string(reqs[j].Hash[:]) })
	return reqs, append([]common.Hash{}, s.membatch.order...)
}

// VerifC19MemGet reads the membatch.
func (s *Sync) VerifC19MemGet(h common.Hash) ([]byte, bool) {
	b, ok := s.membatch.batch[h]
	return b, ok
}

var (
	VerifC19EmptyRoot  = emptyRoot
	VerifC19EmptyState = emptyState
)
