//go:build verif
// +build verif

// Add-only verification hook for property C13: read-only views of the
// Database's reference counts and flush-list.  No behaviour.
package trie

import (
	"reflect"

	"github.com/youchainhq/go-youchain/common"
)

// VerifNode is one entry of the in-memory node cache.
type VerifNode struct {
	Hash    common.Hash
	Parents uint64
	Size    uint64
}

// VerifFlushList walks the flush-list from the oldest to the newest entry.
// ok is false if the list does not cover exactly the cached nodes.
func (db *Database) VerifFlushList() (out []VerifNode, ok bool) {
	db.lock.RLock()
	defer db.lock.RUnlock()
	seen := map[common.Hash]bool{}
	h := db.oldest
	for h != (common.Hash{}) {
		n, present := db.nodes[h]
		if !present || seen[h] {
			return out, false
		}
		seen[h] = true
		out = append(out, VerifNode{Hash: h, Parents: uint64(n.parents), Size: uint64(n.size)})
		h = n.flushNext
	}
	return out, len(out) == len(db.nodes)-1
}

// VerifMetaChildren returns the explicit children of the meta root.
func (db *Database) VerifMetaChildren() map[common.Hash]uint64 {
	db.lock.RLock()
	defer db.lock.RUnlock()
	out := map[common.Hash]uint64{}
	for k, v := range db.nodes[common.Hash{}].children {
		out[k] = uint64(v)
	}
	return out
}

// VerifCounterBits returns the declared widths (in bits) of cachedNode.parents
// and of the values of cachedNode.children.
func VerifCounterBits() (parents, children int) {
	var c cachedNode
	return reflect.TypeOf(c.parents).Bits(), reflect.TypeOf(c.children).Elem().Bits()
}
