//go:build verif
// +build verif

// Add-only hook for property C06 (builder and validator agree).  No
// behaviour: it builds a worker value without starting its event loops, so
// that the harness can run the REAL block-building path
// (worker.commitNewWork -> commitTransactions -> EndBlock(isSeal=true) ->
// commit -> engine.Seal -> postSeal) synchronously, one block per call.
package miner

import (
	"github.com/youchainhq/go-youchain/consensus"
	"github.com/youchainhq/go-youchain/core/types"
	"github.com/youchainhq/go-youchain/event"
)

// VerifWorkerC06 wraps a worker whose goroutines were never started.
type VerifWorkerC06 struct{ w *worker }

// VerifNewWorkerC06 is newWorker without subscriptions and loops; the task
// channel is buffered so that commit() can hand over the task to the caller.
func VerifNewWorkerC06(engine consensus.Engine, you Backend, mux *event.TypeMux) *VerifWorkerC06 {
	w := &worker{
		engine:    engine,
		you:       you,
		eventMux:  mux,
		chain:     you.BlockChain(),
		newWorkCh: make(chan newWorkReq),
		taskCh:    make(chan *task, 1),
		startCh:   make(chan struct{}, 1),
		exitCh:    make(chan struct{}),
		processor: you.BlockChain().Processor(),
		running:   1,
	}
	return &VerifWorkerC06{w: w}
}

// Build runs commitNewWork once and pushes the resulting task through
// mine() (engine.Seal + postSeal = WriteBlockWithState).  It returns the
// assembled block, or nil if the worker produced no task.
func (v *VerifWorkerC06) Build() *types.Block {
	v.w.commitNewWork(nil)
	select {
	case t := <-v.w.taskCh:
		stop := make(chan struct{})
		v.w.mine(t, stop)
		return t.block
	default:
		return nil
	}
}

// LastGasPool returns what is left in the block gas pool of the environment of
// the last commitNewWork (read-only).
func (v *VerifWorkerC06) LastGasPool() (uint64, bool) {
	if v.w.current == nil || v.w.current.gasPool == nil {
		return 0, false
	}
	return v.w.current.gasPool.Gas(), true
}
