//go:build verif
// +build verif

// Add-only verification hook (property C03): lets the harness call the
// Voter's two entry points synchronously (they normally run on the voter's
// event loop / the p2p goroutine), read its latches and counts, and call the
// Server's credential check and the header verifier's vote check on a Server
// that has only the fields those two functions read.  No behaviour.
package ucon

import (
	"math/big"

	"github.com/youchainhq/go-youchain/bls"
	"github.com/youchainhq/go-youchain/common"
	"github.com/youchainhq/go-youchain/consensus"
	"github.com/youchainhq/go-youchain/core/state"
	"github.com/youchainhq/go-youchain/params"
)

// VerifC03UpdateContext is Voter.updateContext.
func VerifC03UpdateContext(v *Voter, ev ContextChangeEvent) { v.updateContext(ev) }

// VerifC03ProcessVoteMsg is Voter.processVoteMsg; status is the numeric
// MsgReceivedStatus (0 old round, 1 old index, 2 same, 3 future, 4 invalid).
func VerifC03ProcessVoteMsg(v *Voter, vt VoteType, msg *BlockHashWithVotes, sender common.Address, status uint8) (error, bool) {
	cache := &CachedVotesMessage{VotesData: msg, addr: sender}
	return v.processVoteMsg(VoteMsgEvent{Msg: cache, VType: vt}, MsgReceivedStatus(status))
}

// VerifC03Statuses returns the numeric values of the five statuses in the
// order the harness uses them.
func VerifC03Statuses() [5]uint8 {
	return [5]uint8{uint8(msgOldRound), uint8(msgOldRoundIndex), uint8(msgSame), uint8(msgFuture), uint8(msgInvalid)}
}

type VerifC03Latch struct {
	Precommitted, Committed, SentChange, Certificated bool
	NextMarked, CurMarked, NextVoted                  *common.Hash
}

func VerifC03Latches(v *Voter) VerifC03Latch {
	v.lock.Lock()
	defer v.lock.Unlock()
	l := VerifC03Latch{Precommitted: v.precommitted, Committed: v.committed, SentChange: v.sentChangeEvent, Certificated: v.certificated}
	if v.nextMarked != nil {
		h := v.nextMarked.BlockHash
		l.NextMarked = &h
	}
	if v.curMarked != nil {
		h := v.curMarked.BlockHash
		l.CurMarked = &h
	}
	if v.nextVoted != nil {
		h := v.nextVoted.BlockHash
		l.NextVoted = &h
	}
	return l
}

// VerifC03Count is voteCounts[hash] of the wrapper kept for (round, index).
func VerifC03Count(v *Voter, round *big.Int, idx uint32, vt VoteType, kind params.ValidatorKind, hash common.Hash) (uint32, bool) {
	v.lock.Lock()
	defer v.lock.Unlock()
	w := v.votesWrappers.GetWrapper(round, idx)
	if w == nil {
		return 0, false
	}
	_, c := w.getVotes(vt, hash, kind)
	return c, true
}

// VerifC03Recorded reports whether addr has a vote recorded (addressVotes) in the
// tally of (round, index, type, kind).
func VerifC03Recorded(v *Voter, round *big.Int, idx uint32, vt VoteType, kind params.ValidatorKind, addr common.Address) bool {
	v.lock.Lock()
	defer v.lock.Unlock()
	w := v.votesWrappers.GetWrapper(round, idx)
	if w == nil {
		return false
	}
	var m *VotesManager
	if kind == params.KindChamber {
		m = w.chamber
	} else if kind == params.KindHouse {
		m = w.house
	}
	if m == nil {
		return false
	}
	var s *VoteSta
	switch vt {
	case Prevote:
		s = m.prevotes
	case Precommit:
		s = m.precommits
	case NextIndex:
		s = m.nextIndexs
	case Certificate:
		s = m.certificates
	}
	if s == nil {
		return false
	}
	s.lock.Lock()
	defer s.lock.Unlock()
	return s.addressVotes[addr] != nil
}

// VerifC03BlsVerifier is the voter's BlsVerifier (the caches of decoded BLS
// signatures / public keys that PackVotes and vote verification share).
func VerifC03BlsVerifier(v *Voter) *BlsVerifier { return v.blsMgr.Verifier }

// VerifC03ShareBlsVerifier makes the server use the voter's BlsVerifier, as
// StartMining does (s.blsVerifier = s.voter.blsMgr.Verifier).
func VerifC03ShareBlsVerifier(s *Server, v *Voter) { s.blsVerifier = v.blsMgr.Verifier }

// VerifC03NewServer builds a Server holding only what verifySortition,
// getLookbackStakeInfo and verifyVotes read.
func VerifC03NewServer(chain consensus.ChainReader, yp *params.YouParams) *Server {
	s := &Server{chain: chain, currRoundParams: yp, blsMgr: bls.NewBlsManager()}
	s.blsVerifier = NewBlsVerifier(s.blsMgr)
	return s
}

func VerifC03SetServerContext(s *Server, round *big.Int, idx uint32) {
	s.currentRound = round
	s.roundIndex = idx
}

// VerifC03VerifySortition is Server.verifySortition as a VerifySortitionFn.
func VerifC03VerifySortition(s *Server) VerifySortitionFn { return s.verifySortition }

// VerifC03GetStake is Server.getLookbackStakeInfo.
func VerifC03GetStake(s *Server) func(round *big.Int, addr common.Address, isProposer bool, lbType params.LookBackType) (*big.Int, *big.Int, uint64, params.ValidatorKind, uint8, error) {
	return s.getLookbackStakeInfo
}

// VerifC03VerifyVotes is Server.verifyVotes on an explicit commonData.
func VerifC03VerifyVotes(s *Server, cp *params.CaravelParams, lbVld state.ValidatorReader, headerHash []byte, seed common.Hash,
	round *big.Int, idx uint32, threshold uint64, votes []SingleVote, asig []byte, step uint32, kind params.ValidatorKind, isPos bool) error {
	cd := &commonData{cp: cp, lbVld: lbVld, headerHash: headerHash, seed: seed, round: round, roundIndex: idx, validatorThreshold: threshold}
	return s.verifyVotes(cd, votes, asig, step, kind, isPos)
}
