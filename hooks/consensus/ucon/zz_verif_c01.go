//go:build verif
// +build verif

// Add-only verification hook (property C01): exports the unexported seat
// count and priority kernels so the harness can tabulate them for the model.
// No behaviour.
package ucon

import (
	"math/big"

	"github.com/youchainhq/go-youchain/common"
	"github.com/youchainhq/go-youchain/consensus"
	"github.com/youchainhq/go-youchain/core/types"
)

// VerifC01Choose is choose (sortition.go) with p computed exactly as
// VrfVerifySortition / VrfVerifyPriority compute it.
func VerifC01Choose(hash common.Hash, stake *big.Int, threshold uint64, totalStake *big.Int) int64 {
	pFloat, _ := new(big.Float).Quo(new(big.Float).SetUint64(threshold), new(big.Float).SetInt(totalStake)).Float64()
	return choose(hash, stake, pFloat)
}

// VerifC01ComputePriority is computePriority (sortition.go).
func VerifC01ComputePriority(hash common.Hash, j int64) common.Hash {
	return computePriority(hash, big.NewInt(j))
}

// VerifC01VerifyHeader is (*Server).verifyHeader (consensus.go) with an explicit
// batch prefix, as VerifyHeaders calls it.
func VerifC01VerifyHeader(s *Server, chain consensus.ChainReader, header *types.Header, parents []*types.Header, seal bool) error {
	return s.verifyHeader(chain, header, parents, seal)
}

// VerifC01CacheSizes: capacities of the LRU caches the vote verification path goes through
// (BlsVerifier.blsPubKeyCache, blsSigCache, vrfPkCache), in that order.
func VerifC01CacheSizes(v *BlsVerifier) [3]int {
	_ = v
	return [3]int{blsCacheSize, blsCacheSize, blsCacheSize}
}
