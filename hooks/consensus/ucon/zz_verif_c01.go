//go:build verif
// +build verif

// Add-only verification hook (property C01): exports the unexported seat
// count and priority kernels so the harness can tabulate them for the model.
// No behaviour.
package ucon

import (
	"math/big"

	"github.com/youchainhq/go-youchain/common"
)

// VerifC01Choose is choose (sortition.go) with p computed exactly as
// VrfVerifySortition / VrfVerifyPriority compute it.
func VerifC01Choose(hash common.Hash, stake *big.Int, threshold uint64, totalStake *big.Int) int64 {
	pFloat, _ := new(big.Float).Quo(new(big.Float).SetUint64(threshold), new(big.Float).SetInt(totalStake)).Float64()
	return choose(hash, stake, pFloat)
}

// VerifC01ComputePriority is computePriority (sortition.go).
func VerifC01ComputePriority(hash common.Hash, j int64) common.Hash {
	return computePriority(hash, big.NewInt(j))
}
