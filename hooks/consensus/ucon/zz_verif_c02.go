//go:build verif

package ucon

import (
	"github.com/youchainhq/go-youchain/common"
	"github.com/youchainhq/go-youchain/params"
)

// Verification hooks for property C02 (add-only; no behaviour).

// VerifUpdateContext runs the voter's context-change handler synchronously.
func (v *Voter) VerifUpdateContext(ev ContextChangeEvent) { v.updateContext(ev) }

// VerifJudge reports a counted quorum to the voter, as processVoteMsg does.
func (v *Voter) VerifJudge(voteType VoteType, count uint32, threshold uint64, blockHash, priority common.Hash, kind params.ValidatorKind) {
	v.lock.Lock()
	defer v.lock.Unlock()
	v.judgeVoteCount(voteType, count, threshold, blockHash, priority, kind)
}
