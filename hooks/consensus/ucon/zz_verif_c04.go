//go:build verif
// +build verif

// Add-only verification hook (property C04): exports the unexported
// sortition kernels so the harness can drive them directly.  No behaviour.
package ucon

import (
	"crypto/ecdsa"
	"math/big"

	"github.com/youchainhq/go-youchain/common"
	"github.com/youchainhq/go-youchain/consensus"
	"github.com/youchainhq/go-youchain/params"
)

// VerifC04Choose is choose (sortition.go).
func VerifC04Choose(hash common.Hash, w *big.Int, p float64) int64 { return choose(hash, w, p) }

// VerifC04Search is search (sortition.go).
func VerifC04Search(n int64, f func(int64) bool) int64 { return search(n, f) }

// VerifC04ComputePriority is computePriority (sortition.go).
func VerifC04ComputePriority(hash common.Hash, j *big.Int) common.Hash {
	return computePriority(hash, j)
}

// VerifC04MaxHash is maxVrfHashValue (init.go).
func VerifC04MaxHash() *big.Int { return new(big.Int).Set(maxVrfHashValue) }

// VerifC04IsProposer is SortitionManager.isProposer (sortition_mgr.go).
func (sm *SortitionManager) VerifC04IsProposer(round *big.Int, roundIndex uint32) (bool, *StepView) {
	return sm.isProposer(round, roundIndex)
}

// VerifC04IsValidator is SortitionManager.isValidator (sortition_mgr.go).
func (sm *SortitionManager) VerifC04IsValidator(round *big.Int, roundIndex uint32, step uint32, lbType params.LookBackType) (bool, *StepView) {
	return sm.isValidator(round, roundIndex, step, lbType)
}

// VerifC04ServerVerifyPriority is Server.verifyPriority (sortition_verifier.go),
// the check the proposal / priority message handlers apply, on a Server that
// holds nothing but the given chain reader, round and protocol parameters.
func VerifC04ServerVerifyPriority(chain consensus.ChainReader, yp *params.YouParams, currentRound *big.Int, pub *ecdsa.PublicKey, data *ConsensusCommon) error {
	s := &Server{chain: chain, currentRound: currentRound, currRoundParams: yp}
	return s.verifyPriority(pub, data)
}
