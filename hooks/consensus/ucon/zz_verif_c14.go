//go:build verif
// +build verif

// Add-only hook for property C14 (handlers built on the decoder reject rather
// than crash).  It assembles a MessageHandler exactly as Server.Start does -
// the callbacks are the real Proposal.processPriorityMessage,
// Proposal.processProposedBlockMsg and Voter.processVoteMsg - without a Server:
// the two functions a Server passes to them (verifyPriority / verifySortition)
// are replaced by the part of them that follows their chain look-ups, i.e. the
// calls of VrfVerifyPriority / VrfVerifySortition, with a seed, stake, total
// stake and thresholds given by the harness instead of read from the chain.
package ucon

import (
	"crypto/ecdsa"
	"fmt"
	"math/big"

	"github.com/youchainhq/go-youchain/common"
	"github.com/youchainhq/go-youchain/crypto"
	secp256k1VRF "github.com/youchainhq/go-youchain/crypto/vrf/secp256k1"
	"github.com/youchainhq/go-youchain/event"
	"github.com/youchainhq/go-youchain/params"
)

type verifC14Params struct{ cp *params.CaravelParams }

func (p verifC14Params) CurrentCaravelParams() *params.CaravelParams { return p.cp }
func (p verifC14Params) CertificateParams(round *big.Int) (*params.CaravelParams, error) {
	return p.cp, nil
}
func (p verifC14Params) CurrentYouParams() *params.YouParams { return nil }

// VerifC14VerifyCalls counts how often the handler reached the VRF verification.
var VerifC14VerifyCalls int

// VerifC14Handler: see the file comment.
func VerifC14Handler(sk *ecdsa.PrivateKey, getVal GetLookBackValidatorFn, seed common.Hash,
	stake, total *big.Int, proposerTh, validatorTh uint64) *MessageHandler {
	mux := new(event.TypeMux)
	// Server.verifyPriority after getLookBackSeed / getLookbackStakeInfo
	verifyPriority := func(pubkey *ecdsa.PublicKey, data *ConsensusCommon) error {
		pk, err := secp256k1VRF.NewVRFVerifier(pubkey)
		if err != nil {
			return fmt.Errorf("ucon: get pubKey failed: %d", err)
		}
		VerifC14VerifyCalls++
		isValid, err := VrfVerifyPriority(pk, seed, data.RoundIndex, data.Step, data.SortitionProof,
			data.Priority, data.SubUsers, proposerTh, stake, total)
		if err != nil || !isValid {
			if err == nil {
				err = fmt.Errorf("priority is not the largest hash over the proposer's seats")
			}
			return err
		}
		return nil
	}
	// Server.verifySortition after getLookBackSeed / getLookbackStakeInfo
	verifySortition := func(pubKey *ecdsa.PublicKey, data *SortitionData, lbType params.LookBackType) error {
		pk, err := secp256k1VRF.NewVRFVerifier(pubKey)
		if err != nil {
			return err
		}
		VerifC14VerifyCalls++
		isValid, err := VrfVerifySortition(pk, seed, data.RoundIndex, data.Step, data.Proof, data.Votes, validatorTh, stake, total)
		if err != nil || !isValid {
			if err == nil {
				err = fmt.Errorf("not selected")
			}
			return err
		}
		return nil
	}
	proposal := NewProposal(mux, verifyPriority, func(round *big.Int, roundIndex uint32) bool { return false })
	cp := &params.CaravelParams{}
	cp.EnableBls = false
	voter := &Voter{
		rawSk:             sk,
		addr:              crypto.PubkeyToAddress(sk.PublicKey),
		votesWrappers:     NewVotesWrapperList(),
		verifySortitionFn: verifySortition,
		getStakeFn: func(round *big.Int, addr common.Address, isProposer bool, lbType params.LookBackType) (*big.Int, *big.Int, uint64, params.ValidatorKind, uint8, error) {
			return stake, total, validatorTh, params.KindChamber, 0, nil
		},
		eventMux:  mux,
		paramsMgr: verifC14Params{cp},
	}
	return NewMessageHandler(sk, mux, getVal,
		func(ev ReceivedMsgEvent) (error, bool) { return nil, true },
		proposal.processPriorityMessage, proposal.processProposedBlockMsg, voter.processVoteMsg)
}

// VerifC14VotePayload is what a vote's signature covers (Voter.getAddrFromVote).
func VerifC14VotePayload(blockHash common.Hash, round *big.Int, roundIndex uint32) []byte {
	return append(blockHash.Bytes(), append(round.Bytes(), uint32ToBytes(roundIndex)...)...)
}

// VerifC14Mux is the event mux a handler posts its TransferMessageEvent (relay) to.
func VerifC14Mux(mh *MessageHandler) *event.TypeMux { return mh.eventMux }
