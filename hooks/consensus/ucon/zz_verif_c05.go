//go:build verif
// +build verif

// Add-only hook for property C05 (double-sign evidence).  No behaviour: it
// lets the harness call the Voter's handlers synchronously (they normally run
// on the voter's event loop), so that the votes an honest validator really
// signs and the evidence the honest double-vote detector really emits can be
// fed to the staking module.
package ucon

import (
	"github.com/youchainhq/go-youchain/common"
	"github.com/youchainhq/go-youchain/params"
)

// VerifC05UpdateContext is Voter.updateContext.
func VerifC05UpdateContext(v *Voter, ev ContextChangeEvent) { v.updateContext(ev) }

// VerifC05Judge reports a counted quorum to the voter the way processVoteMsg does.
func VerifC05Judge(v *Voter, vt VoteType, count uint32, threshold uint64, hash, priority common.Hash, kind params.ValidatorKind) {
	v.lock.Lock()
	defer v.lock.Unlock()
	v.judgeVoteCount(vt, count, threshold, hash, priority, kind)
}

// VerifC05ProcessVoteMsg is Voter.processVoteMsg for a message of the voter's
// current round and index (status msgSame).
func VerifC05ProcessVoteMsg(v *Voter, vt VoteType, msg *BlockHashWithVotes, sender common.Address) (error, bool) {
	return v.processVoteMsg(VoteMsgEvent{Msg: &CachedVotesMessage{VotesData: msg, addr: sender}, VType: vt}, msgSame)
}
