package handshake

// Build-time replacement (go build -overlay) of quic-go's
// internal/handshake/unsafe.go for the C06 harness only.  The original file
// has an init() that panics under Go >= 1.21 because crypto/tls.ConnectionState
// gained fields ("qtls.ConnectionState not compatible with tls.ConnectionState");
// every binary that links the p2p package (miner -> node -> p2p -> quic-go)
// therefore dies before main().  The harness never opens a QUIC connection;
// the layout check is dropped and nothing else is changed.
