// C12 harness: drives core.ProcessYouVersionState / core.VerifyYouVersionState
// of the working tree over adversarial header chains with scaled-down
// parameter tables, writes the cases (inputs + observed results) as a Coq file
// for the model comparison, and evaluates the property oracle on the
// implementation's own observations.
package main

import (
	"encoding/json"
	"flag"
	"fmt"
	"io/ioutil"
	"math/big"
	"os"
	"path/filepath"
	"sort"
	"strings"

	"github.com/youchainhq/go-youchain/core"
	"github.com/youchainhq/go-youchain/core/types"
	"github.com/youchainhq/go-youchain/params"
	"verif/harness/vf"
)

type Proto struct {
	V, VoteRounds, Threshold, MinWait, MaxWait, Approved, WaitRounds uint64
}
type Hdr struct{ Num, Cur, Nv, Nvb, Nso, Na uint64 }
type Case struct {
	Tbl     []Proto `json:"tbl"`
	Prev    Hdr     `json:"prev"`
	Curr    Hdr     `json:"curr"`
	Verify  int     `json:"verify"`  // 0 nil, 1 error
	ProcOk  bool    `json:"proc_ok"` // ProcessYouVersionState returned nil
	Proc    Hdr     `json:"proc"`
	Comment string  `json:"comment,omitempty"`
}

func install(tbl []Proto) {
	m := make(params.VersionsMap)
	for _, p := range tbl {
		yp := params.YouParams{Version: params.YouVersion(p.V)}
		yp.UpgradeVoteRounds = p.VoteRounds
		yp.UpgradeThreshold = p.Threshold
		yp.MinUpgradeWaitRounds = p.MinWait
		yp.MaxUpgradeWaitRounds = p.MaxWait
		yp.ApprovedUpgradeVersion = params.YouVersion(p.Approved)
		yp.UpgradeWaitRounds = p.WaitRounds
		m[yp.Version] = yp
	}
	params.Versions = m
}

func toHeader(h Hdr) *types.Header {
	return &types.Header{Number: new(big.Int).SetUint64(h.Num),
		CurrVersion: params.YouVersion(h.Cur), NextVersion: params.YouVersion(h.Nv),
		NextVoteBefore: h.Nvb, NextSwitchOn: h.Nso, NextApprovals: h.Na}
}
func fromHeader(h *types.Header) Hdr {
	return Hdr{h.Number.Uint64(), uint64(h.CurrVersion), uint64(h.NextVersion), h.NextVoteBefore, h.NextSwitchOn, h.NextApprovals}
}

func inTable(tbl []Proto, v uint64) (Proto, bool) {
	for _, p := range tbl {
		if p.V == v {
			return p, true
		}
	}
	return Proto{}, false
}

// observe runs the implementation on one (prev,curr) pair.  ok=false when the
// pair would hit logging.Crit (process exit), which the harness never runs.
func observe(c *Case) bool {
	install(c.Tbl)
	if _, ok := inTable(c.Tbl, c.Prev.Cur); !ok {
		return false
	}
	if c.Prev.Nso == c.Curr.Num && c.Prev.Nv == c.Curr.Cur &&
		c.Curr.Nv == 0 && c.Curr.Nvb == 0 && c.Curr.Nso == 0 && c.Curr.Na == 0 {
		if _, ok := inTable(c.Tbl, c.Curr.Cur); !ok {
			return false
		}
	}
	if err := core.VerifyYouVersionState(toHeader(c.Prev), toHeader(c.Curr)); err != nil {
		c.Verify = 1
	} else {
		c.Verify = 0
	}
	out := &types.Header{Number: new(big.Int).SetUint64(c.Prev.Num + 1)}
	if err := core.ProcessYouVersionState(toHeader(c.Prev), out); err != nil {
		c.ProcOk = false
	} else {
		c.ProcOk = true
		c.Proc = fromHeader(out)
	}
	return true
}

func guardOK(tbl []Proto) bool {
	for _, p := range tbl {
		if p.VoteRounds < 1 || p.MinWait < 1 || p.MinWait > p.MaxWait {
			return false
		}
	}
	return true
}

func randTable(r *vf.Rng) []Proto {
	k := 1 + r.Intn(4)
	bad := r.Chance(10)
	young := !bad && r.Chance(20)
	var tbl []Proto
	for v := 1; v <= k; v++ {
		p := Proto{V: uint64(v)}
		p.VoteRounds = uint64(1 + r.Intn(6))
		p.Threshold = uint64(r.Intn(int(p.VoteRounds) + 2))
		p.MinWait = uint64(1 + r.Intn(4))
		p.MaxWait = p.MinWait + uint64(r.Intn(5))
		if young {
			// waits far above the heights of a young chain (the real tables: 100 to 10000)
			p.MinWait = uint64(40 + r.Intn(260))
			p.MaxWait = p.MinWait + uint64(r.Intn(100))
		}
		p.WaitRounds = uint64(r.Intn(9))
		switch r.Intn(4) {
		case 0:
			p.Approved = 0
		case 1:
			p.Approved = uint64(v + 1) // possibly unknown locally
		default:
			p.Approved = uint64(1 + r.Intn(k+1))
		}
		if bad {
			switch r.Intn(3) {
			case 0:
				p.VoteRounds = 0
			case 1:
				p.MinWait = 0
			case 2:
				p.MaxWait = p.MinWait - uint64(r.Intn(int(p.MinWait)+1))
			}
		}
		tbl = append(tbl, p)
	}
	return tbl
}

// ghost is the oracle's own record of a live proposal, built only from
// headers the implementation's verifier accepted.
type ghost struct {
	live                bool
	version, nvb, nso   uint64
	origin              uint64 // round of the header that introduced it
	inWindow            uint64 // approvals counted at rounds < nvb (incl. the first)
	lastNa              uint64
}

type hit struct {
	What  string  `json:"what"`
	Chain []Hdr   `json:"chain"`
	Tbl   []Proto `json:"tbl"`
	Batch *BCase  `json:"batch,omitempty"`
}

// oracle: the property stated over accepted links of a chain that started
// clean.  Returns a description of the violation or "".
func (g *ghost) step(tbl []Proto, prev, curr Hdr) string {
	pp, _ := inTable(tbl, prev.Cur)
	if curr.Cur != prev.Cur {
		if !g.live {
			return "version changed without a proposal"
		}
		if curr.Cur != g.version {
			return "version changed to something else than the announced version"
		}
		if curr.Num != g.nso {
			return "version changed at a round other than the announced one"
		}
		if g.inWindow < pp.Threshold {
			return fmt.Sprintf("version changed with %d approvals inside the window, threshold %d", g.inWindow, pp.Threshold)
		}
		if g.nso < g.nvb+pp.MinWait {
			return "switch earlier than the minimum wait after the window"
		}
		g.live = false
		return ""
	}
	if !g.live {
		if curr.Nv != 0 {
			*g = ghost{live: true, version: curr.Nv, nvb: curr.Nvb, nso: curr.Nso, origin: curr.Num, inWindow: 1, lastNa: curr.Na}
			if curr.Na != 1 {
				return "new proposal does not start with one approval"
			}
			if curr.Nvb != curr.Num+pp.VoteRounds {
				return "window of a new proposal is not the protocol's vote rounds"
			}
		}
		return ""
	}
	// a proposal is live
	if curr.Nv == 0 {
		g.live = false
		return ""
	}
	if curr.Nv != g.version || curr.Nso != g.nso {
		return "announced version or switch round changed while the proposal is live"
	}
	if curr.Nvb != g.nvb {
		return "voting window moved while the proposal is live"
	}
	if curr.Na > g.lastNa+1 {
		return "more than one approval added by one block"
	}
	if curr.Na < g.lastNa {
		return "approvals decreased"
	}
	if curr.Na == g.lastNa+1 && curr.Num < g.nvb {
		g.inWindow++
	}
	g.lastNa = curr.Na
	return ""
}

func interesting(r *vf.Rng, tbl []Proto, prev Hdr, honest Hdr, field int) uint64 {
	pp, _ := inTable(tbl, prev.Cur)
	round := prev.Num + 1
	base := []uint64{0, 1, round, round + 1, round - 1, round + pp.VoteRounds,
		prev.Nvb, prev.Nvb + 1, prev.Nso, prev.Nso + 1, prev.Na, prev.Na + 1, prev.Na + 2,
		pp.Threshold, pp.Threshold + 1, honest.Nvb + pp.MinWait, honest.Nvb + pp.MaxWait, honest.Nvb + pp.MaxWait + 1,
		round + pp.VoteRounds + pp.MinWait, round + pp.VoteRounds + pp.MaxWait, round + pp.VoteRounds + pp.MinWait - 1,
		prev.Nv, prev.Cur, prev.Cur + 1, uint64(r.Intn(6))}
	_ = field
	return r.Pick(base)
}

func mutate(r *vf.Rng, tbl []Proto, prev, honest Hdr) Hdr {
	c := honest
	if r.Chance(12) { // carry the parent's version state over unchanged
		c = prev
		c.Num = prev.Num + 1
		return c
	}
	n := 1 + r.Intn(2)
	if r.Chance(15) {
		n = 3 + r.Intn(3)
	}
	for i := 0; i < n; i++ {
		f := r.Intn(6)
		v := interesting(r, tbl, prev, honest, f)
		switch f {
		case 0:
			c.Cur = v % 7
		case 1:
			c.Nv = v % 7
		case 2:
			c.Nvb = v
		case 3:
			c.Nso = v
		case 4:
			c.Na = v
		case 5:
			if r.Chance(20) {
				c.Num = v
			}
		}
	}
	return c
}

func hdrCoq(h Hdr) string {
	return fmt.Sprintf("(mkHdr %d %d %d %d %d %d)", h.Num, h.Cur, h.Nv, h.Nvb, h.Nso, h.Na)
}
func tblCoq(t []Proto) string {
	var xs []string
	for _, p := range t {
		xs = append(xs, fmt.Sprintf("(%d, mkProto %d %d %d %d %d %d)", p.V, p.VoteRounds, p.Threshold, p.MinWait, p.MaxWait, p.Approved, p.WaitRounds))
	}
	return vf.List(xs)
}
func caseCoq(c Case) string {
	proc := "None"
	if c.ProcOk {
		proc = "(Some " + hdrCoq(c.Proc) + ")"
	}
	return fmt.Sprintf("mkCase %s %s %s %d %s", tblCoq(c.Tbl), hdrCoq(c.Prev), hdrCoq(c.Curr), c.Verify, proc)
}

func loadCorpus(dir string) []Case {
	var out []Case
	files, _ := filepath.Glob(filepath.Join(dir, "*.json"))
	sort.Strings(files)
	for _, f := range files {
		b, err := ioutil.ReadFile(f)
		if err != nil {
			continue
		}
		if strings.HasPrefix(filepath.Base(f), "batch_") {
			continue
		}
		var c Case
		if json.Unmarshal(b, &c) == nil {
			c.Comment = "corpus:" + filepath.Base(f)
			out = append(out, c)
		}
	}
	return out
}

func loadBatchCorpus(dir string) []BCase {
	var out []BCase
	files, _ := filepath.Glob(filepath.Join(dir, "batch_*.json"))
	sort.Strings(files)
	for _, f := range files {
		b, err := ioutil.ReadFile(f)
		if err != nil {
			continue
		}
		var c BCase
		if json.Unmarshal(b, &c) == nil && len(c.Chain) > 0 {
			c.Comment = "corpus:" + filepath.Base(f)
			out = append(out, c)
		}
	}
	return out
}

func gen(seed uint64, n int, outDir, corpusDir string) {
	initChain()
	r := vf.NewRng(seed)
	res := vf.NewResult("C12", seed)
	var cases []Case
	var bcases []BCase
	maxBatches := n / 5
	for _, bc := range loadBatchCorpus(corpusDir) {
		if observeBatch(&bc) {
			bcases = append(bcases, bc)
			res.Count("batch_corpus")
		}
	}
	distinct := map[string]bool{}
	add := func(c Case) {
		cases = append(cases, c)
		key := caseCoq(c)
		if c.Prev.Nv != 0 || c.Curr.Nv != 0 || c.Prev.Cur != c.Curr.Cur {
			distinct[key] = true
		}
	}
	for _, c := range loadCorpus(corpusDir) {
		if observe(&c) {
			add(c)
			res.Count("corpus")
		}
	}
	for len(cases) < n {
		tbl := randTable(r)
		guard := guardOK(tbl)
		if guard {
			res.Count("table_guard_ok")
		} else {
			res.Count("table_guard_violated")
		}
		prev := Hdr{Num: uint64(r.Intn(40)), Cur: 1}
		if tbl[0].MinWait >= 40 {
			prev.Num = uint64(r.Intn(4)) // a young chain: every round is below the minimum wait
			res.Count("young_chain_large_waits")
		}
		if r.Chance(8) { // junk start: correspondence only, no oracle
			prev.Nv, prev.Nvb, prev.Nso, prev.Na = uint64(r.Intn(4)), uint64(r.Intn(60)), uint64(r.Intn(60)), uint64(r.Intn(8))
			guard = false
		}
		g := &ghost{}
		chain := []Hdr{prev}
		steps := 5 + r.Heavy(120)
		for s := 0; s < steps && len(cases) < n; s++ {
			c := Case{Tbl: tbl, Prev: prev}
			c.Curr = Hdr{Num: prev.Num + 1}
			if !observe(&c) {
				res.Count("crit_skipped")
				break
			}
			honest := c.Proc
			if !c.ProcOk {
				res.Count("process_error")
				honest = Hdr{Num: prev.Num + 1, Cur: prev.Cur}
			}
			adversarial := r.Chance(45)
			// a proposal that outlived its window below the threshold: let honest
			// builders carry on so that the oracle sees where it leads
			zombie := false
			if pp, ok := inTable(tbl, prev.Cur); ok && g.live && prev.Num >= g.nvb && g.inWindow < pp.Threshold {
				zombie = true
				adversarial = false
				if s+1 >= steps && prev.Num < g.nso && steps < 400 {
					steps++
				}
			}
			if adversarial && prev.Nv == 0 && honest.Nv != 0 && r.Chance(35) {
				// a new proposal whose only wrong field is the announced switch round
				pp, _ := inTable(tbl, prev.Cur)
				round := prev.Num + 1
				c.Curr = honest
				c.Curr.Nso = r.Pick([]uint64{round + 1, round + 2, round, 0, 1, pp.MinWait - 1, honest.Nvb, honest.Nvb + 1,
					honest.Nvb + pp.MinWait - 1, honest.Nvb + pp.MaxWait + 1, uint64(r.Intn(8))})
				res.Count("new_proposal_switch_round_mutated")
			} else if adversarial {
				c.Curr = mutate(r, tbl, prev, honest)
			} else {
				c.Curr = honest
				// an honest node may also not know the proposed version: drop the approval
				if !zombie && r.Chance(20) && honest.Nv != 0 && honest.Na == prev.Na+1 {
					c.Curr.Na = prev.Na
				}
			}
			if !observe(&c) {
				res.Count("crit_skipped")
				continue
			}
			add(c)
			if c.Verify == 0 {
				res.Count("verify_accept")
			} else {
				res.Count("verify_reject")
			}
			switch {
			case c.Curr.Cur != prev.Cur && c.Verify == 0:
				res.Count("accepted_switch")
			case prev.Nv == 0 && c.Curr.Nv != 0 && c.Verify == 0:
				res.Count("accepted_new_proposal")
			case prev.Nv != 0 && c.Curr.Nv == 0 && c.Verify == 0:
				res.Count("accepted_failed_proposal")
			case prev.Nv != 0 && c.Curr.Na == prev.Na+1 && c.Verify == 0:
				res.Count("accepted_approval")
			}
			// oracle: honest successor must verify
			if guard && c.ProcOk && !adversarial && c.Curr == honest && c.Verify != 0 {
				res.OracleHits = append(res.OracleHits, hit{What: "honestly derived header rejected by the verifier", Chain: append(append([]Hdr{}, chain...), c.Curr), Tbl: tbl})
			}
			if c.Verify == 0 && c.Curr.Num == prev.Num+1 {
				if guard {
					if what := g.step(tbl, prev, c.Curr); what != "" {
						res.OracleHits = append(res.OracleHits, hit{What: what, Chain: append(append([]Hdr{}, chain...), c.Curr), Tbl: tbl})
						guard = false
					}
				}
				prev = c.Curr
				chain = append(chain, prev)
			}
		}
		if len(bcases) < maxBatches {
			bcases = append(bcases, genBatches(r, res, tbl, chain, minInt(2+len(chain)/8, maxBatches-len(bcases)))...)
		}
	}
	for i := range bcases {
		if what := batchWhat(&bcases[i]); what != "" {
			b := bcases[i]
			res.OracleHits = append(res.OracleHits, hit{What: what, Tbl: b.Tbl, Batch: &b})
		}
	}
	var sb strings.Builder
	sb.WriteString("From VF.C12 Require Import Model.\nLocal Open Scope N_scope.\nDefinition cases : list case := [\n")
	for i, c := range cases {
		if i > 0 {
			sb.WriteString(";\n")
		}
		sb.WriteString(caseCoq(c))
	}
	sb.WriteString("].\nDefinition bcases : list bcase := [\n")
	nb := 0
	for _, c := range bcases {
		for _, which := range []int{c.Blocks, c.Headers} {
			if nb > 0 {
				sb.WriteString(";\n")
			}
			sb.WriteString(bcaseCoq(c, which))
			nb++
		}
	}
	sb.WriteString("].\nDefinition M := Eval vm_compute in (mismatches cases ++ bmismatches_from (N.of_nat (length cases)) bcases).\nPrint M.\n")
	res.Extra["batch_cases"] = len(bcases)
	vf.WriteFile(filepath.Join(outDir, "Cases.v"), sb.String())
	res.Cases = len(cases)
	res.Distinct = len(distinct)
	res.Rule = "random scaled-down parameter tables (10% outside the guard); header chains walked from a clean start, each successor either the builder's own header or a mutation of 1-5 of its version fields to boundary values (round, window end, switch round, threshold, +-1); a case is one (table, prev, curr) pair with the implementation's verify verdict and process result; batch cases (about a fifth as many) take a segment of a walked chain as the batch for the two chain-level wrappers on a real BlockChain, with a random-length prefix stored as already known canonical blocks and, in 60%, one element (preferably the first unknown one) replaced by a mutation or by the version fields of the header below the batch; non-trivial = carries a proposal or a version change; distinct by full input"
	for i, c := range cases {
		res.CaseDescs = append(res.CaseDescs, c)
		if i < 3 || (len(res.Samples) < 6 && c.Verify == 0 && c.Curr.Cur != c.Prev.Cur) {
			res.Samples = append(res.Samples, c)
		}
	}
	res.Write(filepath.Join(outDir, "result.json"))
}

func tables(out string) {
	var sb strings.Builder
	sb.WriteString("(* GENERATED by harness/cmd/c12 from params.Versions of the working tree. Do not edit. *)\nFrom VF.C12 Require Import Model.\nLocal Open Scope N_scope.\n")
	nets := []struct {
		name string
		id   uint64
	}{{"mainnet", params.MainNetId}, {"testnet", params.TestNetId}, {"testcase", params.NetworkIdForTestCase}}
	var names []string
	for _, nt := range nets {
		params.InitNetworkId(nt.id)
		var vs []int
		for v := range params.Versions {
			vs = append(vs, int(v))
		}
		sort.Ints(vs)
		var tbl []Proto
		for _, v := range vs {
			yp := params.Versions[params.YouVersion(v)]
			tbl = append(tbl, Proto{uint64(v), yp.UpgradeVoteRounds, yp.UpgradeThreshold, yp.MinUpgradeWaitRounds, yp.MaxUpgradeWaitRounds, uint64(yp.ApprovedUpgradeVersion), yp.UpgradeWaitRounds})
		}
		sb.WriteString(fmt.Sprintf("Definition table_%s : table := %s.\n", nt.name, tblCoq(tbl)))
		names = append(names, "table_"+nt.name)
	}
	sb.WriteString("Definition all_tables : list table := " + vf.List(names) + ".\n")
	vf.WriteIfChanged(out, sb.String())
}

func replay(file string) {
	b, err := ioutil.ReadFile(file)
	if err != nil {
		fmt.Println(err)
		os.Exit(2)
	}
	var rp struct {
		Case  *Case `json:"case"`
		Chain []Hdr `json:"chain"`
		Tbl   []Proto `json:"tbl"`
		Batch *BCase  `json:"batch"`
	}
	if err := json.Unmarshal(b, &rp); err != nil {
		fmt.Println(err)
		os.Exit(2)
	}
	if rp.Batch != nil {
		initChain()
		c := *rp.Batch
		if !observeBatch(&c) {
			fmt.Println("batch not executable (Crit path)")
			os.Exit(2)
		}
		fmt.Printf("batch of %d (known prefix %d): blocks=%d headers=%d link-by-link=%d\n", len(c.Chain), c.Known, c.Blocks, c.Headers, c.Expect)
		if what := batchWhat(&c); what != "" {
			fmt.Println("ORACLE VIOLATION:", what)
			os.Exit(1)
		}
		fmt.Println("property holds on this input")
		return
	}
	if rp.Case != nil {
		c := *rp.Case
		observe(&c)
		fmt.Printf("verify=%d process_ok=%v process=%+v\n", c.Verify, c.ProcOk, c.Proc)
	}
	if len(rp.Chain) > 1 {
		g := &ghost{}
		for i := 0; i+1 < len(rp.Chain); i++ {
			c := Case{Tbl: rp.Tbl, Prev: rp.Chain[i], Curr: rp.Chain[i+1]}
			observe(&c)
			fmt.Printf("link %d -> %d: verify=%d\n", i, i+1, c.Verify)
			if c.Verify == 0 {
				if what := g.step(rp.Tbl, c.Prev, c.Curr); what != "" {
					fmt.Println("ORACLE VIOLATION:", what)
					os.Exit(1)
				}
			}
		}
	}
}

func main() {
	mode := ""
	if len(os.Args) > 1 {
		mode = os.Args[1]
		os.Args = append(os.Args[:1], os.Args[2:]...)
	}
	seed := flag.Uint64("seed", 1, "")
	n := flag.Int("n", 500, "")
	out := flag.String("out", ".", "")
	corpus := flag.String("corpus", "/verif/corpus/C12", "")
	file := flag.String("file", "", "")
	flag.Parse()
	params.InitNetworkId(params.NetworkIdForTestCase)
	switch mode {
	case "gen":
		gen(*seed, *n, *out, *corpus)
	case "tables":
		tables(*out)
	case "replay":
		replay(*file)
	default:
		fmt.Println("usage: c12 gen|tables|replay")
		os.Exit(2)
	}
}
