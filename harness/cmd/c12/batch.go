// C12 harness, chain-level part: (*core.BlockChain).VerifyYouVersionState and
// VerifyYouVersionState2 are what InsertChain / InsertHeaderChain call for every
// imported batch.  They run here on a real BlockChain over a memory database;
// the canonical header below the batch and the "already known" prefix of a
// batch are stored the way an earlier import leaves them.
package main

import (
	"fmt"
	"math/big"
	"strings"

	"github.com/youchainhq/go-youchain/consensus/solo"
	"github.com/youchainhq/go-youchain/core"
	"github.com/youchainhq/go-youchain/core/rawdb"
	"github.com/youchainhq/go-youchain/core/types"
	"github.com/youchainhq/go-youchain/local"
	"github.com/youchainhq/go-youchain/params"
	"github.com/youchainhq/go-youchain/youdb"
	"verif/harness/vf"
)

// BCase is one batch case: table, the canonical header below the batch, the
// batch, how many of its first elements the node already has, and the observed
// results of both wrappers (-1 = accepted, i = index of the rejected element).
type BCase struct {
	Tbl     []Proto `json:"tbl"`
	Parent  Hdr     `json:"parent"`
	Chain   []Hdr   `json:"chain"`
	Known   int     `json:"known"`
	Blocks  int     `json:"res_blocks"`
	Headers int     `json:"res_headers"`
	Expect  int     `json:"expect"` // link-by-link with the real pairwise verifier
	Honest  bool    `json:"honest"` // every element is the builder's own header
	Comment string  `json:"comment,omitempty"`
}

var (
	theChain *core.BlockChain
	theDb    youdb.Database
	nonce    uint64
)

// initChain must run while the standard parameter table is installed.
func initChain() {
	if theChain != nil {
		return
	}
	params.InitNetworkId(params.NetworkIdForTestCase)
	theDb = youdb.NewMemDatabase()
	g := core.Genesis{NetworkId: params.NetworkIdForTestCase, CurrVersion: params.YouV1, Alloc: core.GenesisAlloc{}}
	if _, err := core.SetupGenesisBlock(theDb, params.NetworkIdForTestCase, &g); err != nil {
		panic(err)
	}
	bc, err := core.NewBlockChain(theDb, solo.NewSolo(), nil, params.ArchiveNode, local.FakeDetailDB())
	if err != nil {
		panic(err)
	}
	theChain = bc
}

// fullHeader gives the version fields a complete header around them; Extra makes
// the hash unique per use, so that "unknown" elements are really unknown.
func fullHeader(h Hdr, parent *types.Header) *types.Header {
	nonce++
	x := toHeader(h)
	x.GasRewards, x.Subsidy = big.NewInt(0), big.NewInt(0)
	x.Time = h.Num
	x.Extra = []byte(fmt.Sprintf("c12-%d", nonce))
	if parent != nil {
		x.ParentHash = parent.Hash()
	}
	return x
}

func storeCanonical(b *types.Block) {
	rawdb.WriteBlock(theDb, b)
	rawdb.WriteCanonicalHash(theDb, b.Hash(), b.NumberU64())
}

// observeBatch runs both wrappers and the link-by-link expectation.
// ok=false when a link would hit logging.Crit.
func observeBatch(c *BCase) bool {
	install(c.Tbl)
	// every link must be executable without Crit
	prev := c.Parent
	for _, h := range c.Chain {
		pc := Case{Tbl: c.Tbl, Prev: prev, Curr: h}
		if !observe(&pc) {
			return false
		}
		prev = h
	}
	install(c.Tbl)
	ph := fullHeader(c.Parent, nil)
	storeCanonical(types.NewBlockWithHeader(ph))
	var blocks types.Blocks
	var headers []*types.Header
	last := ph
	for i, h := range c.Chain {
		x := fullHeader(h, last)
		b := types.NewBlockWithHeader(x)
		if i < c.Known {
			storeCanonical(b)
		}
		blocks = append(blocks, b)
		headers = append(headers, x)
		last = x
	}
	c.Expect = -1
	pp := ph
	for i, x := range headers {
		if err := core.VerifyYouVersionState(pp, x); err != nil {
			c.Expect = i
			break
		}
		pp = x
	}
	res := func(i int, err error) int {
		if err == nil {
			return -1
		}
		return i
	}
	c.Blocks = res(theChain.VerifyYouVersionState(blocks))
	c.Headers = res(theChain.VerifyYouVersionState2(headers))
	// leave no canonical entries above the parent behind for the next case
	for _, b := range blocks {
		rawdb.DeleteCanonicalHash(theDb, b.NumberU64())
	}
	rawdb.DeleteCanonicalHash(theDb, ph.Number.Uint64())
	return true
}

func batchWhat(c *BCase) string {
	for _, r := range []struct {
		name string
		got  int
	}{{"VerifyYouVersionState(blocks)", c.Blocks}, {"VerifyYouVersionState2(headers)", c.Headers}} {
		switch {
		case r.got == -1 && c.Expect != -1:
			return fmt.Sprintf("chain-level verifier %s accepted a batch although the pairwise verifier rejects its link %d (known prefix %d)", r.name, c.Expect, c.Known)
		case r.got != -1 && c.Expect == -1 && c.Honest:
			return fmt.Sprintf("chain-level verifier %s rejected (at %d) a batch of honestly derived headers every link of which the pairwise verifier accepts (known prefix %d)", r.name, r.got, c.Known)
		case r.got != -1 && c.Expect == -1:
			return fmt.Sprintf("chain-level verifier %s rejected (at %d) a batch every link of which the pairwise verifier accepts (known prefix %d)", r.name, r.got, c.Known)
		case r.got != c.Expect:
			return fmt.Sprintf("chain-level verifier %s reports element %d, the first rejected link is %d (known prefix %d)", r.name, r.got, c.Expect, c.Known)
		}
	}
	return ""
}

// genBatches derives batch cases from a walked (accepted) chain: a segment of it
// as the batch, a known prefix of random length, and optionally one element
// replaced by a mutation (often one the pairwise verifier rejects).
func genBatches(r *vf.Rng, res *vf.Result, tbl []Proto, chain []Hdr, want int) []BCase {
	var out []BCase
	if len(chain) < 3 {
		return out
	}
	for tries := 0; len(out) < want && tries < want*4; tries++ {
		p := r.Intn(len(chain) - 2)
		m := 1 + r.Intn(minInt(6, len(chain)-1-p))
		c := BCase{Tbl: tbl, Parent: chain[p], Honest: true}
		c.Chain = append(c.Chain, chain[p+1:p+1+m]...)
		c.Known = r.Intn(m + 1)
		if r.Chance(25) {
			c.Known = 0
		}
		kind := "walked"
		if r.Chance(60) {
			// replace one element (preferably right after the known prefix) by a mutation
			i := c.Known
			if i >= m || r.Chance(30) {
				i = r.Intn(m)
			}
			prev := c.Parent
			if i > 0 {
				prev = c.Chain[i-1]
			}
			pc := Case{Tbl: tbl, Prev: prev, Curr: Hdr{Num: prev.Num + 1}}
			if observe(&pc) && pc.ProcOk {
				mut := mutate(r, tbl, prev, pc.Proc)
				if r.Chance(35) && p > 0 {
					// the stale-parent shape: copy the version fields of the header below the batch
					mut = c.Parent
					mut.Num = prev.Num + 1
				}
				mut.Num = prev.Num + 1 // numbering is header verification's business; the wrappers look the parent up by number
				c.Chain[i] = mut
				c.Chain = c.Chain[:i+1+r.Intn(m-i)]
				c.Honest = false
				kind = "mutated"
			}
		}
		if c.Known > len(c.Chain) {
			c.Known = len(c.Chain)
		}
		if !observeBatch(&c) {
			res.Count("batch_crit_skipped")
			continue
		}
		res.Count("batch_" + kind)
		if c.Known > 0 && c.Known < len(c.Chain) {
			res.Count("batch_known_prefix_then_new")
		}
		if c.Expect == -1 {
			res.Count("batch_all_links_ok")
		} else {
			res.Count("batch_has_rejected_link")
			if c.Expect >= c.Known && c.Known > 0 {
				res.Count("batch_rejected_link_after_known_prefix")
			}
		}
		out = append(out, c)
	}
	return out
}

func minInt(a, b int) int {
	if a < b {
		return a
	}
	return b
}

func optN(i int) string {
	if i < 0 {
		return "None"
	}
	return fmt.Sprintf("(Some %d)", i)
}

func bcaseCoq(c BCase, which int) string {
	var hs []string
	for _, h := range c.Chain {
		hs = append(hs, hdrCoq(h))
	}
	return fmt.Sprintf("mkBCase %s %s [%s] %s", tblCoq(c.Tbl), hdrCoq(c.Parent), strings.Join(hs, "; "), optN(which))
}
