// C16 harness: generates multi-contract EVM programs (nested CALL / CALLCODE /
// DELEGATECALL / STATICCALL / CREATE / CREATE2, SSTORE / LOG / SELFDESTRUCT,
// REVERT / INVALID / out-of-gas at random points), compiles them to byte code,
// runs them through the real vm.EVM of the working tree on a real StateDB with
// core.CanTransfer / core.Transfer, and
//   - writes each case (abstract program + observed result) as a Coq term so
//     that the model of coq/C16/Model.v is evaluated on the same input, and
//   - evaluates four oracles on the implementation's own observations (taken
//     with a vm.Tracer and StateDB dumps around every call/create opcode):
//     failed frame leaves no trace, static call changes nothing, balance sum
//     conserved up to SELFDESTRUCT-to-self burns, gas returned <= gas supplied.
package main

import (
	"bytes"
	"go/ast"
	"go/parser"
	"go/printer"
	"go/token"
	"encoding/json"
	"flag"
	"fmt"
	"io/ioutil"
	"math/big"
	"os"
	"path/filepath"
	"sort"
	"strings"
	"time"

	"github.com/youchainhq/go-youchain/common"
	"github.com/youchainhq/go-youchain/core"
	"github.com/youchainhq/go-youchain/core/state"
	"github.com/youchainhq/go-youchain/core/types"
	"github.com/youchainhq/go-youchain/core/vm"
	"github.com/youchainhq/go-youchain/crypto"
	"github.com/youchainhq/go-youchain/params"
	"github.com/youchainhq/go-youchain/youdb"
	"verif/harness/vf"
)

// ---- inputs ------------------------------------------------------------------

// Addr is a symbolic address: a base address, or the CREATE / CREATE2 address
// derived from another one.
type Addr struct {
	K     string `json:"k"` // "b", "c", "c2", "p" (precompile n: only ever a beneficiary, never a call target)
	N     uint64 `json:"n,omitempty"`
	S     *Addr  `json:"s,omitempty"`
	Nonce uint64 `json:"nonce,omitempty"`
	Salt  string `json:"salt,omitempty"`
	Init  int    `json:"init,omitempty"`
}

type Act struct {
	Op     string   `json:"op"` // sstore log call create selfdestruct nop stop return revert invalid
	K      string   `json:"key,omitempty"`
	V      string   `json:"v,omitempty"`
	Topics []string `json:"topics,omitempty"`
	Dlen   int      `json:"dlen,omitempty"`
	Kind   int      `json:"kind,omitempty"` // 0 CALL 1 CALLCODE 2 DELEGATECALL 3 STATICCALL
	Gas    string   `json:"gas,omitempty"`
	To     *Addr    `json:"to,omitempty"`
	Req    bool     `json:"req,omitempty"`
	Two    bool     `json:"two,omitempty"`
	Salt   string   `json:"salt,omitempty"`
	Init   int      `json:"init,omitempty"`
	Ben    *Addr    `json:"ben,omitempty"`
	N      int      `json:"n,omitempty"`
	C      int      `json:"c,omitempty"`
	Flavor int      `json:"flavor,omitempty"`
	Neg    bool     `json:"neg,omitempty"` // op "if": skip the next N actions when (storage[K] == V) xor Neg; action N+1 after it must be a nop
}

type Code struct {
	Id   int   `json:"id"`
	Acts []Act `json:"acts"`
	Pad  int   `json:"pad,omitempty"`
	code []byte
}

type Acct struct {
	A     Addr        `json:"a"`
	Nonce uint64      `json:"nonce"`
	Bal   string      `json:"bal"`
	Code  int         `json:"code"`
	Stor  [][2]string `json:"stor,omitempty"`
}

type Case struct {
	Codes   []*Code `json:"codes"`
	Accts   []Acct  `json:"accts"`
	Create  bool    `json:"create,omitempty"`
	Origin  Addr    `json:"origin"`
	To      Addr    `json:"to"`
	Init    int     `json:"init,omitempty"`
	Gas     uint64  `json:"gas"`
	Value   string  `json:"value"`
	Comment string  `json:"comment,omitempty"`
	// a block: transactions run one after the other on one StateDB with Finalise(true)
	// in between.  When Multi is false the block is the single transaction above.
	Multi bool `json:"multi,omitempty"`
	Txs   []Tx `json:"txs,omitempty"`
}

type Tx struct {
	Create bool   `json:"create,omitempty"`
	To     Addr   `json:"to"`
	Init   int    `json:"init,omitempty"`
	Gas    uint64 `json:"gas"`
	Value  string `json:"value"`
}

func (c *Case) txs() []Tx {
	if c.Multi && len(c.Txs) > 0 {
		return c.Txs
	}
	return []Tx{{Create: c.Create, To: c.To, Init: c.Init, Gas: c.Gas, Value: c.Value}}
}

type Obs struct {
	A      Addr        `json:"a"`
	Exists bool        `json:"exists"`
	Nonce  uint64      `json:"nonce"`
	Bal    string      `json:"bal"`
	Code   int         `json:"code"`
	Dead   bool        `json:"dead"`
	Stor   [][2]string `json:"stor,omitempty"`
}
type LogObs struct {
	Index  uint     `json:"index"`
	A      Addr     `json:"a"`
	Topics []string `json:"topics"`
	Dlen   int      `json:"dlen"`
}
type TxResult struct {
	Status int    `json:"status"`
	Err    string `json:"err,omitempty"`
	Gas    uint64 `json:"gas"`
	Accts  []Obs  `json:"accts"`
	Refund uint64 `json:"refund"`
	Burnt  string `json:"burnt"`
	LogCnt uint   `json:"log_count"`
}
type Result struct {
	Final []Obs          `json:"final"`
	Txs   []TxResult     `json:"txs"`
	Logs  []LogObs       `json:"logs"`
	Hits  []string       `json:"hits,omitempty"`
	Stats map[string]int `json:"-"`
}

func big10(s string) *big.Int {
	if s == "" {
		return new(big.Int)
	}
	b, ok := new(big.Int).SetString(s, 10)
	if !ok {
		panic("bad number " + s)
	}
	return b
}

func baseAddr(n uint64) common.Address {
	return common.BigToAddress(new(big.Int).Add(new(big.Int).Lsh(big.NewInt(0xC16), 64), new(big.Int).SetUint64(n)))
}

// ---- compiler ------------------------------------------------------------------

type compiler struct {
	codes map[int]*Code
}

func (cp *compiler) real(a *Addr) common.Address {
	switch a.K {
	case "b":
		return baseAddr(a.N)
	case "p":
		return common.BytesToAddress([]byte{byte(a.N)})
	case "c":
		return crypto.CreateAddress(cp.real(a.S), a.Nonce)
	case "c2":
		return crypto.CreateAddress2(cp.real(a.S), common.BigToHash(big10(a.Salt)), cp.bytes(a.Init))
	}
	panic("bad addr kind " + a.K)
}

func (cp *compiler) bytes(id int) []byte {
	if id == 0 {
		return nil
	}
	c := cp.codes[id]
	if c == nil {
		panic(fmt.Sprintf("unknown code id %d", id))
	}
	return c.code
}

func push32(b *bytes.Buffer, v *big.Int) {
	b.WriteByte(0x7f)
	b.Write(common.LeftPadBytes(v.Bytes(), 32))
}
func push20(b *bytes.Buffer, a common.Address) { b.WriteByte(0x73); b.Write(a.Bytes()) }
func push1(b *bytes.Buffer, v byte)             { b.WriteByte(0x60); b.WriteByte(v) }
func push2(b *bytes.Buffer, v int)              { b.WriteByte(0x61); b.WriteByte(byte(v >> 8)); b.WriteByte(byte(v)) }

// compile turns the action list into byte code: body, STOP, then the byte code of
// every code the body copies (init codes, returned runtime codes), then padding.
func (cp *compiler) compile(c *Code) []byte {
	var b bytes.Buffer
	type fix struct{ pos, child int }
	var fixes []fix
	var children []int
	child := func(id int) {
		for _, x := range children {
			if x == id {
				return
			}
		}
		children = append(children, id)
	}
	copyCode := func(id int) { // PUSH2 len PUSH2 off PUSH1 0 CODECOPY
		child(id)
		push2(&b, len(cp.bytes(id)))
		fixes = append(fixes, fix{b.Len() + 1, id})
		push2(&b, 0)
		push1(&b, 0)
		b.WriteByte(0x39)
	}
	epilogue := func(req bool) {
		if !req {
			b.WriteByte(0x50)
			return
		}
		dest := b.Len() + 3 + 1 + 2 + 2 + 1
		push2(&b, dest)
		b.WriteByte(0x57)
		push1(&b, 0)
		push1(&b, 0)
		b.WriteByte(0xfd)
		b.WriteByte(0x5b)
	}
	starts := make([]int, len(c.Acts)+1)
	type jfix struct{ pos, target int }
	var jfixes []jfix
	for ai, a := range c.Acts {
		starts[ai] = b.Len()
		switch a.Op {
		case "if":
			t := ai + a.N + 1
			if t >= len(c.Acts) || c.Acts[t].Op != "nop" || c.Acts[t].N < 1 {
				panic("if: the action after the skipped ones must be a nop")
			}
			push32(&b, big10(a.V))
			push32(&b, big10(a.K))
			b.WriteByte(0x54)
			b.WriteByte(0x14)
			if a.Neg {
				b.WriteByte(0x15)
			}
			jfixes = append(jfixes, jfix{b.Len() + 1, t})
			push2(&b, 0)
			b.WriteByte(0x57)
		case "sstore":
			push32(&b, big10(a.V))
			push32(&b, big10(a.K))
			b.WriteByte(0x55)
		case "log":
			for i := len(a.Topics) - 1; i >= 0; i-- {
				push32(&b, big10(a.Topics[i]))
			}
			push2(&b, a.Dlen)
			push1(&b, 0)
			b.WriteByte(byte(0xa0 + len(a.Topics)))
		case "call":
			push1(&b, 0)
			push1(&b, 0)
			push1(&b, 0)
			push1(&b, 0)
			if a.Kind == 0 || a.Kind == 1 {
				push32(&b, big10(a.V))
			}
			push20(&b, cp.real(a.To))
			push32(&b, big10(a.Gas))
			b.WriteByte([]byte{0xf1, 0xf2, 0xf4, 0xfa}[a.Kind])
			epilogue(a.Req)
		case "create":
			copyCode(a.Init)
			if a.Two {
				push32(&b, big10(a.Salt))
			}
			push2(&b, len(cp.bytes(a.Init)))
			push1(&b, 0)
			push32(&b, big10(a.V))
			if a.Two {
				b.WriteByte(0xf5)
			} else {
				b.WriteByte(0xf0)
			}
			epilogue(a.Req)
		case "selfdestruct":
			push20(&b, cp.real(a.Ben))
			b.WriteByte(0xff)
		case "nop":
			for i := 0; i < a.N; i++ {
				b.WriteByte(0x5b)
			}
		case "stop":
			b.WriteByte(0x00)
		case "return":
			if a.C == 0 {
				push1(&b, 0)
				push1(&b, 0)
				b.WriteByte(0xf3)
			} else {
				copyCode(a.C)
				push2(&b, len(cp.bytes(a.C)))
				push1(&b, 0)
				b.WriteByte(0xf3)
			}
		case "revert":
			push1(&b, 0)
			push1(&b, 0)
			b.WriteByte(0xfd)
		case "invalid":
			switch a.Flavor % 4 {
			case 3: // out of gas: JUMPDEST PUSH2 here JUMP
				here := b.Len()
				b.WriteByte(0x5b)
				push2(&b, here)
				b.WriteByte(0x56)
			case 0:
				b.WriteByte(0xfe)
			case 1:
				b.WriteByte(0x50) // POP on the empty stack
			case 2:
				push2(&b, 0xffff)
				b.WriteByte(0x56) // JUMP to a non-JUMPDEST
			}
		default:
			panic("bad op " + a.Op)
		}
	}
	b.WriteByte(0x00)
	out := b.Bytes()
	for _, f := range jfixes {
		out[f.pos] = byte(starts[f.target] >> 8)
		out[f.pos+1] = byte(starts[f.target])
	}
	offs := map[int]int{}
	for _, id := range children {
		offs[id] = len(out)
		out = append(out, cp.bytes(id)...)
	}
	for _, f := range fixes {
		o := offs[f.child]
		out[f.pos] = byte(o >> 8)
		out[f.pos+1] = byte(o)
	}
	for i := 0; i < c.Pad; i++ {
		out = append(out, 0xfe)
	}
	if len(out) > 0xfff0 {
		panic("code too long")
	}
	return out
}

// prepare compiles all codes of a case in order (a code only refers to earlier ids).
func prepare(c *Case) (*compiler, error) {
	cp := &compiler{codes: map[int]*Code{}}
	var err error
	func() {
		defer func() {
			if r := recover(); r != nil {
				err = fmt.Errorf("%v", r)
			}
		}()
		seen := map[string]int{}
		for _, k := range c.Codes {
			if k.Id <= 0 || cp.codes[k.Id] != nil {
				panic(fmt.Sprintf("bad code id %d", k.Id))
			}
			k.code = cp.compile(k)
			if other, dup := seen[string(k.code)]; dup {
				panic(fmt.Sprintf("codes %d and %d compile to the same bytes", other, k.Id))
			}
			seen[string(k.code)] = k.Id
			cp.codes[k.Id] = k
		}
	}()
	return cp, err
}

// ---- running the implementation ------------------------------------------------

type acctDump struct {
	exists bool
	nonce  uint64
	bal    *big.Int
	code   common.Hash
	dead   bool
	stor   map[common.Hash]common.Hash
}
type dump struct {
	logsize uint // the block-wide log counter
	accts  map[common.Address]*acctDump
	nlogs  int
	logsig common.Hash
	refund uint64
}

type env struct {
	cp      *compiler
	c       *Case
	db      *state.StateDB
	thash   common.Hash
	initial map[common.Address][]common.Hash // committed accounts and their keys
	negative string                           // an address seen with a negative balance
}

func (e *env) dumpNow() *dump {
	d := &dump{accts: map[common.Address]*acctDump{}, refund: e.db.GetRefund(), logsize: e.db.VerifC16LogSize()}
	keys := map[common.Address][]common.Hash{}
	for a, ks := range e.initial {
		keys[a] = append(keys[a], ks...)
	}
	for a, ks := range e.db.VerifC16Live() {
		keys[a] = append(keys[a], ks...)
	}
	for a, ks := range keys {
		ad := &acctDump{exists: e.db.Exist(a), nonce: e.db.GetNonce(a), bal: new(big.Int).Set(e.db.GetBalance(a)),
			code: e.db.GetCodeHash(a), dead: e.db.HasSuicided(a), stor: map[common.Hash]common.Hash{}}
		if ad.bal.Sign() < 0 && e.negative == "" {
			e.negative = fmt.Sprintf("%x has balance %v", a, ad.bal)
		}
		for _, k := range ks {
			if v := e.db.GetState(a, k); v != (common.Hash{}) {
				ad.stor[k] = v
			}
		}
		d.accts[a] = ad
	}
	logs := e.db.GetLogs(e.thash)
	d.nlogs = len(logs)
	var sb bytes.Buffer
	for _, l := range logs {
		sb.Write(l.Address.Bytes())
		for _, t := range l.Topics {
			sb.Write(t.Bytes())
		}
		sb.WriteString(fmt.Sprintf("|%d|", len(l.Data)))
	}
	d.logsig = crypto.Keccak256Hash(sb.Bytes())
	return d
}

var emptyCodeHash = crypto.Keccak256Hash(nil)

func (a *acctDump) isEmptyView() bool {
	return a == nil || !a.exists || (a.nonce == 0 && a.bal.Sign() == 0 && (a.code == emptyCodeHash || a.code == (common.Hash{})) && len(a.stor) == 0 && !a.dead)
}

// diff compares two dumps.  strict: existence matters; otherwise a missing
// account and an empty one are the same (EIP-161 view).  nonceFree: an address
// whose nonce may have grown by one (the creator of a failed CREATE).
func diff(pre, post *dump, strict bool, nonceFree *common.Address) string {
	if pre.nlogs != post.nlogs || pre.logsig != post.logsig {
		return fmt.Sprintf("logs changed (%d -> %d)", pre.nlogs, post.nlogs)
	}
	if pre.logsize != post.logsize {
		return fmt.Sprintf("block-wide log counter (the next Log.Index) changed (%d -> %d)", pre.logsize, post.logsize)
	}
	if pre.refund != post.refund {
		return fmt.Sprintf("refund counter changed (%d -> %d)", pre.refund, post.refund)
	}
	all := map[common.Address]bool{}
	for a := range pre.accts {
		all[a] = true
	}
	for a := range post.accts {
		all[a] = true
	}
	var addrs []common.Address
	for a := range all {
		addrs = append(addrs, a)
	}
	sort.Slice(addrs, func(i, j int) bool { return bytes.Compare(addrs[i][:], addrs[j][:]) < 0 })
	for _, a := range addrs {
		x, y := pre.accts[a], post.accts[a]
		if !strict && x.isEmptyView() && y.isEmptyView() {
			continue
		}
		xe, ye := x != nil && x.exists, y != nil && y.exists
		if xe != ye {
			if strict || !(x.isEmptyView() && y.isEmptyView()) {
				return fmt.Sprintf("account %x existence changed (%v -> %v)", a, xe, ye)
			}
			continue
		}
		if !xe {
			continue
		}
		if x.nonce != y.nonce && !(nonceFree != nil && *nonceFree == a && y.nonce == x.nonce+1) {
			return fmt.Sprintf("nonce of %x changed (%d -> %d)", a, x.nonce, y.nonce)
		}
		if x.bal.Cmp(y.bal) != 0 {
			return fmt.Sprintf("balance of %x changed (%v -> %v)", a, x.bal, y.bal)
		}
		if x.code != y.code {
			return fmt.Sprintf("code of %x changed", a)
		}
		if x.dead != y.dead {
			return fmt.Sprintf("suicided flag of %x changed", a)
		}
		ks := map[common.Hash]bool{}
		for k := range x.stor {
			ks[k] = true
		}
		for k := range y.stor {
			ks[k] = true
		}
		var sk []common.Hash
		for k := range ks {
			sk = append(sk, k)
		}
		sort.Slice(sk, func(i, j int) bool { return bytes.Compare(sk[i][:], sk[j][:]) < 0 })
		for _, k := range sk {
			if x.stor[k] != y.stor[k] {
				return fmt.Sprintf("storage of %x at %x changed (%x -> %x)", a, k, x.stor[k], y.stor[k])
			}
		}
	}
	return ""
}

func (d *dump) total() *big.Int {
	t := new(big.Int)
	for _, a := range d.accts {
		if a.exists {
			t.Add(t, a.bal)
		}
	}
	return t
}

// ---- tracer: frame bookkeeping and the oracles -----------------------------------

type pending struct {
	op        vm.OpCode
	pre       *dump
	gasBefore uint64
	cost      uint64
	temp      uint64
	value     *big.Int
	self      common.Address
	static    bool
}
type frame struct {
	lastGas  uint64
	firstGas uint64
	pend     *pending
	burnt    *big.Int
	events   int
}

type tracer struct {
	e      *env
	frames []*frame // index = depth-1
	hits   []string
	stats  map[string]int
	stipend uint64
}

func (t *tracer) hit(s string) {
	if len(t.hits) < 8 {
		t.hits = append(t.hits, s)
	}
}

func (t *tracer) CaptureStart(from common.Address, to common.Address, call bool, input []byte, gas uint64, value *big.Int) error {
	return nil
}
func (t *tracer) CaptureEnd(output []byte, gasUsed uint64, tm time.Duration, err error) error {
	return nil
}
func (t *tracer) CaptureFault(evm *vm.EVM, pc uint64, op vm.OpCode, gas, cost uint64, memory *vm.Memory, stack *vm.Stack, contract *vm.Contract, depth int, err error) error {
	return nil
}

func isCallOp(op vm.OpCode) bool {
	return op == vm.CALL || op == vm.CALLCODE || op == vm.DELEGATECALL || op == vm.STATICCALL
}
func isCreateOp(op vm.OpCode) bool { return op == vm.CREATE || op == vm.CREATE2 }

// settle closes the call/create that frame f (at index d-1) issued: the frames
// below have ended and f's stack top holds the result.
func (t *tracer) settle(f *frame, child *frame, gasNow uint64, stack *vm.Stack) {
	p := f.pend
	f.pend = nil
	if p == nil {
		return
	}
	data := stack.Data()
	ok := len(data) > 0 && data[len(data)-1].Sign() != 0
	post := t.e.dumpNow()
	// (4) gas returned <= gas supplied
	after := p.gasBefore - p.cost
	if p.cost > p.gasBefore {
		t.hit("gas: cost larger than available gas yet the opcode ran")
		after = 0
	}
	var supplied, kept uint64
	if isCallOp(p.op) {
		supplied = p.temp
		if (p.op == vm.CALL || p.op == vm.CALLCODE) && p.value.Sign() != 0 {
			supplied += t.stipend
		}
		kept = after
	} else {
		supplied = after
		if p.op == vm.CREATE2 {
			supplied = after - after/64
		}
		kept = after - supplied
	}
	if gasNow < kept {
		t.hit(fmt.Sprintf("gas: %v took back more gas than it was given (kept %d, now %d)", p.op, kept, gasNow))
	} else if gasNow-kept > supplied {
		t.hit(fmt.Sprintf("gas: %v returned %d gas but only %d were supplied", p.op, gasNow-kept, supplied))
	}
	if child != nil && child.events > 0 {
		if child.firstGas > supplied {
			t.hit(fmt.Sprintf("gas: callee of %v started with %d gas, %d supplied", p.op, child.firstGas, supplied))
		}
		if gasNow >= kept && gasNow-kept > child.firstGas {
			t.hit(fmt.Sprintf("gas: %v returned %d gas, callee started with %d", p.op, gasNow-kept, child.firstGas))
		}
	}
	// (1) failed frame leaves no trace
	if ok {
		t.stats["ok_"+p.op.String()]++
	} else {
		t.stats["fail_"+p.op.String()]++
	}
	if !ok {
		t.stats["frame_failed"]++
		var nf *common.Address
		if isCreateOp(p.op) {
			nf = &p.self
		}
		if w := diff(p.pre, post, true, nf); w != "" {
			t.hit(fmt.Sprintf("failed %v frame left a trace: %s", p.op, w))
		}
	} else {
		t.stats["frame_ok"]++
		if child != nil {
			f.burnt.Add(f.burnt, child.burnt)
		}
	}
	// (2) static call changes nothing
	if p.op == vm.STATICCALL || p.static {
		t.stats["static_frames"]++
		if w := diff(p.pre, post, false, nil); w != "" {
			t.hit(fmt.Sprintf("state changed under a static call (%v): %s", p.op, w))
		}
	}
}

func (t *tracer) CaptureState(evm *vm.EVM, pc uint64, op vm.OpCode, gas, cost uint64, memory *vm.Memory, stack *vm.Stack, contract *vm.Contract, depth int, err error) error {
	if depth < 1 {
		return nil
	}
	var child *frame
	if len(t.frames) > depth {
		child = t.frames[depth]
		t.frames = t.frames[:depth]
	}
	for len(t.frames) < depth {
		t.frames = append(t.frames, &frame{lastGas: gas, firstGas: gas, burnt: new(big.Int)})
		if depth > t.stats["max_depth"] {
			t.stats["max_depth"] = depth
		}
	}
	f := t.frames[depth-1]
	f.events++
	if f.pend != nil {
		t.settle(f, child, gas, stack)
	}
	if gas > f.lastGas {
		t.hit(fmt.Sprintf("gas: gas of a frame grew from %d to %d before %v at depth %d", f.lastGas, gas, op, depth))
	}
	f.lastGas = gas
	if err != nil {
		es := err.Error()
		for _, k := range []string{"out of gas", "write protection", "invalid opcode", "stack underflow", "invalid jump", "gas uint64 overflow", "reentrancy sentry"} {
			if strings.Contains(es, k) {
				es = k
			}
		}
		if len(es) > 30 {
			es = es[:30]
		}
		t.stats["err: "+es]++
		return nil
	}
	switch {
	case isCallOp(op) || isCreateOp(op):
		p := &pending{op: op, pre: t.e.dumpNow(), gasBefore: gas, cost: cost, temp: evm.VerifC16CallGasTemp(),
			value: new(big.Int), self: contract.Address(), static: evm.VerifC16ReadOnly()}
		if op == vm.CALL || op == vm.CALLCODE {
			p.value = new(big.Int).Set(stack.Back(2))
		}
		f.pend = p
		t.stats["op_"+op.String()]++
	case op == vm.SELFDESTRUCT:
		self := contract.Address()
		ben := common.BigToAddress(stack.Back(0))
		if t.e.db.HasSuicided(self) {
			t.stats["selfdestruct_again"]++
			if t.e.db.GetBalance(self).Sign() > 0 {
				t.stats["selfdestruct_again_with_balance"]++
			}
		}
		if ben == self {
			f.burnt.Add(f.burnt, t.e.db.GetBalance(self))
			t.stats["selfdestruct_to_self"]++
		} else {
			t.stats["selfdestruct_to_other"]++
		}
	case op == vm.SSTORE:
		t.stats["op_SSTORE"]++
	case op >= vm.LOG0 && op <= vm.LOG4:
		t.stats["op_LOG"]++
	}
	return nil
}

// ---- one case -----------------------------------------------------------------

func errClass(err error) int {
	if err == nil {
		return 0
	}
	if err.Error() == "evm: execution reverted" {
		return 1
	}
	return 2
}

func run(c *Case) (*Result, error) {
	cp, err := prepare(c)
	if err != nil {
		return nil, err
	}
	disk := youdb.NewMemDatabase()
	memdb := state.NewDatabase(disk)
	db0, err := state.New(common.Hash{}, common.Hash{}, common.Hash{}, memdb)
	if err != nil {
		return nil, err
	}
	initial := map[common.Address][]common.Hash{}
	symOf := map[common.Address]Addr{}
	var known []Addr
	know := func(a Addr) {
		r := cp.real(&a)
		if _, ok := symOf[r]; !ok {
			symOf[r] = a
			known = append(known, a)
		}
	}
	for _, ac := range c.Accts {
		a := cp.real(&ac.A)
		if _, dup := initial[a]; dup {
			return nil, fmt.Errorf("duplicate account")
		}
		db0.CreateAccount(a)
		db0.SetNonce(a, ac.Nonce)
		db0.SetBalance(a, big10(ac.Bal))
		if ac.Code != 0 {
			db0.SetCode(a, cp.bytes(ac.Code))
		}
		initial[a] = nil
		for _, kv := range ac.Stor {
			k := common.BigToHash(big10(kv[0]))
			db0.SetState(a, k, common.BigToHash(big10(kv[1])))
			initial[a] = append(initial[a], k)
		}
		know(ac.A)
	}
	// the previous block: committed, and the state reopened from its root
	root, valRoot, stRoot, err := db0.Commit(false)
	if err != nil {
		return nil, err
	}
	db, err := state.New(root, valRoot, stRoot, memdb)
	if err != nil {
		return nil, err
	}
	e := &env{cp: cp, c: c, db: db, initial: initial}
	yp := params.Versions[params.YouCurrentVersion]
	origin := cp.real(&c.Origin)
	res := &Result{Stats: map[string]int{}}
	var hits []string
	hit := func(s string) {
		if len(hits) < 8 {
			hits = append(hits, s)
		}
	}
	// names for the addresses the program mentions
	var mention func(a *Addr)
	mention = func(a *Addr) {
		if a == nil {
			return
		}
		if a.S != nil {
			mention(a.S)
		}
		know(*a)
	}
	mention(&c.Origin)
	type site struct {
		salt string
		init int
	}
	var sites []site
	keyset := map[common.Hash]bool{}
	for _, k := range c.Codes {
		for i := range k.Acts {
			mention(k.Acts[i].To)
			mention(k.Acts[i].Ben)
			if k.Acts[i].Op == "create" && k.Acts[i].Two {
				sites = append(sites, site{k.Acts[i].Salt, k.Acts[i].Init})
			}
			if k.Acts[i].Op == "sstore" || k.Acts[i].Op == "if" {
				keyset[common.BigToHash(big10(k.Acts[i].K))] = true
			}
		}
	}
	for _, ac := range c.Accts {
		for _, kv := range ac.Stor {
			keyset[common.BigToHash(big10(kv[0]))] = true
		}
	}
	var keys []common.Hash
	for k := range keyset {
		keys = append(keys, k)
	}
	sort.Slice(keys, func(i, j int) bool { return bytes.Compare(keys[i][:], keys[j][:]) < 0 })
	codeId := map[common.Hash]int{emptyCodeHash: 0, common.Hash{}: 0}
	for id, k := range cp.codes {
		codeId[crypto.Keccak256Hash(k.code)] = id
	}
	graveBal := map[common.Address]*big.Int{} // balance an account held when Finalise deleted it
	var lastFinal []Obs
	var thashes []common.Hash
	for ti, tx := range c.txs() {
		if !tx.Create {
			t := tx.To
			mention(&t)
		}
		thash := common.BytesToHash([]byte(fmt.Sprintf("c16-tx-%d", ti)))
		thashes = append(thashes, thash)
		db.Prepare(thash, common.Hash{}, ti)
		e.thash = thash
		tr := &tracer{e: e, stats: map[string]int{}, stipend: params.CallStipend}
		cfg := &vm.Config{
			RuntimeConfig: vm.RuntimeConfig{CurrYouParams: &yp, JumpTable: vm.GetJumpTable(yp.EVMVersion)},
			LocalConfig:   vm.LocalConfig{Debug: true, Tracer: tr},
		}
		ctx := vm.Context{CanTransfer: core.CanTransfer, Transfer: core.Transfer,
			GetHash: func(uint64) common.Hash { return common.Hash{} },
			Origin:  origin, GasPrice: new(big.Int), BlockNumber: big.NewInt(1), Time: big.NewInt(1), GasLimit: tx.Gas}
		evm := vm.NewEVM(ctx, db, cfg)
		pre := e.dumpNow()
		var left uint64
		var cerr error
		if tx.Create {
			_, _, left, cerr = evm.Create(vm.AccountRef(origin), cp.bytes(tx.Init), tx.Gas, big10(tx.Value))
		} else {
			t := tx.To
			_, left, cerr = evm.Call(vm.AccountRef(origin), cp.real(&t), nil, tx.Gas, big10(tx.Value))
		}
		post := e.dumpNow()
		txr := TxResult{Status: errClass(cerr), Gas: left, Refund: db.GetRefund(), LogCnt: db.VerifC16LogSize()}
		if cerr != nil {
			txr.Err = cerr.Error()
			if len(txr.Err) > 60 {
				txr.Err = txr.Err[:60]
			}
		}
		// ---- oracles at the top frame
		burnt := new(big.Int)
		if len(tr.frames) > 0 && cerr == nil {
			burnt = tr.frames[0].burnt
		}
		txr.Burnt = burnt.String()
		for _, h := range tr.hits {
			hit(fmt.Sprintf("%s [tx %d]", h, ti))
		}
		if left > tx.Gas {
			hit(fmt.Sprintf("gas: the transaction got back %d gas, %d supplied [tx %d]", left, tx.Gas, ti))
		}
		if cerr != nil {
			var nf *common.Address
			if tx.Create {
				nf = &origin
			}
			if w := diff(pre, post, true, nf); w != "" {
				hit(fmt.Sprintf("failed top-level frame left a trace: %s [tx %d]", w, ti))
			}
		}
		if want := new(big.Int).Sub(pre.total(), burnt); want.Cmp(post.total()) != 0 {
			what := "balance sum not conserved"
			for a, b := range graveBal {
				if x, y := pre.accts[a], post.accts[a]; (x == nil || !x.exists) && y != nil && y.exists && b.Sign() > 0 {
					what = fmt.Sprintf("balance of a deleted account resurrected (%x held %v when Finalise deleted it): balance sum not conserved", a, b)
				}
			}
			hit(fmt.Sprintf("%s: before %v, after %v, burnt by selfdestruct-to-self %v [tx %d]", what, pre.total(), post.total(), burnt, ti))
		}
		if e.negative != "" {
			hit("negative balance: " + e.negative)
		}
		// ---- observation for the model comparison: every live or committed address, symbolically named
		live := db.VerifC16Live()
		var addrs []common.Address
		for a := range initial {
			addrs = append(addrs, a)
		}
		for a := range live {
			if _, ok := initial[a]; !ok {
				addrs = append(addrs, a)
			}
		}
		for progress := true; progress; {
			progress = false
			for _, a := range addrs {
				if _, ok := symOf[a]; ok {
					continue
				}
			search:
				for _, k := range known {
					kc := k
					rk := cp.real(&kc)
					top := db.GetNonce(rk) // a surviving CREATE used a nonce below the creator's current one
					if top > 5000 {
						top = 5000
					}
					for n := uint64(0); n < top; n++ {
						if crypto.CreateAddress(rk, n) == a {
							know(Addr{K: "c", S: &kc, Nonce: n})
							progress = true
							break search
						}
					}
					for _, s := range sites {
						if crypto.CreateAddress2(rk, common.BigToHash(big10(s.salt)), cp.bytes(s.init)) == a {
							know(Addr{K: "c2", S: &kc, Salt: s.salt, Init: s.init})
							progress = true
							break search
						}
					}
				}
			}
		}
		seenObs := map[common.Address]bool{}
		addObs := func(a common.Address) error {
			if seenObs[a] {
				return nil
			}
			seenObs[a] = true
			sym, ok := symOf[a]
			if !ok {
				return fmt.Errorf("address %x in the state cannot be derived from the program", a)
			}
			o := Obs{A: sym, Exists: db.Exist(a), Nonce: db.GetNonce(a), Bal: new(big.Int).Abs(db.GetBalance(a)).String(), Dead: db.HasSuicided(a)}
			id, ok := codeId[db.GetCodeHash(a)]
			if !ok {
				id = 999999
			}
			o.Code = id
			for _, k := range keys {
				o.Stor = append(o.Stor, [2]string{new(big.Int).SetBytes(k[:]).String(), new(big.Int).SetBytes(db.GetState(a, k).Bytes()).String()})
			}
			txr.Accts = append(txr.Accts, o)
			return nil
		}
		sort.Slice(addrs, func(i, j int) bool { return bytes.Compare(addrs[i][:], addrs[j][:]) < 0 })
		for _, a := range addrs {
			if err := addObs(a); err != nil {
				return nil, err
			}
		}
		for _, k := range known { // mentioned but untouched addresses: must not exist in the model either
			kc := k
			if err := addObs(cp.real(&kc)); err != nil {
				return nil, err
			}
		}
		res.Txs = append(res.Txs, txr)
		for k, v := range tr.stats {
			if k == "max_depth" {
				if v > res.Stats[k] {
					res.Stats[k] = v
				}
			} else {
				res.Stats[k] += v
			}
		}
		// ---- Finalise(true), as core.ApplyTransaction does: only suicided accounts' balances may disappear
		deadSum := new(big.Int)
		for a, ad := range post.accts {
			if ad.exists && ad.dead {
				deadSum.Add(deadSum, ad.bal)
				graveBal[a] = new(big.Int).Set(ad.bal)
			} else if ad.exists {
				delete(graveBal, a)
			}
		}
		db.Finalise(true)
		fin := e.dumpNow()
		if want := new(big.Int).Sub(post.total(), deadSum); want.Cmp(fin.total()) != 0 {
			hit(fmt.Sprintf("balance sum changed by Finalise beyond suicided accounts: %v -> %v (suicided held %v) [tx %d]", post.total(), fin.total(), deadSum, ti))
		}
		// a self-destructed account is gone after Finalise
		for a, ad := range post.accts {
			if ad.exists && ad.dead {
				if y := fin.accts[a]; y != nil && y.exists {
					hit(fmt.Sprintf("self-destructed account %x still exists after Finalise [tx %d]", a, ti))
				}
			}
		}
		// what Finalise leaves must be what a commit persists: commit a copy, flush it to disk, open a
		// fresh StateDB on a fresh Database over the same disk and read every known account back
		{
			cp := db.Copy()
			root, vr, sr, cerr2 := cp.Commit(true)
			if cerr2 != nil {
				return nil, fmt.Errorf("commit of the copy failed: %v", cerr2)
			}
			tdb := cp.Database().TrieDB()
			for _, h := range []common.Hash{root, vr, sr} {
				if h != (common.Hash{}) {
					tdb.Commit(h, false)
				}
			}
			fresh, ferr := state.New(root, vr, sr, state.NewDatabase(disk))
			if ferr != nil {
				return nil, fmt.Errorf("cannot reopen the committed state: %v", ferr)
			}
			sumLive, sumFresh := new(big.Int), new(big.Int)
			var as []common.Address
			for a := range fin.accts {
				as = append(as, a)
			}
			sort.Slice(as, func(i, j int) bool { return bytes.Compare(as[i][:], as[j][:]) < 0 })
			lastFinal = nil
			for _, a := range as {
				x := fin.accts[a]
				fe := fresh.Exist(a)
				if x.exists {
					sumLive.Add(sumLive, x.bal)
				}
				if fe {
					sumFresh.Add(sumFresh, fresh.GetBalance(a))
				}
				what := ""
				switch {
				case x.exists != fe:
					what = fmt.Sprintf("existence %v vs %v", x.exists, fe)
				case !fe:
				case x.nonce != fresh.GetNonce(a):
					what = fmt.Sprintf("nonce %d vs %d", x.nonce, fresh.GetNonce(a))
				case x.bal.Cmp(fresh.GetBalance(a)) != 0:
					what = fmt.Sprintf("balance %v vs %v", x.bal, fresh.GetBalance(a))
				case x.code != fresh.GetCodeHash(a):
					what = "code differs"
				default:
					for _, k := range keys {
						if lv, fv := db.GetState(a, k), fresh.GetState(a, k); lv != fv {
							what = fmt.Sprintf("slot %x reads %x vs %x", k, lv, fv)
							break
						}
					}
				}
				if what != "" {
					hit(fmt.Sprintf("committed state differs from the live state after Finalise: account %x: %s (live vs reopened) [tx %d]", a, what, ti))
				}
				if sym, ok := symOf[a]; ok {
					o := Obs{A: sym, Exists: fe, Nonce: fresh.GetNonce(a), Bal: new(big.Int).Abs(fresh.GetBalance(a)).String()}
					id, ok := codeId[fresh.GetCodeHash(a)]
					if !ok {
						id = 999999
					}
					o.Code = id
					for _, k := range keys {
						o.Stor = append(o.Stor, [2]string{new(big.Int).SetBytes(k[:]).String(), new(big.Int).SetBytes(fresh.GetState(a, k).Bytes()).String()})
					}
					lastFinal = append(lastFinal, o)
				}
			}
			if sumLive.Cmp(sumFresh) != 0 {
				hit(fmt.Sprintf("balance sum of the committed state differs from the live one: %v vs %v [tx %d]", sumLive, sumFresh, ti))
			}
		}
		// storage must read the same before and after Finalise for the accounts that stay
		for a, x := range post.accts {
			y := fin.accts[a]
			if x.exists && !x.dead && y != nil && y.exists {
				for k, v := range x.stor {
					if y.stor[k] != v {
						hit(fmt.Sprintf("storage of %x at %x changed by Finalise (%x -> %x) [tx %d]", a, k, v, y.stor[k], ti))
					}
				}
			}
		}
	}
	res.Final = lastFinal
	for _, th := range thashes {
		for _, l := range db.GetLogs(th) {
			sym, ok := symOf[l.Address]
			if !ok {
				return nil, fmt.Errorf("log from unknown address %x", l.Address)
			}
			if l.Index != uint(len(res.Logs)) {
				hit(fmt.Sprintf("log indices of the block are not consecutive: log number %d of the block (emission order of the surviving logs) has Index %d", len(res.Logs), l.Index))
			}
			lo := LogObs{Index: l.Index, A: sym, Dlen: len(l.Data), Topics: []string{}}
			for _, tp := range l.Topics {
				lo.Topics = append(lo.Topics, new(big.Int).SetBytes(tp[:]).String())
			}
			res.Logs = append(res.Logs, lo)
		}
	}
	// the block's root must be computable (IntermediateRoot as the block validator does)
	db.IntermediateRoot(true)
	if n := db.VerifC16LogSize(); n != uint(len(res.Logs)) {
		hit(fmt.Sprintf("block-wide log counter is %d after a block with %d surviving logs", n, len(res.Logs)))
	}
	res.Hits = hits
	return res, nil
}

// ---- Coq printing ----------------------------------------------------------------

func addrCoq(a *Addr) string {
	switch a.K {
	case "b":
		return fmt.Sprintf("(Base %d)", a.N)
	case "p": // any injective name will do: the model never calls it
		return fmt.Sprintf("(Base %d)", 1000000+a.N)
	case "c":
		return fmt.Sprintf("(Cr %s %d)", addrCoq(a.S), a.Nonce)
	default:
		return fmt.Sprintf("(Cr2 %s %s %d)", addrCoq(a.S), big10(a.Salt).String(), a.Init)
	}
}
func nums(xs []string) string {
	out := make([]string, len(xs))
	for i, x := range xs {
		out[i] = big10(x).String()
	}
	return "[" + strings.Join(out, "; ") + "]"
}
func actCoq(a *Act) string {
	switch a.Op {
	case "sstore":
		return fmt.Sprintf("ASstore %s %s", big10(a.K), big10(a.V))
	case "log":
		return fmt.Sprintf("ALog %s %d", nums(a.Topics), a.Dlen)
	case "call":
		return fmt.Sprintf("ACall %s %s %s %s %v", []string{"KCall", "KCallCode", "KDelegate", "KStatic"}[a.Kind], big10(a.Gas), addrCoq(a.To), big10(a.V), a.Req)
	case "create":
		return fmt.Sprintf("ACreate %v %s %s %d %v", a.Two, big10(a.Salt), big10(a.V), a.Init, a.Req)
	case "selfdestruct":
		return "ASelfdestruct " + addrCoq(a.Ben)
	case "nop":
		return fmt.Sprintf("ANop %d", a.N)
	case "if":
		return fmt.Sprintf("AIf %s %s %v %d%%nat", big10(a.K), big10(a.V), a.Neg, a.N)
	case "stop":
		return "AStop"
	case "return":
		return fmt.Sprintf("AReturn %d", a.C)
	case "revert":
		return "ARevert"
	default:
		return "AInvalid"
	}
}
func pairsCoq(kv [][2]string) string {
	var xs []string
	for _, p := range kv {
		if big10(p[1]).Sign() == 0 {
			continue
		}
		xs = append(xs, fmt.Sprintf("(%s, %s)", big10(p[0]), big10(p[1])))
	}
	return "[" + strings.Join(xs, "; ") + "]"
}
func pairsAllCoq(kv [][2]string) string {
	var xs []string
	for _, p := range kv {
		xs = append(xs, fmt.Sprintf("(%s, %s)", big10(p[0]), big10(p[1])))
	}
	return "[" + strings.Join(xs, "; ") + "]"
}

func caseCoq(c *Case, r *Result) string {
	var sb strings.Builder
	sb.WriteString("mkCase [")
	for i, k := range c.Codes {
		if i > 0 {
			sb.WriteString("; ")
		}
		var as []string
		for j := range k.Acts {
			as = append(as, actCoq(&k.Acts[j]))
		}
		sb.WriteString(fmt.Sprintf("(%d, mkCode [%s] %d)", k.Id, strings.Join(as, "; "), len(k.code)))
	}
	sb.WriteString("]\n [")
	for i, a := range c.Accts {
		if i > 0 {
			sb.WriteString("; ")
		}
		sb.WriteString(fmt.Sprintf("(%s, mkAcct %d %s %d [] [] %s false)", addrCoq(&a.A), a.Nonce, big10(a.Bal), a.Code, pairsCoq(a.Stor)))
	}
	sb.WriteString("]\n [")
	for i, t := range c.txs() {
		if i > 0 {
			sb.WriteString("; ")
		}
		to := t.To
		if t.Create {
			to = c.Origin
		}
		sb.WriteString(fmt.Sprintf("mkTx %v %s %s %d %d %s", t.Create, addrCoq(&c.Origin), addrCoq(&to), t.Init, t.Gas, big10(t.Value)))
	}
	sb.WriteString("]\n [")
	for ti, x := range r.Txs {
		if ti > 0 {
			sb.WriteString(";\n ")
		}
		sb.WriteString(fmt.Sprintf("mkTxObs %d %d %d %d %s [", x.Status, x.Gas, x.Refund, x.LogCnt, big10(x.Burnt)))
		for i, o := range x.Accts {
			if i > 0 {
				sb.WriteString("; ")
			}
			sb.WriteString(fmt.Sprintf("mkObs %s %v %d %s %d %v %s", addrCoq(&o.A), o.Exists, o.Nonce, big10(o.Bal), o.Code, o.Dead, pairsAllCoq(o.Stor)))
		}
		sb.WriteString("]")
	}
	sb.WriteString("]\n [")
	for i, l := range r.Logs {
		if i > 0 {
			sb.WriteString("; ")
		}
		sb.WriteString(fmt.Sprintf("(%s, %s, %d)", addrCoq(&l.A), nums(l.Topics), l.Dlen))
	}
	sb.WriteString("] [")
	for i, l := range r.Logs {
		if i > 0 {
			sb.WriteString("; ")
		}
		sb.WriteString(fmt.Sprintf("%d", l.Index))
	}
	sb.WriteString("]\n [")
	for i, o := range r.Final {
		if i > 0 {
			sb.WriteString("; ")
		}
		sb.WriteString(fmt.Sprintf("mkObs %s %v %d %s %d %v %s", addrCoq(&o.A), o.Exists, o.Nonce, big10(o.Bal), o.Code, o.Dead, pairsAllCoq(o.Stor)))
	}
	sb.WriteString("]")
	return sb.String()
}

// ---- generator -----------------------------------------------------------------------

type gen struct {
	r      *vf.Rng
	c      *Case
	cp     *compiler
	nextId int
	rts    []int  // runtime code ids
	inits  []int  // init code ids
	pool   []Addr // call targets / beneficiaries
	nc     int
}

var two256m1 = new(big.Int).Sub(new(big.Int).Lsh(big.NewInt(1), 256), big.NewInt(1))

func (g *gen) pickBig(xs []string) string { return xs[g.r.Intn(len(xs))] }

func (g *gen) addCode(acts []Act, pad int) int {
	for try := 0; ; try++ {
		k := &Code{Id: g.nextId, Acts: acts, Pad: pad}
		k.code = g.cp.compile(k)
		dup := false
		for _, o := range g.c.Codes {
			if bytes.Equal(o.code, k.code) {
				dup = true
			}
		}
		if dup {
			acts = append([]Act{{Op: "nop", N: 1 + try + g.r.Intn(5)}}, acts...)
			continue
		}
		g.cp.codes[k.Id] = k
		g.c.Codes = append(g.c.Codes, k)
		g.nextId++
		return k.Id
	}
}

func (g *gen) target() *Addr {
	a := g.pool[g.r.Intn(len(g.pool))]
	return &a
}

func (g *gen) value() string {
	switch g.r.Intn(12) {
	case 0, 1:
		return "1"
	case 2:
		return "1000"
	case 3:
		return g.pickBig([]string{"2", "999999", "1000000000000000000000000000000", two256m1.String()})
	}
	return "0"
}

func (g *gen) callGas() string {
	switch g.r.Intn(10) {
	case 0:
		return "0"
	case 1:
		return g.pickBig([]string{"1", "699", "700", "2300", "2301", "5000"})
	case 2, 3:
		return fmt.Sprintf("%d", 1000+g.r.Intn(60000))
	case 4:
		return g.pickBig([]string{"9223372036854775808", "18446744073709551615", "18446744073709551616", two256m1.String()})
	case 5:
		return fmt.Sprintf("%d", 20000+g.r.Intn(400000))
	}
	return "100000000" // more than is left: the 63/64 branch of callGas
}

func (g *gen) act(self uint64, canCreate bool) Act {
	r := g.r
	x := r.Intn(100)
	switch {
	case x < 22:
		return Act{Op: "sstore", K: fmt.Sprintf("%d", r.Intn(4)), V: g.pickBig([]string{"0", "0", "1", "2", "7", two256m1.String(), fmt.Sprintf("%d", r.U64())})}
	case x < 31:
		n := r.Intn(5)
		a := Act{Op: "log", Dlen: []int{0, 0, 1, 32, 33, 64, 200}[r.Intn(7)], Topics: []string{}}
		for i := 0; i < n; i++ {
			a.Topics = append(a.Topics, fmt.Sprintf("%d", r.Intn(1000)))
		}
		return a
	case x < 70:
		a := Act{Op: "call", Kind: r.Intn(4), Gas: g.callGas(), To: g.target(), V: "0", Req: r.Chance(25)}
		if a.Kind < 2 {
			a.V = g.value()
		}
		return a
	case x < 82:
		if !canCreate || len(g.inits) == 0 {
			return Act{Op: "nop", N: 1 + r.Intn(40)}
		}
		a := Act{Op: "create", Two: r.Bool(), Salt: fmt.Sprintf("%d", r.Intn(3)), V: "0", Req: r.Chance(25)}
		if !a.Two {
			a.Salt = "0"
		}
		if r.Chance(30) {
			a.V = g.value()
		}
		switch {
		case r.Chance(80):
			a.Init = g.inits[r.Intn(len(g.inits))]
		case r.Chance(50) && len(g.rts) > 0:
			a.Init = g.rts[r.Intn(len(g.rts))]
		default:
			a.Init = 0
		}
		return a
	case x < 86:
		b := g.target()
		if r.Chance(40) {
			b = &Addr{K: "b", N: self}
		}
		return Act{Op: "selfdestruct", Ben: b}
	case x < 92:
		return Act{Op: "nop", N: 1 + r.Intn(50)}
	case x < 95:
		return Act{Op: "revert"}
	case x < 97:
		return Act{Op: "invalid", Flavor: r.Intn(3)}
	case x < 99:
		return Act{Op: "return", C: 0}
	}
	return Act{Op: "stop"}
}

func (g *gen) acts(self uint64, canCreate bool, max int) []Act {
	n := 1 + g.r.Intn(max)
	if g.r.Chance(8) {
		n += g.r.Heavy(30)
	}
	var out []Act
	for i := 0; i < n; i++ {
		out = append(out, g.act(self, canCreate))
	}
	switch x := g.r.Intn(100); {
	case x < 8:
		out = append(out, Act{Op: "revert"})
	case x < 13:
		out = append(out, Act{Op: "invalid", Flavor: g.r.Intn(3)})
	case x < 20:
		out = append(out, Act{Op: "return"})
	case x < 26:
		out = append(out, Act{Op: "stop"})
	}
	return out
}

func (g *gen) storage() [][2]string {
	var st [][2]string
	for k := 0; k < 4; k++ {
		if g.r.Chance(40) {
			st = append(st, [2]string{fmt.Sprintf("%d", k), g.pickBig([]string{"1", "2", "7", two256m1.String()})})
		}
	}
	return st
}

func newCase(r *vf.Rng) *Case {
	g := &gen{r: r, c: &Case{}, cp: &compiler{codes: map[int]*Code{}}, nextId: 1}
	c := g.c
	g.nc = 2 + r.Intn(4)
	origin := Addr{K: "b", N: 0}
	c.Origin = origin
	for i := 1; i <= g.nc; i++ {
		g.pool = append(g.pool, Addr{K: "b", N: uint64(i)}, Addr{K: "b", N: uint64(i)})
	}
	funded := Addr{K: "b", N: 20}
	g.pool = append(g.pool, funded, Addr{K: "b", N: 21}, Addr{K: "b", N: 22})
	// library: runtime codes (no creates), init codes returning them, second-level init codes
	nrt := 1 + r.Intn(3)
	for i := 0; i < nrt; i++ {
		pad := 0
		if r.Chance(4) {
			pad = params.MaxCodeSize - 40 + r.Intn(80) // around the code size limit
		}
		g.rts = append(g.rts, g.addCode(g.acts(uint64(1+r.Intn(g.nc)), false, 6), pad))
	}
	ninit := 1 + r.Intn(3)
	for i := 0; i < ninit; i++ {
		as := g.acts(uint64(1+r.Intn(g.nc)), i > 0, 5)
		if r.Chance(75) {
			as = append(as, Act{Op: "return", C: g.rts[r.Intn(len(g.rts))]})
		}
		g.inits = append(g.inits, g.addCode(as, 0))
	}
	// derived addresses become call targets too
	for i := 0; i < 3; i++ {
		s := Addr{K: "b", N: uint64(1 + r.Intn(g.nc))}
		if r.Bool() {
			g.pool = append(g.pool, Addr{K: "c", S: &s, Nonce: uint64(1 + r.Intn(3))})
		} else {
			g.pool = append(g.pool, Addr{K: "c2", S: &s, Salt: fmt.Sprintf("%d", r.Intn(3)), Init: g.inits[r.Intn(len(g.inits))]})
		}
	}
	c.Accts = append(c.Accts, Acct{A: origin, Nonce: uint64(r.Intn(3)), Bal: "1000000000000000000", Code: 0})
	for i := 1; i <= g.nc; i++ {
		id := g.addCode(g.acts(uint64(i), true, 10), 0)
		bal := g.pickBig([]string{"0", "1", "5", "1000", "123456789", "1000000000000"})
		c.Accts = append(c.Accts, Acct{A: Addr{K: "b", N: uint64(i)}, Nonce: uint64(1 + r.Intn(3)), Bal: bal, Code: id, Stor: g.storage()})
	}
	c.Accts = append(c.Accts, Acct{A: funded, Nonce: 0, Bal: "5", Code: 0})
	if r.Chance(15) { // a pre-funded address a CREATE may land on
		s := Addr{K: "b", N: uint64(1 + r.Intn(g.nc))}
		var nonce uint64
		for _, a := range c.Accts {
			if a.A.K == "b" && a.A.N == s.N {
				nonce = a.Nonce
			}
		}
		c.Accts = append(c.Accts, Acct{A: Addr{K: "c", S: &s, Nonce: nonce}, Nonce: 0, Bal: "77", Code: 0})
	}
	c.Value = "0"
	if r.Chance(30) {
		c.Value = g.pickBig([]string{"1", "1000", "999999999", "2000000000000000000"})
	}
	switch {
	case r.Chance(10):
		c.Create = true
		c.Init = g.inits[r.Intn(len(g.inits))]
		c.To = origin
	case r.Chance(6):
		c.To = Addr{K: "b", N: uint64(20 + r.Intn(3))}
	default:
		c.To = Addr{K: "b", N: uint64(1 + r.Intn(g.nc))}
	}
	c.Gas = 10000000
	return c
}

// chainCase: contracts 1..k, each doing a few writes, calling the next one with a
// random kind (value attached where possible), doing a few more writes and ending
// in a random way; failures therefore happen at a random level with state-changing
// work above, below and beside them.
func chainCase(r *vf.Rng) *Case {
	g := &gen{r: r, c: &Case{}, cp: &compiler{codes: map[int]*Code{}}, nextId: 1}
	c := g.c
	k := 2 + r.Intn(5)
	g.nc = k
	origin := Addr{K: "b", N: 0}
	c.Origin = origin
	funded := Addr{K: "b", N: 20}
	g.pool = []Addr{funded, {K: "b", N: 21}, {K: "b", N: 1}, {K: "b", N: uint64(k)}}
	g.rts = append(g.rts, g.addCode([]Act{{Op: "sstore", K: "0", V: "5"}, {Op: "log", Topics: []string{"1"}, Dlen: 0}}, 0))
	g.inits = append(g.inits, g.addCode([]Act{{Op: "sstore", K: "1", V: "9"}, {Op: "return", C: g.rts[0]}}, 0))
	g.inits = append(g.inits, g.addCode([]Act{{Op: "sstore", K: "1", V: "9"}, {Op: "log", Topics: []string{}, Dlen: 3}, {Op: []string{"revert", "invalid", "stop"}[r.Intn(3)]}}, 0))
	small := func(self uint64) Act {
		switch r.Intn(7) {
		case 0, 1:
			return Act{Op: "sstore", K: fmt.Sprintf("%d", r.Intn(3)), V: g.pickBig([]string{"0", "1", "2", "7"})}
		case 2:
			return Act{Op: "log", Topics: []string{fmt.Sprintf("%d", self)}, Dlen: r.Intn(40)}
		case 3:
			return Act{Op: "call", Kind: 0, Gas: g.pickBig([]string{"0", "30000"}), To: g.target(), V: g.pickBig([]string{"1", "2", "0"}), Req: r.Chance(15)}
		case 4:
			return Act{Op: "create", Two: r.Bool(), Salt: fmt.Sprintf("%d", r.Intn(2)), V: g.pickBig([]string{"0", "1"}), Init: g.inits[r.Intn(len(g.inits))], Req: r.Chance(15)}
		case 5:
			if r.Chance(25) {
				b := Addr{K: "b", N: self}
				if r.Bool() {
					b = *g.target()
				}
				return Act{Op: "selfdestruct", Ben: &b}
			}
		}
		return Act{Op: "nop", N: 1 + r.Intn(9)}
	}
	c.Accts = append(c.Accts, Acct{A: origin, Nonce: uint64(r.Intn(3)), Bal: "1000000000000000000", Code: 0})
	for i := 1; i <= k; i++ {
		var acts []Act
		for j := r.Intn(3); j > 0; j-- {
			acts = append(acts, small(uint64(i)))
		}
		if i < k {
			next := Addr{K: "b", N: uint64(i + 1)}
			a := Act{Op: "call", Kind: r.Intn(4), Gas: g.pickBig([]string{"100000000", "100000000", "100000000", "18446744073709551615", "60000", "25000", "9000", "0"}), To: &next, V: "0", Req: r.Chance(30)}
			if a.Kind < 2 && r.Chance(50) {
				a.V = g.pickBig([]string{"1", "3", "1000"})
			}
			acts = append(acts, a)
			if r.Chance(25) { // call the same callee again: warm storage, dead accounts, collisions
				acts = append(acts, a)
			}
		}
		for j := r.Intn(3); j > 0; j-- {
			acts = append(acts, small(uint64(i)))
		}
		switch x := r.Intn(100); {
		case x < 10:
			acts = append(acts, Act{Op: "revert"})
		case x < 18:
			acts = append(acts, Act{Op: "invalid", Flavor: r.Intn(3)})
		case x < 24:
			acts = append(acts, Act{Op: "return"})
		}
		id := g.addCode(acts, 0)
		c.Accts = append(c.Accts, Acct{A: Addr{K: "b", N: uint64(i)}, Nonce: 1, Bal: g.pickBig([]string{"0", "2", "10", "5000", "5000"}), Code: id, Stor: g.storage()})
	}
	c.Accts = append(c.Accts, Acct{A: funded, Nonce: 0, Bal: "5", Code: 0})
	c.To = Addr{K: "b", N: 1}
	c.Value = g.pickBig([]string{"0", "0", "4"})
	c.Gas = 10000000
	return c
}

// staticCase: a STATICCALL (possibly relayed through other call kinds) into code whose
// first state-touching action is one the static context must refuse.
func staticCase(r *vf.Rng) *Case {
	g := &gen{r: r, c: &Case{}, cp: &compiler{codes: map[int]*Code{}}, nextId: 1}
	c := g.c
	origin := Addr{K: "b", N: 0}
	c.Origin = origin
	funded := Addr{K: "b", N: 20}
	missing := Addr{K: "b", N: 21}
	g.pool = []Addr{funded, missing}
	rt := g.addCode([]Act{{Op: "sstore", K: "0", V: "5"}}, 0)
	init := g.addCode([]Act{{Op: "sstore", K: "1", V: "9"}, {Op: "return", C: rt}}, 0)
	writer := g.addCode([]Act{{Op: "sstore", K: "2", V: fmt.Sprintf("%d", 1+r.Intn(9))}, {Op: "log", Topics: []string{"7"}, Dlen: 1}}, 0)
	k := 3 + r.Intn(3) // contracts 1..k: relay chain; k = the offender; k+1 = writer library
	wl := Addr{K: "b", N: uint64(k + 1)}
	harmless := func() Act {
		switch r.Intn(4) {
		case 0:
			return Act{Op: "call", Kind: 0, Gas: "30000", To: &missing, V: "0"}
		case 1:
			return Act{Op: "call", Kind: 3, Gas: "30000", To: &funded, V: "0"}
		}
		return Act{Op: "nop", N: 1 + r.Intn(5)}
	}
	var off []Act
	for j := r.Intn(3); j > 0; j-- {
		off = append(off, harmless())
	}
	self := Addr{K: "b", N: uint64(k)}
	switch r.Intn(9) {
	case 0:
		off = append(off, Act{Op: "sstore", K: "0", V: "3"})
	case 1:
		off = append(off, Act{Op: "log", Topics: []string{"1", "2"}[:r.Intn(3)], Dlen: r.Intn(5)})
	case 2:
		off = append(off, Act{Op: "create", Two: r.Bool(), Salt: "1", V: "0", Init: init})
	case 3:
		b := []Addr{self, funded, missing}[r.Intn(3)]
		off = append(off, Act{Op: "selfdestruct", Ben: &b})
	case 4, 5:
		off = append(off, Act{Op: "call", Kind: 0, Gas: g.pickBig([]string{"0", "30000", "100000000"}), To: []*Addr{&funded, &missing, &wl}[r.Intn(3)], V: g.pickBig([]string{"1", "2"})})
	case 6:
		off = append(off, Act{Op: "call", Kind: 1, Gas: "100000000", To: &wl, V: g.pickBig([]string{"0", "1"})})
	case 7:
		off = append(off, Act{Op: "call", Kind: 2, Gas: "100000000", To: &wl, V: "0"})
	case 8:
		off = append(off, Act{Op: "call", Kind: 0, Gas: "100000000", To: &wl, V: "0"})
	}
	for j := r.Intn(2); j > 0; j-- {
		off = append(off, harmless())
	}
	c.Accts = append(c.Accts, Acct{A: origin, Nonce: 1, Bal: "1000000000000000000"})
	staticAt := 1 + r.Intn(k-1)
	for i := 1; i < k; i++ {
		next := Addr{K: "b", N: uint64(i + 1)}
		kind := []int{0, 1, 2, 3}[r.Intn(4)]
		if i == staticAt {
			kind = 3
		}
		acts := []Act{}
		if r.Chance(40) {
			acts = append(acts, harmless())
		}
		acts = append(acts, Act{Op: "call", Kind: kind, Gas: "100000000", To: &next, V: "0", Req: r.Chance(20)})
		if i < staticAt && r.Chance(50) {
			acts = append(acts, Act{Op: "sstore", K: "3", V: "1"})
		}
		id := g.addCode(acts, 0)
		c.Accts = append(c.Accts, Acct{A: Addr{K: "b", N: uint64(i)}, Nonce: 1, Bal: "50", Code: id, Stor: g.storage()})
	}
	c.Accts = append(c.Accts, Acct{A: self, Nonce: 1, Bal: "50", Code: g.addCode(off, 0), Stor: g.storage()})
	c.Accts = append(c.Accts, Acct{A: wl, Nonce: 1, Bal: "0", Code: writer})
	c.Accts = append(c.Accts, Acct{A: funded, Nonce: 0, Bal: "5", Code: 0})
	c.To = Addr{K: "b", N: 1}
	c.Value = "0"
	c.Gas = 10000000
	c.Comment = "static"
	return c
}

// createCase: CREATE / CREATE2 whose init code writes and then ends in every possible
// way (ok, revert, invalid, oversize code, unaffordable code deposit, collision,
// nested create, selfdestruct), with value attached.
func createCase(r *vf.Rng) *Case {
	g := &gen{r: r, c: &Case{}, cp: &compiler{codes: map[int]*Code{}}, nextId: 1}
	c := g.c
	origin := Addr{K: "b", N: 0}
	c.Origin = origin
	funded := Addr{K: "b", N: 20}
	a1 := Addr{K: "b", N: 1}
	g.pool = []Addr{funded, a1}
	rt := g.addCode([]Act{{Op: "sstore", K: "0", V: "5"}, {Op: "log", Topics: []string{"3"}, Dlen: 2}}, 0)
	big := g.addCode([]Act{{Op: "nop", N: 3}}, params.MaxCodeSize-6+r.Intn(8))
	mid := g.addCode([]Act{{Op: "nop", N: 2}}, 200+r.Intn(3000))
	inner := g.addCode([]Act{{Op: "sstore", K: "2", V: "2"}, {Op: "return", C: rt}}, 0)
	pre := []Act{{Op: "sstore", K: "1", V: "9"}, {Op: "log", Topics: []string{}, Dlen: 3}}
	var tail []Act
	switch r.Intn(12) {
	case 0:
		tail = []Act{{Op: "return", C: rt}}
	case 1:
		tail = []Act{{Op: "revert"}}
	case 2:
		tail = []Act{{Op: "invalid", Flavor: r.Intn(3)}}
	case 3, 9, 11:
		tail = []Act{{Op: "return", C: big}}
	case 4, 10:
		tail = []Act{{Op: "return", C: mid}}
	case 5:
		tail = []Act{{Op: "create", Two: r.Bool(), Salt: "0", V: g.pickBig([]string{"0", "1"}), Init: inner, Req: r.Bool()}, {Op: "return", C: rt}}
	case 6:
		b := []Addr{funded, a1}[r.Intn(2)]
		tail = []Act{{Op: "selfdestruct", Ben: &b}}
	case 7:
		tail = []Act{{Op: "call", Kind: 0, Gas: "30000", To: &funded, V: "1"}, {Op: "return", C: rt}}
	case 8:
		tail = []Act{}
	}
	init := g.addCode(append(pre, tail...), 0)
	two := r.Bool()
	cr := Act{Op: "create", Two: two, Salt: "7", V: g.pickBig([]string{"0", "1", "3", "100"}), Init: init, Req: r.Chance(25)}
	acts := []Act{{Op: "sstore", K: "0", V: "1"}, cr}
	if r.Chance(40) {
		acts = append(acts, cr) // CREATE2: collision; CREATE: next nonce
	}
	if r.Chance(50) {
		target := Addr{K: "c", S: &a1, Nonce: 1}
		if two {
			target = Addr{K: "c2", S: &a1, Salt: "7", Init: init}
		}
		acts = append(acts, Act{Op: "call", Kind: r.Intn(4), Gas: "100000000", To: &target, V: "0"})
	}
	if r.Chance(30) {
		acts = append(acts, Act{Op: []string{"revert", "invalid", "stop"}[r.Intn(3)]})
	}
	c.Accts = append(c.Accts, Acct{A: origin, Nonce: 1, Bal: "1000000000000000000"})
	c.Accts = append(c.Accts, Acct{A: a1, Nonce: 1, Bal: g.pickBig([]string{"0", "2", "50"}), Code: g.addCode(acts, 0), Stor: g.storage()})
	c.Accts = append(c.Accts, Acct{A: funded, Nonce: 0, Bal: "5"})
	if r.Chance(20) {
		c.Accts = append(c.Accts, Acct{A: Addr{K: "c", S: &a1, Nonce: 1}, Nonce: 0, Bal: "77", Stor: [][2]string{{"1", "4"}}})
	}
	c.To = a1
	c.Value = g.pickBig([]string{"0", "5"})
	c.Gas = 10000000
	if r.Chance(50) { // just enough for some of the deposit costs
		c.Gas = uint64(150000 + r.Intn(900000))
	}
	c.Comment = "create"
	return c
}

// suicideCase: the same contracts SELFDESTRUCT several times within one transaction,
// with value arriving in between (CALL with value - the code of a destructed
// contract still runs until the end of the transaction - or as the beneficiary of
// another SELFDESTRUCT); beneficiaries: another account, the contract itself, a
// precompile, a new address, another victim, the caller; some of the frames are
// reverted by a relay.
func suicideCase(r *vf.Rng) *Case {
	g := &gen{r: r, c: &Case{}, cp: &compiler{codes: map[int]*Code{}}, nextId: 1}
	c := g.c
	origin := Addr{K: "b", N: 0}
	c.Origin = origin
	main := Addr{K: "b", N: 1}
	relay := Addr{K: "b", N: 9}
	funded := Addr{K: "b", N: 20}
	fresh := Addr{K: "b", N: 21}
	nv := 1 + r.Intn(3)
	victim := func(i int) Addr { return Addr{K: "b", N: uint64(2 + i)} }
	// victim 1 destructs into victim 0 after victim 0 is gone: a dead account holding value at the end of the transaction
	deadHolds := nv >= 2 && r.Chance(50)
	c.Accts = append(c.Accts, Acct{A: origin, Nonce: 1, Bal: "1000000000000000000"})
	for i := 0; i < nv; i++ {
		self := victim(i)
		var ben Addr
		switch r.Intn(8) {
		case 0, 1:
			ben = funded
		case 2:
			ben = self
		case 3:
			ben = Addr{K: "p", N: uint64([]int{1, 3, 4}[r.Intn(3)])}
		case 4:
			ben = fresh
		case 5, 6:
			ben = victim(r.Intn(nv))
		case 7:
			ben = main
		}
		if deadHolds && i == 1 {
			ben = victim(0)
		}
		var acts []Act
		if r.Chance(30) {
			acts = append(acts, Act{Op: "sstore", K: "0", V: g.pickBig([]string{"0", "4"})})
		}
		if r.Chance(20) {
			acts = append(acts, Act{Op: "log", Topics: []string{fmt.Sprintf("%d", i)}, Dlen: 0})
		}
		acts = append(acts, Act{Op: "selfdestruct", Ben: &ben})
		if i > 0 && r.Chance(30) {
			acts = append([]Act{{Op: "nop", N: i}}, acts...)
		}
		c.Accts = append(c.Accts, Acct{A: self, Nonce: 1, Bal: g.pickBig([]string{"0", "10", "10", "5"}), Code: g.addCode(acts, 0), Stor: g.storage()})
	}
	// the relay forwards value to a victim and then ends in a random way
	rv := victim(r.Intn(nv))
	racts := []Act{{Op: "call", Kind: 0, Gas: "100000000", To: &rv, V: g.pickBig([]string{"5", "1", "0"})}}
	if r.Chance(40) {
		racts = append(racts, Act{Op: "sstore", K: "1", V: "1"})
	}
	racts = append(racts, Act{Op: []string{"revert", "invalid", "stop", "stop"}[r.Intn(4)]})
	c.Accts = append(c.Accts, Acct{A: relay, Nonce: 1, Bal: "50", Code: g.addCode(racts, 0)})
	var acts []Act
	steps := 3 + r.Intn(5)
	for j := 0; j < steps; j++ {
		switch x := r.Intn(100); {
		case x < 70:
			v := victim(r.Intn(nv))
			a := Act{Op: "call", Kind: 0, Gas: g.pickBig([]string{"100000000", "100000000", "40000", "0"}), To: &v, V: g.pickBig([]string{"0", "7", "7", "1", "3"}), Req: r.Chance(8)}
			if r.Chance(8) {
				a.Kind = 1 + r.Intn(3)
			}
			acts = append(acts, a)
		case x < 90:
			acts = append(acts, Act{Op: "call", Kind: 0, Gas: "100000000", To: &relay, V: g.pickBig([]string{"0", "2"}), Req: r.Chance(8)})
		default:
			acts = append(acts, Act{Op: "sstore", K: "2", V: fmt.Sprintf("%d", j)})
		}
	}
	if deadHolds {
		v0, v1 := victim(0), victim(1)
		acts = append(acts, Act{Op: "call", Kind: 0, Gas: "100000000", To: &v0, V: "0"}, Act{Op: "call", Kind: 0, Gas: "100000000", To: &v1, V: g.pickBig([]string{"3", "0"})})
	}
	if r.Chance(15) {
		acts = append(acts, Act{Op: []string{"revert", "invalid"}[r.Intn(2)]})
	}
	c.Accts = append(c.Accts, Acct{A: main, Nonce: 1, Bal: "100", Code: g.addCode(acts, 0)})
	c.Accts = append(c.Accts, Acct{A: funded, Nonce: 0, Bal: "5", Code: 0})
	c.To = main
	c.Value = g.pickBig([]string{"0", "4"})
	c.Gas = 10000000
	c.Comment = "suicide"
	if r.Chance(65) { // the same again later in the block: the destructed contracts are gone, their addresses are not
		c.Multi = true
		for k := 2 + r.Intn(2); k > 0; k-- {
			c.Txs = append(c.Txs, Tx{To: main, Gas: 10000000, Value: c.Value})
			if r.Chance(40) {
				c.Txs = append(c.Txs, Tx{To: victim(r.Intn(nv)), Gas: 1000000, Value: g.pickBig([]string{"0", "3"})})
			}
		}
	}
	return c
}

// blockCase: a block of 2-5 transactions on one contract A whose code runs a different
// group of actions in each transaction (guarded by a phase slot that every group
// advances).  The groups write a few slots of A with values from small per-slot pools
// (the value committed in the previous block, zero, values written earlier in the
// block), directly and through nested frames running on A's storage (DELEGATECALL /
// CALLCODE into libraries, a re-entrant CALL through a relay) that succeed, revert,
// hit an invalid opcode or run out of gas.  Optionally a contract created by the first
// transaction of the block is called later on.
func blockCase(r *vf.Rng) *Case {
	g := &gen{r: r, c: &Case{}, cp: &compiler{codes: map[int]*Code{}}, nextId: 1}
	c := g.c
	origin := Addr{K: "b", N: 0}
	c.Origin = origin
	a := Addr{K: "b", N: 1}
	relay := Addr{K: "b", N: 2}
	originNonce := uint64(1 + r.Intn(2))
	const phase = "9"
	nslots := 1 + r.Intn(2)
	committed := make([]string, nslots)
	pool := make([][]string, nslots)
	var stor [][2]string
	for i := range committed {
		committed[i] = g.pickBig([]string{"0", "1", "7", "7"})
		pool[i] = []string{committed[i], committed[i], "0", "5", g.pickBig([]string{"1", "6"})}
		if committed[i] != "0" {
			stor = append(stor, [2]string{fmt.Sprintf("%d", i), committed[i]})
		}
	}
	write := func() Act {
		i := r.Intn(nslots)
		return Act{Op: "sstore", K: fmt.Sprintf("%d", i), V: pool[i][r.Intn(len(pool[i]))]}
	}
	// libraries run on the caller's storage
	nlib := 3 + r.Intn(3)
	var libs []Addr
	c.Accts = append(c.Accts, Acct{A: origin, Nonce: originNonce, Bal: "1000000000000000000"})
	for i := 0; i < nlib; i++ {
		acts := []Act{write()}
		if r.Chance(40) {
			acts = append(acts, write())
		}
		switch r.Intn(5) {
		case 0, 1:
			acts = append(acts, Act{Op: "revert"})
		case 2:
			acts = append(acts, Act{Op: "invalid", Flavor: r.Intn(3)})
		}
		l := Addr{K: "b", N: uint64(10 + i)}
		libs = append(libs, l)
		c.Accts = append(c.Accts, Acct{A: l, Nonce: 1, Bal: "0", Code: g.addCode(acts, 0)})
	}
	failing := make([]Addr, nslots) // per slot: a library that writes the slot and then fails
	for i := range failing {
		failing[i] = Addr{K: "b", N: uint64(30 + i)}
		end := Act{Op: "revert"}
		if r.Chance(40) {
			end = Act{Op: "invalid", Flavor: r.Intn(3)}
		}
		c.Accts = append(c.Accts, Acct{A: failing[i], Nonce: 1, Bal: "0", Code: g.addCode([]Act{{Op: "sstore", K: fmt.Sprintf("%d", i), V: g.pickBig([]string{"2", "8"})}, end}, 0)})
	}
	c.Accts = append(c.Accts, Acct{A: relay, Nonce: 1, Bal: "0", Code: g.addCode([]Act{{Op: "call", Kind: 0, Gas: g.pickBig([]string{"30000", "60000", "100000000"}), To: &a, V: "0"}}, 0)})
	nested := func() Act {
		if r.Chance(20) {
			return Act{Op: "call", Kind: 0, Gas: g.pickBig([]string{"100000", "100000000"}), To: &relay, V: "0", Req: r.Chance(10)}
		}
		l := libs[r.Intn(len(libs))]
		return Act{Op: "call", Kind: 1 + r.Intn(2), Gas: g.pickBig([]string{"100000000", "100000000", "100000000", "9000", "25000"}), To: &l, V: "0", Req: r.Chance(10)}
	}
	nph := 2 + r.Intn(3)
	var code []Act
	for j := nph - 1; j >= 0; j-- {
		var grp []Act
		for k := 1 + r.Intn(4); k > 0; k-- {
			if r.Chance(45) {
				grp = append(grp, write())
			} else {
				grp = append(grp, nested())
			}
		}
		if r.Chance(75) { // the pattern of interest: a surviving write, then a nested frame on the same storage
			i := r.Intn(nslots)
			slot := fmt.Sprintf("%d", i)
			other := g.pickBig([]string{"5", "6", "3"})
			if j == 0 || r.Chance(25) {
				// early in the block: move the slot away from its committed value
				grp = append(grp, Act{Op: "sstore", K: slot, V: other}, nested())
			} else {
				// later: put the committed value back, then a frame that writes the slot and fails
				grp = append(grp, Act{Op: "sstore", K: slot, V: committed[i]})
				l := failing[i]
				grp = append(grp, Act{Op: "call", Kind: 1 + r.Intn(2), Gas: "100000000", To: &l, V: "0"})
			}
		}
		grp = append(grp, Act{Op: "sstore", K: phase, V: fmt.Sprintf("%d", j+1)})
		code = append(code, Act{Op: "if", K: phase, V: fmt.Sprintf("%d", j), Neg: true, N: len(grp)})
		code = append(code, grp...)
		code = append(code, Act{Op: "nop", N: 1})
	}
	c.Accts = append(c.Accts, Acct{A: a, Nonce: 1, Bal: "10", Code: g.addCode(code, 0), Stor: stor})
	c.Multi = true
	// a contract created in the block: its storage exists in the pending layer only
	var made *Addr
	if r.Chance(35) {
		rt := g.addCode([]Act{{Op: "sstore", K: "0", V: g.pickBig([]string{"0", "3", "4"})}, {Op: "call", Kind: 1 + r.Intn(2), Gas: "100000000", To: &libs[r.Intn(len(libs))], V: "0"}}, 0)
		init := g.addCode([]Act{{Op: "sstore", K: "0", V: g.pickBig([]string{"3", "4"})}, {Op: "return", C: rt}}, 0)
		c.Txs = append(c.Txs, Tx{Create: true, Init: init, Gas: 10000000, Value: "0"})
		made = &Addr{K: "c", S: &origin, Nonce: originNonce}
	}
	for j := 0; j < nph; j++ {
		gas := uint64(10000000)
		if r.Chance(15) {
			gas = uint64(30000 + r.Intn(200000))
		}
		c.Txs = append(c.Txs, Tx{To: a, Gas: gas, Value: "0"})
		if made != nil && r.Chance(50) {
			c.Txs = append(c.Txs, Tx{To: *made, Gas: 10000000, Value: "0"})
		}
		if r.Chance(10) {
			c.Txs = append(c.Txs, Tx{To: libs[r.Intn(len(libs))], Gas: 1000000, Value: "0"})
		}
	}
	if len(c.Txs) > 6 {
		c.Txs = c.Txs[:6]
	}
	c.To = a
	c.Value = "0"
	c.Gas = 10000000
	c.Comment = "block"
	return c
}

// ---- call-tree shapes ----------------------------------------------------------------
//
// A shape is a small call tree.  Every node is a contract of its own whose code is
//   effect, [call child, effect]*, ending
// with kind in {CALL, CALLCODE, DELEGATECALL, STATICCALL, CREATE} (how the parent enters
// it), ending in {ok, revert, invalid, out of gas}, effects in {none, SSTORE to the slot
// of the subtree, SSTORE to another slot, LOG, value transfer}.  Nothing else is
// emitted, so an SSTORE can be the journal entry right before a frame boundary and
// right after a failed child, and children can journal exactly one effect and fail.
// DELEGATECALL / CALLCODE nodes run on the storage of their parent.
const (
	effNone = iota
	effSame
	effOther
	effLog
	effValue
	effPrecompile // a call of a precompiled contract (leaf frame that can fail by running out of gas)
)
const (
	endOk = iota
	endRevert
	endInvalid
	endOog
	endSuicide // SELFDESTRUCT (CALL and CREATE nodes only)
)
const (
	kCall = iota
	kCallCode
	kDelegate
	kStatic
	kCreate
	kCreateFunded // CREATE2 with endowment 0 onto an address that already holds value (nonce 0, no code)
)

type shapeNode struct {
	kind, end int
	late      bool // kCreateFunded: the init code deploys code that self-destructs when the parent calls it afterwards
	fund      int  // kCreateFunded: 0 funded in the previous block, 1 by a CALL with value just before, 2 as SELFDESTRUCT beneficiary just before
	effects   []int // len(children)+1
	children  []*shapeNode
}

type shapeBuilder struct {
	salt   int
	g      *gen
	slot   int
	val    int
	next   uint64
	funded Addr
}

func (sb *shapeBuilder) effect(e int) []Act {
	switch e {
	case effSame:
		sb.val++
		return []Act{{Op: "sstore", K: fmt.Sprintf("%d", sb.slot), V: fmt.Sprintf("%d", sb.val)}}
	case effOther:
		sb.val++
		return []Act{{Op: "sstore", K: fmt.Sprintf("%d", 100+sb.slot), V: fmt.Sprintf("%d", sb.val)}}
	case effLog:
		return []Act{{Op: "log", Topics: []string{fmt.Sprintf("%d", sb.slot)}, Dlen: 0}}
	case effValue:
		return []Act{{Op: "call", Kind: 0, Gas: "0", To: &sb.funded, V: "1"}}
	case effPrecompile:
		return []Act{precompileCall(sb.g.r)}
	}
	return nil
}

// build emits the code of node n (children first) and returns the action by which
// the parent enters it.
func (sb *shapeBuilder) build(n *shapeNode, depth int, parentSelf Addr) []Act {
	// bounded gas at every level: a failing frame burns what it was given, not the rest of the transaction
	gasAt := func(oog bool) string {
		if oog {
			return []string{"200000", "200000", "200000", "100000", "50000", "30000"}[depth]
		}
		return []string{"1000000", "1000000", "1000000", "300000", "100000", "40000"}[depth]
	}
	// the address the node runs at
	var self, holder Addr // the address the node runs at; the account holding its code
	var salt string
	switch n.kind {
	case kCallCode, kDelegate:
		self = parentSelf
		holder = Addr{K: "b", N: sb.next}
		sb.next++
	case kCall, kStatic:
		self = Addr{K: "b", N: sb.next}
		holder = self
		sb.next++
	case kCreate:
		self = Addr{K: "b", N: 999} // unknown statically (depends on the nonce); only used as a CREATE2 sender below it
	case kCreateFunded:
		sb.salt++
		salt = fmt.Sprintf("%d", sb.salt)
	}
	build := func(self Addr) []Act {
		var acts []Act
		acts = append(acts, sb.effect(n.effects[0])...)
		for i, ch := range n.children {
			kid := ch
			if kid.kind == kCreateFunded && self.K == "b" && (self.N == 998 || self.N == 999) { // sender not known statically
				kid = &shapeNode{kind: kCreate, end: ch.end, effects: ch.effects, children: ch.children}
			}
			acts = append(acts, sb.build(kid, depth+1, self)...)
			acts = append(acts, sb.effect(n.effects[i+1])...)
		}
		return acts
	}
	end := n.end
	isCreate := n.kind == kCreate || n.kind == kCreateFunded
	if isCreate && end == endOog {
		end = endInvalid // CREATE hands over all gas: do not burn it in a loop
	}
	if isCreate && depth <= 2 && end == endInvalid {
		end = endRevert // ... and directly under the root a failing init code would starve the other shapes
	}
	if end == endSuicide && !isCreate && n.kind != kCall {
		end = endOk
	}
	var acts []Act
	var rt int
	if n.kind == kCreateFunded {
		// the init code is compiled before its address is known: CREATE2 address = f(sender, salt, init code)
		acts = build(Addr{K: "b", N: 998})
	} else {
		acts = build(self)
	}
	ben := func() *Addr {
		b := []Addr{sb.funded, parentSelf, sb.funded}[sb.g.r.Intn(3)]
		return &b
	}
	switch end {
	case endRevert:
		acts = append(acts, Act{Op: "revert"})
	case endInvalid:
		acts = append(acts, Act{Op: "invalid", Flavor: sb.g.r.Intn(3)})
	case endOog:
		acts = append(acts, Act{Op: "invalid", Flavor: 3})
	case endSuicide:
		acts = append(acts, Act{Op: "selfdestruct", Ben: ben()})
	}
	if n.kind == kCreateFunded && n.late {
		rt = sb.g.addCode([]Act{{Op: "selfdestruct", Ben: ben()}}, 0)
		if end == endOk || end == endSuicide {
			if end == endSuicide {
				acts = acts[:len(acts)-1]
			}
			acts = append(acts, Act{Op: "return", C: rt})
		}
	}
	id := sb.g.addCode(acts, 0)
	switch n.kind {
	case kCreate:
		return []Act{{Op: "create", Two: false, Salt: "0", V: "2", Init: id}}
	case kCreateFunded:
		x := Addr{K: "c2", S: &parentSelf, Salt: salt, Init: id}
		var out []Act
		switch n.fund {
		case 0:
			sb.g.c.Accts = append(sb.g.c.Accts, Acct{A: x, Nonce: 0, Bal: "9", Code: 0})
		case 1:
			out = append(out, Act{Op: "call", Kind: 0, Gas: "0", To: &x, V: "1"})
		case 2:
			h := Addr{K: "b", N: sb.next}
			sb.next++
			sb.g.c.Accts = append(sb.g.c.Accts, Acct{A: h, Nonce: 1, Bal: "3", Code: sb.g.addCode([]Act{{Op: "selfdestruct", Ben: &x}}, 0)})
			out = append(out, Act{Op: "call", Kind: 0, Gas: "100000", To: &h, V: "0"})
		}
		out = append(out, Act{Op: "create", Two: true, Salt: salt, V: "0", Init: id})
		if n.late {
			out = append(out, Act{Op: "call", Kind: 0, Gas: gasAt(false), To: &x, V: "0"})
		}
		return out
	}
	sb.g.c.Accts = append(sb.g.c.Accts, Acct{A: holder, Nonce: 1, Bal: "10", Code: id})
	return []Act{{Op: "call", Kind: []int{0, 1, 2, 3}[n.kind], Gas: gasAt(end == endOog), To: &holder, V: "0"}}
}

func pickW(r *vf.Rng, w []int) int {
	t := 0
	for _, x := range w {
		t += x
	}
	x := r.Intn(t)
	for i, y := range w {
		if x < y {
			return i
		}
		x -= y
	}
	return 0
}

func randomShape(r *vf.Rng, depth int) *shapeNode {
	effW := []int{35, 35, 8, 11, 11, 14}
	n := &shapeNode{kind: pickW(r, []int{18, 22, 26, 8, 10, 16}), end: pickW(r, []int{35, 30, 20, 15, 6})}
	if n.kind == kCreateFunded {
		// mostly: the created contract self-destructs (in the init code, or later when called) and nothing sends it value
		n.fund = r.Intn(3)
		n.late = r.Chance(30)
		n.end = pickW(r, []int{15, 10, 5, 0, 70})
		n.effects = append(n.effects, pickW(r, []int{50, 20, 10, 15, 5}))
		return n
	}
	first := effW
	if n.kind == kCallCode || n.kind == kDelegate {
		// frames sharing the caller's storage: often nothing journalled before the first child,
		// a rewrite of the slot right after it, and a failing end
		first = []int{55, 25, 6, 7, 7, 10}
		effW = []int{25, 50, 8, 8, 9, 10}
		n.end = pickW(r, []int{25, 35, 25, 15})
	}
	n.effects = append(n.effects, pickW(r, first))
	if depth < 4 {
		for k := 0; k < 2; k++ {
			if (k == 0 && r.Chance(75)) || (k == 1 && r.Chance(25)) {
				n.children = append(n.children, randomShape(r, depth+1))
				n.effects = append(n.effects, pickW(r, effW))
			}
		}
	}
	return n
}

// the systematic family: root effect e0, child P (kind, ending, effect p0, child C, effect p1), C (kind, ending, effect c0)
const shapeTotal = 2 * 5 * 3 * 2 * 5 * 3 * 5 * 3

func indexedShape(i int) (int, *shapeNode) {
	d := func(m int) int { x := i % m; i /= m; return x }
	e0 := []int{effNone, effSame}[d(2)]
	kP := d(5)
	oP := d(3)
	p0 := []int{effNone, effSame}[d(2)]
	kC := d(5)
	oC := d(3)
	c0 := d(5)
	p1 := []int{effNone, effSame, effOther}[d(3)]
	c := &shapeNode{kind: kC, end: oC, effects: []int{c0}}
	return e0, &shapeNode{kind: kP, end: oP, effects: []int{p0, p1}, children: []*shapeNode{c}}
}

// shapeCase: one root contract runs several independent shapes one after the other,
// each on a slot of its own.  first >= 0: the shapes with indices first, first+1, ... of
// the systematic family; otherwise random ones of depth <= 4.
func shapeCase(r *vf.Rng, first int, count int) *Case {
	g := &gen{r: r, c: &Case{}, cp: &compiler{codes: map[int]*Code{}}, nextId: 1}
	c := g.c
	origin := Addr{K: "b", N: 0}
	c.Origin = origin
	root := Addr{K: "b", N: 1}
	funded := Addr{K: "b", N: 20}
	c.Accts = append(c.Accts, Acct{A: origin, Nonce: 1, Bal: "1000000000000000000"}, Acct{A: funded, Nonce: 0, Bal: "5"})
	var acts []Act
	var stor [][2]string
	nextAddr := uint64(30)
	for j := 0; j < count; j++ {
		sb := &shapeBuilder{g: g, slot: j, val: 10 * (j + 1), next: nextAddr, funded: funded, salt: 100 * j}
		var e0 int
		var p *shapeNode
		if first >= 0 {
			e0, p = indexedShape((first + j) % shapeTotal)
		} else {
			e0 = pickW(r, []int{25, 60, 5, 5, 5, 10})
			p = randomShape(r, 2)
			if r.Chance(25) {
				stor = append(stor, [2]string{fmt.Sprintf("%d", j), "7"})
			}
		}
		acts = append(acts, sb.effect(e0)...)
		acts = append(acts, sb.build(p, 2, root)...)
		if first < 0 && r.Chance(30) {
			acts = append(acts, sb.effect(pickW(r, []int{0, 60, 20, 10, 10, 15}))...)
		}
		nextAddr = sb.next
	}
	if first < 0 && r.Chance(12) { // the enclosing failure at the top level
		acts = append(acts, Act{Op: []string{"revert", "invalid"}[r.Intn(2)]})
	}
	c.Accts = append(c.Accts, Acct{A: root, Nonce: 1, Bal: "100", Code: g.addCode(acts, 0), Stor: stor})
	c.To = root
	c.Value = "0"
	c.Gas = 30000000
	c.Comment = "shape"
	return c
}

// ---- StateDB histories -------------------------------------------------------------
//
// Operation sequences straight on the StateDB (no EVM): writes, logs, balance changes,
// nested Snapshot / RevertToSnapshot, checked against plain copies of the observable
// state taken at every snapshot.  Half of the histories follow the pattern "write k;
// snapshot; [snapshot; effect; revert]; write k; revert" with nothing journalled between.
type HOp struct {
	Op string `json:"op"` // set log add snap revert
	A  int    `json:"a,omitempty"`
	K  int    `json:"k,omitempty"`
	V  int    `json:"v,omitempty"`
}

type hview struct {
	stor  map[[2]int]common.Hash
	bal   map[int]string
	nlogs int
}

func runHistory(ops []HOp) string {
	db, err := state.New(common.Hash{}, common.Hash{}, common.Hash{}, state.NewDatabase(youdb.NewMemDatabase()))
	if err != nil {
		return ""
	}
	th := common.BytesToHash([]byte("c16-h"))
	db.Prepare(th, common.Hash{}, 0)
	addr := func(i int) common.Address { return baseAddr(uint64(500 + i)) }
	for i := 0; i < 2; i++ {
		db.SetNonce(addr(i), 1)
		db.SetBalance(addr(i), big.NewInt(100))
	}
	db.Finalise(true)
	view := func() hview {
		v := hview{stor: map[[2]int]common.Hash{}, bal: map[int]string{}, nlogs: len(db.GetLogs(th))}
		for a := 0; a < 2; a++ {
			v.bal[a] = db.GetBalance(addr(a)).String()
			for k := 0; k < 2; k++ {
				v.stor[[2]int{a, k}] = db.GetState(addr(a), common.BigToHash(big.NewInt(int64(k))))
			}
		}
		return v
	}
	type snap struct {
		id int
		v  hview
	}
	var stack []snap
	for i, o := range ops {
		switch o.Op {
		case "set":
			db.SetState(addr(o.A), common.BigToHash(big.NewInt(int64(o.K))), common.BigToHash(big.NewInt(int64(o.V))))
		case "log":
			db.AddLog(&types.Log{Address: addr(o.A)})
		case "add":
			db.AddBalance(addr(o.A), big.NewInt(int64(o.V)))
		case "snap":
			stack = append(stack, snap{db.Snapshot(), view()})
		case "revert":
			if len(stack) == 0 {
				continue
			}
			top := stack[len(stack)-1]
			stack = stack[:len(stack)-1]
			db.RevertToSnapshot(top.id)
			now := view()
			for k, v := range top.v.stor {
				if now.stor[k] != v {
					return fmt.Sprintf("StateDB history: after RevertToSnapshot (op %d) slot %d of account %d reads %x, at the snapshot it read %x", i, k[1], k[0], now.stor[k], v)
				}
			}
			for a, b := range top.v.bal {
				if now.bal[a] != b {
					return fmt.Sprintf("StateDB history: after RevertToSnapshot (op %d) balance of account %d is %s, at the snapshot %s", i, a, now.bal[a], b)
				}
			}
			if now.nlogs != top.v.nlogs {
				return fmt.Sprintf("StateDB history: after RevertToSnapshot (op %d) %d logs, at the snapshot %d", i, now.nlogs, top.v.nlogs)
			}
		}
	}
	return ""
}

func randomHistory(r *vf.Rng) []HOp {
	effect := func() HOp {
		switch r.Intn(4) {
		case 0:
			return HOp{Op: "log", A: r.Intn(2)}
		case 1:
			return HOp{Op: "add", A: r.Intn(2), V: 1 + r.Intn(3)}
		}
		return HOp{Op: "set", A: r.Intn(2), K: r.Intn(2), V: r.Intn(4)}
	}
	var ops []HOp
	if r.Bool() {
		// write k; outer snapshot; inner snapshots with one effect each, reverted; write k; outer revert
		a, k := r.Intn(2), r.Intn(2)
		for j := r.Intn(2); j > 0; j-- {
			ops = append(ops, effect())
		}
		ops = append(ops, HOp{Op: "set", A: a, K: k, V: 1 + r.Intn(3)}, HOp{Op: "snap"})
		for j := r.Intn(3); j > 0; j-- {
			ops = append(ops, HOp{Op: "snap"})
			for e := r.Intn(3); e > 0; e-- {
				ops = append(ops, effect())
			}
			ops = append(ops, HOp{Op: "revert"})
		}
		ops = append(ops, HOp{Op: "set", A: a, K: k, V: 4 + r.Intn(3)})
		if r.Chance(30) {
			ops = append(ops, effect())
		}
		ops = append(ops, HOp{Op: "revert"})
		return ops
	}
	depth := 0
	for n := 4 + r.Intn(14); n > 0; n-- {
		switch x := r.Intn(10); {
		case x < 5:
			ops = append(ops, effect())
		case x < 7 && depth < 4:
			ops = append(ops, HOp{Op: "snap"})
			depth++
		case depth > 0:
			ops = append(ops, HOp{Op: "revert"})
			depth--
		}
	}
	for ; depth > 0; depth-- {
		ops = append(ops, HOp{Op: "revert"})
	}
	return ops
}

// precompileCase: precompiled contracts as callees of a contract (all four call kinds, value 0
// and > 0, gas around the required gas) and as recipients of top-level transactions.
func precompileCase(r *vf.Rng) *Case {
	g := &gen{r: r, c: &Case{}, cp: &compiler{codes: map[int]*Code{}}, nextId: 1}
	c := g.c
	origin := Addr{K: "b", N: 0}
	root := Addr{K: "b", N: 1}
	c.Origin = origin
	var acts []Act
	for k := 2 + r.Intn(6); k > 0; k-- {
		acts = append(acts, precompileCall(r))
		if r.Chance(30) {
			acts = append(acts, Act{Op: "sstore", K: "0", V: fmt.Sprintf("%d", 1+r.Intn(5))})
		}
	}
	if r.Chance(10) {
		acts = append(acts, Act{Op: []string{"revert", "invalid"}[r.Intn(2)]})
	}
	c.Accts = append(c.Accts, Acct{A: origin, Nonce: 1, Bal: "1000000000000000000"}, Acct{A: root, Nonce: 1, Bal: "100", Code: g.addCode(acts, 0)})
	if r.Chance(25) { // a precompile address that already holds value
		ns := precompiles()
		c.Accts = append(c.Accts, Acct{A: Addr{K: "p", N: uint64(ns[r.Intn(len(ns))])}, Nonce: 0, Bal: "4"})
	}
	c.Multi = true
	c.Txs = append(c.Txs, Tx{To: root, Gas: 5000000, Value: "0"})
	ns := precompiles()
	for k := 1 + r.Intn(3); k > 0; k-- {
		n := ns[r.Intn(len(ns))]
		need := vm.PrecompiledContractsByzantium[common.BytesToAddress([]byte{byte(n)})].RequiredGas(nil)
		gs := []uint64{0, 1, need - 1, need, need + 1, 100000}
		if need == 0 {
			gs = []uint64{0, 1, 100000}
		}
		c.Txs = append(c.Txs, Tx{To: Addr{K: "p", N: uint64(n)}, Gas: gs[r.Intn(len(gs))], Value: []string{"0", "1", "5"}[r.Intn(3)]})
	}
	if r.Bool() {
		c.Txs = append(c.Txs, Tx{To: root, Gas: 5000000, Value: "0"})
	}
	c.To = root
	c.Value = "0"
	c.Gas = 5000000
	c.Comment = "precompile"
	return c
}

// deepCase: a contract that calls itself until the depth limit (1024) stops it.
func deepCase(r *vf.Rng) *Case {
	c := &Case{Origin: Addr{K: "b", N: 0}, To: Addr{K: "b", N: 1}, Value: "0", Gas: 1 << 62, Comment: "deep recursion"}
	self := Addr{K: "b", N: 1}
	acts := []Act{{Op: "call", Kind: []int{0, 0, 1, 2, 3}[r.Intn(5)], Gas: "18446744073709551615", To: &self, V: "0", Req: r.Chance(20)}}
	if r.Bool() {
		acts = append(acts, Act{Op: "sstore", K: "1", V: "1"})
	}
	c.Codes = []*Code{{Id: 1, Acts: acts}}
	c.Accts = []Acct{{A: c.Origin, Bal: "1000000", Nonce: 1}, {A: self, Nonce: 1, Bal: "10", Code: 1}}
	return c
}

var corpusHistories [][]HOp

func loadCorpus(dir string) []*Case {
	var out []*Case
	files, _ := filepath.Glob(filepath.Join(dir, "*.json"))
	sort.Strings(files)
	for _, f := range files {
		b, err := ioutil.ReadFile(f)
		if err != nil {
			continue
		}
		var w struct {
			Case    *Case `json:"case"`
			History []HOp `json:"history"`
		}
		var c Case
		if json.Unmarshal(b, &w) == nil && len(w.History) > 0 {
			corpusHistories = append(corpusHistories, w.History)
			continue
		}
		if json.Unmarshal(b, &w) == nil && w.Case != nil {
			c = *w.Case
		} else if json.Unmarshal(b, &c) != nil {
			continue
		}
		c.Comment = "corpus:" + filepath.Base(f)
		out = append(out, &c)
	}
	return out
}

type hit struct {
	What    string   `json:"what"`
	All     []string `json:"all"`
	Case    *Case    `json:"case,omitempty"`
	History []HOp    `json:"history,omitempty"`
}

// stable key of a violation: the text up to the first ':' or '('
func hitKey(s string) string {
	for i, ch := range s {
		if ch == ':' || ch == '(' {
			return strings.TrimSpace(s[:i])
		}
	}
	return s
}

func genCmd(seed uint64, n int, outDir, corpusDir, tier string) {
	r := vf.NewRng(seed)
	res := vf.NewResult("C16", seed)
	var sb strings.Builder
	sb.WriteString("From VF.C16 Require Import Model.\nFrom VF.gen Require Import C16Table.\nLocal Open Scope N_scope.\nDefinition cases : list case := [\n")
	count := 0
	distinct := map[string]bool{}
	add := func(c *Case) {
		rs, err := run(c)
		if err != nil {
			res.Count("skipped: " + err.Error())
			if os.Getenv("C16_DEBUG") != "" {
				b, _ := json.Marshal(c)
				fmt.Fprintln(os.Stderr, "SKIPPED", err, string(b))
			}
			return
		}
		if count > 0 {
			sb.WriteString(";\n")
		}
		txt := caseCoq(c, rs)
		sb.WriteString(txt)
		count++
		res.Count(fmt.Sprintf("blocks of %d transactions", len(rs.Txs)))
		anyBurnt := false
		for _, x := range rs.Txs {
			res.Count(fmt.Sprintf("top status %d", x.Status))
			if big10(x.Burnt).Sign() != 0 {
				anyBurnt = true
			}
		}
		for _, x := range rs.Txs {
			if x.Err == "" {
				continue
			}
			es := x.Err
			if strings.HasPrefix(es, "invalid opcode") || strings.HasPrefix(es, "stack") || strings.HasPrefix(es, "invalid jump") {
				es = strings.SplitN(es, " (", 2)[0]
				es = strings.SplitN(es, " 0x", 2)[0]
			}
			res.Count("top error: " + es)
		}
		calls := 0
		for k, v := range rs.Stats {
			if k == "max_depth" {
				if v >= 1025 {
					res.Count("cases reaching the depth limit")
				} else if v >= 4 {
					res.Count("cases nesting 4 or more frames")
				}
				continue
			}
			res.Distribution[k] += v
			if strings.HasPrefix(k, "op_C") || strings.HasPrefix(k, "op_D") || strings.HasPrefix(k, "op_STATIC") {
				calls += v
			}
		}
		if calls > 0 {
			distinct[string(crypto.Keccak256([]byte(txt)))] = true
		}
		if anyBurnt {
			res.Count("cases with burnt value")
		}
		if len(rs.Hits) > 0 {
			res.OracleHits = append(res.OracleHits, hit{What: hitKey(rs.Hits[0]), All: rs.Hits, Case: c})
		}
		res.CaseDescs = append(res.CaseDescs, c)
		if len(res.Samples) < 4 {
			res.Samples = append(res.Samples, map[string]interface{}{"case": c, "status": rs.Txs[0].Status, "gas_left": rs.Txs[0].Gas, "logs": len(rs.Logs)})
		}
	}
	for _, c := range loadCorpus(corpusDir) {
		add(c)
		res.Count("corpus")
	}
	if n >= 100 || r.Chance(10) {
		add(deepCase(r))
	}
	// call-tree shapes: a random sample, and in the thorough tier this shard's slice of the systematic family
	safeShape := func(first int) {
		defer func() {
			if rec := recover(); rec != nil {
				res.Count(fmt.Sprintf("generator dropped: %v", rec))
			}
		}()
		add(shapeCase(r, first, 8))
		res.Count("call-tree shape cases (8 shapes each)")
	}
	for i := 0; i < n/6; i++ {
		safeShape(-1)
	}
	if tier == "thorough" && n >= 100 {
		const shards = 50
		k := int(seed % shards)
		if (seed-1)%7919 == 0 {
			k = int((seed-1)/7919) % shards
		}
		per := (shapeTotal + shards - 1) / shards
		for i := 0; i < per; i += 8 {
			safeShape(k*per + i)
		}
		res.Count("systematic shape slices")
	}
	// StateDB-level histories (oracle only)
	for _, ops := range corpusHistories {
		if w := runHistory(ops); w != "" {
			res.OracleHits = append(res.OracleHits, hit{What: "StateDB history: a revert did not restore the snapshot", All: []string{w}, History: ops})
		}
	}
	for i := 0; i < 2*n; i++ {
		ops := randomHistory(r)
		if w := runHistory(ops); w != "" {
			res.OracleHits = append(res.OracleHits, hit{What: "StateDB history: a revert did not restore the snapshot", All: []string{w}, History: ops})
		}
		res.Count("StateDB histories")
	}
	for count < n {
		var c *Case
		func() {
			defer func() { // a program whose nested codes outgrow PUSH2 offsets: drop it
				if rec := recover(); rec != nil {
					c = nil
					res.Count(fmt.Sprintf("generator dropped: %v", rec))
				}
			}()
			switch x := r.Intn(100); {
			case x < 28:
				c = chainCase(r)
			case x < 38:
				c = staticCase(r)
			case x < 48:
				c = createCase(r)
			case x < 58:
				c = suicideCase(r)
			case x < 73:
				c = blockCase(r)
			case x < 81:
				c = precompileCase(r)
			default:
				c = newCase(r)
			}
		}()
		if c == nil {
			continue
		}
		if !c.Multi && r.Chance(30) { // the same transaction two or three times in one block
			c.Multi = true
			for k := 2 + r.Intn(2); k > 0; k-- {
				gas := c.Gas
				if r.Chance(25) {
					gas = uint64(25000 + r.Intn(400000))
				}
				c.Txs = append(c.Txs, Tx{Create: c.Create, To: c.To, Init: c.Init, Gas: gas, Value: c.Value})
			}
		}
		// measure, then choose the gas allotment
		rs, err := run(c)
		if err != nil {
			res.Count("skipped: " + err.Error())
			if os.Getenv("C16_DEBUG") != "" {
				b, _ := json.Marshal(c)
				fmt.Fprintln(os.Stderr, "SKIPPED", err, string(b))
			}
			continue
		}
		if c.Multi {
			add(c)
			continue
		}
		used := c.Gas - rs.Txs[0].Gas
		x0 := r.Intn(100)
		if c.Comment != "" && r.Chance(60) {
			x0 = 0
		}
		if c.Comment == "create" && r.Chance(35) && used > 0 {
			lim := used
			if lim > 700000 {
				lim = 700000
			}
			c.Gas = used - uint64(r.Intn(int(lim)))
			x0 = 0
		}
		switch x := x0; {
		case x < 60:
		case x < 78:
			c.Gas = uint64(r.Intn(int(used) + 2))
		case x < 88:
			c.Gas = r.Pick([]uint64{0, 1, 2300, 21000, used, used - 1, used + 1, used / 2, used + 2300})
			if c.Gas > 1<<40 {
				c.Gas = 0
			}
		default:
			c.Gas = 20000 + uint64(r.Intn(300000))
		}
		add(c)
	}
	sb.WriteString("].\nDefinition M := Eval vm_compute in mismatches real_gas cases.\nPrint M.\n")
	vf.WriteFile(filepath.Join(outDir, "Cases.v"), sb.String())
	res.Cases = count
	res.Distinct = len(distinct)
	res.Rule = "random multi-contract programs (2-5 contracts + library of runtime/init codes, actions SSTORE/LOG/CALL/CALLCODE/DELEGATECALL/STATICCALL/CREATE/CREATE2/SELFDESTRUCT/REVERT/INVALID, call targets incl. missing, funded and CREATE/CREATE2-derived addresses, boundary gas arguments and values), compiled to byte code and run by the real EVM on a committed StateDB; gas allotment = plenty, or uniform below the gas used with plenty (out-of-gas at a random point), or a boundary; blocks of 1-6 transactions on one StateDB with Finalise(true) in between (a phased contract writing slots from small per-slot pools directly and through nested frames on its storage; any other case repeated two or three times); call-tree shapes (per node: kind CALL/CALLCODE/DELEGATECALL/STATICCALL/CREATE, ending ok/revert/invalid/out-of-gas, effects none/SSTORE same slot/SSTORE other slot/LOG/value before and after each child, nothing else emitted; random of depth <= 4 in every run, the 13500 three-level shapes enumerated over the 50 shards of the thorough tier); StateDB-level Snapshot/SetState/AddLog/AddBalance/Revert histories against plain copies (oracle only); precompiled contracts (the active set read from the vm package) as callees by all four call kinds and as top-level recipients, value 0 and > 0, gas around the required gas, empty input; scenario families: call chains, static-context offenders, CREATE endings, repeated SELFDESTRUCT of the same contract with value arriving in between; one self-recursive case to the depth limit per shard; a case = program + transaction + observed status, gas left, all accounts, logs, refund, burnt value; non-trivial = executed at least one call/create opcode; distinct by full case text"
	res.Write(filepath.Join(outDir, "result.json"))
}

// ---- translator: jump table rows and gas parameters -----------------------------------

func tableCmd(out string) {
	yp := params.Versions[params.YouCurrentVersion]
	rows := vm.VerifC16JumpTable(yp.EVMVersion)
	var sb strings.Builder
	sb.WriteString("(* GENERATED by harness/cmd/c16 (table) from the jump table and params of the working tree. Do not edit. *)\nFrom VF.C16 Require Import Model.\nLocal Open Scope N_scope.\n")
	sb.WriteString("Definition real_ops : list oprow := [\n")
	for i, o := range rows {
		if i > 0 {
			sb.WriteString(";\n")
		}
		sb.WriteString(fmt.Sprintf(" mkRow %d %v %d %v %v %v %v %v %v", i, o.Valid, o.ConstantGas, o.Writes, o.Halts, o.Reverts, o.Jumps, o.Returns, o.HasDynamic))
	}
	sb.WriteString("].\n")
	same := func(what string, ops ...int) uint64 {
		for _, o := range ops {
			if !rows[o].Valid || rows[o].ConstantGas != rows[ops[0]].ConstantGas {
				fmt.Fprintf(os.Stderr, "c16 table: rows of %s disagree or are invalid; the model has one constant for them\n", what)
				os.Exit(3)
			}
		}
		return rows[ops[0]].ConstantGas
	}
	pushes := []int{}
	for i := 0x60; i <= 0x7f; i++ {
		pushes = append(pushes, i)
	}
	b := func(x bool) string { return fmt.Sprintf("%v", x) }
	f := func(name string, v interface{}) string { return fmt.Sprintf("  %s := %v", name, v) }
	fields := []string{
		f("g_push", same("PUSHn", pushes...)), f("g_pop", same("POP", 0x50)), f("g_jumpi", same("JUMPI", 0x57)), f("g_jumpdest", same("JUMPDEST", 0x5b)),
		f("g_codecopy", same("CODECOPY", 0x39)), f("g_sload", same("SLOAD", 0x54)), f("g_eq", same("EQ", 0x14)), f("g_iszero", same("ISZERO", 0x15)), f("g_call", same("CALL", 0xf1)), f("g_callcode", same("CALLCODE", 0xf2)),
		f("g_delegate", same("DELEGATECALL", 0xf4)), f("g_static", same("STATICCALL", 0xfa)), f("g_create", same("CREATE", 0xf0)),
		f("g_create2", same("CREATE2", 0xf5)), f("g_sstore", same("SSTORE", 0x55)), f("g_log", same("LOGn", 0xa0, 0xa1, 0xa2, 0xa3, 0xa4)),
		f("g_selfdestruct", same("SELFDESTRUCT", 0xff)), f("g_return", same("RETURN", 0xf3)), f("g_revert", same("REVERT", 0xfd)), f("g_stop", same("STOP", 0x00)),
		f("w_sstore", b(rows[0x55].Writes)),
		f("w_log", fmt.Sprintf("fun n => nth (N.to_nat n) [%v; %v; %v; %v; %v] false", rows[0xa0].Writes, rows[0xa1].Writes, rows[0xa2].Writes, rows[0xa3].Writes, rows[0xa4].Writes)),
		f("w_create", b(rows[0xf0].Writes)), f("w_create2", b(rows[0xf5].Writes)), f("w_selfdestruct", b(rows[0xff].Writes)),
		f("w_call", b(rows[0xf1].Writes)), f("w_callcode", b(rows[0xf2].Writes)), f("w_delegate", b(rows[0xf4].Writes)), f("w_static", b(rows[0xfa].Writes)),
		f("p_callvalue", params.CallValueTransferGas), f("p_newacct", params.CallNewAccountGas), f("p_stipend", params.CallStipend), f("p_depth", params.CallCreateDepth),
		f("p_sentry", params.SstoreSentryGas), f("p_noop", params.SstoreNoopGas), f("p_dirty", params.SstoreDirtyGas), f("p_init", params.SstoreInitGas),
		f("p_initref", params.SstoreInitRefund), f("p_clean", params.SstoreCleanGas), f("p_cleanref", params.SstoreCleanRefund), f("p_clearref", params.SstoreClearRefund),
		f("p_log", params.LogGas), f("p_logtopic", params.LogTopicGas), f("p_logdata", params.LogDataGas), f("p_copy", params.CopyGas), f("p_sha3word", params.Sha3WordGas),
		f("p_create", params.CreateGas), f("p_createdata", params.CreateDataGas), f("p_maxcode", params.MaxCodeSize),
		f("p_selfdestruct", params.SelfdestructGas), f("p_createbysd", params.CreateBySelfdestructGas), f("p_suicideref", params.SuicideRefundGas),
		f("p_memgas", params.MemoryGas), f("p_quad", params.QuadCoeffDiv),
		f("p_resurrect", b(probeResurrect())),
		f("p_pregas", precompileTable()),
	}
	sb.WriteString("Definition real_gas : gastab := {|\n" + strings.Join(fields, ";\n") + " |}.\n")
	vf.WriteIfChanged(out, sb.String())
}

// precompileTable: the active precompiled contracts (the set run() consults) with their
// required gas on the empty input, keyed by the model name of the address.
func precompileTable() string {
	var sb strings.Builder
	sb.WriteString("fun n => match n with ")
	var ns []int
	for a := range vm.PrecompiledContractsByzantium {
		b := a.Big()
		if !b.IsInt64() || b.Int64() <= 0 || b.Int64() > 255 {
			fmt.Fprintln(os.Stderr, "c16 table: a precompile outside 1..255; the harness names have no room for it")
			os.Exit(3)
		}
		ns = append(ns, int(b.Int64()))
	}
	sort.Ints(ns)
	for _, n := range ns {
		p := vm.PrecompiledContractsByzantium[common.BytesToAddress([]byte{byte(n)})]
		sb.WriteString(fmt.Sprintf("| %d => Some %d ", 1000000+n, p.RequiredGas(nil)))
	}
	sb.WriteString("| _ => None end")
	return sb.String()
}

func precompiles() []int {
	var ns []int
	for a := range vm.PrecompiledContractsByzantium {
		ns = append(ns, int(a.Big().Int64()))
	}
	sort.Ints(ns)
	return ns
}

// precompileCall: CALL / CALLCODE / DELEGATECALL / STATICCALL of a precompiled contract with the
// empty input, value 0 or > 0, gas steered around what the precompile requires.
func precompileCall(r *vf.Rng) Act {
	ns := precompiles()
	n := ns[r.Intn(len(ns))]
	need := vm.PrecompiledContractsByzantium[common.BytesToAddress([]byte{byte(n)})].RequiredGas(nil)
	a := Act{Op: "call", Kind: pickW(r, []int{55, 15, 15, 15}), To: &Addr{K: "p", N: uint64(n)}, V: "0", Req: r.Chance(8)}
	stip := uint64(0)
	if a.Kind < 2 && r.Chance(60) {
		a.V = []string{"1", "2", "3"}[r.Intn(3)]
		stip = params.CallStipend
	}
	sub := func(x, y uint64) uint64 {
		if x > y {
			return x - y
		}
		return 1
	}
	gs := []uint64{1, 699, sub(need, stip+1), sub(need, stip), sub(need, stip) + 1, sub(need, 1), need, need + 1, 50000, 300000}
	a.Gas = fmt.Sprintf("%d", gs[r.Intn(len(gs))])
	return a
}

// probeResurrect runs CreateAccount over an object that Finalise(true) has deleted while
// it held a balance, and reports whether the balance is carried over.
func probeResurrect() bool {
	db, err := state.New(common.Hash{}, common.Hash{}, common.Hash{}, state.NewDatabase(youdb.NewMemDatabase()))
	if err != nil {
		fmt.Fprintln(os.Stderr, "c16 table: cannot open a state:", err)
		os.Exit(3)
	}
	x := baseAddr(77)
	db.SetNonce(x, 1)
	db.SetBalance(x, big.NewInt(3))
	db.Finalise(true)
	db.Suicide(x)
	db.AddBalance(x, big.NewInt(7))
	db.Finalise(true)
	if db.Exist(x) {
		fmt.Fprintln(os.Stderr, "c16 table: a suicided object survived Finalise(true); the model has no such behaviour")
		os.Exit(3)
	}
	db.CreateAccount(x)
	return db.GetBalance(x).Sign() != 0
}

// ---- translator: inventory of in-place big.Int writes on stored fields ------------------
//
// core/state shares *big.Int values between objects (CreateAccount hands the balance of
// the replaced object to the new one; the journal keeps replaced objects and previous
// values) on the assumption that a stored big.Int is only ever REPLACED, never modified
// in place.  This lists every call of a mutating big.Int method whose receiver is a
// struct field of type *big.Int (or an accessor named like one) in the non-test code of
// core/state and core/vm.  Bridge.v pins the list.
func aliasingCmd(out string) {
	repo := os.Getenv("VERIF_REPO")
	if repo == "" {
		repo = "/repo"
	}
	mut := map[string]bool{}
	for _, m := range strings.Fields("Set SetUint64 SetInt64 SetBytes SetString SetBit SetBits Add Sub Mul Div Mod Quo Rem Neg Abs Lsh Rsh Exp And Or Xor Not AndNot DivMod QuoRem ModInverse ModSqrt Sqrt GCD Rand Binomial MulRange") {
		mut[m] = true
	}
	fset := token.NewFileSet()
	var files []*ast.File
	var names []string
	for _, dir := range []string{"core/state", "core/vm"} {
		pkgs, err := parser.ParseDir(fset, filepath.Join(repo, dir), func(fi os.FileInfo) bool { return !strings.HasSuffix(fi.Name(), "_test.go") && !strings.HasPrefix(fi.Name(), "zz_verif_") }, 0)
		if err != nil {
			fmt.Fprintln(os.Stderr, "c16 aliasing: cannot parse", dir, err)
			os.Exit(3)
		}
		for _, p := range pkgs {
			var fns []string
			for fn := range p.Files {
				fns = append(fns, fn)
			}
			sort.Strings(fns)
			for _, fn := range fns {
				files = append(files, p.Files[fn])
				rel, _ := filepath.Rel(repo, fn)
				names = append(names, rel)
			}
		}
	}
	isBig := func(e ast.Expr) bool {
		st, ok := e.(*ast.StarExpr)
		if !ok {
			return false
		}
		se, ok := st.X.(*ast.SelectorExpr)
		if !ok {
			return false
		}
		id, ok := se.X.(*ast.Ident)
		return ok && id.Name == "big" && se.Sel.Name == "Int"
	}
	fields := map[string]bool{}
	for _, f := range files {
		ast.Inspect(f, func(n ast.Node) bool {
			if st, ok := n.(*ast.StructType); ok {
				for _, fl := range st.Fields.List {
					if isBig(fl.Type) {
						for _, nm := range fl.Names {
							fields[nm.Name] = true
						}
					}
				}
			}
			return true
		})
	}
	text := func(e ast.Expr) string {
		var b bytes.Buffer
		printer.Fprint(&b, fset, e)
		return strings.Join(strings.Fields(b.String()), " ")
	}
	type entry struct{ file, fn, expr string }
	var out2 []entry
	for i, f := range files {
		for _, d := range f.Decls {
			fd, ok := d.(*ast.FuncDecl)
			if !ok || fd.Body == nil {
				continue
			}
			fname := fd.Name.Name
			if fd.Recv != nil && len(fd.Recv.List) > 0 {
				fname = text(fd.Recv.List[0].Type) + "." + fname
			}
			ast.Inspect(fd.Body, func(n ast.Node) bool {
				ce, ok := n.(*ast.CallExpr)
				if !ok {
					return true
				}
				se, ok := ce.Fun.(*ast.SelectorExpr)
				if !ok || !mut[se.Sel.Name] {
					return true
				}
				stored := false
				switch r := se.X.(type) {
				case *ast.SelectorExpr:
					stored = fields[r.Sel.Name]
				case *ast.CallExpr:
					if rs, ok := r.Fun.(*ast.SelectorExpr); ok && len(r.Args) == 0 {
						stored = fields[rs.Sel.Name] || rs.Sel.Name == "Value"
					}
				}
				if stored {
					out2 = append(out2, entry{names[i], fname, text(ce.Fun)})
				}
				return true
			})
		}
	}
	sort.Slice(out2, func(i, j int) bool {
		if out2[i].file != out2[j].file {
			return out2[i].file < out2[j].file
		}
		if out2[i].fn != out2[j].fn {
			return out2[i].fn < out2[j].fn
		}
		return out2[i].expr < out2[j].expr
	})
	var fs []string
	for k := range fields {
		fs = append(fs, "\""+k+"\"")
	}
	sort.Strings(fs)
	var sb strings.Builder
	sb.WriteString("(* GENERATED by harness/cmd/c16 (aliasing) from the source text of core/state and core/vm of the working tree. Do not edit. *)\nFrom Coq Require Import String List.\nImport ListNotations.\nLocal Open Scope string_scope.\n")
	sb.WriteString("(* struct fields of type *big.Int *)\nDefinition bigint_fields : list string := [" + strings.Join(fs, "; ") + "].\n")
	sb.WriteString("(* (file, function, call): a mutating big.Int method called on such a field or on an accessor of one *)\nDefinition inplace_writes : list (string * string * string) := [\n")
	for i, e := range out2 {
		if i > 0 {
			sb.WriteString(";\n")
		}
		sb.WriteString(fmt.Sprintf(" (%q, %q, %q)", e.file, e.fn, e.expr))
	}
	sb.WriteString("].\n")
	vf.WriteIfChanged(out, sb.String())
}

// ---- replay ----------------------------------------------------------------------------

func replayCmd(file string) {
	b, err := ioutil.ReadFile(file)
	if err != nil {
		fmt.Println(err)
		os.Exit(2)
	}
	var w struct {
		Case    *Case `json:"case"`
		History []HOp `json:"history"`
	}
	var c Case
	if json.Unmarshal(b, &w) == nil && len(w.History) > 0 {
		if hw := runHistory(w.History); hw != "" {
			fmt.Println("ORACLE VIOLATION:", hw)
			os.Exit(1)
		}
		fmt.Println("history replayed: every revert restored its snapshot")
		return
	}
	if json.Unmarshal(b, &w) == nil && w.Case != nil {
		c = *w.Case
	} else if err := json.Unmarshal(b, &c); err != nil {
		fmt.Println(err)
		os.Exit(2)
	}
	rs, err := run(&c)
	if err != nil {
		fmt.Println("cannot run:", err)
		os.Exit(2)
	}
	for i, x := range rs.Txs {
		fmt.Printf("tx %d: status=%d err=%q gas_left=%d refund=%d burnt=%s accounts=%d\n", i, x.Status, x.Err, x.Gas, x.Refund, x.Burnt, len(x.Accts))
	}
	fmt.Printf("logs=%d\n", len(rs.Logs))
	if len(rs.Hits) > 0 {
		for _, h := range rs.Hits {
			fmt.Println("ORACLE VIOLATION:", h)
		}
		os.Exit(1)
	}
}

func main() {
	mode := ""
	if len(os.Args) > 1 {
		mode = os.Args[1]
		os.Args = append(os.Args[:1], os.Args[2:]...)
	}
	seed := flag.Uint64("seed", 1, "")
	n := flag.Int("n", 300, "")
	out := flag.String("out", ".", "")
	corpus := flag.String("corpus", "/verif/corpus/C16", "")
	file := flag.String("file", "", "")
	tier := flag.String("tier", "quick", "")
	flag.Parse()
	params.InitNetworkId(params.NetworkIdForTestCase)
	switch mode {
	case "gen":
		genCmd(*seed, *n, *out, *corpus, *tier)
	case "table":
		tableCmd(*out)
	case "aliasing":
		aliasingCmd(*out)
	case "replay":
		replayCmd(*file)
	default:
		fmt.Println("usage: c16 gen|table|replay")
		os.Exit(2)
	}
}
