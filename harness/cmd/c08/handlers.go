package main

// Handler histories: random sequences of the REAL end-of-block code of package staking
// (hooks/staking/zz_verif_c08.go), run unmodified on validators WITH delegations and with
// NON-whole token amounts: the take-effect handlers teCreate, teUpdate, teDeposit,
// teWithdraw, teChangeStatus, teDelegationAdd, teDelegationSub, the penalty code
// doPenalize/takePenalty (double sign, inactive) and slashingAndRecoveringYouV5
// (inactivitySlashing, recoverFromExpiredExpelling), the rewards code rewardsToPool,
// distributeRewards, settleValidatorRewards; interleaved with IntermediateRoot,
// Commit + reload, Copy, Snapshot / RevertToSnapshot.  After every step the property oracle
// runs (statistics = sums over the records, every record's total token/stake = own +
// delegations', stake = token / unit per component, index, delegator links).  These
// histories are oracle-only: the handlers also move balances, the withdraw queue and
// reward fields of the statistics, which the Coq model does not have.

import (
	"fmt"
	"math/big"
	"strings"

	"github.com/youchainhq/go-youchain/common"
	"github.com/youchainhq/go-youchain/core/state"
	"github.com/youchainhq/go-youchain/params"
	"github.com/youchainhq/go-youchain/rlp"
	"github.com/youchainhq/go-youchain/staking"

	"verif/harness/vf"
)

type HOp struct {
	K   string `json:"k"`
	A   int    `json:"a,omitempty"`   // validator number
	D   int    `json:"d,omitempty"`   // delegator number
	Amt string `json:"amt,omitempty"` // LU
	N   int64  `json:"n,omitempty"`   // role / status / commission / obligation / revision id
	M   int64  `json:"m,omitempty"`
}

type HHist struct {
	Ops []HOp `json:"ops"`
}

var errNoHook = fmt.Errorf("hook not available")

type hworld struct {
	w      *world
	cfg    params.YouParams
	height uint64
	nonce  uint64
	snaps  []int
	f10    bool // a penalty has been taken from a delegation: finding penalty-skips-delegator-account
}

// F10: takePenalty reduces (or removes) the delegations of the penalized validator, nobody tells the delegators' accounts
const F10 = "penalty-skips-delegator-account"


func dlgSnapshot(st *state.StateDB) string {
	var sb strings.Builder
	for _, a := range sortedV {
		if v := peek(st, a); v != nil {
			for _, d := range v.Delegations {
				if d != nil {
					fmt.Fprintf(&sb, "%d:%d:%v;", rk(a), rk(d.Delegator), d.Token)
				}
			}
		}
	}
	return sb.String()
}

var hOperator = common.BigToAddress(big.NewInt(0xC08001))
var hCoinbase = common.BigToAddress(big.NewInt(0xC08002))

func newHWorld() *hworld {
	h := &hworld{w: newWorld(), height: 1000}
	h.cfg = params.Versions[params.YouV5].DeepCopy()
	h.cfg.MinStakes = map[params.ValidatorRole]uint64{1: 3, 2: 2, 3: 1}
	h.cfg.MinSelfStakes = map[params.ValidatorRole]uint64{1: 1, 2: 1, 3: 0}
	h.cfg.MaxStakes = map[params.ValidatorRole]uint64{1: 100000, 2: 100000, 3: 100000}
	h.cfg.MinDelegationTokens = new(big.Int).Set(unit)
	for d := 0; d < ND; d++ {
		h.w.st.AddBalance(daddrs[d], big.NewInt(1)) // the delegator accounts exist (they paid for their transactions)
	}
	h.w.st.AddBalance(h.cfg.RewardsPoolAddress, new(big.Int).Mul(big.NewInt(1000000), unit))
	return h
}

func (h *hworld) te(from common.Address, action staking.ActionType, tx interface{}) error {
	payload, err := rlp.EncodeToBytes(tx)
	if err != nil {
		return err
	}
	h.nonce++
	ok, err := hookTE(h.w.st, &h.cfg, from, action, payload, h.height, h.nonce)
	if !ok {
		return errNoHook
	}
	return err
}

// exec runs one step; skipped = the step does not apply to the current state (kept out of generated histories).
func (h *hworld) exec(o HOp) (skipped bool, err error) {
	st := h.w.st
	h.height++
	amt := bz(o.Amt)
	v := peek(st, vaddrs[o.A%NV])
	va := vaddrs[o.A%NV]
	switch o.K {
	case "create":
		if st.VerifC08Raw(va).Present || peek(st, va) != nil {
			return true, nil
		}
		return false, h.te(hOperator, staking.ValidatorCreate, &staking.TxCreateValidator{Name: "v", OperatorAddress: hOperator, Coinbase: hCoinbase,
			MainPubKey: vkeys[o.A], BlsPubKey: vkeys[o.A], Value: amt, Role: params.ValidatorRole(o.N), AcceptDelegation: params.AcceptDelegation,
			CommissionRate: uint16(o.M % 10000), RiskObligation: uint16((o.M / 10000) % 10001)})
	case "update":
		if v == nil {
			return true, nil
		}
		return false, h.te(hOperator, staking.ValidatorUpdate, &staking.TxUpdateValidator{MainAddress: va, CommissionRate: uint16(o.M % 10000),
			RiskObligation: uint16((o.M / 10000) % 10001), AcceptDelegation: uint16(o.N)})
	case "deposit":
		if v == nil {
			return true, nil
		}
		return false, h.te(hOperator, staking.ValidatorDeposit, &staking.TxValidatorDeposit{MainAddress: va, Value: amt})
	case "withdraw":
		if v == nil {
			return true, nil
		}
		return false, h.te(hOperator, staking.ValidatorWithDraw, &staking.TxValidatorWithdraw{MainAddress: va, Recipient: hOperator, Value: amt})
	case "status":
		if v == nil {
			return true, nil
		}
		return false, h.te(hOperator, staking.ValidatorChangeStatus, &staking.TxValidatorChangeStatus{MainAddress: va, Status: uint8(o.N)})
	case "dadd":
		if v == nil || amt.Sign() <= 0 {
			return true, nil
		}
		return false, h.te(daddrs[o.D], staking.DelegationAdd, &staking.TxDelegation{Validator: va, Value: amt})
	case "dsub":
		if v == nil || amt.Sign() <= 0 {
			return true, nil
		}
		return false, h.te(daddrs[o.D], staking.DelegationSub, &staking.TxDelegation{Validator: va, Value: amt})
	case "penalize":
		// takePenalty divides by the total stake: the callers penalize staked validators only
		if v == nil || v.Stake.Sign() <= 0 || amt.Sign() < 0 {
			return true, nil
		}
		typ := []string{staking.EvidenceTypeDoubleSign, staking.EvidenceTypeInactive, staking.EvidenceTypeDoubleSignV5}[int(o.N)%3]
		if !hookPenalize(st, &h.cfg, typ, va, amt, h.height) {
			return true, nil
		}
	case "inactivity":
		h.height += uint64(o.N)
		if !hookInactivity(st, &h.cfg, h.height) {
			return true, nil
		}
	case "rewards":
		// the proposer exists and is online (rewardsToPool exits the process otherwise)
		if v == nil || !v.IsOnline() {
			return true, nil
		}
		if !hookRewards(st, &h.cfg, va, amt, h.height) {
			return true, nil
		}
	case "distribute":
		s, _ := st.GetValidatorsStat()
		for role := 1; role <= 3; role++ {
			// a role with online validators has online stake (MinStakes >= 1), otherwise the division has no meaning
			if k := s.GetByRole(params.ValidatorRole(role)); k.GetCount() > 0 && k.GetOnlineStake().Sign() == 0 {
				return true, nil
			}
		}
		ok, err := hookDistribute(st, &h.cfg, h.height)
		if !ok {
			return true, nil
		}
		if err != nil && !strings.Contains(err.Error(), "empty stake") {
			return false, err
		}
	case "settle":
		if v == nil {
			return true, nil
		}
		if !hookSettle(st, &h.cfg, va, h.height) {
			return true, nil
		}
	case "root":
		st.IntermediateRoot(true)
		h.snaps = nil
	case "commit":
		if p, msg := h.w.exec(Op{K: "commit"}); p {
			return false, fmt.Errorf("commit: %s", msg)
		}
		h.snaps = nil
	case "copy":
		h.w.exec(Op{K: "copy"})
		h.snaps = nil
	case "snap":
		h.snaps = append(h.snaps, st.Snapshot())
	case "revert":
		if len(h.snaps) == 0 {
			return true, nil
		}
		i := int(o.N) % len(h.snaps)
		st.RevertToSnapshot(h.snaps[i])
		h.snaps = h.snaps[:i]
	default:
		return false, fmt.Errorf("unknown step %s", o.K)
	}
	return false, nil
}

// oracleAll returns the first failing clause; class = the listed finding it belongs to ("" = none)
func (h *hworld) oracleAll() (fail, class string) {
	c := oracle(h.w.st)
	for _, f := range []string{c.sums, c.units, c.stat, c.index, c.links} {
		if f != "" {
			return f, ""
		}
	}
	// the finding explains the account side only: a too high delegation balance, a listed validator that holds nothing
	if c.acct != "" {
		if h.f10 {
			return c.acct, F10
		}
		return c.acct, ""
	}
	return "", ""
}

// step executes one op with panic capture and runs the oracle.
func (h *hworld) step(i int, o HOp) (skipped bool, fail, class string) {
	if sk, f, cl := h.step0(i, o); !(f != "" && strings.Contains(f, errNoHook.Error())) {
		return sk, f, cl
	}
	return true, "", "" // the hook this step needs is not part of the build
}

func (h *hworld) step0(i int, o HOp) (skipped bool, fail, class string) {
	defer func() {
		if r := recover(); r != nil {
			fail, class = fmt.Sprintf("step %d (%s): panic: %v", i, o.K, r), ""
		}
	}()
	before := ""
	if o.K == "penalize" || o.K == "inactivity" {
		before = dlgSnapshot(h.w.st)
	}
	sk, err := h.exec(o)
	if err != nil {
		return sk, fmt.Sprintf("step %d (%s): %v", i, o.K, err), ""
	}
	if (o.K == "penalize" || o.K == "inactivity") && dlgSnapshot(h.w.st) != before {
		h.f10 = true
	}
	if f, cl := h.oracleAll(); f != "" {
		return sk, fmt.Sprintf("after step %d (%s): %s", i, o.K, f), cl
	}
	return sk, "", ""
}

// runHandlers returns the first failure outside the listed finding classes (fail), and per class the first one inside it
func runHandlers(hh *HHist) (fail string, known map[string]string, done int) {
	h := newHWorld()
	known = map[string]string{}
	ops := append(append([]HOp{}, hh.Ops...), HOp{K: "commit"}) // the final state survives Commit + reload
	for i, o := range ops {
		_, f, cl := h.step(i, o)
		if f != "" && cl == "" {
			return f, known, i
		}
		if f != "" && known[cl] == "" {
			known[cl] = f
		}
		if strings.Contains(f, "panic:") {
			break
		}
	}
	return "", known, len(hh.Ops)
}

// fracAmount: a few YOU plus a fraction of one (the components' fractions must be able to add up to a whole YOU)
func fracAmount(r *vf.Rng) *big.Int {
	x := new(big.Int).Mul(big.NewInt(int64(r.Intn(7))), unit)
	if r.Chance(8) {
		x.Mul(big.NewInt(int64(r.Intn(3000))), unit)
	}
	var f *big.Int
	switch r.Intn(8) {
	case 0:
		f = new(big.Int)
	case 1:
		f = big.NewInt(1)
	case 2:
		f = new(big.Int).Sub(unit, big.NewInt(1))
	case 3:
		f = new(big.Int).Div(unit, big.NewInt(2))
	case 4:
		f = new(big.Int).Div(new(big.Int).Mul(unit, big.NewInt(int64(1+r.Intn(99)))), big.NewInt(100))
	default:
		f = new(big.Int).SetUint64(r.U64() % unit.Uint64())
	}
	return x.Add(x, f)
}

func genHandlers(r *vf.Rng) *HHist {
	hh := &HHist{}
	h := newHWorld()
	push := func(o HOp) bool { // false = stop (failure: the verdict comes from runHandlers)
		sk, f, cl := h.step(len(hh.Ops), o)
		if sk {
			return true
		}
		hh.Ops = append(hh.Ops, o)
		return f == "" || (cl != "" && !strings.Contains(f, "panic:"))
	}
	// prologue: two to four validators, brought online, with delegations
	nval := 2 + r.Intn(3)
	for a := 0; a < nval; a++ {
		own := new(big.Int).Add(fracAmount(r), new(big.Int).Mul(big.NewInt(3), unit))
		if !push(HOp{K: "create", A: a, Amt: own.String(), N: int64(1 + r.Intn(3)), M: int64(r.Intn(3000)) + 10000*int64(r.Intn(4))*2500}) {
			return hh
		}
		if r.Chance(80) && !push(HOp{K: "status", A: a, N: 1}) {
			return hh
		}
		for k := r.Intn(4); k > 0; k-- {
			if !push(HOp{K: "dadd", A: a, D: r.Intn(ND), Amt: new(big.Int).Add(fracAmount(r), unit).String()}) {
				return hh
			}
		}
	}
	steps := len(hh.Ops) + 10 + r.Intn(30)
	for tries := 0; len(hh.Ops) < steps && tries < 400; tries++ {
		a, d := r.Intn(nval+1)%NV, r.Intn(ND)
		var o HOp
		switch x := r.Intn(100); {
		case x < 5:
			o = HOp{K: "create", A: a, Amt: new(big.Int).Add(fracAmount(r), unit).String(), N: int64(1 + r.Intn(3)), M: int64(r.Intn(3000))}
		case x < 20:
			o = HOp{K: "deposit", A: a, Amt: fracAmount(r).String()}
		case x < 30:
			o = HOp{K: "withdraw", A: a, Amt: fracAmount(r).String()}
		case x < 36:
			o = HOp{K: "status", A: a, N: int64(r.Intn(2))}
		case x < 52:
			o = HOp{K: "dadd", A: a, D: d, Amt: new(big.Int).Add(fracAmount(r), unit).String()}
		case x < 64:
			o = HOp{K: "dsub", A: a, D: d, Amt: new(big.Int).Add(fracAmount(r), big.NewInt(1)).String()}
		case x < 67:
			o = HOp{K: "update", A: a, N: int64(r.Intn(2)), M: int64(r.Intn(3000)) + 10000*int64(r.Intn(4))*2500}
		case x < 77:
			// one percent of the token (what the evidence processing takes), or any amount
			amt := fracAmount(r)
			if v := peek(h.w.st, vaddrs[a]); v != nil && r.Chance(60) {
				amt = new(big.Int).Div(v.Token, big.NewInt(100))
			}
			o = HOp{K: "penalize", A: a, Amt: amt.String(), N: int64(r.Intn(3))}
		case x < 79:
			o = HOp{K: "inactivity", N: int64(r.Intn(80))}
		case x < 84:
			o = HOp{K: "rewards", A: a, Amt: new(big.Int).SetUint64(r.U64() % 1000000007).String()}
		case x < 88:
			o = HOp{K: "distribute"}
		case x < 91:
			o = HOp{K: "settle", A: a}
		case x < 93:
			o = HOp{K: "root"}
		case x < 95:
			o = HOp{K: "commit"}
		case x < 96:
			o = HOp{K: "copy"}
		case x < 98:
			o = HOp{K: "snap"}
		default:
			o = HOp{K: "revert", N: int64(r.Intn(4))}
		}
		if !push(o) {
			return hh
		}
	}
	return hh
}
