package main

// Optional hooks of package staking (hooks/staking/zz_verif_c08_<name>.go register themselves in
// staking.VerifC08).  A hook whose file does not compile against the tree under test is left out of
// the build by props/C08.py; the steps that need it are skipped and reported.

import (
	"math/big"

	"github.com/youchainhq/go-youchain/common"
	"github.com/youchainhq/go-youchain/core/state"
	"github.com/youchainhq/go-youchain/params"
	"github.com/youchainhq/go-youchain/staking"
)

var missingHooks = map[string]bool{}

func hook(name string) interface{} {
	f, ok := staking.VerifC08[name]
	if !ok {
		missingHooks[name] = true
		return nil
	}
	return f
}

func hookTE(st *state.StateDB, cfg *params.YouParams, from common.Address, action staking.ActionType, payload []byte, height, nonce uint64) (bool, error) {
	f, ok := hook("te").(func(*state.StateDB, *params.YouParams, common.Address, staking.ActionType, []byte, uint64, uint64) error)
	if !ok {
		return false, nil
	}
	return true, f(st, cfg, from, action, payload, height, nonce)
}

func hookPenalize(st *state.StateDB, cfg *params.YouParams, typ string, validator common.Address, amount *big.Int, height uint64) bool {
	f, ok := hook("penalize").(func(*state.StateDB, *params.YouParams, string, common.Address, *big.Int, uint64) bool)
	if !ok {
		return false
	}
	f(st, cfg, typ, validator, amount, height)
	return true
}

func hookInactivity(st *state.StateDB, cfg *params.YouParams, height uint64) bool {
	f, ok := hook("inactivity").(func(*state.StateDB, *params.YouParams, uint64))
	if !ok {
		return false
	}
	f(st, cfg, height)
	return true
}

func hookRewards(st *state.StateDB, cfg *params.YouParams, proposer common.Address, gas *big.Int, height uint64) bool {
	f, ok := hook("rewards").(func(*state.StateDB, *params.YouParams, common.Address, *big.Int, uint64))
	if !ok {
		return false
	}
	f(st, cfg, proposer, gas, height)
	return true
}

func hookDistribute(st *state.StateDB, cfg *params.YouParams, height uint64) (bool, error) {
	f, ok := hook("distribute").(func(*state.StateDB, *params.YouParams, uint64) error)
	if !ok {
		return false, nil
	}
	return true, f(st, cfg, height)
}

func hookSettle(st *state.StateDB, cfg *params.YouParams, validator common.Address, height uint64) bool {
	f, ok := hook("settle").(func(*state.StateDB, *params.YouParams, common.Address, uint64) bool)
	if !ok {
		return false
	}
	f(st, cfg, validator, height)
	return true
}
