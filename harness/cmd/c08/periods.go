package main

// Whole-block scenarios: the REAL end-of-block hook of package staking (the exported
// staking.EndBlock: checkAndUpgradeValidatorsToYouV5, slashing/replaySlashing, rewardsToPool,
// endStakingPeriod = slashingAndRecoveringYouV5 + distributeRewards + processWithdrawQueue +
// processPendingTxs with the take-effect handlers) runs unmodified on committed and reloaded
// states: validators of every role, some inactive beyond the wait, some with an expired
// expulsion, delegations with non-whole amounts, signed pending staking transactions taking
// effect, rewards to distribute; ordinary blocks (rewards only) in between.  The property
// oracle runs after every block and after the Commit + reload that follows it.  No hook of
// the harness is involved: a change of the inner functions' signatures cannot switch these
// scenarios off.  Oracle-only (balances, withdraw queue, reward fields are not in the Coq model).

import (
	"crypto/ecdsa"
	"fmt"
	"math/big"

	"github.com/youchainhq/go-youchain/common"
	"github.com/youchainhq/go-youchain/core/state"
	"github.com/youchainhq/go-youchain/core/types"
	"github.com/youchainhq/go-youchain/crypto"
	"github.com/youchainhq/go-youchain/local"
	"github.com/youchainhq/go-youchain/params"
	"github.com/youchainhq/go-youchain/rlp"
	"github.com/youchainhq/go-youchain/staking"
	"github.com/youchainhq/go-youchain/youdb"

	"verif/harness/vf"
)

// delegators / operators that can sign transactions
var (
	kkeys  [ND]*ecdsa.PrivateKey
	kaddrs [ND]common.Address
)

func setupKeys() []common.Address {
	var out []common.Address
	for i := 0; i < ND; i++ {
		b := make([]byte, 32)
		b[0] = 9
		b[31] = byte(i + 1)
		k, err := crypto.ToECDSA(b)
		if err != nil {
			panic(err)
		}
		kkeys[i] = k
		kaddrs[i] = crypto.PubkeyToAddress(k.PublicKey)
		out = append(out, kaddrs[i])
	}
	return out
}

type PVal struct {
	A          int     `json:"a"`
	Role       int64   `json:"role"`
	Own        string  `json:"own"` // LU
	Online     bool    `json:"online"`
	LastActive uint64  `json:"last_active"`             // 0 = never
	Expelled   uint64  `json:"expel_expired,omitempty"` // expelled until this height (0 = not expelled)
	Commission uint16  `json:"commission,omitempty"`
	Obligation uint16  `json:"obligation,omitempty"`
	Dlg        []PDlg  `json:"dlg,omitempty"`
}
type PDlg struct {
	D   int    `json:"d"`
	Amt string `json:"amt"`
}
type PTx struct {
	K   string `json:"k"` // deposit withdraw status dadd dsub create
	A   int    `json:"a"`
	D   int    `json:"d,omitempty"`
	Amt string `json:"amt,omitempty"`
	N   int64  `json:"n,omitempty"`
}
type PBlock struct {
	PeriodEnd bool   `json:"period_end,omitempty"`
	Proposer  int    `json:"proposer"`
	Gas       string `json:"gas,omitempty"`
	Seal      bool   `json:"seal,omitempty"`
	FirstV5   bool   `json:"first_v5,omitempty"` // the parent block is YouV4: checkAndUpgradeValidatorsToYouV5 runs
	Txs       []PTx  `json:"txs,omitempty"`
}
type PScenario struct {
	Freq    uint64   `json:"staking_trie_frequency"`
	Wait    uint64   `json:"inactivity_wait_rounds"`
	Penalty uint8    `json:"penalty_percent"`
	Start   uint64   `json:"start_height"`
	Vals    []PVal   `json:"validators"`
	Blocks  []PBlock `json:"blocks"`
}

type fakeChain struct {
	cfg     *params.YouParams
	firstV5 bool
	cur     *types.Header
}

func (c *fakeChain) VersionForRound(round uint64) (*params.YouParams, error) { return c.cfg, nil }
func (c *fakeChain) GetHeader(hash common.Hash, number uint64) *types.Header {
	v := params.YouV5
	if c.firstV5 {
		v = params.YouV4
	}
	return &types.Header{Number: new(big.Int).SetUint64(number), CurrVersion: v}
}
func (c *fakeChain) GetHeaderByHash(hash common.Hash) *types.Header        { return c.cur }
func (c *fakeChain) GetBlock(hash common.Hash, number uint64) *types.Block { return nil }
func (c *fakeChain) CurrentHeader() *types.Header                          { return c.cur }

type pworld struct {
	db    state.Database
	st    *state.StateDB
	cfg   params.YouParams
	num   uint64
	nonce map[int]uint64
	f10   bool
	stk   *staking.Staking
}

func (p *pworld) reload() error {
	r1, r2, _, err := p.st.Commit(true)
	if err != nil {
		return err
	}
	// a new staking period starts with an empty staking trie
	n, err := state.New(r1, r2, common.Hash{}, p.db)
	if err != nil {
		return err
	}
	p.st = n
	return nil
}

func (p *pworld) oracle(where string) (fail, class string) {
	c := oracle(p.st)
	for _, f := range []string{c.sums, c.units, c.stat, c.index, c.links} {
		if f != "" {
			return where + ": " + f, ""
		}
	}
	if c.acct != "" {
		if p.f10 {
			return where + ": " + c.acct, F10
		}
		return where + ": " + c.acct, ""
	}
	return "", ""
}

// what the whole-block scenarios reached (reported in the evidence)
var pstats = map[string]int{}

type dlgKey struct{ v, d common.Address }

func dlgTokens(st *state.StateDB) (map[dlgKey]*big.Int, map[common.Address]bool) {
	m, exp := map[dlgKey]*big.Int{}, map[common.Address]bool{}
	for _, a := range sortedV {
		if v := peek(st, a); v != nil {
			exp[a] = v.Expelled
			for _, d := range v.Delegations {
				if d != nil {
					m[dlgKey{a, d.Delegator}] = new(big.Int).Set(d.Token)
				}
			}
		}
	}
	return m, exp
}

func (p *pworld) signedTx(t PTx) (*types.Transaction, common.Address, common.Address, *big.Int, error) {
	va := vaddrs[t.A%NV]
	amt := bz(t.Amt)
	var (
		action  staking.ActionType
		payload interface{}
		signer  = 0 // operator
		d       common.Address
		final   *big.Int
	)
	switch t.K {
	case "create":
		action, payload = staking.ValidatorCreate, &staking.TxCreateValidator{Name: "v", OperatorAddress: kaddrs[0], Coinbase: kaddrs[0],
			MainPubKey: vkeys[t.A%NV], BlsPubKey: vkeys[t.A%NV], Value: amt, Role: params.ValidatorRole(t.N), AcceptDelegation: params.AcceptDelegation}
		final = amt
	case "deposit":
		action, payload = staking.ValidatorDeposit, &staking.TxValidatorDeposit{MainAddress: va, Value: amt}
		final = amt
	case "withdraw":
		action, payload = staking.ValidatorWithDraw, &staking.TxValidatorWithdraw{MainAddress: va, Recipient: kaddrs[0], Value: amt}
	case "status":
		action, payload = staking.ValidatorChangeStatus, &staking.TxValidatorChangeStatus{MainAddress: va, Status: uint8(t.N)}
	case "dadd":
		signer, d = t.D%ND, kaddrs[t.D%ND]
		action, payload, final = staking.DelegationAdd, &staking.TxDelegation{Validator: va, Value: amt}, amt
	case "dsub":
		signer, d = t.D%ND, kaddrs[t.D%ND]
		action, payload = staking.DelegationSub, &staking.TxDelegation{Validator: va, Value: amt}
	default:
		return nil, d, va, nil, fmt.Errorf("unknown tx %s", t.K)
	}
	pb, err := rlp.EncodeToBytes(payload)
	if err != nil {
		return nil, d, va, nil, err
	}
	data, err := rlp.EncodeToBytes(&staking.Message{Action: action, Payload: pb})
	if err != nil {
		return nil, d, va, nil, err
	}
	p.nonce[signer]++
	tx := types.NewTransaction(p.nonce[signer], params.StakingModuleAddress, new(big.Int), 100000, big.NewInt(1), data)
	stx, err := types.SignTx(tx, types.MakeSigner(nil), kkeys[signer])
	return stx, d, va, final, err
}

// runPeriods returns the first unlisted failure, the first failure inside F10, and the number of blocks done.
func runPeriods(sc *PScenario) (fail, known string, done int) {
	defer func() {
		if r := recover(); r != nil {
			fail = fmt.Sprintf("block %d: panic: %v", done, r)
		}
	}()
	p := &pworld{db: state.NewDatabase(youdb.NewMemDatabase()), nonce: map[int]uint64{}, stk: staking.NewStaking(nil)}
	st, err := state.New(common.Hash{}, common.Hash{}, common.Hash{}, p.db)
	if err != nil {
		return err.Error(), "", 0
	}
	p.st = st
	p.cfg = params.Versions[params.YouV5].DeepCopy()
	p.cfg.StakingTrieFrequency = sc.Freq
	p.cfg.InactivityPenaltyWaitRounds = sc.Wait
	p.cfg.PenaltyFractionForInactive = uint64(sc.Penalty)
	p.cfg.MinStakes = map[params.ValidatorRole]uint64{1: 3, 2: 2, 3: 1}
	p.cfg.MinSelfStakes = map[params.ValidatorRole]uint64{1: 1, 2: 1, 3: 0}
	p.cfg.MaxStakes = map[params.ValidatorRole]uint64{1: 1000000, 2: 1000000, 3: 1000000}
	p.cfg.MinDelegationTokens = new(big.Int).Set(unit)
	for i := 0; i < ND; i++ {
		st.AddBalance(kaddrs[i], big.NewInt(1))
	}
	st.AddBalance(p.cfg.RewardsPoolAddress, new(big.Int).Mul(big.NewInt(1000000), unit))
	// the validator set, built through the StateDB API as the handlers would leave it
	for _, v := range sc.Vals {
		own := bz(v.Own)
		status := uint8(params.ValidatorOffline)
		if v.Online {
			status = uint8(params.ValidatorOnline)
		}
		st.CreateValidator("v", kaddrs[0], kaddrs[0], params.ValidatorRole(v.Role), vkeys[v.A%NV], vkeys[v.A%NV], own, new(big.Int).Div(own, unit),
			params.AcceptDelegation, v.Commission, v.Obligation, status)
		for _, d := range v.Dlg {
			if val := st.GetValidatorByMainAddr(vaddrs[v.A%NV]); val != nil {
				st.UpdateDelegation(kaddrs[d.D%ND], val, bz(d.Amt))
			}
		}
		if val := st.GetValidatorByMainAddr(vaddrs[v.A%NV]); val != nil && (v.LastActive > 0 || v.Expelled > 0) {
			nv := val.PartialCopy()
			if v.LastActive > 0 {
				nv.UpdateLastActive(v.LastActive)
			}
			if v.Expelled > 0 {
				nv.Expelled, nv.ExpelExpired = true, v.Expelled
			}
			st.UpdateValidator(nv, val)
		}
	}
	if f, _ := p.oracle("initial state"); f != "" {
		return f, "", 0
	}
	if err := p.reload(); err != nil {
		return "commit: " + err.Error(), "", 0
	}
	p.num = sc.Start
	for i, b := range sc.Blocks {
		done = i
		// block numbers: the next period end, or the next ordinary block
		p.num++
		if b.PeriodEnd {
			for (p.num+1)%sc.Freq != 0 {
				p.num++
			}
		} else if (p.num+1)%sc.Freq == 0 {
			p.num++
		}
		prop := peek(p.st, vaddrs[b.Proposer%NV])
		if prop == nil {
			return "", known, i // rewardsToPool exits the process without a proposer: the scenario ends here
		}
		gas := bz(b.Gas)
		if s, _ := p.st.GetValidatorsStat(); s.GetByRole(1).GetCount()+s.GetByRole(2).GetCount()+s.GetByRole(3).GetCount() == 0 {
			return "", known, i // no online validator: the rewards have nobody to go to (division by zero portions)
		}
		var txs []*types.Transaction
		for _, t := range b.Txs {
			if !b.PeriodEnd {
				break
			}
			if t.K != "create" && peek(p.st, vaddrs[t.A%NV]) == nil {
				continue // the pre-check of the transaction handlers rejects it
			}
			if t.K == "create" && p.st.VerifC08Raw(vaddrs[t.A%NV]).Present {
				continue
			}
			tx, d, v, final, err := p.signedTx(t)
			if err != nil {
				return "tx: " + err.Error(), known, i
			}
			txs = append(txs, tx)
			p.st.AddStakingRecord(d, v, tx.Hash(), final)
		}
		header := &types.Header{Number: new(big.Int).SetUint64(p.num), CurrVersion: params.YouV5, Coinbase: vaddrs[b.Proposer%NV],
			GasRewards: gas, Subsidy: new(big.Int), Time: 1000 + p.num, ParentHash: common.BigToHash(new(big.Int).SetUint64(p.num - 1))}
		chain := &fakeChain{cfg: &p.cfg, firstV5: b.FirstV5, cur: &types.Header{Number: new(big.Int).SetUint64(p.num - 1), CurrVersion: params.YouV5}}
		before, expBefore := dlgTokens(p.st)
		if _, _, err := staking.EndBlock(p.stk)(chain, header, txs, p.st, b.Seal, local.FakeRecorder()); err != nil {
			return fmt.Sprintf("block %d (height %d): EndBlock: %v", i, p.num, err), known, i
		}
		// finding F10 applies once a penalty has been taken from a delegation
		after, expAfter := dlgTokens(p.st)
		pstats["pending staking transactions taken through EndBlock"] += len(txs)
		for a, e := range expAfter {
			if was, ok := expBefore[a]; ok && e && !was {
				pstats["validators slashed for inactivity"]++
			} else if ok && !e && was {
				pstats["validators recovered from an expired expulsion"]++
			}
		}
		if b.FirstV5 {
			pstats["first YouV5 blocks (upgrade of the validators)"]++
		}
		for k, tok := range before {
			if expAfter[k.v] && !expBefore[k.v] {
				if now, ok := after[k]; !ok || now.Cmp(tok) < 0 {
					p.f10 = true
				}
			}
		}
		where := fmt.Sprintf("after block %d (height %d, period end %v)", i, p.num, b.PeriodEnd)
		if f, cl := p.oracle(where); f != "" {
			if cl == "" {
				return f, known, i
			}
			if known == "" {
				known = f
			}
		}
		if err := p.reload(); err != nil {
			return where + ": commit: " + err.Error(), known, i
		}
		if f, cl := p.oracle(where + " and Commit + reload"); f != "" {
			if cl == "" {
				return f, known, i
			}
			if known == "" {
				known = f
			}
		}
	}
	return "", known, len(sc.Blocks)
}

func genPeriods(r *vf.Rng) *PScenario {
	sc := &PScenario{Freq: uint64(4 + r.Intn(13)), Penalty: uint8(r.Intn(2))}
	sc.Wait = sc.Freq + uint64(r.Intn(int(2*sc.Freq)))
	sc.Start = 1000 + uint64(r.Intn(1000))
	nv := 3 + r.Intn(NV-2)
	for a := 0; a < nv; a++ {
		role := int64(1 + r.Intn(3))
		if a < 3 {
			role = int64(a + 1) // every role is present
		}
		v := PVal{A: a, Role: role, Own: new(big.Int).Add(fracAmount(r), new(big.Int).Mul(big.NewInt(3), unit)).String(), Online: r.Chance(85),
			Commission: uint16(r.Intn(3000)), Obligation: uint16(r.Intn(4) * 2500)}
		switch r.Intn(4) {
		case 0: // never active: beyond every wait
		case 1: // long ago
			v.LastActive = sc.Start - sc.Wait - uint64(1+r.Intn(50))
		default: // recently: becomes inactive only after some periods, if ever
			v.LastActive = sc.Start - uint64(r.Intn(int(sc.Wait)+1))
		}
		if r.Chance(20) {
			v.Online = false
			v.Expelled = sc.Start + uint64(r.Intn(int(3*sc.Freq))) - sc.Freq // expired or about to expire
		}
		for k := r.Intn(4); k > 0; k-- {
			v.Dlg = append(v.Dlg, PDlg{D: r.Intn(ND), Amt: new(big.Int).Add(fracAmount(r), unit).String()})
		}
		sc.Vals = append(sc.Vals, v)
	}
	online := func() int {
		var on []int
		for _, v := range sc.Vals {
			if v.Online {
				on = append(on, v.A)
			}
		}
		if len(on) == 0 {
			sc.Vals[0].Online, sc.Vals[0].Expelled = true, 0
			return 0
		}
		return on[r.Intn(len(on))]
	}
	prop := online()
	for n := 3 + r.Intn(8); n > 0; n-- {
		if r.Chance(25) {
			prop = online()
		}
		b := PBlock{PeriodEnd: r.Chance(55), Proposer: prop, Gas: new(big.Int).SetUint64(r.U64() % 1000000007).String(), Seal: r.Bool(), FirstV5: r.Chance(5)}
		if b.PeriodEnd {
			for k := r.Intn(5); k > 0; k-- {
				a := r.Intn(nv + 1)
				t := PTx{A: a, D: r.Intn(ND)}
				switch x := r.Intn(100); {
				case x < 25:
					t.K, t.Amt = "deposit", fracAmount(r).String()
				case x < 40:
					t.K, t.Amt = "withdraw", fracAmount(r).String()
				case x < 50:
					t.K, t.N = "status", int64(r.Intn(2))
				case x < 75:
					t.K, t.Amt = "dadd", new(big.Int).Add(fracAmount(r), unit).String()
				case x < 92:
					t.K, t.Amt = "dsub", new(big.Int).Add(fracAmount(r), big.NewInt(1)).String()
				default:
					t.K, t.Amt, t.N = "create", new(big.Int).Add(fracAmount(r), new(big.Int).Mul(big.NewInt(3), unit)).String(), int64(1+r.Intn(3))
				}
				b.Txs = append(b.Txs, t)
			}
		}
		sc.Blocks = append(sc.Blocks, b)
	}
	return sc
}
