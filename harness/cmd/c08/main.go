// C08 harness: drives the validator bookkeeping of core/state (CreateValidator,
// UpdateValidator, RemoveValidator, UpdateDelegation, Snapshot/RevertToSnapshot,
// Finalise, IntermediateRoot, Commit + state.New, Copy, GetValidatorsForUpdate)
// of the working tree over random op histories, records a hash of the complete
// projected state after every op for the in-Coq comparison with the model, and
// evaluates the property oracle (recomputation of the statistics, totals,
// stake units, index, delegation links) on the implementation's own state.
package main

import (
	"encoding/json"
	"flag"
	"fmt"
	"io/ioutil"
	"math/big"
	"os"
	"path/filepath"
	"sort"
	"strings"

	"github.com/youchainhq/go-youchain/common"
	"github.com/youchainhq/go-youchain/core/state"
	"github.com/youchainhq/go-youchain/crypto"
	"github.com/youchainhq/go-youchain/logging"
	"github.com/youchainhq/go-youchain/params"
	"github.com/youchainhq/go-youchain/youdb"
	"verif/harness/vf"
)

const (
	NV = 6 // validator keys
	ND = 6 // delegator accounts
)

type Upd struct {
	Role, Status                            int64
	Token, Stake, SToken, SStake, RDist, RT string
	Misc                                    int64
}

type Op struct {
	K       string `json:"k"`
	A       int    `json:"a,omitempty"` // validator number
	D       int    `json:"d,omitempty"` // delegator number
	Role    int64  `json:"role,omitempty"`
	Status  int64  `json:"status,omitempty"`
	Token   string `json:"token,omitempty"`
	Stake   string `json:"stake,omitempty"`
	Amt     string `json:"amt,omitempty"`
	U       *Upd   `json:"u,omitempty"`
	Id      int    `json:"id,omitempty"`
	InPlace bool   `json:"inplace,omitempty"`
	// S selects the handle the op runs on once the history has forked (op "fork":
	// handle 1 = handle 0's Copy(), and handle 0 stays alive); 0 before the fork
	S int `json:"s,omitempty"`
}

type History struct {
	What    string `json:"what,omitempty"`
	Ops     []Op   `json:"ops"`
	Comment string `json:"comment,omitempty"`
	// a scenario around the real staking handler instead of ops (te.go)
	Scenario *Scenario `json:"scenario,omitempty"`
	// a history of real staking handlers instead of ops (handlers.go)
	Handlers *HHist `json:"handlers,omitempty"`
	// a whole-block scenario through the real staking.EndBlock (periods.go)
	Periods *PScenario `json:"periods,omitempty"`
	// filled by run
	Hashes  []uint64 `json:"-"`
	Panic   bool     `json:"-"`
	PanicAt string   `json:"-"`
}

var (
	unit   = params.StakeUint
	vkeys  [NV][]byte
	vaddrs [NV]common.Address
	daddrs [ND]common.Address
	rank   = map[common.Address]int64{}
)

func bz(s string) *big.Int {
	if s == "" {
		return new(big.Int)
	}
	x, ok := new(big.Int).SetString(s, 10)
	if !ok {
		panic("bad number " + s)
	}
	return x
}

func setup() {
	for i := 0; i < NV; i++ {
		b := make([]byte, 32)
		b[0] = 7
		b[31] = byte(i + 1)
		k, err := crypto.ToECDSA(b)
		if err != nil {
			panic(err)
		}
		vkeys[i] = crypto.CompressPubkey(&k.PublicKey)
		vaddrs[i] = state.PubToAddress(vkeys[i])
	}
	for i := 0; i < ND; i++ {
		var a common.Address
		a[19] = byte(0x10 + i)
		if i%2 == 1 {
			a[0] = byte(0xF0 - i) // some delegators sort above every validator
		}
		daddrs[i] = a
	}
	var all []common.Address
	for _, a := range vaddrs {
		all = append(all, a)
	}
	for _, a := range daddrs {
		all = append(all, a)
	}
	all = append(all, setupKeys()...) // delegators that can sign transactions (periods.go)
	sort.Slice(all, func(i, j int) bool { return all[i].Big().Cmp(all[j].Big()) < 0 })
	for i, a := range all {
		rank[a] = int64(i + 1)
	}
}

func rk(a common.Address) int64 {
	if r, ok := rank[a]; ok {
		return r
	}
	return 999
}

// ---- observation hash (must mirror Model.obs / hash_list) ----------------

var two63 = new(big.Int).Lsh(big.NewInt(1), 63)

const mask63 = uint64(1)<<63 - 1

type hasher struct {
	h    uint64
	raw  []string
	keep bool
}

func newHasher(keep bool) *hasher { return &hasher{h: 17, keep: keep} }
func (h *hasher) addU(x uint64)   { h.h = (h.h*1000003 + x + 7) & mask63 }
func (h *hasher) big(x *big.Int) {
	if h.keep {
		h.raw = append(h.raw, x.String())
	}
	if x.IsInt64() {
		h.addU(uint64(x.Int64()))
		return
	}
	m := new(big.Int).Mod(x, two63) // Euclidean: two's complement low 63 bits
	h.addU(m.Uint64())
}
func (h *hasher) i(x int64)  { h.big(big.NewInt(x)) }
func (h *hasher) u(x uint64) { h.big(new(big.Int).SetUint64(x)) }
func (h *hasher) b(x bool) {
	if x {
		h.i(1)
	} else {
		h.i(0)
	}
}

func (h *hasher) stat(s *state.ValidatorsStat) {
	one := func(k *state.ValKindStat) {
		h.big(k.GetOnlineStake())
		h.big(k.GetOnlineToken())
		h.u(k.GetCount())
		h.big(k.GetOfflineStake())
		h.big(k.GetOfflineToken())
		h.u(k.GetOfflineCount())
	}
	for _, k := range []params.ValidatorKind{0, 1, 2} {
		one(s.GetByKind(k))
	}
	for _, r := range []params.ValidatorRole{1, 2, 3} {
		one(s.GetByRole(r))
	}
}

func (h *hasher) valScalars(v *state.Validator) {
	h.i(int64(v.Role))
	h.i(int64(v.Status))
	h.big(v.Token)
	h.big(v.Stake)
	h.big(v.SelfToken)
	h.big(v.SelfStake)
	h.big(v.RewardsDistributable)
	h.big(v.RewardsTotal)
	h.u(v.LastInactive)
}
func (h *hasher) dl(l state.DelegationFroms) {
	for _, d := range l {
		if d == nil {
			h.i(-1)
		} else {
			h.i(rk(d.Delegator))
			h.big(d.Stake)
			h.big(d.Token)
		}
	}
}

func observe(st *state.StateDB, keep bool) *hasher {
	h := newHasher(keep)
	s, _ := st.GetValidatorsStat()
	h.stat(s)
	idx := st.VerifC08Index()
	h.i(int64(len(idx)))
	for _, a := range idx {
		h.i(rk(a))
	}
	for _, a := range sortedV {
		r := st.VerifC08Raw(a)
		if !r.Present {
			h.i(0)
			continue
		}
		h.i(1)
		h.b(r.Deleted)
		h.valScalars(r.Val)
		h.i(int64(len(r.Val.Delegations)))
		h.i(int64(r.Cap))
		h.dl(r.Val.Delegations)
	}
	for _, a := range sortedV {
		v, ok, bad := st.VerifC08Trie(a)
		switch {
		case !ok:
			h.i(0)
		case bad:
			h.i(2)
		default:
			h.i(1)
			h.valScalars(v)
			h.i(int64(len(v.Delegations)))
			h.dl(v.Delegations)
		}
	}
	ti, present := st.VerifC08TrieIndex()
	if !present {
		h.i(-1)
	} else {
		h.i(int64(len(ti)))
		for _, a := range ti {
			h.i(rk(a))
		}
	}
	h.stat(st.VerifC08TrieStat())
	for _, a := range sortedD {
		ac := st.VerifC08Account(a)
		if !ac.Present {
			h.i(0)
			continue
		}
		h.i(1)
		h.big(ac.Balance)
		h.b(ac.Loaded)
		h.b(ac.Dirty)
		switch {
		case ac.Loaded:
			h.i(int64(len(ac.List)))
			for _, x := range ac.List {
				h.i(rk(x))
			}
		case ac.HashEmpty:
			h.i(-2)
		case ac.BlobPresent:
			h.i(-3)
			h.i(int64(len(ac.List)))
			for _, x := range ac.List {
				h.i(rk(x))
			}
		default:
			h.i(-4)
		}
	}
	aj, vj, revs, next, dirty := st.VerifC08Counters()
	h.i(int64(aj))
	h.i(int64(vj))
	h.i(int64(revs))
	h.i(int64(next))
	h.i(int64(len(dirty)))
	for _, a := range dirty {
		h.i(rk(a))
	}
	ad := st.VerifC08AcctDirty()
	h.i(int64(len(ad)))
	for _, a := range ad {
		h.i(rk(a))
	}
	return h
}

var sortedV, sortedD []common.Address

func initSorted() {
	sortedV = append([]common.Address{}, vaddrs[:]...)
	sortedD = append([]common.Address{}, daddrs[:]...)
	sort.Slice(sortedV, func(i, j int) bool { return rk(sortedV[i]) < rk(sortedV[j]) })
	sort.Slice(sortedD, func(i, j int) bool { return rk(sortedD[i]) < rk(sortedD[j]) })
	oracleD = append(append([]common.Address{}, daddrs[:]...), kaddrs[:]...)
	sort.Slice(oracleD, func(i, j int) bool { return rk(oracleD[i]) < rk(oracleD[j]) })
}

// oracleD: every delegator account the oracle looks at (the model's delegators and the signing ones)
var oracleD []common.Address

// ---- running one op on the implementation ---------------------------------

// A world holds one handle, or two after a "fork": sts[1] = sts[0].Copy() with
// sts[0] kept alive (both share the trie database, like a miner's working copy
// and the chain's state).  st is the handle of the op being executed / generated.
type world struct {
	st     *state.StateDB
	db     state.Database
	sts    [2]*state.StateDB
	forked bool
}

func (w *world) side(o Op) int {
	if w.forked && o.S == 1 {
		return 1
	}
	return 0
}

func newWorld() *world {
	db := state.NewDatabase(youdb.NewMemDatabase())
	st, err := state.New(common.Hash{}, common.Hash{}, common.Hash{}, db)
	if err != nil {
		panic(err)
	}
	return &world{st: st, db: db, sts: [2]*state.StateDB{st, nil}}
}

func (w *world) exec(o Op) (panicked bool, msg string) {
	defer func() {
		if r := recover(); r != nil {
			panicked = true
			msg = fmt.Sprint(r)
		}
	}()
	k := w.side(o)
	st := w.sts[k]
	w.st = st
	set := func(n *state.StateDB) { w.sts[k] = n; w.st = n }
	switch o.K {
	case "fork":
		if w.forked {
			panic("harness: second fork")
		}
		c := w.sts[0].Copy()
		w.sts[1] = c
		w.forked = true
	case "fund":
		st.AddBalance(daddrs[o.D], big.NewInt(1))
	case "create":
		st.CreateValidator("v", common.Address{1}, common.Address{2}, params.ValidatorRole(o.Role), vkeys[o.A], vkeys[o.A], bz(o.Token), bz(o.Stake), 1, 0, 0, uint8(o.Status))
	case "update":
		old := st.GetValidatorByMainAddr(vaddrs[o.A])
		if old == nil {
			return
		}
		write := func(v *state.Validator) {
			v.Role = params.ValidatorRole(o.U.Role)
			v.Status = uint8(o.U.Status)
			v.Token = bz(o.U.Token)
			v.Stake = bz(o.U.Stake)
			v.SelfToken = bz(o.U.SToken)
			v.SelfStake = bz(o.U.SStake)
			v.RewardsDistributable = bz(o.U.RDist)
			v.RewardsTotal = bz(o.U.RT)
			v.LastInactive = uint64(o.U.Misc)
		}
		if o.InPlace {
			// the GetValidatorsForUpdate pattern: copy = old, live object mutated
			cp := old.PartialCopy()
			write(old)
			st.UpdateValidator(old, cp)
		} else {
			nw := old.PartialCopy()
			write(nw)
			st.UpdateValidator(nw, old)
		}
	case "remove":
		st.RemoveValidator(vaddrs[o.A])
	case "delegate":
		v := st.GetValidatorByMainAddr(vaddrs[o.A])
		if v == nil {
			return
		}
		st.UpdateDelegation(daddrs[o.D], v, bz(o.Amt))
	case "snap":
		st.Snapshot()
	case "revert":
		st.RevertToSnapshot(o.Id)
	case "finalise":
		st.Finalise(true)
	case "root":
		st.IntermediateRoot(true)
	case "commit":
		r1, r2, r3, err := st.Commit(true)
		if err != nil {
			panic("commit: " + err.Error())
		}
		n, err := state.New(r1, r2, r3, w.db)
		if err != nil {
			panic("reopen: " + err.Error())
		}
		set(n)
	case "copy":
		set(st.Copy())
	case "list":
		st.GetValidatorsForUpdate()
	default:
		panic("unknown op " + o.K)
	}
	return
}

// ---- oracle: the property on the implementation's own state ----------------

type existing struct {
	v *state.Validator
}

func peek(st *state.StateDB, a common.Address) *state.Validator {
	r := st.VerifC08Raw(a)
	if r.Present {
		if r.Deleted {
			return nil
		}
		return r.Val
	}
	v, ok, bad := st.VerifC08Trie(a)
	if !ok || bad {
		return nil
	}
	return v
}

type clause struct {
	stat, index, sums, units, links string
	acct                            string // account side of the links: lists a validator without a delegation from it / balance != sum
	neg                             bool // some record holds a negative token or stake
}

// oracle returns, per clause of the property, "" or a description of the failure.
func oracle(st *state.StateDB) clause {
	var c clause
	type acc struct {
		onS, onT, offS, offT *big.Int
		on, off              uint64
	}
	mk := func() *acc { return &acc{new(big.Int), new(big.Int), new(big.Int), new(big.Int), 0, 0} }
	kinds := map[int]*acc{0: mk(), 1: mk(), 2: mk()}
	roles := map[int]*acc{1: mk(), 2: mk(), 3: mk()}
	var live []common.Address
	for _, a := range sortedV {
		v := peek(st, a)
		if v == nil {
			continue
		}
		live = append(live, a)
		if v.Token.Sign() < 0 || v.Stake.Sign() < 0 {
			c.neg = true
		}
		kind := 1
		if v.Role == 3 {
			kind = 2
		}
		for _, x := range []*acc{roles[int(v.Role)], kinds[kind], kinds[0]} {
			if x == nil {
				continue
			}
			if v.Status == params.ValidatorOnline {
				x.onS.Add(x.onS, v.Stake)
				x.onT.Add(x.onT, v.Token)
				x.on++
			} else {
				x.offS.Add(x.offS, v.Stake)
				x.offT.Add(x.offT, v.Token)
				x.off++
			}
		}
		// totals
		tok, stk := new(big.Int).Set(v.SelfToken), new(big.Int).Set(v.SelfStake)
		var prev *big.Int
		for _, d := range v.Delegations {
			if d == nil {
				c.sums = fmt.Sprintf("validator %d has a nil delegation", rk(a))
				break
			}
			tok.Add(tok, d.Token)
			stk.Add(stk, d.Stake)
			if prev != nil && prev.Cmp(d.Delegator.Big()) >= 0 {
				c.sums = fmt.Sprintf("validator %d: delegations not strictly sorted", rk(a))
			}
			prev = d.Delegator.Big()
			if d.Stake.Cmp(new(big.Int).Div(d.Token, unit)) != 0 && c.units == "" {
				c.units = fmt.Sprintf("validator %d: delegation stake %v != token %v / unit", rk(a), d.Stake, d.Token)
			}
			ac := st.VerifC08Account(d.Delegator)
			ok := false
			if ac.Present && (ac.Loaded || ac.HashEmpty || ac.BlobPresent) {
				for _, x := range ac.List {
					if x == a {
						ok = true
					}
				}
			}
			if !ok && c.links == "" {
				c.links = fmt.Sprintf("validator %d lists delegator %d whose account does not list it", rk(a), rk(d.Delegator))
			}
		}
		if c.sums == "" && (tok.Cmp(v.Token) != 0 || stk.Cmp(v.Stake) != 0) {
			c.sums = fmt.Sprintf("validator %d: token %v stake %v but self+delegations = %v / %v", rk(a), v.Token, v.Stake, tok, stk)
		}
		if v.SelfStake.Cmp(new(big.Int).Div(v.SelfToken, unit)) != 0 && c.units == "" {
			c.units = fmt.Sprintf("validator %d: self stake %v != self token %v / unit", rk(a), v.SelfStake, v.SelfToken)
		}
	}
	s, _ := st.GetValidatorsStat()
	cmp := func(name string, k *state.ValKindStat, x *acc) {
		if c.stat != "" {
			return
		}
		if k.GetOnlineStake().Cmp(x.onS) != 0 || k.GetOnlineToken().Cmp(x.onT) != 0 || k.GetCount() != x.on ||
			k.GetOfflineStake().Cmp(x.offS) != 0 || k.GetOfflineToken().Cmp(x.offT) != 0 || k.GetOfflineCount() != x.off {
			c.stat = fmt.Sprintf("%s: stat on %v/%v/%d off %v/%v/%d, records give on %v/%v/%d off %v/%v/%d", name,
				k.GetOnlineStake(), k.GetOnlineToken(), k.GetCount(), k.GetOfflineStake(), k.GetOfflineToken(), k.GetOfflineCount(),
				x.onS, x.onT, x.on, x.offS, x.offT, x.off)
		}
	}
	for i := 0; i < 3; i++ {
		cmp(fmt.Sprintf("kind %d", i), s.GetByKind(params.ValidatorKind(i)), kinds[i])
	}
	for i := 1; i <= 3; i++ {
		cmp(fmt.Sprintf("role %d", i), s.GetByRole(params.ValidatorRole(i)), roles[i])
	}
	idx := st.VerifC08Index()
	if len(idx) != len(live) {
		c.index = fmt.Sprintf("index has %d addresses, %d validators exist", len(idx), len(live))
	} else {
		for i := range idx {
			if idx[i] != live[i] {
				c.index = fmt.Sprintf("index entry %d is validator %d, expected %d", i, rk(idx[i]), rk(live[i]))
				break
			}
		}
	}
	for _, d := range oracleD {
		ac := st.VerifC08Account(d)
		if !ac.Present {
			continue
		}
		if !(ac.Loaded || ac.HashEmpty || ac.BlobPresent) {
			if c.links == "" {
				c.links = fmt.Sprintf("delegation list of account %d cannot be read (blob missing)", rk(d))
			}
			continue
		}
		sum := new(big.Int)
		for _, a := range ac.List {
			v := peek(st, a)
			var df *state.DelegationFrom
			if v != nil {
				for _, x := range v.Delegations {
					if x != nil && x.Delegator == d {
						df = x
					}
				}
			}
			if df == nil {
				if c.acct == "" {
					c.acct = fmt.Sprintf("account %d lists validator %d which has no delegation from it", rk(d), rk(a))
				}
				continue
			}
			sum.Add(sum, df.Token)
		}
		if sum.Cmp(ac.Balance) != 0 && c.acct == "" {
			c.acct = fmt.Sprintf("account %d: delegation balance %v but delegations sum to %v", rk(d), ac.Balance, sum)
		}
	}
	return c
}

// ---- history runner with finding classes ----------------------------------

// Finding classes (genuine defects of the unchanged tree, see /verif/fixes/C08_*.md).
// A history is attributed to the first class it enters; the same predicates
// are stated in Coq (Model/Proofs: pre).
const (
	F5 = "delegate-from-missing-account"
	F7 = "stale-index-reload"
	F8 = "copy-reindexes-removed-validator"
)

var two64 = new(big.Int).Lsh(big.NewInt(1), 64)

type runResult struct {
	class     string // first finding class entered ("" = none)
	undisc    bool   // caller discipline broken (raw update, over-withdraw, wrong stake, ...)
	neg       bool   // a caller wrote a negative amount: the clamped statistics are no longer sums
	failures  []string
	failClass []string // class in force when the failure was seen
	opsDone   int
	panicked  bool
	panicMsg  string
	classes   map[string]bool
	proj      []*History // the cases for the Coq model: the history itself, or one projection per handle
}

func disciplinedUpd(old *state.Validator, u *Upd) bool {
	st, ss := bz(u.SToken), bz(u.SStake)
	if st.Sign() < 0 || ss.Cmp(new(big.Int).Div(st, unit)) != 0 {
		return false
	}
	if u.Role < 1 || u.Role > 3 || bz(u.RDist).Sign() < 0 || bz(u.RT).Sign() < 0 {
		return false
	}
	dt := new(big.Int).Sub(st, old.SelfToken)
	ds := new(big.Int).Sub(ss, old.SelfStake)
	return bz(u.Token).Cmp(new(big.Int).Add(old.Token, dt)) == 0 && bz(u.Stake).Cmp(new(big.Int).Add(old.Stake, ds)) == 0
}

// sideState is the bookkeeping of one handle: the classification of its own
// history and its projection (the ops that produced it, for the Coq model).
type sideState struct {
	class   string
	undisc  bool
	neg     bool
	classes map[string]bool
	revVj   map[int]int // valid revision ids -> length of the validator journal at the snapshot
	ops     []Op
	hashes  []uint64
	panic   bool
	last    uint64 // hash of the last observation
	seen    bool
}

func (s *sideState) clone() *sideState {
	c := &sideState{class: s.class, undisc: s.undisc, neg: s.neg, classes: map[string]bool{}, revVj: map[int]int{}}
	for k := range s.classes {
		c.classes[k] = true
	}
	c.ops = append([]Op{}, s.ops...)
	c.hashes = append([]uint64{}, s.hashes...)
	return c
}

func run(h *History, keepRaw bool, trace func(i int, o Op, hs *hasher, c clause)) *runResult {
	w := newWorld()
	res := &runResult{classes: map[string]bool{}}
	sides := []*sideState{{classes: map[string]bool{}, revVj: map[int]int{}}}
	h.Hashes = nil
	h.Panic = false
	finish := func() *runResult {
		for _, sd := range sides {
			for c := range sd.classes {
				res.classes[c] = true
			}
			if res.class == "" {
				res.class = sd.class
			}
			res.undisc = res.undisc || sd.undisc
			res.neg = res.neg || sd.neg
		}
		if len(sides) == 1 {
			res.proj = []*History{h}
		} else {
			for k, sd := range sides {
				full, _ := json.Marshal(h.Ops[:res.opsDone+boolInt(res.panicked)])
				res.proj = append(res.proj, &History{Ops: sd.ops, Hashes: sd.hashes, Panic: sd.panic,
					Comment: fmt.Sprintf("%s handle %d of forked history %s", h.Comment, k, full)})
			}
		}
		return res
	}
	for i, o := range h.Ops {
		k := w.side(o)
		o.S = k
		if o.K == "fork" {
			k = 0
		}
		sd := sides[k]
		st := w.sts[k]
		enter := func(c string) {
			sd.classes[c] = true
			if sd.class == "" {
				sd.class = c
			}
		}
		if o.K == "fork" {
			// the new handle inherits the history of handle 0 and continues it with a Copy
			sd = sides[0].clone()
			sides = append(sides, sd)
		}
		// classification on the pre-state
		switch o.K {
		case "create":
			if bz(o.Token).Sign() < 0 || bz(o.Stake).Cmp(new(big.Int).Div(bz(o.Token), unit)) != 0 || o.Role < 1 || o.Role > 3 {
				sd.undisc = true
			}
		case "update":
			if old := peek(st, vaddrs[o.A]); old != nil && !disciplinedUpd(old, o.U) {
				sd.undisc = true
				if bz(o.U.Token).Sign() < 0 || bz(o.U.Stake).Sign() < 0 {
					sd.neg = true
				}
			}
		case "remove":
			// removing a validator that still holds delegations leaves the delegators pointing at nothing:
			// callers must not do that (no business check in RemoveValidator)
			if r := st.VerifC08Raw(vaddrs[o.A]); r.Present && !r.Deleted && len(r.Val.Delegations) > 0 {
				sd.undisc = true
			}
		case "delegate":
			if v := peek(st, vaddrs[o.A]); v != nil && bz(o.Amt).Sign() != 0 {
				if !st.VerifC08Account(daddrs[o.D]).Present {
					enter(F5)
				}
				var cur *big.Int
				for _, d := range v.Delegations {
					if d != nil && d.Delegator == daddrs[o.D] {
						cur = d.Token
					}
				}
				if cur == nil {
					cur = new(big.Int)
				}
				if new(big.Int).Add(cur, bz(o.Amt)).Sign() < 0 {
					sd.undisc = true
					sd.neg = true
				}
			}
		case "revert":
			if _, ok := sd.revVj[o.Id]; !ok {
				sd.undisc = true // not a valid revision id
			}
		case "copy", "fork":
			// Copy adds every address of validatorObjectsDirty to the copy's index, removed validators included
			_, _, _, _, dirty := st.VerifC08Counters()
			jd := st.VerifC08JournalDirties()
			for _, a := range dirty {
				if r := st.VerifC08Raw(a); r.Present && r.Deleted && !jd[a] {
					enter(F8)
				}
			}
		case "list":
			// an empty in-memory index is reloaded from the trie although every validator may have been removed
			ti, present := st.VerifC08TrieIndex()
			if present && len(ti) > 0 && len(st.VerifC08Index()) == 0 {
				enter(F7)
			}
		}
		_, vjBefore, _, nextBefore, _ := st.VerifC08Counters()
		po := o
		if o.K == "fork" {
			po = Op{K: "copy"}
		}
		sd.ops = append(sd.ops, po)
		p, msg := w.exec(o)
		if p {
			h.Panic = true
			sd.panic = true
			h.PanicAt = fmt.Sprintf("op %d (%s): %s", i, o.K, msg)
			res.panicked = true
			res.panicMsg = h.PanicAt
			if sd.class == "" && !sd.undisc {
				res.failures = append(res.failures, "panic: "+h.PanicAt)
				res.failClass = append(res.failClass, "")
			}
			break
		}
		res.opsDone++
		if o.K == "fork" {
			k = 1
		}
		st = w.sts[k]
		switch o.K {
		case "snap":
			sd.revVj[nextBefore] = vjBefore
		case "finalise", "root", "commit", "copy", "fork":
			sd.revVj = map[int]int{}
		case "revert":
			for id := range sd.revVj {
				if id >= o.Id {
					delete(sd.revVj, id)
				}
			}
		}
		hs := observe(st, keepRaw)
		h.Hashes = append(h.Hashes, hs.h)
		sd.hashes = append(sd.hashes, hs.h)
		sd.last, sd.seen = hs.h, true
		// the property on every live handle, each judged by the classification of its own history
		for j, sj := range sides {
			c := oracle(w.sts[j])
			where := ""
			if len(sides) > 1 {
				where = fmt.Sprintf(" [handle %d]", j)
			}
			if j == k && trace != nil {
				trace(i, o, hs, c)
			}
			add := func(s string) {
				if s != "" {
					res.failures = append(res.failures, fmt.Sprintf("after op %d (%s on handle %d)%s: %s", i, o.K, k, where, s))
					res.failClass = append(res.failClass, sj.class)
				}
			}
			if j != k && sj.seen {
				// a state and its copy are independent: an op on one handle must not change anything observable on the other
				if ho := observe(w.sts[j], false); ho.h != sj.last {
					res.failures = append(res.failures, fmt.Sprintf("after op %d (%s on handle %d): copy isolation: the observable state of handle %d changed", i, o.K, k, j))
					res.failClass = append(res.failClass, "")
				}
			}
			if c.neg && sj.undisc {
				sj.neg = true // negative amounts emerged from undisciplined writes: clamped statistics are no longer sums
			}
			if !sj.neg {
				add(c.stat)
			}
			add(c.index)
			if !sj.undisc {
				add(c.sums)
				add(c.units)
				add(c.links)
			}
		}
	}
	return finish()
}

// ---- generation -------------------------------------------------------------

func amount(r *vf.Rng) *big.Int {
	k := int64(r.Intn(6))
	if r.Chance(10) {
		k = int64(r.Intn(2000))
	}
	x := new(big.Int).Mul(big.NewInt(k), unit)
	switch r.Intn(6) {
	case 0:
		x.Add(x, big.NewInt(1))
	case 1:
		x.Sub(x, big.NewInt(1))
	case 2:
		x.Add(x, big.NewInt(int64(r.Intn(1000000))))
	}
	if x.Sign() < 0 {
		x.SetInt64(0)
	}
	return x
}

func stakeOf(t *big.Int) *big.Int { return new(big.Int).Div(t, unit) }

type genState struct {
	w      *world
	revIds []int
}

// delegatesTo tells whether delegator d is listed by validator v.
func delegatesTo(v *state.Validator, d int) bool {
	for _, df := range v.Delegations {
		if df != nil && df.Delegator == daddrs[d] {
			return true
		}
	}
	return false
}

// pickNew returns a live validator of st that delegator d does not delegate to yet
// (-1 if there is none): mode 0 = the first-sorting one, 1 = a random one, 2 = a random
// one among those sorting after every validator d delegates to (the account's
// list grows at its end), falling back to mode 1.
func pickNew(r *vf.Rng, st *state.StateDB, d int, mode int) int {
	var cand, after []int
	last := int64(-1 << 62)
	for a := 0; a < NV; a++ {
		if v := peek(st, vaddrs[a]); v != nil && delegatesTo(v, d) && rk(vaddrs[a]) > last {
			last = rk(vaddrs[a])
		}
	}
	first := -1
	for a := 0; a < NV; a++ {
		v := peek(st, vaddrs[a])
		if v == nil || delegatesTo(v, d) {
			continue
		}
		cand = append(cand, a)
		if rk(vaddrs[a]) > last {
			after = append(after, a)
		}
		if first < 0 || rk(vaddrs[a]) < rk(vaddrs[first]) {
			first = a
		}
	}
	switch {
	case len(cand) == 0:
		return -1
	case mode == 0:
		return first
	case mode == 2 && len(after) > 0:
		return after[r.Intn(len(after))]
	}
	return cand[r.Intn(len(cand))]
}

// genHistory draws one history.  fork = the two-handle family: a build-up in which
// one or two "focus" delegators collect delegations (lists with spare capacity,
// objects dirty, so that Copy shares them), then op "fork" (Copy with both
// handles kept alive), then ops interleaved on both handles that mostly add and
// withdraw delegations of the focus delegators, new validators preferably sorting
// after the listed ones, and finally Commit + reload of both handles.
func genHistory(r *vf.Rng, flavour int, fork bool) *History {
	h := &History{}
	w := newWorld()
	steps := 10 + r.Intn(25) + r.Heavy(100)
	allowFindings := flavour == 1 // flavour 0: stays inside the disciplined, finding-free class
	push := func(o Op) bool {
		h.Ops = append(h.Ops, o)
		p, _ := w.exec(o)
		return !p
	}
	var focus []int
	forkAt, endAt := -1, -1
	if fork {
		focus = append(focus, r.Intn(ND))
		if r.Chance(40) {
			focus = append(focus, r.Intn(ND))
		}
		forkAt = ND + 4 + r.Intn(14)
		steps = forkAt + 8 + r.Intn(30)
		if r.Chance(75) {
			endAt = steps
			steps += 2 + r.Intn(6)
		}
	}
	tryPush := func(o Op) bool { // false = the implementation panicked
		if !allowFindings && !safeOp(w, h, o) {
			return true
		}
		return push(o)
	}
	// prologue: fund most delegators, create a few validators
	for d := 0; d < ND; d++ {
		if r.Chance(80) || !allowFindings {
			if !push(Op{K: "fund", D: d}) {
				return h
			}
		}
	}
	if fork {
		// enough validators for the lists to grow
		for a := 0; a < NV; a++ {
			if r.Chance(85) {
				t := new(big.Int).Mul(big.NewInt(int64(1+r.Intn(5))), unit)
				if !push(Op{K: "create", A: a, Role: int64(1 + r.Intn(3)), Status: int64(r.Intn(2)), Token: t.String(), Stake: stakeOf(t).String()}) {
					return h
				}
			}
		}
		forkAt += len(h.Ops) - ND
		steps += len(h.Ops) - ND
		if endAt >= 0 {
			endAt += len(h.Ops) - ND
		}
	}
	for len(h.Ops) < steps {
		if fork && !w.forked && len(h.Ops) >= forkAt {
			// last build-up: the focus delegators get one to three more delegations (mostly first-sorting
			// validators first), sometimes one that is withdrawn again at once (a shrunk list keeps a spare slot)
			okd := func(d int) bool { return allowFindings || w.sts[0].VerifC08Account(daddrs[d]).Present }
			for _, d := range focus {
				n := 1 + r.Intn(3)
				plan := r.Intn(100)
				if plan < 45 {
					// grow the list to three entries: append leaves a fourth, unused slot behind them
					n = 0
					for a := 0; a < NV; a++ {
						if v := peek(w.sts[0], vaddrs[a]); v != nil && delegatesTo(v, d) {
							n++
						}
					}
					n = 3 - n
				}
				for ; n > 0 && okd(d); n-- {
					if a := pickNew(r, w.sts[0], d, r.Intn(4)/3); a >= 0 {
						if !tryPush(Op{K: "delegate", A: a, D: d, Amt: new(big.Int).Add(amount(r), big.NewInt(1)).String()}) {
							return h
						}
					}
				}
				if a := pickNew(r, w.sts[0], d, 2); a >= 0 && okd(d) && plan >= 45 && plan < 80 {
					amt := new(big.Int).Add(amount(r), big.NewInt(1))
					if !tryPush(Op{K: "delegate", A: a, D: d, Amt: amt.String()}) || !tryPush(Op{K: "delegate", A: a, D: d, Amt: new(big.Int).Neg(amt).String()}) {
						return h
					}
				}
			}
			if r.Chance(25) {
				if !tryPush(Op{K: []string{"root", "finalise", "snap"}[r.Intn(3)]}) {
					return h
				}
			}
			if !tryPush(Op{K: "fork"}) {
				return h
			}
			if !w.forked { // the fork would enter a finding class here: go on with one handle
				fork, endAt = false, -1
				continue
			}
			// often both handles at once extend the list of a focus delegator at its end, by different validators if possible
			if d := focus[r.Intn(len(focus))]; r.Chance(70) && okd(d) {
				k0 := r.Intn(2)
				a0 := pickNew(r, w.sts[k0], d, 2)
				a1 := pickNew(r, w.sts[1-k0], d, 2)
				for t := 0; t < 4 && a1 == a0; t++ {
					a1 = pickNew(r, w.sts[1-k0], d, 2)
				}
				for j, a := range []int{a0, a1} {
					if a >= 0 {
						if !tryPush(Op{K: "delegate", A: a, D: d, S: (k0 + j) % 2, Amt: new(big.Int).Add(amount(r), big.NewInt(1)).String()}) {
							return h
						}
					}
				}
			}
			continue
		}
		if fork && endAt >= 0 && len(h.Ops) >= endAt {
			endAt = -1
			for _, k := range []int{r.Intn(2), 0, 1} {
				if !tryPush(Op{K: "commit", S: k}) {
					return h
				}
			}
			continue
		}
		sd := 0
		if w.forked {
			sd = r.Intn(2)
		}
		st := w.sts[sd]
		a := r.Intn(NV)
		d := r.Intn(ND)
		x := r.Intn(100)
		if fork && (w.forked && r.Chance(70) || !w.forked && r.Chance(20)) {
			d = focus[r.Intn(len(focus))]
			if r.Chance(60) {
				x = 50 // a delegation op
				mode := r.Intn(2) // before the fork: first-sorting or any
				if w.forked {
					mode = 1 + r.Intn(2) // after it: any, or one that extends the list at its end
				}
				if n := pickNew(r, st, d, mode); n >= 0 && r.Chance(65) {
					a = n
				}
			}
		}
		live := peek(st, vaddrs[a])
		var o Op
		switch {
		case x < 14:
			t := amount(r)
			o = Op{K: "create", A: a, Role: int64(1 + r.Intn(3)), Status: int64(r.Intn(2)), Token: t.String(), Stake: stakeOf(t).String()}
			if allowFindings && r.Chance(6) {
				o.Stake = new(big.Int).Add(stakeOf(t), big.NewInt(int64(1+r.Intn(3)))).String()
			}
			if allowFindings && r.Chance(3) {
				o.Role = int64(r.Intn(6))
			}
			if allowFindings && r.Chance(4) {
				o.Status = 2
			}
		case x < 40:
			if live == nil {
				continue
			}
			u := &Upd{Role: int64(live.Role), Status: int64(live.Status), Token: live.Token.String(), Stake: live.Stake.String(),
				SToken: live.SelfToken.String(), SStake: live.SelfStake.String(), RDist: live.RewardsDistributable.String(),
				RT: live.RewardsTotal.String(), Misc: int64(live.LastInactive)}
			o = Op{K: "update", A: a, U: u}
			setSelf := func(ns *big.Int) {
				nss := stakeOf(ns)
				u.Token = new(big.Int).Add(live.Token, new(big.Int).Sub(ns, live.SelfToken)).String()
				u.Stake = new(big.Int).Add(live.Stake, new(big.Int).Sub(nss, live.SelfStake)).String()
				u.SToken, u.SStake = ns.String(), nss.String()
			}
			switch y := r.Intn(100); {
			case y < 25: // deposit
				setSelf(new(big.Int).Add(live.SelfToken, amount(r)))
			case y < 50: // withdraw (clamped like teWithdraw)
				wd := amount(r)
				if wd.Cmp(live.SelfToken) > 0 || r.Chance(30) {
					wd = new(big.Int).Set(live.SelfToken)
				}
				setSelf(new(big.Int).Sub(live.SelfToken, wd))
				if r.Chance(30) {
					u.Status = 0
				}
			case y < 65: // status
				u.Status = 1 - u.Status
				if u.Status < 0 {
					u.Status = 1
				}
			case y < 72: // role
				u.Role = int64(1 + r.Intn(3))
			case y < 84: // rewards / settle
				if r.Bool() {
					x := amount(r)
					u.RDist = new(big.Int).Add(live.RewardsDistributable, x).String()
					u.RT = new(big.Int).Add(live.RewardsTotal, x).String()
				} else {
					u.RDist = big.NewInt(int64(r.Intn(5))).String()
				}
				o.InPlace = r.Bool()
			case y < 94: // non-stake field, possibly in place
				u.Misc = int64(r.Intn(1000))
				o.InPlace = r.Bool()
			default: // raw write (caller breaks the discipline)
				if !allowFindings {
					u.Misc = int64(r.Intn(1000))
				} else {
					u.Token = amount(r).String()
					u.Stake = big.NewInt(int64(r.Intn(8))).String()
					if r.Chance(20) {
						u.Token = "-" + amount(r).String()
					}
				}
			}
		case x < 62:
			if live == nil {
				continue
			}
			var cur *big.Int
			for _, df := range live.Delegations {
				if df != nil && df.Delegator == daddrs[d] {
					cur = df.Token
				}
			}
			var amt *big.Int
			if cur == nil || r.Chance(45) {
				amt = amount(r)
				if amt.Sign() == 0 && r.Chance(80) {
					amt = big.NewInt(1)
				}
			} else {
				switch r.Intn(4) {
				case 0, 1:
					amt = new(big.Int).Neg(cur) // withdraw all
				case 2:
					amt = new(big.Int).Neg(new(big.Int).Div(cur, big.NewInt(int64(1+r.Intn(3)))))
				default:
					amt = new(big.Int).Neg(amount(r))
					if new(big.Int).Add(cur, amt).Sign() < 0 && !(allowFindings && r.Chance(30)) {
						amt = new(big.Int).Neg(cur)
					}
				}
			}
			if !allowFindings && !st.VerifC08Account(daddrs[d]).Present {
				continue
			}
			o = Op{K: "delegate", A: a, D: d, Amt: amt.String()}
		case x < 72:
			o = Op{K: "snap"}
		case x < 80:
			ids := st.VerifC08RevisionIds()
			if len(ids) == 0 {
				continue
			}
			o = Op{K: "revert", Id: ids[r.Intn(len(ids))]}
			if allowFindings && r.Chance(3) {
				o.Id = ids[len(ids)-1] + 1 + r.Intn(2) // invalid id: panics
			}
		case x < 84:
			o = Op{K: "finalise"}
		case x < 90:
			o = Op{K: "root"}
		case x < 94:
			o = Op{K: "commit"}
		case x < 96:
			o = Op{K: "copy"}
		case x < 97:
			o = Op{K: "list"}
		default:
			o = Op{K: "remove", A: a}
		}
		o.S = sd
		if o.K == "update" && r.Chance(35) {
			o.InPlace = true // the second calling convention, with any kind of change
		}
		if !allowFindings {
			// keep the history outside every finding class: test the op on a dry classification
			if !safeOp(w, h, o) {
				continue
			}
		}
		if !push(o) {
			break
		}
		// the pattern of staking.teDelegationSub: after a withdrawal the handler may set the stored record
		// offline in place and call UpdateValidator(stored, copy)
		if o.K == "delegate" && strings.HasPrefix(o.Amt, "-") && r.Chance(50) {
			if nv := peek(w.sts[sd], vaddrs[o.A]); nv != nil && nv.Status == 1 {
				u := &Upd{Role: int64(nv.Role), Status: 0, Token: nv.Token.String(), Stake: nv.Stake.String(),
					SToken: nv.SelfToken.String(), SStake: nv.SelfStake.String(), RDist: nv.RewardsDistributable.String(),
					RT: nv.RewardsTotal.String(), Misc: int64(nv.LastInactive)}
				f := Op{K: "update", A: o.A, U: u, InPlace: true, S: sd}
				if allowFindings || safeOp(w, h, f) {
					if !push(f) {
						break
					}
				}
			}
		}
	}
	return h
}

// safeOp tells whether appending o keeps the history out of all finding classes
// (re-runs the classification on a fresh world: histories are short).
func safeOp(w *world, h *History, o Op) bool {
	t := &History{Ops: append(append([]Op{}, h.Ops...), o)}
	res := run(t, false, nil)
	return res.class == "" && !res.undisc && !res.panicked
}

// ---- Coq output ----------------------------------------------------------------

func zs(s string) string {
	if strings.HasPrefix(s, "-") {
		return "(" + s + ")"
	}
	if s == "" {
		return "0"
	}
	return s
}
func zi(x int64) string { return zs(fmt.Sprint(x)) }

func opCoq(o Op) string {
	va := func() string { return zi(rk(vaddrs[o.A])) }
	da := func() string { return zi(rk(daddrs[o.D])) }
	switch o.K {
	case "fund":
		return "OFund " + da()
	case "create":
		return fmt.Sprintf("OCreate %s %s %s %s %s", va(), zi(o.Role), zi(o.Status), zs(o.Token), zs(o.Stake))
	case "update":
		u := o.U
		k := "OUpdate"
		if o.InPlace {
			k = "OUpdateIn"
		}
		return fmt.Sprintf(k+" %s (mkU %s %s %s %s %s %s %s %s %s)", va(), zi(u.Role), zi(u.Status), zs(u.Token), zs(u.Stake), zs(u.SToken), zs(u.SStake), zs(u.RDist), zs(u.RT), zi(u.Misc))
	case "remove":
		return "ORemove " + va()
	case "delegate":
		return fmt.Sprintf("ODelegate %s %s %s", da(), va(), zs(o.Amt))
	case "snap":
		return "OSnapshot"
	case "revert":
		return "ORevert " + zi(int64(o.Id))
	case "finalise":
		return "OFinalise"
	case "root":
		return "ORoot"
	case "commit":
		return "OCommitReload"
	case "copy", "fork":
		return "OCopy"
	case "list":
		return "OList"
	}
	panic("op")
}

func caseCoq(h *History) string {
	var ops, hs, uv, ua []string
	for _, o := range h.Ops {
		ops = append(ops, opCoq(o))
	}
	for _, x := range h.Hashes {
		hs = append(hs, fmt.Sprint(x))
	}
	for _, a := range sortedV {
		uv = append(uv, zi(rk(a)))
	}
	for _, a := range sortedD {
		ua = append(ua, zi(rk(a)))
	}
	return fmt.Sprintf("mkCase %s %s\n %s\n %s %s", vf.List(uv), vf.List(ua), vf.List(ops), vf.List(hs), vf.Bool(h.Panic))
}

func loadCorpus(dir string) []*History {
	var out []*History
	files, _ := filepath.Glob(filepath.Join(dir, "*.json"))
	sort.Strings(files)
	for _, f := range files {
		b, err := ioutil.ReadFile(f)
		if err != nil {
			continue
		}
		var h History
		if json.Unmarshal(b, &h) == nil && (len(h.Ops) > 0 || h.Handlers != nil || h.Periods != nil) {
			h.Comment = "corpus:" + filepath.Base(f)
			out = append(out, &h)
		}
	}
	return out
}

// preRepair7813a3d tells whether the tree the harness was built against still has the behaviour from
// before commit 7813a3d (the undo of a validator update subtracts *newVal, an object that an in-place
// update may have rewritten since): it runs the statement sequence of staking.teDelegationSub between a
// snapshot and a revert and looks at the statistics.  The Coq model is then compared in its variant for
// that code (Model.step_old), so that the comparison keeps its meaning and the property oracle - which
// knows no such finding class any more - reports the defect.
func preRepair7813a3d() bool {
	w := newWorld()
	u := &Upd{Role: 1, Status: 0, Token: units(10).String(), Stake: "10", SToken: units(10).String(), SStake: "10", RDist: "0", RT: "0"}
	for _, o := range []Op{{K: "fund", D: 1}, {K: "create", A: 0, Role: 1, Status: 1, Token: units(10).String(), Stake: "10"},
		{K: "delegate", A: 0, D: 1, Amt: units(3).String()}, {K: "root"}, {K: "snap"},
		{K: "delegate", A: 0, D: 1, Amt: "-" + units(3).String()}, {K: "update", A: 0, U: u, InPlace: true}, {K: "revert", Id: 0}} {
		if p, _ := w.exec(o); p {
			return false
		}
	}
	return oracle(w.st).stat != ""
}

func gen(seed uint64, n int, outDir, corpusDir string, flavour int) {
	// vf.NewRng states of nearby seeds lie a few steps apart on one splitmix orbit: jump to an unrelated point
	r := vf.NewRng(vf.NewRng(seed).U64() ^ 0xC08C08C08)
	res := vf.NewResult("C08", seed)
	var cases []*History
	distinct := map[string]bool{}
	known := map[string]int{}
	handle := func(h *History, tag string) {
		rr := run(h, false, nil)
		cases = append(cases, rr.proj...)
		if len(rr.proj) > 1 {
			res.Count("history:forked(two live handles)")
		}
		for _, o := range h.Ops {
			res.Count("op:" + o.K)
		}
		for _, pr := range rr.proj {
			for _, o := range pr.Ops {
				if o.K == "create" || o.K == "delegate" || o.K == "update" {
					distinct[caseCoq(pr)] = true
					break
				}
			}
		}
		res.Count("history:" + tag)
		if rr.panicked {
			res.Count("outcome:panic")
		} else {
			res.Count("outcome:completed")
		}
		if rr.undisc {
			res.Count("class:caller-discipline-broken")
		}
		for c := range rr.classes {
			res.Count("class:" + c)
		}
		if rr.class == "" && !rr.undisc {
			res.Count("class:none(disciplined)")
		}
		// a failure outside every listed class outranks the listed ones (two handles can be in different classes)
		first := -1
		for i := range rr.failures {
			if rr.failClass[i] == "" {
				first = i
				break
			}
		}
		if first < 0 && len(rr.failures) > 0 {
			first = 0
		}
		if first >= 0 {
			f, cl := rr.failures[first], rr.failClass[first]
			done := h.Ops[:rr.opsDone+boolInt(rr.panicked)]
			if cl == "" {
				res.OracleHits = append(res.OracleHits, History{What: f, Ops: done, Comment: h.Comment})
				res.Count("oracle:VIOLATION")
			} else {
				// inside a listed finding class: reported under the stable key of the class (known_findings.json)
				known[cl]++
				if known[cl] <= 3 {
					res.OracleHits = append(res.OracleHits, History{What: cl, Ops: done, Comment: f})
				}
				res.Count("oracle:known-finding:" + cl)
			}
		}
	}
	var corpusHandlers []*HHist
	var corpusPeriods []*PScenario
	for _, h := range loadCorpus(corpusDir) {
		if h.Periods != nil {
			corpusPeriods = append(corpusPeriods, h.Periods)
			continue
		}
		if h.Handlers != nil {
			corpusHandlers = append(corpusHandlers, h.Handlers)
			continue
		}
		handle(h, "corpus")
	}
	for len(cases) < n {
		fl := 0
		if r.Chance(45) {
			fl = 1
		}
		if flavour >= 0 {
			fl = flavour
		}
		h := genHistory(r, fl, r.Chance(30))
		if len(h.Ops) == 0 {
			continue
		}
		handle(h, map[int]string{0: "disciplined", 1: "adversarial"}[fl])
	}
	// the real take-effect handler of a delegation withdrawal (oracle only)
	for i := 0; i < 10+n/10; i++ {
		sc := genScenario(r)
		res.Count("handler-scenario:teDelegationSub")
		f, forced := runScenario(sc)
		if forced {
			res.Count("handler-scenario:validator forced offline in place")
		}
		if f != "" {
			res.OracleHits = append(res.OracleHits, History{What: "teDelegationSub scenario: " + f, Scenario: sc})
			res.Count("oracle:VIOLATION")
		}
	}
	// whole blocks through the real staking.EndBlock (oracle only; no hook involved)
	for i := 0; i < len(corpusPeriods)+10+n/8; i++ {
		var sc *PScenario
		if i < len(corpusPeriods) {
			sc = corpusPeriods[i]
		} else {
			sc = genPeriods(r)
		}
		res.Count("endblock-scenario")
		for _, b := range sc.Blocks {
			if b.PeriodEnd {
				res.Count("endblock:period-end block")
			} else {
				res.Count("endblock:ordinary block")
			}
		}
		f, kn, done := runPeriods(sc)
		if f != "" {
			cut := done + 1
			if cut > len(sc.Blocks) {
				cut = len(sc.Blocks)
			}
			c := *sc
			c.Blocks = sc.Blocks[:cut]
			res.OracleHits = append(res.OracleHits, History{What: "staking.EndBlock: " + f, Periods: &c})
			res.Count("oracle:VIOLATION")
		} else if kn != "" {
			known[F10]++
			if known[F10] <= 3 {
				res.OracleHits = append(res.OracleHits, History{What: F10, Periods: sc, Comment: kn})
			}
			res.Count("oracle:known-finding:" + F10)
		}
	}
	// histories of the real staking handlers on non-whole amounts (oracle only)
	for i := 0; i < len(corpusHandlers)+10+n/6; i++ {
		var hh *HHist
		if i < len(corpusHandlers) {
			hh = corpusHandlers[i]
			res.Count("handler-history:corpus")
		} else {
			hh = genHandlers(r)
		}
		res.Count("handler-history")
		for _, o := range hh.Ops {
			res.Count("handler:" + o.K)
		}
		f, kn, done := runHandlers(hh)
		if f != "" {
			cut := done + 1
			if cut > len(hh.Ops) {
				cut = len(hh.Ops)
			}
			res.OracleHits = append(res.OracleHits, History{What: "staking handlers: " + f, Handlers: &HHist{Ops: hh.Ops[:cut]}})
			res.Count("oracle:VIOLATION")
		} else {
			for _, cl := range []string{F10} {
				if kn[cl] == "" {
					continue
				}
				known[cl]++
				if known[cl] <= 3 {
					res.OracleHits = append(res.OracleHits, History{What: cl, Handlers: hh, Comment: kn[cl]})
				}
				res.Count("oracle:known-finding:" + cl)
			}
		}
	}
	for k, v := range pstats {
		res.Distribution["endblock:"+k] += v
	}
	for name := range missingHooks {
		res.Count("hook-unavailable:" + name + " (its steps were skipped)")
	}
	var sb strings.Builder
	sb.WriteString("From VF.C08 Require Import Model.\nLocal Open Scope Z_scope.\nDefinition cases : list case := [\n")
	for i, c := range cases {
		if i > 0 {
			sb.WriteString(";\n")
		}
		sb.WriteString(caseCoq(c))
	}
	which := "mismatches"
	if preRepair7813a3d() {
		which = "mismatches_pre_7813a3d"
		res.Count("tree:behaviour from before 7813a3d detected (model variant step_old)")
	}
	sb.WriteString("].\nDefinition M := Eval vm_compute in " + which + " cases.\nPrint M.\n")
	vf.WriteFile(filepath.Join(outDir, "Cases.v"), sb.String())
	res.Cases = len(cases)
	res.Distinct = len(distinct)
	res.Rule = "random histories of public StateDB calls (fund, CreateValidator, PartialCopy+UpdateValidator as deposit/withdraw/status/role/rewards/in-place/raw write, RemoveValidator, UpdateDelegation +/-, Snapshot, RevertToSnapshot, Finalise, IntermediateRoot, Commit+state.New, Copy, GetValidatorsForUpdate) over 6 validator keys and 6 delegator accounts, amounts at stake-unit boundaries; 30% of the histories fork (Copy with BOTH handles kept alive over the shared database: build-up of one or two focus delegators' lists to a length with a spare slot, ops interleaved on both handles that mostly add/withdraw delegations of the focus delegators with new validators sorting last, Commit+reload of both; after every op the property oracle runs on both handles and the idle handle's observation must not change; each handle is one case: its own projected history); 35% of the update ops use the in-place convention (the stored record is written, then UpdateValidator(stored, copy)) with any kind of change, and a withdrawal of a delegation from an online validator is followed half of the time by the in-place status change of staking.teDelegationSub; besides the histories, 10+n/8 whole-block scenarios per run call the exported staking.EndBlock (upgrade check, slashing hook, rewardsToPool, endStakingPeriod with inactivity slashing/recovery, reward distribution, withdraw queue and signed pending staking transactions taking effect) on committed+reloaded states with every role, inactive and expelled-expired validators, fractional delegations, oracle after each block and after Commit+reload; 10+n/6 handler histories per run drive the REAL end-of-block code of package staking unmodified (teCreate, teUpdate, teDeposit, teWithdraw, teChangeStatus, teDelegationAdd, teDelegationSub, doPenalize/takePenalty, slashingAndRecoveringYouV5, rewardsToPool, distributeRewards, settleValidatorRewards) on validators with delegations and non-whole amounts (fractions 0, 1 LU, 1 YOU - 1 LU, halves, hundredths, random), interleaved with IntermediateRoot, Commit+reload, Copy, Snapshot/Revert, the oracle after every step and after a final Commit+reload (oracle only); 10+n/10 scenarios per run drive the REAL staking.teDelegationSub (oracle only: total stake at MinStakes, withdrawal below it, then Copy/IntermediateRoot/Commit+reload); 55% of the histories stay inside the disciplined finding-free class, 45% are adversarial (finding classes, broken caller discipline, invalid roles/ids); a case is one history with the hash of the complete projected state (statistics, index, cached objects with slice length/capacity, trie records, delegator accounts, journal/revision counters) after every op; non-trivial = contains a create/update/delegate; distinct by full history"
	for i, c := range cases {
		res.CaseDescs = append(res.CaseDescs, History{Ops: c.Ops, Comment: c.Comment})
		if i < 3 {
			res.Samples = append(res.Samples, History{Ops: c.Ops, Comment: c.Comment})
		}
	}
	for k, v := range known {
		res.Known = append(res.Known, map[string]interface{}{"key": k, "histories": v})
	}
	res.Write(filepath.Join(outDir, "result.json"))
}

func boolInt(b bool) int {
	if b {
		return 1
	}
	return 0
}

func replay(file string, verbose bool) {
	b, err := ioutil.ReadFile(file)
	if err != nil {
		fmt.Println(err)
		os.Exit(2)
	}
	var h History
	if err := json.Unmarshal(b, &h); err != nil {
		fmt.Println(err)
		os.Exit(2)
	}
	if h.Periods != nil {
		f, kn, _ := runPeriods(h.Periods)
		if f != "" {
			fmt.Println("ORACLE VIOLATION:", f)
			os.Exit(1)
		}
		if kn != "" {
			fmt.Println("ORACLE VIOLATION:", kn, "[inside known finding class "+F10+"]")
			os.Exit(1)
		}
		fmt.Println("property holds on this whole-block scenario")
		return
	}
	if h.Handlers != nil {
		f, kn, _ := runHandlers(h.Handlers)
		if f != "" {
			fmt.Println("ORACLE VIOLATION:", f)
			os.Exit(1)
		}
		for cl, x := range kn {
			fmt.Println("ORACLE VIOLATION:", x, "[inside known finding class "+cl+"]")
		}
		if len(kn) > 0 {
			os.Exit(1)
		}
		fmt.Println("property holds on this handler history")
		return
	}
	if h.Scenario != nil {
		if f, _ := runScenario(h.Scenario); f != "" {
			fmt.Println("ORACLE VIOLATION:", f)
			os.Exit(1)
		}
		fmt.Println("property holds on this scenario")
		return
	}
	rr := run(&h, verbose, func(i int, o Op, hs *hasher, c clause) {
		if verbose {
			fmt.Printf("op %d %s\n  hash %d\n  obs %s\n", i, opCoq(o), hs.h, strings.Join(hs.raw, ";"))
		}
	})
	fmt.Printf("ops done %d/%d panic=%v %s\nfinding classes entered: %v, caller discipline broken: %v\n", rr.opsDone, len(h.Ops), rr.panicked, rr.panicMsg, rr.classes, rr.undisc)
	if verbose {
		for _, pr := range rr.proj {
			fmt.Println(caseCoq(pr))
		}
		fmt.Println("behaviour from before 7813a3d:", preRepair7813a3d())
	}
	for i := range rr.failures {
		if rr.failClass[i] == "" {
			rr.failures[0], rr.failClass[0] = rr.failures[i], ""
			break
		}
	}
	if len(rr.failures) > 0 {
		cl := rr.failClass[0]
		if cl != "" {
			cl = " [inside known finding class " + cl + "]"
		}
		fmt.Println("ORACLE VIOLATION:", rr.failures[0]+cl)
		for i := 1; i < len(rr.failures) && i < 6; i++ {
			fmt.Println("  also:", rr.failures[i])
		}
		os.Exit(1)
	}
	fmt.Println("property holds on this history")
}

// reproF6 replays the Coq witness w_f6 (Witnesses.v) on the implementation: a
// validator whose 19 components are all below one stake unit and sum to 2^64 LU
// is IsInvalid() and gets deleted by IntermediateRoot together with its 18 delegations.
func reproF6() {
	w := newWorld()
	st := w.st
	self, _ := new(big.Int).SetString("446744073709551634", 10)
	st.CreateValidator("v", common.Address{1}, common.Address{2}, params.RoleChancellor, vkeys[0], vkeys[0], self, big.NewInt(0), 1, 0, 0, 0)
	one := new(big.Int).Sub(unit, big.NewInt(1))
	var ds []common.Address
	for i := 1; i <= 18; i++ {
		d := common.BigToAddress(big.NewInt(int64(0x5000 + i)))
		ds = append(ds, d)
		st.AddBalance(d, big.NewInt(1))
		st.UpdateDelegation(d, st.GetValidatorByMainAddr(vaddrs[0]), one)
	}
	v := st.GetValidatorByMainAddr(vaddrs[0])
	fmt.Printf("before root: token=%v (2^64=%v) stake=%v delegations=%d IsInvalid=%v\n", v.Token, two64, v.Stake, len(v.Delegations), v.IsInvalid())
	st.IntermediateRoot(true)
	fmt.Printf("after root: validator exists=%v, delegator 1 still lists %d validators\n", st.GetValidatorByMainAddr(vaddrs[0]) != nil, st.GetCountOfDelegateTo(ds[0]))
	if st.GetValidatorByMainAddr(vaddrs[0]) == nil && st.GetCountOfDelegateTo(ds[0]) > 0 {
		fmt.Println("ORACLE VIOLATION: IntermediateRoot deleted a validator holding 2^64 LU and 18 delegations (IsInvalid looks at the low 64 bits only)")
		os.Exit(1)
	}
}

// paramsOut regenerates the constants of the working tree the model hard-codes.
func paramsOut(out string) {
	var sb strings.Builder
	sb.WriteString("(* GENERATED by harness/cmd/c08 from the working tree (params, core/state). Do not edit. *)\nFrom Coq Require Import List ZArith.\nImport ListNotations.\nLocal Open Scope Z_scope.\n")
	sb.WriteString(fmt.Sprintf("Definition repo_stake_unit : Z := %s.\n", params.StakeUint.String()))
	var kinds []string
	for _, r := range []params.ValidatorRole{params.RoleChancellor, params.RoleSenator, params.RoleHouse} {
		k, _ := params.KindOfRole(r)
		kinds = append(kinds, fmt.Sprintf("(%d, %d)", r, k))
	}
	sb.WriteString("Definition repo_role_kinds : list (Z * Z) := " + vf.List(kinds) + ".\n")
	sb.WriteString(fmt.Sprintf("Definition repo_kind_all : Z := %d.\n", params.KindValidator))
	sb.WriteString(fmt.Sprintf("Definition repo_online : Z := %d.\n", params.ValidatorOnline))
	sb.WriteString(fmt.Sprintf("Definition repo_curd : list Z := [%d; %d; %d; %d].\n", params.Noop, params.Create, params.Update, params.Delete))
	st := state.NewValidatorsStat()
	sb.WriteString(fmt.Sprintf("Definition repo_stat_slots : Z := %d.\n", len(st.Kinds)+len(st.Roles)))
	vf.WriteIfChanged(out, sb.String())
}

func main() {
	mode := ""
	if len(os.Args) > 1 {
		mode = os.Args[1]
		os.Args = append(os.Args[:1], os.Args[2:]...)
	}
	seed := flag.Uint64("seed", 1, "")
	n := flag.Int("n", 300, "")
	out := flag.String("out", ".", "")
	corpus := flag.String("corpus", "/verif/corpus/C08", "")
	file := flag.String("file", "", "")
	verbose := flag.Bool("v", false, "")
	flavour := flag.Int("flavour", -1, "0 = only disciplined finding-free histories, 1 = only adversarial, -1 = mix")
	flag.Parse()
	params.InitNetworkId(params.NetworkIdForTestCase)
	logging.Root().SetHandler(logging.DiscardHandler())
	setup()
	initSorted()
	switch mode {
	case "gen":
		gen(*seed, *n, *out, *corpus, *flavour)
	case "replay":
		replay(*file, *verbose)
	case "params":
		paramsOut(*out)
	case "callers":
		callersOut(*out)
	case "f6":
		reproF6()
	default:
		fmt.Println("usage: c08 gen|replay|params|callers")
		os.Exit(2)
	}
}
