// scratch experiments (to be replaced by the real harness)
package main

import (
	"fmt"
	"math/big"

	"github.com/youchainhq/go-youchain/common"
	"github.com/youchainhq/go-youchain/core/state"
	"github.com/youchainhq/go-youchain/crypto"
	"github.com/youchainhq/go-youchain/params"
	"github.com/youchainhq/go-youchain/youdb"
)

func key(i int) []byte {
	b := make([]byte, 32)
	b[31] = byte(i + 1)
	b[0] = 7
	k, err := crypto.ToECDSA(b)
	if err != nil {
		panic(err)
	}
	return crypto.CompressPubkey(&k.PublicKey)
}

func you(n int64) *big.Int { return new(big.Int).Mul(big.NewInt(n), params.StakeUint) }

func dumpStat(st *state.StateDB, tag string) {
	s, _ := st.GetValidatorsStat()
	fmt.Printf("[%s] stat:", tag)
	for _, k := range []params.ValidatorKind{0, 1, 2} {
		x := s.GetByKind(k)
		fmt.Printf(" K%d(on %v/%v/%d off %v/%v/%d)", k, x.GetOnlineStake(), x.GetOnlineToken(), x.GetCount(), x.GetOfflineStake(), x.GetOfflineToken(), x.GetOfflineCount())
	}
	fmt.Println()
}
func dumpVals(st *state.StateDB, tag string) {
	for _, v := range st.GetValidatorsForUpdate() {
		fmt.Printf("[%s] val %s role %d st %d token %v stake %v self %v/%v dlg:", tag, v.MainAddress().String()[:8], v.Role, v.Status, v.Token, v.Stake, v.SelfToken, v.SelfStake)
		for _, d := range v.Delegations {
			if d == nil {
				fmt.Printf(" <nil>")
				continue
			}
			fmt.Printf(" (%s %v/%v)", d.Delegator.String()[:6], d.Token, d.Stake)
		}
		fmt.Println()
	}
}

func try(name string, f func()) {
	defer func() {
		if r := recover(); r != nil {
			fmt.Println("PANIC in", name, ":", r)
		}
	}()
	fmt.Println("=====", name)
	f()
}

func newState() (*state.StateDB, state.Database) {
	db := state.NewDatabase(youdb.NewMemDatabase())
	st, err := state.New(common.Hash{}, common.Hash{}, common.Hash{}, db)
	if err != nil {
		panic(err)
	}
	return st, db
}

func daddr(i int) common.Address { return common.BigToAddress(big.NewInt(int64(0x1000 + i))) }

func main() {
	params.InitNetworkId(params.NetworkIdForTestCase)
	try("E1 delegation aliasing under revert", func() {
		st, _ := newState()
		for i := 0; i < 6; i++ {
			st.AddBalance(daddr(i), big.NewInt(1))
			st.SetNonce(daddr(i), 1)
		}
		v := st.CreateValidator("a", common.Address{1}, common.Address{1}, params.RoleChancellor, key(0), key(0), you(10), big.NewInt(10), 1, 0, 0, params.ValidatorOnline)
		a := v.MainAddress()
		for _, i := range []int{3, 4, 5} {
			st.UpdateDelegation(daddr(i), st.GetValidatorByMainAddr(a), you(int64(i)))
		}
		dumpVals(st, "before")
		dumpStat(st, "before")
		fmt.Println("cap", cap(st.GetValidatorByMainAddr(a).Delegations))
		snap := st.Snapshot()
		st.UpdateDelegation(daddr(1), st.GetValidatorByMainAddr(a), you(1))
		dumpVals(st, "after add")
		st.RevertToSnapshot(snap)
		dumpVals(st, "after revert")
		dumpStat(st, "after revert")
		for i := 0; i < 6; i++ {
			r, err := st.GetDelegationsFrom(daddr(i))
			fmt.Println("delegator", i, len(r), err)
		}
		// update existing
		snap = st.Snapshot()
		st.UpdateDelegation(daddr(4), st.GetValidatorByMainAddr(a), you(7))
		st.RevertToSnapshot(snap)
		dumpVals(st, "after revert of update")
		snap = st.Snapshot()
		st.UpdateDelegation(daddr(3), st.GetValidatorByMainAddr(a), new(big.Int).Neg(you(3)))
		dumpVals(st, "after delete")
		st.RevertToSnapshot(snap)
		dumpVals(st, "after revert of delete")
		st.IntermediateRoot(true)
	})
	try("E2 RemoveValidator", func() {
		st, _ := newState()
		v := st.CreateValidator("a", common.Address{1}, common.Address{1}, params.RoleChancellor, key(0), key(0), you(10), big.NewInt(10), 1, 0, 0, params.ValidatorOnline)
		st.CreateValidator("b", common.Address{1}, common.Address{1}, params.RoleChancellor, key(1), key(1), you(20), big.NewInt(20), 1, 0, 0, params.ValidatorOnline)
		a := v.MainAddress()
		st.IntermediateRoot(true)
		dumpStat(st, "init")
		snap := st.Snapshot()
		st.RemoveValidator(a)
		dumpStat(st, "removed")
		st.RevertToSnapshot(snap)
		dumpStat(st, "reverted")
		fmt.Println("get after revert:", st.GetValidatorByMainAddr(a))
		dumpVals(st, "reverted")
		st.IntermediateRoot(true)
		dumpStat(st, "after root")
		dumpVals(st, "after root")
	})
	try("E2b RemoveValidator + commit", func() {
		st, _ := newState()
		v := st.CreateValidator("a", common.Address{1}, common.Address{1}, params.RoleChancellor, key(0), key(0), you(10), big.NewInt(10), 1, 0, 0, params.ValidatorOnline)
		st.CreateValidator("b", common.Address{1}, common.Address{1}, params.RoleChancellor, key(1), key(1), you(20), big.NewInt(20), 1, 0, 0, params.ValidatorOnline)
		a := v.MainAddress()
		st.IntermediateRoot(true)
		st.RemoveValidator(a)
		dumpStat(st, "removed")
		st.IntermediateRoot(true)
		dumpStat(st, "after root")
		dumpVals(st, "after root")
	})
	try("E3 index reload", func() {
		st, _ := newState()
		st.CreateValidator("a", common.Address{1}, common.Address{1}, params.RoleChancellor, key(0), key(0), you(10), big.NewInt(10), 1, 0, 0, params.ValidatorOnline)
		st.IntermediateRoot(true)
		st.CreateValidator("b", common.Address{1}, common.Address{1}, params.RoleSenator, key(1), key(1), you(20), big.NewInt(20), 1, 0, 0, params.ValidatorOnline)
		dumpVals(st, "after create b")
		dumpStat(st, "after create b")
		st.IntermediateRoot(true)
		dumpVals(st, "after root")
	})
	try("E4 copy then read delegations", func() {
		st, _ := newState()
		st.AddBalance(daddr(1), big.NewInt(1))
		v := st.CreateValidator("a", common.Address{1}, common.Address{1}, params.RoleChancellor, key(0), key(0), you(10), big.NewInt(10), 1, 0, 0, params.ValidatorOnline)
		st.UpdateDelegation(daddr(1), v, you(3))
		cp := st.Copy()
		dumpVals(cp, "copy")
		dumpStat(cp, "copy")
		r, err := cp.GetDelegationsFrom(daddr(1))
		fmt.Println("copy delegations", r, err)
	})
	try("E5 commit reopen", func() {
		st, db := newState()
		st.AddBalance(daddr(1), big.NewInt(1))
		v := st.CreateValidator("a", common.Address{1}, common.Address{1}, params.RoleChancellor, key(0), key(0), you(10), big.NewInt(10), 1, 0, 0, params.ValidatorOnline)
		st.UpdateDelegation(daddr(1), v, you(3))
		r1, r2, r3, err := st.Commit(true)
		fmt.Println(err)
		st2, err := state.New(r1, r2, r3, db)
		fmt.Println(err)
		dumpVals(st2, "reopened")
		dumpStat(st2, "reopened")
		r, err := st2.GetDelegationsFrom(daddr(1))
		fmt.Println("delegations", len(r), err)
		fmt.Println(len(st2.GetValidators().List()))
	})
	try("E6 delegator account missing", func() {
		st, _ := newState()
		v := st.CreateValidator("a", common.Address{1}, common.Address{1}, params.RoleChancellor, key(0), key(0), you(10), big.NewInt(10), 1, 0, 0, params.ValidatorOnline)
		st.UpdateDelegation(daddr(1), v, you(3))
		dumpVals(st, "x")
		r, err := st.GetDelegationsFrom(daddr(1))
		fmt.Println("delegations", len(r), err)
	})
}
