package main

// c08 callers: go/ast inventory of every call of StateDB.UpdateValidator in
// staking/ and core/ (test files excluded) with the calling convention it uses:
//
//	copy    : new := old.PartialCopy(); write new; UpdateValidator(new, old)
//	inplace : old := live.PartialCopy(); write live; UpdateValidator(live, old)
//
// and the Validator fields written between the copy and the call (methods of
// Validator called on the object are resolved to the fields they write).  Also
// the Validator fields read by StakeEqual and by the statistics (AddVal, SubVal,
// incr/decrValidatorsStat): what UpdateValidator looks at.  The result goes to
// coq/gen/C08Callers.v and is pinned in Bridge.v; a call site the translator
// cannot classify makes it fail.

import (
	"fmt"
	"go/ast"
	"go/parser"
	"go/token"
	"os"
	"path/filepath"
	"sort"
	"strings"

	"verif/harness/vf"
)

type callSite struct {
	File, Func string
	Ord        int
	Conv, New, Old string
	Fields     []string
}

func repoDir() string {
	if d := os.Getenv("VERIF_REPO"); d != "" {
		return d
	}
	return "/repo"
}

// chain returns the root identifier and the selector names of x.a.b.c
func chain(e ast.Expr) (string, []string) {
	var sels []string
	for {
		switch t := e.(type) {
		case *ast.SelectorExpr:
			sels = append([]string{t.Sel.Name}, sels...)
			e = t.X
		case *ast.Ident:
			return t.Name, sels
		case *ast.ParenExpr:
			e = t.X
		case *ast.StarExpr:
			e = t.X
		case *ast.IndexExpr:
			e = t.X
		default:
			return "", nil
		}
	}
}

func recvType(fd *ast.FuncDecl) string {
	if fd.Recv == nil || len(fd.Recv.List) == 0 {
		return ""
	}
	t := fd.Recv.List[0].Type
	if s, ok := t.(*ast.StarExpr); ok {
		t = s.X
	}
	if id, ok := t.(*ast.Ident); ok {
		return id.Name
	}
	return ""
}

func recvName(fd *ast.FuncDecl) string {
	if fd.Recv == nil || len(fd.Recv.List) == 0 || len(fd.Recv.List[0].Names) == 0 {
		return ""
	}
	return fd.Recv.List[0].Names[0].Name
}

// methods of field types that do not change the field
var readOnly = map[string]bool{"Load": true, "Cmp": true, "Sign": true, "Uint64": true, "Int64": true, "String": true,
	"Hex": true, "Bytes": true, "Len": true, "Hash": true, "BitLen": true, "Text": true, "IsUint64": true}

type inventory struct {
	fset    *token.FileSet
	methods map[string]*ast.FuncDecl // methods of Validator
	fields  map[string]bool          // fields of struct Validator
}

// written returns the Validator fields written through identifier m by the nodes of body inside (from, to)
func (inv *inventory) written(body ast.Node, m string, from, to token.Pos, skip ast.Node, seen map[string]bool) []string {
	set := map[string]bool{}
	in := func(n ast.Node) bool { return n.Pos() > from && (to == token.NoPos || n.Pos() < to) }
	lhs := func(e ast.Expr) {
		if root, sels := chain(e); root == m && len(sels) > 0 {
			set[sels[0]] = true
		}
	}
	ast.Inspect(body, func(n ast.Node) bool {
		if n == nil || n == skip {
			return n != skip
		}
		switch t := n.(type) {
		case *ast.AssignStmt:
			if in(t) {
				for _, l := range t.Lhs {
					lhs(l)
				}
			}
		case *ast.IncDecStmt:
			if in(t) {
				lhs(t.X)
			}
		case *ast.CallExpr:
			if !in(t) {
				return true
			}
			if root, sels := chain(t.Fun); root == m && len(sels) >= 2 {
				if !readOnly[sels[len(sels)-1]] {
					set[sels[0]] = true // m.F.Mutator(...): big.Int and friends
				}
			} else if root == m && len(sels) == 1 {
				if fd, ok := inv.methods[sels[0]]; ok && !seen[sels[0]] {
					seen[sels[0]] = true
					for _, f := range inv.written(fd.Body, recvName(fd), token.NoPos, token.NoPos, nil, seen) {
						set[f] = true
					}
				} else if !ok {
					set[sels[0]+"()"] = true
				}
			}
			for _, a := range t.Args {
				if id, ok := a.(*ast.Ident); ok && id.Name == m {
					callee, sels := chain(t.Fun)
					set["passed to "+strings.Join(append([]string{callee}, sels...), ".")] = true
				}
			}
		}
		return true
	})
	var out []string
	for f := range set {
		out = append(out, f)
	}
	sort.Strings(out)
	return out
}

// read returns the Validator fields read through the identifiers in names inside fd (methods resolved)
func (inv *inventory) read(fd *ast.FuncDecl, names map[string]bool, seen map[string]bool) map[string]bool {
	set := map[string]bool{}
	ast.Inspect(fd.Body, func(n ast.Node) bool {
		se, ok := n.(*ast.SelectorExpr)
		if !ok {
			return true
		}
		id, ok := se.X.(*ast.Ident)
		if !ok || !names[id.Name] {
			return true
		}
		if inv.fields[se.Sel.Name] {
			set[se.Sel.Name] = true
		} else if m, ok := inv.methods[se.Sel.Name]; ok && !seen[se.Sel.Name] {
			seen[se.Sel.Name] = true
			for f := range inv.read(m, map[string]bool{recvName(m): true}, seen) {
				set[f] = true
			}
		}
		return true
	})
	return set
}

type def struct {
	pos token.Pos // end of the defining statement
	rhs ast.Expr
}

// allDefs describes every definition/assignment of identifier name before pos in fd (in source order)
func allDefs(fd *ast.FuncDecl, name string, pos token.Pos) string {
	var out []string
	if fd.Type.Params != nil {
		for _, p := range fd.Type.Params.List {
			for _, n := range p.Names {
				if n.Name == name {
					out = append(out, "parameter")
				}
			}
		}
	}
	ast.Inspect(fd.Body, func(n ast.Node) bool {
		switch t := n.(type) {
		case *ast.AssignStmt:
			if t.Pos() >= pos {
				return true
			}
			for i, l := range t.Lhs {
				if id, ok := l.(*ast.Ident); ok && id.Name == name {
					var rhs ast.Expr
					if len(t.Rhs) == len(t.Lhs) {
						rhs = t.Rhs[i]
					} else if len(t.Rhs) == 1 {
						rhs = t.Rhs[0]
					}
					out = append(out, describe(def{t.End(), rhs}, "assigned"))
				}
			}
		case *ast.RangeStmt:
			if t.Pos() >= pos {
				return true
			}
			for _, l := range []ast.Expr{t.Key, t.Value} {
				if id, ok := l.(*ast.Ident); ok && id.Name == name {
					out = append(out, "range variable")
				}
			}
		}
		return true
	})
	return strings.Join(out, " | ")
}

// lastDef finds the latest definition/assignment of identifier name before pos in fd
func lastDef(fd *ast.FuncDecl, name string, pos token.Pos) (d def, kind string) {
	if fd.Type.Params != nil {
		for _, p := range fd.Type.Params.List {
			for _, n := range p.Names {
				if n.Name == name {
					d, kind = def{pos: n.Pos()}, "parameter"
				}
			}
		}
	}
	ast.Inspect(fd.Body, func(n ast.Node) bool {
		switch t := n.(type) {
		case *ast.AssignStmt:
			if t.Pos() >= pos {
				return true
			}
			for i, l := range t.Lhs {
				if id, ok := l.(*ast.Ident); ok && id.Name == name && t.End() > d.pos {
					var rhs ast.Expr
					if len(t.Rhs) == len(t.Lhs) {
						rhs = t.Rhs[i]
					} else if len(t.Rhs) == 1 {
						rhs = t.Rhs[0]
					}
					d, kind = def{t.End(), rhs}, "assigned"
				}
			}
		case *ast.RangeStmt:
			if t.Pos() >= pos {
				return true
			}
			for _, l := range []ast.Expr{t.Key, t.Value} {
				if id, ok := l.(*ast.Ident); ok && id.Name == name && t.Pos() > d.pos {
					d, kind = def{pos: t.Pos()}, "range variable"
				}
			}
		}
		return true
	})
	return
}

func copyOf(e ast.Expr) string {
	c, ok := e.(*ast.CallExpr)
	if !ok || len(c.Args) != 0 {
		return ""
	}
	root, sels := chain(c.Fun)
	if len(sels) == 1 && (sels[0] == "PartialCopy" || sels[0] == "DeepCopy") {
		return root
	}
	return ""
}

func describe(d def, kind string) string {
	if d.rhs == nil {
		return kind
	}
	if c, ok := d.rhs.(*ast.CallExpr); ok {
		root, sels := chain(c.Fun)
		return strings.Join(append([]string{root}, sels...), ".") + "()"
	}
	return kind
}

func callersOut(out string) {
	root := repoDir()
	inv := &inventory{fset: token.NewFileSet(), methods: map[string]*ast.FuncDecl{}, fields: map[string]bool{}}
	var files []string
	for _, top := range []string{"staking", "core"} {
		filepath.Walk(filepath.Join(root, top), func(p string, info os.FileInfo, err error) error {
			if err == nil && !info.IsDir() && strings.HasSuffix(p, ".go") && !strings.HasSuffix(p, "_test.go") {
				files = append(files, p)
			}
			return nil
		})
	}
	sort.Strings(files)
	parsed := map[string]*ast.File{}
	for _, f := range files {
		af, err := parser.ParseFile(inv.fset, f, nil, 0)
		if err != nil {
			fmt.Println("parse:", err)
			os.Exit(1)
		}
		parsed[f] = af
	}
	// the Validator type: fields and methods
	vfile := parsed[filepath.Join(root, "core/state/validator.go")]
	if vfile == nil {
		fmt.Println("core/state/validator.go not found")
		os.Exit(1)
	}
	for _, d := range vfile.Decls {
		switch t := d.(type) {
		case *ast.GenDecl:
			for _, s := range t.Specs {
				if ts, ok := s.(*ast.TypeSpec); ok && ts.Name.Name == "Validator" {
					if st, ok := ts.Type.(*ast.StructType); ok {
						for _, f := range st.Fields.List {
							for _, n := range f.Names {
								inv.fields[n.Name] = true
							}
						}
					}
				}
			}
		case *ast.FuncDecl:
			if recvType(t) == "Validator" && t.Body != nil {
				inv.methods[t.Name.Name] = t
			}
		}
	}
	if len(inv.fields) == 0 {
		fmt.Println("struct Validator not found")
		os.Exit(1)
	}
	// what UpdateValidator looks at
	stat := map[string]bool{}
	found := map[string]bool{}
	for _, f := range []string{"core/state/validator.go", "core/state/statedb_val.go"} {
		for _, d := range parsed[filepath.Join(root, f)].Decls {
			fd, ok := d.(*ast.FuncDecl)
			if !ok || fd.Body == nil {
				continue
			}
			key := recvType(fd) + "." + fd.Name.Name
			switch key {
			case "Validator.StakeEqual", "ValKindStat.AddVal", "ValKindStat.SubVal", "StateDB.incrValidatorsStat", "StateDB.decrValidatorsStat":
				names := map[string]bool{}
				if recvType(fd) == "Validator" {
					names[recvName(fd)] = true
				}
				for _, p := range fd.Type.Params.List {
					for _, n := range p.Names {
						names[n.Name] = true
					}
				}
				for x := range inv.read(fd, names, map[string]bool{}) {
					stat[x] = true
				}
				found[key] = true
			}
		}
	}
	if len(found) != 5 {
		fmt.Println("statistics functions not all found:", found)
		os.Exit(1)
	}
	// the call sites
	var sites []callSite
	bad := 0
	for _, f := range files {
		rel, _ := filepath.Rel(root, f)
		for _, d := range parsed[f].Decls {
			fd, ok := d.(*ast.FuncDecl)
			if !ok || fd.Body == nil {
				continue
			}
			name := fd.Name.Name
			if r := recvType(fd); r != "" {
				name = r + "." + name
			}
			var calls []*ast.CallExpr
			ast.Inspect(fd.Body, func(n ast.Node) bool {
				if c, ok := n.(*ast.CallExpr); ok && len(c.Args) == 2 {
					if se, ok := c.Fun.(*ast.SelectorExpr); ok && se.Sel.Name == "UpdateValidator" {
						calls = append(calls, c)
					}
				}
				return true
			})
			for i, c := range calls {
				s := callSite{File: rel, Func: name, Ord: i, Conv: "unknown"}
				a0, ok0 := c.Args[0].(*ast.Ident)
				a1, ok1 := c.Args[1].(*ast.Ident)
				if ok0 && ok1 {
					d0, _ := lastDef(fd, a0.Name, c.Pos())
					d1, _ := lastDef(fd, a1.Name, c.Pos())
					s.New, s.Old = allDefs(fd, a0.Name, c.Pos()), allDefs(fd, a1.Name, c.Pos())
					switch {
					case copyOf(d0.rhs) == a1.Name:
						s.Conv = "copy"
						s.Fields = inv.written(fd.Body, a0.Name, d0.pos, c.Pos(), c, map[string]bool{})
					case copyOf(d1.rhs) == a0.Name:
						s.Conv = "inplace"
						s.Fields = inv.written(fd.Body, a0.Name, d1.pos, c.Pos(), c, map[string]bool{})
					}
				}
				if s.Conv == "unknown" {
					bad++
					fmt.Printf("cannot classify %s: %s call %d of UpdateValidator\n", rel, name, i)
				}
				sites = append(sites, s)
			}
		}
	}
	q := func(s string) string { return "\"" + s + "\"" }
	ql := func(l []string) string {
		var o []string
		for _, x := range l {
			o = append(o, q(x))
		}
		return vf.List(o)
	}
	var sb strings.Builder
	sb.WriteString("(* generated by `c08 callers` from the working tree: every call of StateDB.UpdateValidator in staking/ and core/ *)\n")
	sb.WriteString("From Coq Require Import String List.\nImport ListNotations.\nLocal Open Scope string_scope.\n")
	sb.WriteString("(* c_new / c_old: how the first / second argument was obtained (every assignment before the call) *)\n")
	sb.WriteString("Record caller := mkCaller { c_file : string; c_func : string; c_ord : nat; c_conv : string; c_new : string; c_old : string; c_fields : list string }.\n")
	sb.WriteString("Definition repo_update_callers : list caller := [\n")
	for i, s := range sites {
		if i > 0 {
			sb.WriteString(";\n")
		}
		sb.WriteString(fmt.Sprintf(" mkCaller %s %s %d %s %s %s %s", q(s.File), q(s.Func), s.Ord, q(s.Conv), q(s.New), q(s.Old), ql(s.Fields)))
	}
	sb.WriteString("].\n")
	var sf []string
	for f := range stat {
		sf = append(sf, f)
	}
	sort.Strings(sf)
	sb.WriteString("(* Validator fields read by StakeEqual, ValKindStat.AddVal/SubVal, incr/decrValidatorsStat *)\n")
	sb.WriteString("Definition repo_stat_fields : list string := " + ql(sf) + ".\n")
	vf.WriteIfChanged(out, sb.String())
	if bad > 0 {
		os.Exit(1)
	}
}
