package main

// Scenarios around the real take-effect handler of a delegation withdrawal
// (staking.teDelegationSub, run unmodified through hooks/staking/zz_verif_c08.go):
// an online validator whose total stake sits at or just above MinStakes[role]
// loses a delegation; when the total falls below the minimum the handler sets the
// stored record offline in place and calls UpdateValidator(stored, copy).  The
// property oracle runs after the handler, after IntermediateRoot, after
// Commit + reload and on a Copy.  (The handler also queues a withdraw record, which
// the Coq model does not have: these scenarios are oracle-only.)

import (
	"fmt"
	"math/big"

	"github.com/youchainhq/go-youchain/common"
	"github.com/youchainhq/go-youchain/core/state"
	"github.com/youchainhq/go-youchain/params"
	"github.com/youchainhq/go-youchain/rlp"
	"github.com/youchainhq/go-youchain/staking"

	"verif/harness/vf"
)

type Scenario struct {
	Role     int64   `json:"role"`
	Min      uint64  `json:"min_stakes"`
	Own      int64   `json:"own_units"`
	Dlg      []int64 `json:"delegated_units"` // by delegator number
	Extra    int     `json:"other_validators"`
	Before   string  `json:"before"` // "", "root", "commit", "snap"
	Withdraw int64   `json:"withdraw_units"`
	Partial  bool    `json:"partial_lu"` // withdraw one LU less than the whole units
	Twice    bool    `json:"second_withdrawal"`
}

func genScenario(r *vf.Rng) *Scenario {
	s := &Scenario{Role: int64(1 + r.Intn(3)), Min: uint64(3 + r.Intn(4)), Extra: r.Intn(3)}
	s.Own = int64(1 + r.Intn(int(s.Min)))
	need := int64(s.Min) - s.Own + int64(r.Intn(2))
	if need < 1 {
		need = 1
	}
	s.Dlg = []int64{need, 0}
	if r.Chance(35) {
		s.Dlg[1] = int64(1 + r.Intn(2))
	}
	s.Before = []string{"", "root", "commit", "snap"}[r.Intn(4)]
	s.Withdraw = 1 + int64(r.Intn(int(need)))
	if r.Chance(65) {
		s.Withdraw = need
	}
	s.Partial = r.Chance(15)
	s.Twice = r.Chance(30)
	return s
}

func delegationSub(st *state.StateDB, cfg *params.YouParams, from, validator common.Address, amount *big.Int, height uint64) error {
	payload, err := rlp.EncodeToBytes(&staking.TxDelegation{Validator: validator, Value: new(big.Int).Set(amount)})
	if err != nil {
		return err
	}
	ok, err := hookTE(st, cfg, from, staking.DelegationSub, payload, height, 0)
	if !ok {
		return errNoHook
	}
	return err
}

func units(k int64) *big.Int { return new(big.Int).Mul(big.NewInt(k), unit) }

// runScenario returns "" or the first failure.
func runScenario(s *Scenario) (fail string, forced bool) {
	defer func() {
		if r := recover(); r != nil {
			fail = fmt.Sprint("panic: ", r)
		}
	}()
	w := newWorld()
	st := w.st
	cfg := params.Versions[params.YouV5].DeepCopy()
	cfg.MinStakes = map[params.ValidatorRole]uint64{1: s.Min, 2: s.Min, 3: s.Min}
	cfg.MinDelegationTokens = new(big.Int).Set(unit)
	for d := 0; d < ND; d++ {
		st.AddBalance(daddrs[d], big.NewInt(1))
	}
	mk := func(a int, role int64, own int64, status uint8) {
		st.CreateValidator("v", daddrs[0], daddrs[0], params.ValidatorRole(role), vkeys[a], vkeys[a], units(own), big.NewInt(own), 1, 0, 0, status)
	}
	mk(0, s.Role, s.Own, uint8(params.ValidatorOnline))
	for i := 0; i < s.Extra; i++ {
		mk(1+i, int64(1+i%3), int64(2+i), uint8(i%2))
	}
	for d, k := range s.Dlg {
		if k > 0 {
			st.UpdateDelegation(daddrs[d], st.GetValidatorByMainAddr(vaddrs[0]), units(k))
		}
	}
	check := func(where string, x *state.StateDB) bool {
		c := oracle(x)
		for _, f := range []string{c.stat, c.index, c.sums, c.units, c.links, c.acct} {
			if f != "" {
				fail = where + ": " + f
				return false
			}
		}
		return true
	}
	if !check("before the handler", st) {
		return
	}
	snap := -1
	switch s.Before {
	case "root":
		st.IntermediateRoot(true)
	case "commit":
		w.exec(Op{K: "commit"})
		st = w.st
	case "snap":
		snap = st.Snapshot()
	}
	_ = snap
	amt := units(s.Withdraw)
	if s.Partial {
		amt.Sub(amt, big.NewInt(1))
	}
	before := st.GetValidatorByMainAddr(vaddrs[0])
	wasOnline, total := before.IsOnline(), new(big.Int).Set(before.Stake)
	if err := delegationSub(st, &cfg, daddrs[0], vaddrs[0], amt, 100); err != nil {
		if err == errNoHook {
			return "", false
		}
		return "handler: " + err.Error(), false
	}
	after := st.GetValidatorByMainAddr(vaddrs[0])
	if after == nil {
		return "validator gone after the handler", false
	}
	if wasOnline && after.Stake.Uint64() < s.Min && after.IsOnline() {
		return fmt.Sprintf("total stake %v -> %v below the minimum %d but the validator is still online", total, after.Stake, s.Min), false
	}
	forced = wasOnline && !after.IsOnline()
	if !check("after teDelegationSub", st) {
		return
	}
	if s.Twice {
		if err := delegationSub(st, &cfg, daddrs[1], vaddrs[0], units(1), 101); err != nil {
			if err == errNoHook {
				return "", forced
			}
			return "handler: " + err.Error(), forced
		}
		if !check("after a second teDelegationSub", st) {
			return
		}
	}
	if !check("on a Copy", st.Copy()) {
		return
	}
	st.IntermediateRoot(true)
	if !check("after IntermediateRoot", st) {
		return
	}
	w.st, w.sts[0] = st, st
	if p, msg := w.exec(Op{K: "commit"}); p {
		return "commit: " + msg, forced
	}
	check("after Commit and reload", w.st)
	return
}
