// C03 harness: drives the real ucon.Voter (updateContext / processVoteMsg,
// with the real VotesWrapperList, VoteDB on a memory database, real secp256k1
// vote signatures) over random interleavings of context changes, block-cache
// changes and incoming votes (valid, duplicate, equivocating, stale, future,
// wrong kind, bad signature, bad credential), records per op the events the
// voter posts, its latches and the count it holds, writes the cases as a Coq
// file for the model comparison and evaluates the property oracle on the
// implementation's own observations.
//
// Two credential modes.  "stub": isValidatorFn/getStakeFn/verifySortitionFn
// are stubs answering what the case prescribes (any seat count, any
// threshold).  "real": verifySortitionFn is Server.verifySortition and
// getStakeFn is Server.getLookbackStakeInfo over a fake chain with a fake
// validator set, votes carry real VRF sortition proofs, and the vote set of
// every CommitEvent is checked by the real Server.verifyVotes.
package main

import (
	"crypto/ecdsa"
	"encoding/json"
	"errors"
	"flag"
	"fmt"
	"io/ioutil"
	"math/big"
	"os"
	"path/filepath"
	"runtime"
	"sort"
	"strings"
	"sync"
	"time"

	"github.com/youchainhq/go-youchain/bls"
	"github.com/youchainhq/go-youchain/common"
	"github.com/youchainhq/go-youchain/consensus/ucon"
	"github.com/youchainhq/go-youchain/core/rawdb"
	"github.com/youchainhq/go-youchain/core/state"
	"github.com/youchainhq/go-youchain/core/types"
	"github.com/youchainhq/go-youchain/crypto"
	secp256k1VRF "github.com/youchainhq/go-youchain/crypto/vrf/secp256k1"
	"github.com/youchainhq/go-youchain/event"
	"github.com/youchainhq/go-youchain/logging"
	"github.com/youchainhq/go-youchain/params"
	"github.com/youchainhq/go-youchain/rlp"
	"github.com/youchainhq/go-youchain/staking"
	"github.com/youchainhq/go-youchain/youdb"
	"verif/harness/vf"
)

// ---- history format (corpus / replay files) ---------------------------------

type OwnView struct {
	R     uint64 `json:"r"`
	I     uint32 `json:"i"`
	T     int    `json:"t"` // 0 prevote 1 precommit 2 next 3 certificate
	Seats uint32 `json:"seats"`
	Thr   uint64 `json:"thr"`
	Kind  int    `json:"kind"` // 0 chamber 1 house 2 other
}
type CredEntry struct {
	From int    `json:"from"`
	R    uint64 `json:"r"`
	I    uint32 `json:"i"`
	T    int    `json:"t"`
	W    uint32 `json:"w"`
}
type Env struct {
	// Creds: the sortition verifier as a table: the seat count the sender's own proof for
	// (round, index, type) yields.  Real mode: computed from the VRF sortition.
	Creds   []CredEntry `json:"creds,omitempty"`
	Own     []OwnView `json:"own"`
	CertpOk bool      `json:"certp_ok"`
	EvidOn  bool      `json:"evid_on"`
	// real mode only
	Real    bool     `json:"real,omitempty"`
	// Bls (real mode only): the protocol parameters enable BLS: members sign their votes
	// with BLS keys, PackVotes aggregates, verifyVotes checks the aggregate
	Bls bool `json:"bls,omitempty"`
	// HouseFrom (real mode): members with index >= HouseFrom are house validators (0 = none)
	HouseFrom int `json:"house_from,omitempty"`
	Stakes  []uint64 `json:"stakes,omitempty"` // stake of sender j (index 0 = self)
	ValThr  uint64   `json:"val_thr,omitempty"`
	SeedTag uint64   `json:"seed_tag,omitempty"`
}
type MsgOp struct {
	Status  int    `json:"st"` // 0 old round 1 old index 2 same 3 future 4 invalid
	T       int    `json:"t"`
	R       uint64 `json:"r"`
	I       uint32 `json:"i"`
	H       int    `json:"h"`
	P       int    `json:"p"`
	Sender  int    `json:"from"`
	Sig     int    `json:"sig"` // 0 ok 1 signed other payload 2 garbage 3 claimed sender differs
	Votes   uint32 `json:"votes"`
	NoVote  bool   `json:"novote,omitempty"`
	StakeOk bool   `json:"stake_ok"`
	Thr     uint64 `json:"thr"`
	Kind    int    `json:"kind"`
	// Proof: which sortition proof the vote carries: 1 the sender's own proof for (round,
	// index, type); 2 garbage; 3 the sender's proof for another vote type.  0 = derive from Cred.
	Proof int `json:"proof,omitempty"`
	// Cred is derived (normalize): what the sortition verifier says about (credential,
	// claimed seats): 0 invalid 1 valid (stub verifier) 2 invalid 3 valid (Server.verifySortition).
	// In a hand-written history with Proof 0 it is read as the intent: 1/3 = "this claim
	// is the sender's true weight", 0/2 = "not valid".
	Cred int `json:"cred"`
}
type Op struct {
	K       string  `json:"k"` // ctx msg cache srv restart
	R       uint64  `json:"r,omitempty"`
	I       uint32  `json:"i,omitempty"`
	Step    uint32  `json:"step,omitempty"`
	Cert    bool    `json:"cert,omitempty"`
	MaxP    *[2]int `json:"maxp,omitempty"` // priority, hash
	M       *MsgOp  `json:"m,omitempty"`
	H       int     `json:"h,omitempty"`
	Present bool    `json:"present,omitempty"`
	// During (msg ops only): a context change or another vote delivery requested on a second
	// goroutine while the authentication callbacks of this message run.  Voter.lock
	// serialises the two: the expected behaviour is "this message, then During".
	During *Op `json:"during,omitempty"`
}
type History struct {
	Env        Env    `json:"env"`
	Ops        []Op   `json:"ops"`
	Consistent bool   `json:"consistent"` // one threshold per vote type, credentials are ground truth
	Comment    string `json:"comment,omitempty"`
}

var vtypes = []ucon.VoteType{ucon.Prevote, ucon.Precommit, ucon.NextIndex, ucon.Certificate}
var vtCoq = []string{"V.Prevote", "V.Precommit", "V.NextIndex", "V.Certificate"}
var vtName = []string{"prevote", "precommit", "next", "certificate"}
var kinds = []params.ValidatorKind{params.KindChamber, params.KindHouse, params.KindValidator}
var kindCoq = []string{"Chamber", "House", "KOther"}
var statusCoq = []string{"OldRound", "OldIdx", "Same", "Future", "Invalid"}

func vtIndex(t ucon.VoteType) int {
	for i, x := range vtypes {
		if x == t {
			return i
		}
	}
	return -1
}

// ---- fixed universe: keys, blocks, hashes -------------------------------------

const nKeys = 13 // key 0 = the voter itself

var blsKeys []bls.SecretKey // BLS key of member i (BLS-mode cases)
var keys []*ecdsa.PrivateKey
var addrs []common.Address
var addrID = map[common.Address]int{}
var blocks []*types.Block
var hashes []common.Hash // id -> hash; id 0 = empty
var hashID = map[common.Hash]int{}

const nBlocks = 4
const nHashes = 8

func setupUniverse() {
	for i := 0; i < nKeys; i++ {
		k, err := crypto.ToECDSA(crypto.Keccak256([]byte(fmt.Sprintf("verif-c03-key-%d", i))))
		if err != nil {
			panic(err)
		}
		keys = append(keys, k)
		bsk, _ := bls.NewBlsManager().GenerateKey()
		blsKeys = append(blsKeys, bsk)
		a := crypto.PubkeyToAddress(k.PublicKey)
		addrs = append(addrs, a)
		addrID[a] = i
	}
	hashes = append(hashes, common.Hash{})
	for i := 1; i <= nBlocks; i++ {
		h := &types.Header{Number: big.NewInt(int64(i)), GasLimit: uint64(1000 + i), Extra: []byte(fmt.Sprintf("verif-c03-block-%d", i)),
			GasRewards: big.NewInt(0), Subsidy: big.NewInt(0)}
		b := types.NewBlock(h, nil, nil)
		blocks = append(blocks, b)
		hashes = append(hashes, b.Hash())
	}
	for i := nBlocks + 1; i < nHashes; i++ {
		hashes = append(hashes, crypto.Keccak256Hash([]byte(fmt.Sprintf("verif-c03-unknown-%d", i))))
	}
	for i, h := range hashes {
		hashID[h] = i
	}
}

func prioHash(p int) common.Hash { return common.BigToHash(big.NewInt(int64(p))) }
func prioID(h common.Hash) int   { return int(new(big.Int).SetBytes(h[:]).Uint64()) }

func votePayload(h common.Hash, round uint64, idx uint32) []byte {
	r := new(big.Int).SetUint64(round)
	b := append([]byte{}, h.Bytes()...)
	b = append(b, r.Bytes()...)
	return append(b, byte(idx>>24), byte(idx>>16), byte(idx>>8), byte(idx))
}

// ---- event collection -------------------------------------------------------------

type Event struct {
	K  string   `json:"k"` // send commit change update evidence
	T  int      `json:"t,omitempty"`
	R  uint64   `json:"r"`
	I  uint32   `json:"i"`
	H  int      `json:"h"`
	P  int      `json:"p,omitempty"`
	N  uint32   `json:"n,omitempty"`
	CP [][2]int `json:"cp,omitempty"`
	HP [][2]int `json:"hp,omitempty"`
	CC [][2]int `json:"cc,omitempty"`
	H2 int      `json:"h2,omitempty"`

	commit *ucon.CommitEvent              // the posted event itself: its maps are the references the server would pack later
	update *ucon.UpdateExistedHeaderEvent
}

type sentinel struct{}

var mux = new(event.TypeMux)
var evMu sync.Mutex
var evBuf []interface{}
var baseGoroutines int

func startCollector() {
	sub := mux.Subscribe(ucon.SendMessageEvent{}, ucon.CommitEvent{}, ucon.RoundIndexChangeEvent{}, ucon.UpdateExistedHeaderEvent{}, staking.Evidence{}, sentinel{})
	go func() {
		for obj := range sub.Chan() {
			if obj == nil {
				return
			}
			evMu.Lock()
			evBuf = append(evBuf, obj.Data)
			evMu.Unlock()
		}
	}()
	time.Sleep(20 * time.Millisecond)
	baseGoroutines = runtime.NumGoroutine()
}

// drain waits until every AsyncPost goroutine of the last call has delivered.
func drain() []interface{} {
	deadline := time.Now().Add(5 * time.Second)
	for runtime.NumGoroutine() > baseGoroutines {
		runtime.Gosched()
		if time.Now().After(deadline) {
			panic("event goroutines did not finish")
		}
	}
	// the collector appends an event before it receives the next one: once the
	// sentinel has been taken, everything delivered earlier is in the buffer
	if err := mux.Post(sentinel{}); err != nil {
		panic(err)
	}
	evMu.Lock()
	var out []interface{}
	for _, x := range evBuf {
		if _, ok := x.(sentinel); !ok {
			out = append(out, x)
		}
	}
	evBuf = nil
	evMu.Unlock()
	return out
}

func votesOf(m ucon.VotesInfoForBlockHash) [][2]int {
	var out [][2]int
	for a, v := range m {
		id, ok := addrID[a]
		if !ok {
			id = 999
		}
		out = append(out, [2]int{id, int(v.Votes)})
	}
	sort.Slice(out, func(i, j int) bool { return out[i][0] < out[j][0] })
	return out
}

func hid(h common.Hash) int {
	if id, ok := hashID[h]; ok {
		return id
	}
	return 99
}

func decodeEvent(x interface{}) Event {
	switch e := x.(type) {
	case ucon.SendMessageEvent:
		var m ucon.BlockHashWithVotes
		if err := rlp.DecodeBytes(e.Payload, &m); err != nil {
			panic(err)
		}
		t := -1
		for i, vt := range vtypes {
			if ucon.VoteTypeToMsgCode(vt) == e.Code {
				t = i
			}
		}
		return Event{K: "send", T: t, R: m.Round.Uint64(), I: m.RoundIndex, H: hid(m.BlockHash), P: prioID(m.Priority), N: m.Vote.Votes}
	case ucon.CommitEvent:
		c := e
		return Event{K: "commit", R: e.Round.Uint64(), I: e.RoundIndex, H: hid(e.Block.Hash()), CP: votesOf(e.ChamberPrecommits), HP: votesOf(e.HousePrecommits), CC: votesOf(e.ChamberCerts), commit: &c}
	case ucon.RoundIndexChangeEvent:
		return Event{K: "change", R: e.Round.Uint64(), I: e.RoundIndex, H: hid(e.BlockHash), P: prioID(e.Priority)}
	case ucon.UpdateExistedHeaderEvent:
		u := e
		return Event{K: "update", R: e.Round.Uint64(), I: e.RoundIndex, H: hid(e.BlockHash), CP: votesOf(e.ChamberPrecommits), HP: votesOf(e.HousePrecommits), update: &u}
	case staking.Evidence:
		var d staking.EvidenceDoubleSignV5
		if err := rlp.DecodeBytes(e.Data, &d); err != nil {
			panic(err)
		}
		t := vtIndex(ucon.VoteType(d.VoteType))
		return Event{K: "evidence", T: t, R: d.Round, I: d.RoundIndex, H: hid(d.Signs[0].Hash), H2: hid(d.Signs[1].Hash)}
	}
	panic(fmt.Sprintf("unexpected event %T", x))
}

func pairsCoq(p [][2]int) string {
	xs := make([]string, len(p))
	for i, x := range p {
		xs[i] = fmt.Sprintf("(%d, %d)", x[0], x[1])
	}
	return vf.List(xs)
}

func (e Event) coq() string {
	switch e.K {
	case "send":
		return fmt.Sprintf("ESend %s %d %d %d %d %d", vtCoq[e.T], e.R, e.I, e.H, e.P, e.N)
	case "commit":
		return fmt.Sprintf("ECommit %d %d %d %s %s %s", e.R, e.I, e.H, pairsCoq(e.CP), pairsCoq(e.HP), pairsCoq(e.CC))
	case "change":
		return fmt.Sprintf("EChange %d %d %d %d", e.R, e.I, e.H, e.P)
	case "update":
		return fmt.Sprintf("EUpdate %d %d %d %s %s", e.R, e.I, e.H, pairsCoq(e.CP), pairsCoq(e.HP))
	default:
		return fmt.Sprintf("EEvidence %d %d %s %d %d", e.R, e.I, vtCoq[e.T], e.H, e.H2)
	}
}

func (e Event) key() string {
	return e.coq()
}

// ---- the implementation under test ---------------------------------------------

type fakeReader struct {
	vals []*state.Validator
	stat *state.ValidatorsStat
	set  *state.Validators
}

func (f *fakeReader) GetValidatorsStat() (*state.ValidatorsStat, error) { return f.stat, nil }
func (f *fakeReader) GetValidatorByMainAddr(a common.Address) *state.Validator {
	for _, v := range f.vals {
		if v.MainAddress() == a {
			return v
		}
	}
	return nil
}
func (f *fakeReader) GetValidators() *state.Validators { return f.set }

func newFakeReader(vals []*state.Validator) *fakeReader {
	st := state.NewValidatorsStat()
	for _, v := range vals {
		st.GetByKind(v.Kind()).AddVal(v)
		st.GetByKind(params.KindValidator).AddVal(v)
	}
	return &fakeReader{vals: vals, stat: st, set: state.NewValidators(vals)}
}

type fakeParams struct {
	h   *History
	yp  params.YouParams
	lbv state.ValidatorReader
}

func (f *fakeParams) CurrentCaravelParams() *params.CaravelParams {
	yp := f.yp
	yp.EnableBls = f.h.Env.Real && f.h.Env.Bls
	return &yp.CaravelParams
}
func (f *fakeParams) CertificateParams(round *big.Int) (*params.CaravelParams, error) {
	if !f.h.Env.CertpOk {
		return nil, errors.New("no certificate params")
	}
	return f.CurrentCaravelParams(), nil
}
func (f *fakeParams) CurrentYouParams() *params.YouParams {
	yp := f.yp
	yp.Version = params.YouV5
	yp.EnableBls = f.h.Env.EvidOn
	return &yp
}
func (f *fakeParams) GetLookBackVldReader(cp *params.CaravelParams, num *big.Int, lbType params.LookBackType) (state.ValidatorReader, error) {
	return f.lbv, nil
}

// fakeChain serves the headers and validator readers Server.verifySortition /
// getLookbackStakeInfo ask for: every number maps to one header carrying the
// case's seed; every ValRoot maps to the case's validator set.
type fakeChain struct {
	yp     *params.YouParams
	header *types.Header
	rd     state.ValidatorReader
}

func (c *fakeChain) VersionForRound(uint64) (*params.YouParams, error) { return c.yp, nil }
func (c *fakeChain) VersionForRoundWithParents(uint64, []*types.Header) (*params.YouParams, error) {
	return c.yp, nil
}
func (c *fakeChain) CurrentHeader() *types.Header                        { return c.header }
func (c *fakeChain) GetHeader(common.Hash, uint64) *types.Header         { return c.header }
func (c *fakeChain) GetHeaderByNumber(uint64) *types.Header              { return c.header }
func (c *fakeChain) GetHeaderByHash(common.Hash) *types.Header           { return c.header }
func (c *fakeChain) GetBlock(common.Hash, uint64) *types.Block           { return nil }
func (c *fakeChain) GetBlockByNumber(uint64) *types.Block                { return nil }
func (c *fakeChain) GetVldReader(common.Hash) (state.ValidatorReader, error) { return c.rd, nil }
func (c *fakeChain) GetAcReader() rawdb.AcReader                         { return nil }
func (c *fakeChain) UpdateExistedHeader(*types.Header)                   {}

type cur struct {
	maxp    *[2]int
	stakeOk bool
	thr     uint64
	kind    int
}

type impl struct {
	h      *History
	mk     func() *ucon.Voter // NewVoter over the case's database (used again by restart ops)
	v      *ucon.Voter
	cache  map[int]bool
	cur    cur
	// re-entrant schedule: the event to start from inside the credential callback
	during     *Op
	duringDone chan int
	duringRan  bool
	pm     *fakeParams
	srv    *ucon.Server
	seed   common.Hash
	reader *fakeReader
}

func isHouse(h *History, j int) bool { return h.Env.Real && h.Env.HouseFrom > 0 && j >= h.Env.HouseFrom }

// credWeight: the sortition verifier's weight for (sender, round, index, type); 0 = no seat
func credWeight(h *History, from int, r uint64, i uint32, t int) uint32 {
	for k := range h.Env.Creds {
		c := &h.Env.Creds[k]
		if c.From == from && c.R == r && c.I == i && c.T == t {
			return c.W
		}
	}
	return 0
}

// stubProof: the (stub) sortition proof of a key for (round, index, type)
func stubProof(from int, r uint64, i uint32, t int) []byte {
	return crypto.Keccak256([]byte(fmt.Sprintf("verif-c03-proof-%d-%d-%d-%d", from, r, i, t)))[:16]
}

func ownLookup(h *History, r uint64, i uint32, t int) *OwnView {
	for k := range h.Env.Own {
		o := &h.Env.Own[k]
		if o.R == r && o.I == i && o.T == t {
			return o
		}
	}
	return nil
}

var statusVals = ucon.VerifC03Statuses()

func newImpl(h *History) *impl {
	im := &impl{h: h, cache: map[int]bool{}}
	yp := params.Versions[params.YouCurrentVersion]
	im.pm = &fakeParams{h: h, yp: yp, lbv: newFakeReader(nil)}
	// the stub sortition verifier does what VrfVerifySortition does, over a table: the
	// proof must be the key's proof for (round, index, step), must win a seat, and the
	// claimed seat count must be the one the proof yields.  It never trusts the claim.
	var verifySort ucon.VerifySortitionFn = func(pub *ecdsa.PublicKey, data *ucon.SortitionData, lb params.LookBackType) error {
		id, ok := addrID[crypto.PubkeyToAddress(*pub)]
		t := vtIndex(ucon.VoteType(data.Step))
		if !ok || t < 0 {
			return errors.New("unknown key or step")
		}
		if string(data.Proof) != string(stubProof(id, data.Round.Uint64(), data.RoundIndex, t)) {
			return errors.New("proof does not verify")
		}
		w := credWeight(h, id, data.Round.Uint64(), data.RoundIndex, t)
		if w == 0 {
			return errors.New("not a validator")
		}
		if w != data.Votes {
			return fmt.Errorf("sub-users' number is not correct: %d, %d", w, data.Votes)
		}
		return nil
	}
	getStake := func(round *big.Int, addr common.Address, isProposer bool, lb params.LookBackType) (*big.Int, *big.Int, uint64, params.ValidatorKind, uint8, error) {
		if !im.cur.stakeOk {
			return big.NewInt(0), big.NewInt(0), 0, params.KindValidator, params.ValidatorOffline, errors.New("no stake info")
		}
		return big.NewInt(1), big.NewInt(1), im.cur.thr, kinds[im.cur.kind], params.ValidatorOnline, nil
	}
	if h.Env.Real {
		im.setupReal()
		verifySort = ucon.VerifC03VerifySortition(im.srv)
		getStake = ucon.VerifC03GetStake(im.srv)
	}
	// the credential check is where a vote spends its time: this is where the
	// schedule may start a second event on another goroutine
	plainVerify := verifySort
	verifySort = func(pub *ecdsa.PublicKey, data *ucon.SortitionData, lb params.LookBackType) error {
		im.startDuring()
		return plainVerify(pub, data, lb)
	}
	isValidator := func(round *big.Int, idx uint32, step uint32, lb params.LookBackType) (bool, *ucon.StepView) {
		t := vtIndex(ucon.VoteType(step))
		o := ownLookup(h, round.Uint64(), idx, t)
		if o == nil {
			return false, nil
		}
		sv := &ucon.StepView{SubUsers: o.Seats, Threshold: o.Thr, ValidatorType: kinds[o.Kind], SortitionProof: []byte{1}}
		if h.Env.Real {
			sv.SortitionProof = im.proof(0, idx, t)
		}
		return true, sv
	}
	maxPrio := func(round *big.Int, idx uint32) (common.Hash, common.Hash, bool) {
		if im.cur.maxp == nil {
			return common.Hash{}, common.Hash{}, false
		}
		return prioHash(im.cur.maxp[0]), hashes[im.cur.maxp[1]], true
	}
	inCache := func(hash common.Hash, prio common.Hash) *types.Block {
		id := hid(hash)
		if id >= 1 && id <= nBlocks && im.cache[id] {
			return blocks[id-1]
		}
		return nil
	}
	count := func(round *big.Int, kind params.ValidatorKind, lb params.LookBackType) uint64 { return 0 }
	db := youdb.NewMemDatabase()
	im.mk = func() *ucon.Voter {
		var own bls.SecretKey
		if h.Env.Real && h.Env.Bls {
			own = blsKeys[0]
		}
		v := ucon.NewVoter(db, keys[0], own, mux, verifySort, isValidator, maxPrio, inCache, getStake, count, im.pm)
		v.SetLookBackMgr(im.pm)
		if im.srv != nil {
			ucon.VerifC03ShareBlsVerifier(im.srv, v) // as StartMining does
		}
		return v
	}
	im.v = im.mk()
	return im
}

// ---- real mode: fake chain, real VRF --------------------------------------------

func (im *impl) setupReal() {
	h := im.h
	im.seed = crypto.Keccak256Hash([]byte(fmt.Sprintf("verif-c03-seed-%d", h.Env.SeedTag)))
	var vals []*state.Validator
	for j, st := range h.Env.Stakes {
		pub := crypto.CompressPubkey(&keys[j].PublicKey)
		var blsPub []byte
		if h.Env.Bls {
			pk, err := blsKeys[j].PubKey()
			if err != nil {
				panic(err)
			}
			blsPub = pk.Compress().Bytes()
		}
		role := params.RoleSenator
		if isHouse(h, j) {
			role = params.RoleHouse
		}
		v := state.NewValidator(fmt.Sprintf("v%d", j), addrs[j], addrs[j], role, pub, blsPub,
			new(big.Int).SetUint64(st), new(big.Int).SetUint64(st), 0, 0, 0, params.ValidatorOnline)
		vals = append(vals, v)
	}
	im.reader = newFakeReader(vals)
	yp := params.Versions[params.YouCurrentVersion]
	yp.EnableBls = false
	yp.ValidatorThreshold = h.Env.ValThr
	yp.CertValThreshold = h.Env.ValThr
	params.Versions[params.YouCurrentVersion] = yp // getLookbackStakeInfo reads CertValThreshold from the table
	im.pm.yp = yp
	im.pm.lbv = im.reader
	cd := &ucon.BlockConsensusData{Round: big.NewInt(1), RoundIndex: 1, Seed: im.seed, SortitionProof: []byte{1}, Priority: common.Hash{1},
		SubUsers: 1, Signature: []byte{}, ProposerThreshold: 26, ValidatorThreshold: h.Env.ValThr, CertValThreshold: h.Env.ValThr}
	hd := &types.Header{Number: big.NewInt(1), CurrVersion: params.YouCurrentVersion, GasRewards: big.NewInt(0), Subsidy: big.NewInt(0)}
	extra, err := ucon.PrepareConsensusData(hd, cd)
	if err != nil {
		panic(err)
	}
	hd.Consensus = extra
	ypp := yp
	im.srv = ucon.VerifC03NewServer(&fakeChain{yp: &ypp, header: hd, rd: im.reader}, &ypp)
	ucon.VerifC03SetServerContext(im.srv, big.NewInt(0), 0)
}

// sortition of key j for (index, vote type) under the case's seed/threshold/stakes
type sortKey struct {
	tag, thr uint64
	stakes   string
	j        int
	idx      uint32
	t        int
}
type sortVal struct {
	proof []byte
	sub   uint32
}

var sortMemo = map[sortKey]sortVal{}

func realSortition(h *History, j int, idx uint32, t int) ([]byte, uint32) {
	k := sortKey{h.Env.SeedTag, h.Env.ValThr, fmt.Sprint(h.Env.Stakes, h.Env.HouseFrom), j, idx, t}
	if v, ok := sortMemo[k]; ok {
		return v.proof, v.sub
	}
	sk, err := secp256k1VRF.NewVRFSigner(keys[j])
	if err != nil {
		panic(err)
	}
	var total uint64 // the stake of the member's own kind
	for k, s := range h.Env.Stakes {
		if isHouse(h, k) == isHouse(h, j) {
			total += s
		}
	}
	seed := crypto.Keccak256Hash([]byte(fmt.Sprintf("verif-c03-seed-%d", h.Env.SeedTag)))
	_, proof, sub := ucon.VrfSortition(sk, seed, idx, uint32(vtypes[t]), h.Env.ValThr, new(big.Int).SetUint64(h.Env.Stakes[j]), new(big.Int).SetUint64(total))
	sortMemo[k] = sortVal{proof, sub}
	return proof, sub
}
func (im *impl) sortition(j int, idx uint32, t int) ([]byte, uint32) {
	return realSortition(im.h, j, idx, t)
}
func (im *impl) proof(j int, idx uint32, t int) []byte {
	p, _ := im.sortition(j, idx, t)
	return p
}

// ---- running one history ----------------------------------------------------------

type Obs struct {
	Ret    int     `json:"ret"`
	Events []Event `json:"events"`
	Latch  [7]int  `json:"latch"`
	Count  uint32  `json:"count"`

	recorded bool // the message's sender has a vote recorded in the message's tally (oracle only)
	second   *Obs // During pairs: return code and count of the second event
}

func optHash(h *common.Hash) int {
	if h == nil {
		return 0
	}
	return hid(*h) + 1
}
func b2i(b bool) int {
	if b {
		return 1
	}
	return 0
}

func (im *impl) buildMsg(m *MsgOp) (*ucon.BlockHashWithVotes, common.Address) {
	msg := &ucon.BlockHashWithVotes{Priority: prioHash(m.P), BlockHash: hashes[m.H], Round: new(big.Int).SetUint64(m.R), RoundIndex: m.I, Timestamp: 1}
	claimed := addrs[m.Sender]
	if m.NoVote {
		return msg, claimed
	}
	vote := &ucon.SingleVote{Votes: m.Votes}
	otherT := (m.T + 1) % 4
	switch {
	case m.Proof == 1 && im.h.Env.Real && m.Sender < len(im.h.Env.Stakes):
		vote.Proof = im.proof(m.Sender, m.I, m.T)
	case m.Proof == 3 && im.h.Env.Real && m.Sender < len(im.h.Env.Stakes):
		vote.Proof = im.proof(m.Sender, m.I, otherT)
	case m.Proof == 1:
		vote.Proof = stubProof(m.Sender, m.R, m.I, m.T)
	case m.Proof == 3:
		vote.Proof = stubProof(m.Sender, m.R, m.I, otherT)
	default:
		vote.Proof = []byte{1, 2, 3}
	}
	if im.h.Env.Real && im.h.Env.Bls && m.Sender < len(im.h.Env.Stakes) {
		if idx, ok := im.reader.set.GetIndex(addrs[m.Sender]); ok {
			vote.VoterIdx = uint32(idx)
		}
		switch m.Sig {
		case 0, 3:
			vote.Signature = blsKeys[m.Sender].Sign(votePayload(hashes[m.H], m.R, m.I)).Compress().Bytes()
			if m.Sig == 3 {
				claimed = addrs[(m.Sender+1)%nKeys]
			}
		case 1:
			vote.Signature = blsKeys[m.Sender].Sign(votePayload(hashes[m.H], m.R+1, m.I)).Compress().Bytes()
		default:
			vote.Signature = []byte{1, 2, 3, 4}
		}
		msg.Vote = vote
		return msg, claimed
	}
	switch m.Sig {
	case 0, 3:
		sig, err := ucon.Sign(keys[m.Sender], votePayload(hashes[m.H], m.R, m.I))
		if err != nil {
			panic(err)
		}
		vote.Signature = sig
		if m.Sig == 3 {
			claimed = addrs[(m.Sender+1)%nKeys]
		}
	case 1:
		sig, _ := ucon.Sign(keys[m.Sender], votePayload(hashes[m.H], m.R+1, m.I))
		vote.Signature = sig
	default:
		vote.Signature = []byte{1, 2, 3, 4}
	}
	msg.Vote = vote
	return msg, claimed
}

// startDuring: called from inside the voter's credential callback.  Starts the pending
// second event on its own goroutine and waits a bounded time for it.  With the voter
// lock held around the whole of processVoteMsg the second event blocks on the lock and
// the wait times out; it then completes right after the message returns.
const duringWait = 25 * time.Millisecond

func (im *impl) startDuring() {
	d := im.during
	if d == nil || im.duringDone != nil {
		return
	}
	im.duringDone = make(chan int, 1)
	go func() { im.duringDone <- im.applyInner(d) }()
	select {
	case r := <-im.duringDone:
		im.duringDone <- r // got through while the message was still being authenticated
		im.duringRan = true
	case <-time.After(duringWait):
	}
}

// applyInner runs one op on the implementation and returns processVoteMsg's return class.
func (im *impl) applyInner(o *Op) int {
	switch o.K {
	case "ctx":
		im.cur.maxp = o.MaxP
		ucon.VerifC03UpdateContext(im.v, ucon.ContextChangeEvent{Round: new(big.Int).SetUint64(o.R), RoundIndex: o.I, Step: o.Step, Certificate: o.Cert})
	case "msg":
		m := o.M
		im.cur.stakeOk, im.cur.thr, im.cur.kind = m.StakeOk, m.Thr, m.Kind
		msg, claimed := im.buildMsg(m)
		err, invalid := ucon.VerifC03ProcessVoteMsg(im.v, vtypes[m.T], msg, claimed, statusVals[m.Status])
		switch {
		case err == nil && !invalid:
			return 0
		case err != nil && invalid:
			return 1
		case err == nil && invalid:
			return 2
		default:
			return 3
		}
	case "cache":
		im.cache[o.H] = o.Present
		if !o.Present {
			delete(im.cache, o.H)
		}
	case "srv":
		if im.srv != nil {
			ucon.VerifC03SetServerContext(im.srv, new(big.Int).SetUint64(o.R), o.I)
		}
	case "restart":
		// the process restarts: a new Voter (NewVoter -> NewVoteDB) over the same database
		im.v = im.mk()
	}
	return 0
}

func (im *impl) counts(o *Op, ob *Obs) {
	if o.K == "msg" && o.M.StakeOk {
		c, _ := ucon.VerifC03Count(im.v, new(big.Int).SetUint64(o.M.R), o.M.I, vtypes[o.M.T], kinds[o.M.Kind], hashes[o.M.H])
		ob.Count = c
		ob.recorded = ucon.VerifC03Recorded(im.v, new(big.Int).SetUint64(o.M.R), o.M.I, vtypes[o.M.T], kinds[o.M.Kind], addrs[o.M.Sender])
	}
}

func (im *impl) apply(o *Op) Obs {
	var ob Obs
	if o.K == "msg" && o.During != nil {
		im.during, im.duringDone, im.duringRan = o.During, nil, false
		ob.Ret = im.applyInner(&Op{K: "msg", M: o.M})
		second := &Obs{}
		if im.duringDone != nil {
			select {
			case second.Ret = <-im.duringDone:
			case <-time.After(10 * time.Second):
				panic("the event started during a message's authentication never completed")
			}
		} else {
			// the credential callback was not reached (the message was rejected earlier)
			second.Ret = im.applyInner(o.During)
		}
		im.during = nil
		ob.second = second
	} else {
		ob.Ret = im.applyInner(o)
	}
	for _, x := range drain() {
		ob.Events = append(ob.Events, decodeEvent(x))
	}
	sort.SliceStable(ob.Events, func(i, j int) bool { return ob.Events[i].key() < ob.Events[j].key() })
	l := ucon.VerifC03Latches(im.v)
	ob.Latch = [7]int{b2i(l.Precommitted), b2i(l.Committed), b2i(l.SentChange), b2i(l.Certificated), optHash(l.NextMarked), optHash(l.CurMarked), optHash(l.NextVoted)}
	im.counts(o, &ob)
	if ob.second != nil {
		ob.second.Latch = ob.Latch
		im.counts(o.During, ob.second)
	}
	return ob
}

// ---- the property oracle (independent of the Coq model) ------------------------------

func goQuorum(thr uint64, isPos bool) uint32 {
	th := 0.685
	if !isPos {
		th = 0.585
	}
	return uint32(float64(thr) * th)
}

type tkey struct {
	r uint64
	i uint32
	t int
}
type first struct {
	h     int
	seats uint32
	valid bool // the credential is valid for a verifier with the same look-back set
}
type tally struct {
	first map[int]first // sender -> first accepted vote
	equiv map[int]bool
}

func (t *tally) weight(h int) uint64 {
	var w uint64
	for s, f := range t.first {
		if f.h == h && !t.equiv[s] {
			w += uint64(f.seats)
		}
	}
	return w
}

// validWeight leaves out votes whose credential is invalid
func (t *tally) validWeight(h int) uint64 {
	var w uint64
	for s, f := range t.first {
		if f.h == h && !t.equiv[s] && f.valid {
			w += uint64(f.seats)
		}
	}
	return w
}

type oracle struct {
	h       *History
	im      *impl
	ctxSet  bool
	r       uint64
	i       uint32
	cert    bool
	ring    [][2]uint64
	tallies map[tkey]*tally
	reached map[string]bool
	reachedValid map[string]bool
	srvR    uint64
	srvI    uint32
	hits    []string
	// what a verifier with the same look-back set accepts as credential: (sender, index, type) -> seats
	stale bool // some counted vote carried an invalid VRF credential (finding class, real mode)
	realVerified int
	certAt       map[[2]uint64]bool // certificate flag of every context entered
	sent         map[tkey]int // votes posted per (round, index, kind) over the whole history, restarts included
	// every CommitEvent / UpdateExistedHeaderEvent seen so far, kept by reference
	// together with the value of its vote sets at announcement time
	retained []Event
	mutated  map[int]bool
}

func newOracle(h *History, im *impl) *oracle {
	return &oracle{h: h, im: im, tallies: map[tkey]*tally{}, reached: map[string]bool{}, reachedValid: map[string]bool{}}
}

func (o *oracle) tal(k tkey) *tally {
	t := o.tallies[k]
	if t == nil {
		t = &tally{first: map[int]first{}, equiv: map[int]bool{}}
		o.tallies[k] = t
	}
	return t
}

func (o *oracle) inRing(r uint64, i uint32) bool {
	for _, k := range o.ring {
		if k[0] == r && k[1] == uint64(i) {
			return true
		}
	}
	return false
}

func rkey(r uint64, i uint32, t, h int) string { return fmt.Sprintf("%d/%d/%d/%d", r, i, t, h) }

// note records that (sender) is now counted for (r,i,t,h) and updates "reached".
func (o *oracle) note(k tkey, h int, thr uint64) {
	if o.tal(k).weight(h) >= uint64(goQuorum(thr, k.t != 3)) {
		o.reached[rkey(k.r, k.i, k.t, h)] = true
	}
	if o.tal(k).validWeight(h) >= uint64(goQuorum(thr, k.t != 3)) {
		o.reachedValid[rkey(k.r, k.i, k.t, h)] = true
	}
}

// credTruth: would a verifier with the same look-back accept this credential?
func (o *oracle) credTruth(m *MsgOp) bool { return m.Cred == 1 || m.Cred == 3 }

// credSeen: what the voter's verifySortitionFn answers
func (o *oracle) credSeen(m *MsgOp) bool {
	switch m.Cred {
	case 0:
		return false
	case 1, 3:
		return true
	default: // invalid VRF through Server.verifySortition
		return m.R < o.srvR || uint64(m.I) < uint64(o.srvI)
	}
}

func (o *oracle) hit(what string) { o.hits = append(o.hits, what) }

// wasCounted: is the sender recorded in the message's tally after the op?
func (o *oracle) wasCounted(m *MsgOp, ob *Obs) bool {
	return m.Kind != 2 && ob.recorded
}

// before is called before the implementation runs the op (it uses only the op
// and earlier observations); after is called with the op's observations.
// recheckRetained looks at every announced event again, as Server.commit /
// updateBlockHeader do when they pack it later on another goroutine: the vote
// sets must still be exactly the ones that were counted at announcement time.
func (o *oracle) recheckRetained(when string) {
	same := func(a, b [][2]int) bool {
		if len(a) != len(b) {
			return false
		}
		for i := range a {
			if a[i] != b[i] {
				return false
			}
		}
		return true
	}
	for k := range o.retained {
		e := &o.retained[k]
		if o.mutated[k] {
			continue
		}
		var cp, hp, cc [][2]int
		if e.commit != nil {
			cp, hp, cc = votesOf(e.commit.ChamberPrecommits), votesOf(e.commit.HousePrecommits), votesOf(e.commit.ChamberCerts)
		} else if e.update != nil {
			cp, hp = votesOf(e.update.ChamberPrecommits), votesOf(e.update.HousePrecommits)
		} else {
			continue
		}
		if same(cp, e.CP) && same(hp, e.HP) && same(cc, e.CC) {
			continue
		}
		if o.mutated == nil {
			o.mutated = map[int]bool{}
		}
		o.mutated[k] = true
		detail := ""
		if e.commit != nil {
			if uv, err := o.im.v.PackVotes(*e.commit, params.LookBackPos); err == nil {
				thrP, _ := o.caseThr()
				detail = fmt.Sprintf("; packed now, the precommit set re-counts to %d (quorum %d)", o.recount(uv.ChamberCommitters, *e.commit, 1), goQuorum(thrP, true))
			}
		}
		o.hit(fmt.Sprintf("announced_vote_set_changed: the %s event for block %d at (%d,%d) is packed later from the event it was posted with; %s its vote sets are no longer the ones counted at announcement (precommits %v -> %v, house %v -> %v, certificates %v -> %v)%s",
			e.K, e.H, e.R, e.I, when, e.CP, cp, e.HP, hp, e.CC, cc, detail))
	}
}

// a quorum-crossing trigger: an accepted chamber vote of this op, or a context change
// (the voter's own votes are cast there), with the threshold it brings
type trig struct {
	r   uint64
	i   uint32
	t   int // vote type; -1 = context change
	thr uint64
	// for a vote: its block and the seats counted for that block right after it was
	// booked - the moment the implementation judges the count.  (In a During pair the
	// second event may be a double vote that removes weight again; the precommit the
	// first event triggered is judged at the first event's moment.)
	h     int
	w, wv uint64
}

func (o *oracle) certAtCtx(r uint64, i uint32) bool {
	if c, ok := o.certAt[[2]uint64{r, uint64(i)}]; ok {
		return c
	}
	return o.cert
}

// step: one event at a time.  stepPair: [inner] was requested while the
// authentication callbacks of the message [outer] ran; the voter lock makes it take
// effect after [outer] has completed, so the bookkeeping is the sequential one; the
// events of both are in ob (they cannot be told apart from outside).
func (o *oracle) step(op *Op, ob *Obs) {
	o.begin(ob)
	var trigs []trig
	o.book(op, ob, false, &trigs)
	o.events(trigs, ob)
}

func (o *oracle) stepPair(outer, inner *Op, ob, ob2 *Obs) {
	o.begin(ob)
	var trigs []trig
	o.book(outer, ob, true, &trigs)
	o.book(inner, ob2, false, &trigs)
	o.events(trigs, ob)
}

func (o *oracle) begin(ob *Obs) {
	o.recheckRetained("after a later op")
	for _, e := range ob.Events {
		if e.commit != nil || e.update != nil {
			o.retained = append(o.retained, e)
		}
	}
}

// book: what the op does to the sets of counted votes, as the property prescribes it
func (o *oracle) book(op *Op, ob *Obs, skipCount bool, trigs *[]trig) {
	switch op.K {
	case "srv":
		o.srvR, o.srvI = op.R, op.I
	case "restart":
		// all volatile state is gone: no kept vote sets, no context
		o.ring, o.tallies, o.ctxSet = nil, map[tkey]*tally{}, false
	case "ctx":
		if !o.ctxSet || o.r != op.R || o.i != op.I {
			if !o.inRing(op.R, op.I) {
				if len(o.ring) >= params.MaxVoteCacheCount {
					old := o.ring[0]
					o.ring = o.ring[1:]
					for k := range o.tallies {
						if k.r == old[0] && uint64(k.i) == old[1] {
							delete(o.tallies, k)
						}
					}
				}
				o.ring = append(o.ring, [2]uint64{op.R, uint64(op.I)})
			}
		}
		o.ctxSet, o.r, o.i, o.cert = true, op.R, op.I, op.Cert
		if o.certAt == nil {
			o.certAt = map[[2]uint64]bool{}
		}
		o.certAt[[2]uint64{op.R, uint64(op.I)}] = op.Cert
		*trigs = append(*trigs, trig{r: op.R, i: op.I, t: -1})
	case "msg":
		m := op.M
		accepted := !m.NoVote && m.Sig == 0 && m.StakeOk && o.credSeen(m) && !(m.T == 3 && !o.h.Env.CertpOk)
		if accepted && m.Cred == 2 {
			// an invalid credential of a stale message: the code as it is counts it
			// (listed finding); a repaired verifySortition drops it.  Read off the
			// observation which of the two happened.
			// (which tree this is was read off the implementation by probeRepairs)
			accepted = ob.Ret == 0 && !fixStale
		}
		if accepted {
			switch m.Status {
			case 2:
				accepted = o.ctxSet && m.R == o.r && m.I == o.i
			case 0, 1:
				accepted = m.T == 1 && o.inRing(m.R, m.I)
			default:
				accepted = false
			}
		}
		if !accepted && m.StakeOk && m.Kind != 2 && ob.recorded && !skipCount {
			// the oracle rejects the vote, the implementation has the sender recorded:
			// fine if it was recorded by an earlier, accepted vote - otherwise a vote
			// was counted that must not be
			if _, ok := o.tal(tkey{m.R, m.I, m.T + 10*m.Kind}).first[m.Sender]; !ok {
				w := credWeight(o.h, m.Sender, m.R, m.I, m.T)
				if !m.NoVote && m.Sig == 0 && !o.credTruth(m) {
					o.hit(fmt.Sprintf("unverified_weight_counted: %s vote of sender %d for block %d at (%d,%d) is recorded with %d claimed seats (count now %d); the sortition verifier gives this credential (proof kind %d) the weight %d", vtName[m.T], m.Sender, m.H, m.R, m.I, m.Votes, ob.Count, m.Proof, w))
				} else {
					o.hit(fmt.Sprintf("rejected_vote_counted: %s vote of sender %d for block %d at (%d,%d) (status %s) must not be counted but the sender is recorded", vtName[m.T], m.Sender, m.H, m.R, m.I, statusCoq[m.Status]))
				}
			}
		}
		if accepted && m.Kind != 2 {
			// chamber and house are tallied apart; only chamber escalates
			k := tkey{m.R, m.I, m.T + 10*m.Kind}
			t := o.tal(k)
			if f, ok := t.first[m.Sender]; !ok {
				t.first[m.Sender] = first{m.H, m.Votes, o.credTruth(m)}
				if !o.credTruth(m) {
					o.stale = true
				}
			} else if f.h != m.H && m.T != 2 {
				t.equiv[m.Sender] = true
			}
			if m.Kind == 0 {
				o.note(tkey{m.R, m.I, m.T}, m.H, m.Thr)
			}
			// the count the implementation holds must be exactly the weight of
			// the non-equivocating counted senders (in a During pair the first count is
			// read after the second event and may have moved)
			w := t.weight(m.H)
			if !skipCount && w < 1<<32 && uint64(ob.Count) != w {
				o.hit(fmt.Sprintf("count_not_sum: count held for %s block %d at (%d,%d) is %d, counted non-equivocating seats sum to %d", vtName[m.T], m.H, m.R, m.I, ob.Count, w))
			}
		}
		if accepted && m.Kind == 0 {
			tl := o.tal(tkey{m.R, m.I, m.T})
			*trigs = append(*trigs, trig{r: m.R, i: m.I, t: m.T, thr: m.Thr, h: m.H, w: tl.weight(m.H), wv: tl.validWeight(m.H)})
		}
	}
}

// events: every vote and commit the voter posts must be backed by what was counted
// in ITS OWN (round, index)
func (o *oracle) events(trigs []trig, ob *Obs) {
	// an honest validator never signs two conflicting votes, even across restarts
	for _, e := range ob.Events {
		if e.K == "send" {
			if o.sent == nil {
				o.sent = map[tkey]int{}
			}
			k := tkey{e.R, e.I, e.T}
			o.sent[k]++
			lim := 1
			if e.T == 2 {
				lim = 2
			}
			if o.sent[k] > lim {
				o.hit(fmt.Sprintf("conflicting_vote_emitted: %d %s votes posted for (%d,%d)", o.sent[k], vtName[e.T], e.R, e.I))
			}
		}
	}
	// own votes seen in this op are counted too (newVote without addrVoteInfo)
	for _, e := range ob.Events {
		if e.K == "send" {
			ov := ownLookup(o.h, e.R, e.I, e.T)
			if ov != nil && ov.Kind != 2 {
				k := tkey{e.R, e.I, e.T + 10*ov.Kind}
				t := o.tal(k)
				if _, ok := t.first[0]; !ok {
					t.first[0] = first{e.H, e.N, true}
				}
				if ov.Kind == 0 {
					o.note(tkey{e.R, e.I, e.T}, e.H, ov.Thr)
				}
			}
		}
	}
	for _, e := range ob.Events {
		switch e.K {
		case "send":
			if e.T == 1 { // a precommit goes out
				// thresholds that may have been crossed for prevotes of exactly this (round, index):
				// an accepted chamber prevote delivered there, or the voter's own prevote cast there
				type cand struct{ thr, w, wv uint64 }
				var cands []cand
				cur := o.tal(tkey{e.R, e.I, 0})
				for _, tg := range trigs {
					if tg.r != e.R || tg.i != e.I {
						continue
					}
					if tg.t == 0 && tg.h == e.H {
						cands = append(cands, cand{tg.thr, tg.w, tg.wv})
					} else if tg.t == -1 {
						if ov := ownLookup(o.h, e.R, e.I, 0); ov != nil {
							cands = append(cands, cand{ov.Thr, cur.weight(e.H), cur.validWeight(e.H)})
						}
					}
				}
				w, wv := cur.weight(e.H), cur.validWeight(e.H)
				ok, okValid := false, false
				var thr uint64
				for _, c := range cands {
					thr, w, wv = c.thr, c.w, c.wv
					if c.w >= uint64(goQuorum(c.thr, true)) {
						ok = true
						if c.wv >= uint64(goQuorum(c.thr, true)) {
							okValid = true
						}
						break
					}
				}
				thrs := cands
				if !ok {
					o.hit(fmt.Sprintf("precommit_without_quorum: precommit for block %d at (%d,%d): prevote seats counted for it in that round index are %d, quorum %d of threshold %d (prevote quorum crossings of this event in that index: %d)", e.H, e.R, e.I, w, goQuorum(thr, true), thr, len(thrs)))
				} else if !okValid {
					o.hit(fmt.Sprintf("stale_credential_accepted: precommit for block %d at (%d,%d): counted prevote seats %d reach the quorum %d only with votes whose VRF credential is invalid (valid seats %d); Server.verifySortition accepted them because the server was already at (%d,%d)", e.H, e.R, e.I, w, goQuorum(thr, true), wv, o.srvR, o.srvI))
				}
			}
		case "commit":
			if !o.reached[rkey(e.R, e.I, 1, e.H)] {
				o.hit(fmt.Sprintf("commit_without_precommit_quorum: commit of block %d at (%d,%d) but precommits for it never reached their quorum", e.H, e.R, e.I))
			} else if !o.reachedValid[rkey(e.R, e.I, 1, e.H)] {
				o.hit(fmt.Sprintf("stale_credential_accepted: commit of block %d at (%d,%d): the precommit quorum was reached only with votes whose VRF credential is invalid", e.H, e.R, e.I))
			}
			cert := o.certAtCtx(e.R, e.I)
			if cert && !o.reached[rkey(e.R, e.I, 3, e.H)] {
				o.hit(fmt.Sprintf("commit_without_certificate_quorum: commit of block %d at (%d,%d) in a certificate round but certificate votes never reached their quorum", e.H, e.R, e.I))
			} else if cert && !o.reachedValid[rkey(e.R, e.I, 3, e.H)] {
				o.hit(fmt.Sprintf("stale_credential_accepted: commit of block %d at (%d,%d): the certificate quorum was reached only with votes whose VRF credential is invalid", e.H, e.R, e.I))
			}
			o.checkCommitSets(&e)
			o.verifyCommit(&e)
		}
	}
}

// no equivocator and nobody uncounted may appear in the vote sets of a commit
func (o *oracle) checkCommitSets(e *Event) {
	chk := func(set [][2]int, t int, kind int) {
		tl := o.tal(tkey{e.R, e.I, t + 10*kind})
		for _, p := range set {
			f, ok := tl.first[p[0]]
			if !ok || f.h != e.H || tl.equiv[p[0]] || int(f.seats) != p[1] {
				o.hit(fmt.Sprintf("commit_set_wrong: %s set of the commit of block %d at (%d,%d) holds sender %d with %d seats, which is not a counted non-equivocating vote for that block", vtName[t], e.H, e.R, e.I, p[0], p[1]))
			}
		}
	}
	chk(e.CP, 1, 0)
	chk(e.HP, 1, 1)
	chk(e.CC, 3, 0)
}

// verifyCommit re-counts the packed vote set the way a header verifier does.
func (o *oracle) verifyCommit(e *Event) {
	if !o.h.Consistent || e.commit == nil {
		return
	}
	ev := *e.commit
	certRound := ev.Round.Uint64()%params.ACoCHTFrequency == 0 && ev.Round.Uint64() > 0
	ctxCert := o.certAtCtx(e.R, e.I)
	if certRound != ctxCert {
		return // the context's certificate flag contradicts the round number: PackVotes and the voter disagree by construction
	}
	// object-identity probe (BLS mode): what the shared caches hand out for a signature
	// must still be that signature after packing - cache entries are immutable
	bmode := o.h.Env.Real && o.h.Env.Bls
	type cached struct {
		id  int
		raw []byte
	}
	var rawSigs []cached
	// (Compress() of a decoded signature returns bytes memoised at decoding time, so the
	// probe asks the object itself: does it still verify under its member's key?)
	sigVerifies := func(c cached) bool {
		pk, err := blsKeys[c.id].PubKey()
		if err != nil {
			return false
		}
		sig, err := ucon.VerifC03BlsVerifier(o.im.v).GetBlsSig(c.raw)
		return err == nil && pk.Verify(votePayload(ev.Block.Hash(), ev.Round.Uint64(), ev.RoundIndex), sig) == nil
	}
	if bmode {
		for _, set := range []ucon.VotesInfoForBlockHash{ev.ChamberPrecommits, ev.ChamberCerts} {
			for a, v := range set {
				if id, ok := addrID[a]; ok {
					c := cached{id, append([]byte{}, v.Signature...)}
					if sigVerifies(c) {
						rawSigs = append(rawSigs, c)
					}
				}
			}
		}
	}
	// as Server.commit does: the precommits first, then the certificate votes, on the
	// voter's own (shared) BlsVerifier
	uv, err := o.im.v.PackVotes(ev, params.LookBackPos)
	if err != nil {
		o.hit("commit_pack_failed: PackVotes: " + err.Error())
		return
	}
	thrP, thrC := o.caseThr()
	decayed := false
	// finding class "latched quorum decayed": certificate round, both quorums were
	// reached at some time, and a counted voter of this block has equivocated since
	lost := func(t int) bool {
		tl := o.tal(tkey{e.R, e.I, t})
		for s, f := range tl.first {
			if f.h == e.H && tl.equiv[s] {
				return true
			}
		}
		return false
	}
	class := "commit_not_verifiable"
	hasInvalid := func(t int) bool {
		tl := o.tal(tkey{e.R, e.I, t})
		for s, f := range tl.first {
			if f.h == e.H && !tl.equiv[s] && !f.valid {
				return true
			}
		}
		return false
	}
	if hasInvalid(1) || (ctxCert && hasInvalid(3)) {
		class = "stale_credential_accepted"
	} else if ctxCert && o.reached[rkey(e.R, e.I, 1, e.H)] && o.reached[rkey(e.R, e.I, 3, e.H)] && (lost(1) || lost(3)) {
		class = "latched_quorum_decayed"
	}
	if got := o.recount(uv.ChamberCommitters, ev, 1); got < uint64(goQuorum(thrP, true)) {
		decayed = true
		o.hit(fmt.Sprintf(class+": precommit set packed for block %d at (%d,%d) re-counts to %d < quorum %d", e.H, e.R, e.I, got, goQuorum(thrP, true)))
	}
	var uc *ucon.UconValidators
	if certRound {
		uc, err = o.im.v.PackVotes(ev, params.LookBackCert)
		if err != nil {
			o.hit("commit_pack_failed: PackVotes(cert): " + err.Error())
			return
		}
		if got := o.recount(uc.ChamberCerts, ev, 3); got < uint64(goQuorum(thrC, false)) {
			decayed = true
			o.hit(fmt.Sprintf(class+": certificate set packed for block %d at (%d,%d) re-counts to %d < quorum %d", e.H, e.R, e.I, got, goQuorum(thrC, false)))
		}
	}
	if o.h.Env.Real {
		// the real verifier's vote check with the same look-back set; it must agree
		// with the re-count above
		err := ucon.VerifC03VerifyVotes(o.im.srv, o.im.pm.CurrentCaravelParams(), o.im.reader, ev.Block.Hash().Bytes(), o.im.seed,
			ev.Round, uv.RoundIndex, o.h.Env.ValThr, uv.ChamberCommitters, uv.SCAggrSig, uint32(ucon.Precommit), params.KindChamber, true)
		o.realVerified++
		if err != nil && !decayed {
			o.hit(fmt.Sprintf("commit_rejected_by_verifier: Server.verifyVotes rejects the precommit set packed for block %d at (%d,%d): %v", e.H, e.R, e.I, err))
		}
		if err == nil && decayed && !certRound {
			o.hit(fmt.Sprintf("verifier_accepts_short_set: Server.verifyVotes accepts a precommit set for block %d at (%d,%d) that re-counts below the quorum", e.H, e.R, e.I))
		}
		if uc != nil && !decayed {
			// and the certificate container, with the certificate look-back parameters
			cp, _ := o.im.pm.CertificateParams(ev.Round)
			err := ucon.VerifC03VerifyVotes(o.im.srv, cp, o.im.reader, ev.Block.Hash().Bytes(), o.im.seed,
				ev.Round, uc.RoundIndex, o.h.Env.ValThr, uc.ChamberCerts, uc.CCAggrSig, uint32(ucon.Certificate), params.KindChamber, false)
			if err != nil {
				o.hit(fmt.Sprintf("commit_rejected_by_verifier: Server.verifyVotes rejects the certificate set packed for block %d at (%d,%d): %v", e.H, e.R, e.I, err))
			}
		}
	}
	if bmode {
		for _, c := range rawSigs {
			if !sigVerifies(c) {
				o.hit(fmt.Sprintf("bls_cache_entry_changed: the cached signature object of member %d verified under the member's key before the commit of block %d at (%d,%d) was packed and no longer does afterwards: packing modified a cache entry", c.id, e.H, e.R, e.I))
				break
			}
		}
		// every member whose vote is in the commit sends that vote once more: a duplicate
		// of a counted vote must be ignored, not reported as invalid
		o.redeliver(e, 1, e.CP)
		o.redeliver(e, 3, e.CC)
	}
}

// redeliver re-sends the (valid, counted) votes of a commit's set to the voter.
func (o *oracle) redeliver(e *Event, t int, set [][2]int) {
	for _, p := range set {
		if p[0] == 0 {
			continue
		}
		for _, m := range allMsgs(o.h) {
			if m.Sender == p[0] && m.R == e.R && m.I == e.I && m.T == t && m.H == e.H && int(m.Votes) == p[1] && m.Sig == 0 && o.credTruth(m) && !m.NoVote {
				mm := *m
				mm.Status = 2
				ret := o.im.applyInner(&Op{K: "msg", M: &mm})
				drain()
				if ret != 0 {
					o.hit(fmt.Sprintf("duplicate_vote_reported_invalid: after the commit of block %d at (%d,%d) the %s vote of sender %d, already counted, is delivered again and processVoteMsg reports it as invalid instead of ignoring the duplicate", e.H, e.R, e.I, vtName[t], p[0]))
				}
				break
			}
		}
	}
}

// allMsgs: every vote message of the history, those requested during another one included
func allMsgs(h *History) []*MsgOp {
	var out []*MsgOp
	for k := range h.Ops {
		op := &h.Ops[k]
		if op.K == "msg" && op.M != nil {
			out = append(out, op.M)
			if op.During != nil && op.During.K == "msg" && op.During.M != nil {
				out = append(out, op.During.M)
			}
		}
	}
	return out
}

func (o *oracle) caseThr() (uint64, uint64) {
	var p, c uint64
	for _, m := range allMsgs(o.h) {
		if m.StakeOk {
			if m.T == 3 {
				c = m.Thr
			} else {
				p = m.Thr
			}
		}
	}
	for _, ov := range o.h.Env.Own {
		if ov.T == 3 {
			c = ov.Thr
		} else {
			p = ov.Thr
		}
	}
	if o.h.Env.Real {
		p, c = o.h.Env.ValThr, o.h.Env.ValThr
	}
	return p, c
}

// recount: distinct recovered signers whose credential a verifier with the same
// look-back accepts, summed seats.
func (o *oracle) recount(votes []ucon.SingleVote, ev ucon.CommitEvent, t int) uint64 {
	seen := map[common.Address]bool{}
	payload := votePayload(ev.Block.Hash(), ev.Round.Uint64(), ev.RoundIndex)
	var sum uint64
	for _, v := range votes {
		var a common.Address
		if o.h.Env.Real && o.h.Env.Bls {
			val, ok := o.im.reader.set.GetByIndex(int(v.VoterIdx))
			if !ok {
				continue
			}
			a = val.MainAddress()
		} else {
			pub, err := ucon.GetSignaturePublicKey(payload, v.Signature)
			if err != nil {
				continue
			}
			a = crypto.PubkeyToAddress(*pub)
		}
		if seen[a] {
			continue
		}
		id, ok := addrID[a]
		if !ok {
			continue
		}
		if !o.credAccepted(id, ev.Round.Uint64(), ev.RoundIndex, t, v.Votes) {
			continue
		}
		seen[a] = true
		sum += uint64(v.Votes)
	}
	return sum
}

// credAccepted: ground truth of the credential (sender, round, index, type, seats).
func (o *oracle) credAccepted(id int, r uint64, i uint32, t int, seats uint32) bool {
	if id == 0 {
		ov := ownLookup(o.h, r, i, t)
		return ov != nil && ov.Seats == seats && ov.Kind == 0
	}
	for _, m := range allMsgs(o.h) {
		if m.Sender == id && m.R == r && m.I == i && m.T == t && m.Votes == seats && !m.NoVote &&
			o.credTruth(m) && m.StakeOk && m.Kind == 0 {
			return true // some delivery of this vote carried a credential the verifier accepts for these seats
		}
	}
	return false
}

// ---- Coq printing ------------------------------------------------------------------

func envCoq(e *Env) string {
	var own []string
	for _, o := range e.Own {
		own = append(own, fmt.Sprintf("(%d, %d, %s, (%d, %d, %s))", o.R, o.I, vtCoq[o.T], o.Seats, o.Thr, kindCoq[o.Kind]))
	}
	var creds []string
	for _, c := range e.Creds {
		if c.W > 0 {
			creds = append(creds, fmt.Sprintf("(%d, %d, %d, %s, %d)", c.From, c.R, c.I, vtCoq[c.T], c.W))
		}
	}
	return fmt.Sprintf("(mkEnv 0 %s %s %s %s %s %s %s)", vf.List(own), vf.Bool(e.CertpOk), vf.Bool(e.EvidOn), vf.Bool(fixLatch), vf.Bool(fixStale), vf.Bool(e.Real), vf.List(creds))
}

func opCoq(o *Op) string {
	switch o.K {
	case "ctx":
		mp := "None"
		if o.MaxP != nil {
			mp = fmt.Sprintf("(Some (%d, %d))", o.MaxP[0], o.MaxP[1])
		}
		return fmt.Sprintf("Ctx %d %d %d %s %s", o.R, o.I, o.Step, vf.Bool(o.Cert), mp)
	case "msg":
		m := o.M
		stake := "None"
		if m.StakeOk {
			stake = fmt.Sprintf("(Some (%d, %s))", m.Thr, kindCoq[m.Kind])
		}
		cred := fmt.Sprint(m.Proof)
		return fmt.Sprintf("Msg (mkMsg %s %s %d %d %d %d %d %s %d %s %s %s)", statusCoq[m.Status], vtCoq[m.T], m.R, m.I, m.H, m.P, m.Sender,
			vf.Bool(m.Sig == 0), m.Votes, vf.Bool(m.NoVote), stake, cred)
	case "cache":
		return fmt.Sprintf("Cache %d %s", o.H, vf.Bool(o.Present))
	case "restart":
		return "Restart"
	default:
		return fmt.Sprintf("Srv %d %d", o.R, o.I)
	}
}

// sopCoq prints a schedule op: one event, or a message with the event requested during
// its authentication
func sopCoq(o *Op) string {
	if o.K == "msg" && o.During != nil {
		return "During " + strings.TrimPrefix(opCoq(o), "Msg ") + " (" + opCoq(o.During) + ")"
	}
	return "P (" + opCoq(o) + ")"
}

func obsCoq(ob *Obs) string {
	var evs []string
	for _, e := range ob.Events {
		evs = append(evs, e.coq())
	}
	l := ob.Latch
	return fmt.Sprintf("mkObs %d %s (mkL %s %s %s %s %d %d %d) %d", ob.Ret, vf.List(evs),
		vf.Bool(l[0] == 1), vf.Bool(l[1] == 1), vf.Bool(l[2] == 1), vf.Bool(l[3] == 1), l[4], l[5], l[6], ob.Count)
}

// ---- which of the two listed repairs does the tree under test contain? ------------------
// Read off the implementation by running the two witnesses of the findings
// (fixes/C03_*.md); the model takes the answers as the env flags fix_latch /
// fix_stale.  Everything else is still compared on every case.
var fixLatch, fixStale bool

func probeRepairs() {
	pm := func(t, h, from int, votes uint32) Op {
		return Op{K: "msg", M: &MsgOp{Status: 2, T: t, R: 32768, I: 1, H: h, P: 1, Sender: from, StakeOk: true, Thr: 4, Kind: 0, Cred: 1, Votes: votes}}
	}
	w1 := History{Env: Env{CertpOk: true}, Consistent: true, Ops: []Op{
		{K: "cache", H: 1, Present: true}, {K: "ctx", R: 32768, I: 1, Step: 4, Cert: true},
		pm(1, 1, 1, 1), pm(1, 1, 2, 1), pm(1, 2, 1, 1), pm(3, 1, 3, 2)}}
	fixLatch = true
	normalize(&w1)
	im := newImpl(&w1)
	for k := range w1.Ops {
		ob := im.apply(&w1.Ops[k])
		for _, e := range ob.Events {
			if e.K == "commit" {
				fixLatch = false
			}
		}
	}
	w2 := History{Env: Env{CertpOk: true, Real: true, Stakes: []uint64{160, 195, 33, 79}, ValThr: 3, SeedTag: 975836}, Consistent: true, Ops: []Op{
		{K: "srv", R: 15, I: 1}, {K: "ctx", R: 15, I: 1, Step: 2},
		{K: "srv", R: 15, I: 2},
		{K: "msg", M: &MsgOp{Status: 2, T: 0, R: 15, I: 1, H: 4, P: 1, Sender: 2, StakeOk: true, Thr: 3, Kind: 0, Cred: 2, Votes: 4}}}}
	normalize(&w2)
	im = newImpl(&w2)
	fixStale = true
	for k := range w2.Ops {
		ob := im.apply(&w2.Ops[k])
		if w2.Ops[k].K == "msg" && ob.recorded {
			fixStale = false
		}
	}
}

// ---- run + check one history --------------------------------------------------------

type runResult struct {
	obs          []Obs
	hits         []string
	stale        bool
	realVerified int
	overtook     int // During events that completed while the first message was still being authenticated
}

func runHistory(h *History) runResult {
	normalize(h)
	im := newImpl(h)
	or := newOracle(h, im)
	var res runResult
	for k := range h.Ops {
		ob := im.apply(&h.Ops[k])
		if ob.second != nil {
			if im.duringRan {
				res.overtook++
			}
			or.stepPair(&h.Ops[k], h.Ops[k].During, &ob, ob.second)
		} else {
			or.step(&h.Ops[k], &ob)
		}
		res.obs = append(res.obs, ob)
	}
	or.recheckRetained("at the end of the history")
	res.hits = or.hits
	res.stale = or.stale
	res.realVerified = or.realVerified
	return res
}

// normalize makes a (possibly hand-written) history well-formed for the harness:
// the cases the implementation would panic on are outside the model.
func normalize(h *History) {
	if h.Env.Real {
		h.Env.CertpOk = true
		h.Env.Creds = nil // computed below from the sortition
		if len(h.Env.Stakes) == 0 {
			h.Env.Stakes = []uint64{10}
		}
		if len(h.Env.Stakes) > nKeys {
			h.Env.Stakes = h.Env.Stakes[:nKeys]
		}
		for k := range h.Env.Stakes {
			if h.Env.Stakes[k] == 0 || h.Env.Stakes[k] > 100000 {
				h.Env.Stakes[k] = 1 + h.Env.Stakes[k]%1000
			}
		}
		if h.Env.ValThr == 0 {
			h.Env.ValThr = 1
		}
		// the voter's own step views are what its sortition gives
		var own []OwnView
		for _, o := range h.Env.Own {
			_, sub := realSortition(h, 0, o.I, o.T)
			if sub > 0 {
				own = append(own, OwnView{R: o.R, I: o.I, T: o.T, Seats: sub, Thr: h.Env.ValThr, Kind: 0})
			}
		}
		h.Env.Own = own
	}
	normMsg := func(m *MsgOp) {
	if m.NoVote && m.Status != 2 {
		m.NoVote = false // a nil vote with another status is a nil dereference
	}
	if m.Sender <= 0 || m.Sender >= nKeys {
		m.Sender = 1
	}
	if m.H < 0 || m.H >= nHashes {
		m.H = 1
	}
	if h.Env.Real {
		// the stake look-up and the credential are what the fake chain and the VRF say
		m.StakeOk = m.Sender < len(h.Env.Stakes)
		m.Thr = h.Env.ValThr
		m.Kind = 0
		if isHouse(h, m.Sender) {
			m.Kind = 1
		}
		if m.Proof == 0 {
			switch {
			case m.Cred == 1 || m.Cred == 3 || m.Votes%2 == 1:
				m.Proof = 1
			default:
				m.Proof = 2
			}
		}
		if m.StakeOk && credWeight(h, m.Sender, m.R, m.I, m.T) == 0 {
			if _, sub := realSortition(h, m.Sender, m.I, m.T); sub > 0 {
				h.Env.Creds = append(h.Env.Creds, CredEntry{m.Sender, m.R, m.I, m.T, sub})
			}
		}
	} else {
		w := credWeight(h, m.Sender, m.R, m.I, m.T)
		if m.Proof == 0 {
			intentValid := m.Cred == 1 || m.Cred == 3
			switch {
			case intentValid:
				m.Proof = 1
				if w == 0 && m.Votes > 0 { // the first valid claim defines the sender's weight
					h.Env.Creds = append(h.Env.Creds, CredEntry{m.Sender, m.R, m.I, m.T, m.Votes})
				}
			case w != 0 && w != m.Votes:
				m.Proof = 1 // the right proof with a wrong seat claim
			default:
				m.Proof = 2
			}
		}
	}
	// what the sortition verifier says about (credential, claim)
	w := credWeight(h, m.Sender, m.R, m.I, m.T)
	valid := m.Proof == 1 && w > 0 && w == m.Votes && (!h.Env.Real || m.StakeOk)
	switch {
	case h.Env.Real && valid:
		m.Cred = 3
	case h.Env.Real:
		m.Cred = 2
	case valid:
		m.Cred = 1
	default:
		m.Cred = 0
	}
	}
	seenCtx := false
	var out []Op
	for _, o := range h.Ops {
		switch o.K {
		case "ctx":
			if o.R == 0 {
				o.R = 1
			}
			seenCtx = true
		case "msg":
			if !seenCtx || o.M == nil {
				continue // processVoteMsg before the first context dereferences a nil round
			}
			normMsg(o.M)
			if d := o.During; d != nil {
				switch {
				case d.K == "ctx":
					if d.R == 0 {
						d.R = 1
					}
					d.During = nil
				case d.K == "msg" && d.M != nil:
					normMsg(d.M)
					d.During = nil
				default:
					o.During = nil
				}
			}
		case "cache":
			if o.H < 1 || o.H > nBlocks {
				continue
			}
		case "restart":
			seenCtx = false // the new Voter has no round yet
		}
		out = append(out, o)
	}
	h.Ops = out
}

// ---- generators -----------------------------------------------------------------------

func pickThreshold(r *vf.Rng) uint64 {
	switch r.Intn(12) {
	case 0:
		return uint64(r.Intn(4)) // quorum 0, 0, 1, 2
	case 1:
		return 2000
	case 2:
		return 4000
	case 3:
		return uint64(1) << uint(20+r.Intn(12))
	case 4:
		return 200 // 0.685*200 is 137 up to float rounding
	case 5:
		return uint64(1000 + r.Intn(9)*1000)
	default:
		return uint64(4 + r.Intn(300))
	}
}

// seats for n senders whose total is quorum+delta (all of them needed, give or take)
func splitSeats(r *vf.Rng, n int, total uint64) []uint32 {
	out := make([]uint32, n)
	if n == 0 {
		return out
	}
	left := total
	for i := 0; i < n-1; i++ {
		var s uint64
		if left > 0 {
			s = uint64(r.Intn(int(minU(left, 1<<30)/uint64(n-i)*2+1)))
			if s > left {
				s = left
			}
		}
		out[i] = uint32(s)
		left -= s
	}
	out[n-1] = uint32(minU(left, 1<<32-1))
	// shuffle
	for i := n - 1; i > 0; i-- {
		j := r.Intn(i + 1)
		out[i], out[j] = out[j], out[i]
	}
	return out
}
func minU(a, b uint64) uint64 {
	if a < b {
		return a
	}
	return b
}

type genState struct {
	r       *vf.Rng
	h       *History
	round   uint64
	idx     uint32
	step    uint32
	prev    [][2]uint64
	thrP    uint64
	thrC    uint64
	seats   [4][]uint32 // per vote type, per sender (index 0 unused)
	nS      int
	lead    int // the block most votes go to
	credMem map[string]int
}

func (g *genState) certRound() bool { return g.round > 0 && g.round%params.ACoCHTFrequency == 0 }

func (g *genState) ctx(step uint32) {
	o := Op{K: "ctx", R: g.round, I: g.idx, Step: step, Cert: g.certRound()}
	if !g.h.Consistent && g.r.Chance(5) {
		o.Cert = !o.Cert
	}
	if step == 2 {
		switch g.r.Intn(10) {
		case 0:
		case 1:
			o.MaxP = &[2]int{1 + g.r.Intn(3), 1 + g.r.Intn(nHashes-1)}
		default:
			o.MaxP = &[2]int{1 + g.r.Intn(3), g.lead}
		}
	}
	g.step = step
	g.h.Ops = append(g.h.Ops, o)
}

// resend: the vote m arrives early (future / invalid status: its credential is verified,
// the vote is not counted) and is sent again with exactly one field changed - or unchanged.
// Nothing the voter learnt from the first delivery may stand in for verifying the second.
func resend(r *vf.Rng, ops *[]Op, m MsgOp, otherHash int) {
	early := m
	early.Status = 3 + r.Intn(2)
	if r.Chance(20) {
		early.Status = 2 // or for a context the voter is not in
		early.R += 1
	}
	e := early
	*ops = append(*ops, Op{K: "msg", M: &e})
	if early.R != m.R { // the credential table is per round: nothing to re-send
		mm := m
		*ops = append(*ops, Op{K: "msg", M: &mm})
		return
	}
	mm := m
	mm.Proof = 0
	switch r.Intn(9) {
	case 0:
	case 1, 2:
		mm.Votes += 1 + uint32(r.Intn(1<<uint(r.Intn(20))))
		mm.Cred = 0
		mm.Proof = 1
	case 3:
		if mm.Votes > 1 {
			mm.Votes -= 1 + uint32(r.Intn(int(mm.Votes-1)))
		} else {
			mm.Votes++
		}
		mm.Cred = 0
		mm.Proof = 1
	case 4:
		mm.Proof, mm.Cred = 2, 0
	case 5:
		mm.Proof, mm.Cred = 3, 0
	case 6:
		mm.H = otherHash
	case 7:
		mm.Sig = 1 + r.Intn(3)
	default: // another vote type with the first type's proof
		mm.T = (m.T + 3) % 4
		mm.Proof, mm.Cred = 3, 0
	}
	*ops = append(*ops, Op{K: "msg", M: &mm})
	if r.Chance(30) { // and the honest one after all
		hm := m
		*ops = append(*ops, Op{K: "msg", M: &hm})
	}
}

// restart: the process comes back and re-enters the round, usually at index 1
// (clearData(true)), sometimes at the index it was in
func (g *genState) restart() {
	g.h.Ops = append(g.h.Ops, Op{K: "restart"})
	if g.r.Chance(60) {
		g.prev = append(g.prev, [2]uint64{g.round, uint64(g.idx)})
		g.idx = 1
	}
	g.ctx([]uint32{0, 2, 2, 4}[g.r.Intn(4)])
}

func (g *genState) msg(status, t int, r uint64, i uint32, sender, h int) {
	m := &MsgOp{Status: status, T: t, R: r, I: i, H: h, P: 1 + g.r.Intn(3), Sender: sender, StakeOk: true, Kind: 0, Cred: 1}
	m.Votes = g.seats[t][sender]
	m.Thr = g.thrP
	if t == 3 {
		m.Thr = g.thrC
	}
	if g.r.Chance(4) {
		m.Sig = 1 + g.r.Intn(3)
	}
	if g.r.Chance(3) {
		m.StakeOk = false
	}
	if g.r.Chance(5) {
		m.Kind = 1 + g.r.Intn(2)
	}
	if g.r.Chance(5) {
		// a wrong seat claim: the credential check fails
		m.Votes = m.Votes + 1 + uint32(g.r.Intn(5))
		m.Cred = 0
	}
	if g.r.Chance(3) {
		m.Cred = 0
	}
	if status == 2 && g.r.Chance(1) {
		m.NoVote = true
	}
	if !g.h.Consistent {
		if g.r.Chance(6) {
			m.Thr = pickThreshold(g.r)
		}
		if g.r.Chance(4) {
			m.Votes = uint32(g.r.U64())
		}
		if g.r.Chance(3) {
			m.Cred = 1
		}
	} else {
		// ground truth: one verdict per (sender, ctx, type, seats)
		k := fmt.Sprintf("%d/%d/%d/%d/%d", sender, r, i, t, m.Votes)
		want := m.Cred
		if m.Kind != 0 || !m.StakeOk {
			want = 0
		}
		if c, ok := g.credMem[k]; ok {
			m.Cred = c
			if c == 1 {
				m.Kind, m.StakeOk = 0, true
			}
		} else {
			g.credMem[k] = want
			m.Cred = want
		}
	}
	if status == 2 && m.Cred == 1 && m.Sig == 0 && g.r.Chance(8) {
		resend(g.r, &g.h.Ops, *m, 1+(h%nBlocks))
		return
	}
	op := Op{K: "msg", M: m}
	if g.r.Chance(4) {
		// a second event requested while this vote is being authenticated
		if g.r.Chance(50) {
			d := Op{K: "ctx", R: g.round, I: g.idx + 1, Step: []uint32{0, 2, 4}[g.r.Intn(3)], Cert: g.certRound()}
			if g.r.Chance(25) {
				d.I = g.idx // only the step changes
			} else {
				g.prev = append(g.prev, [2]uint64{g.round, uint64(g.idx)})
				g.idx++
			}
			g.step = d.Step
			op.During = &d
		} else {
			m2 := *m
			m2.Sender = 1 + g.r.Intn(g.nS)
			m2.Votes = g.seats[t][m2.Sender]
			if g.r.Chance(30) {
				m2.H = 1 + (h % nBlocks)
			}
			op.During = &Op{K: "msg", M: &m2}
		}
	}
	g.h.Ops = append(g.h.Ops, op)
}

func (g *genState) pickHash() int {
	switch g.r.Intn(10) {
	case 0:
		return 1 + g.r.Intn(nHashes-1)
	case 1:
		return 1 + g.r.Intn(nBlocks)
	case 2:
		if g.r.Chance(30) {
			return 0
		}
		return g.lead
	default:
		return g.lead
	}
}

func (g *genState) randomVote() {
	t := g.r.Intn(4)
	switch {
	case g.step <= 2:
		if g.r.Chance(75) {
			t = 0
		}
	case g.step == 4:
		if g.r.Chance(70) {
			t = 1
		}
	default:
		if g.r.Chance(60) {
			t = 3
		}
	}
	sender := 1 + g.r.Intn(g.nS)
	c := g.r.Intn(100)
	switch {
	case c < 78:
		g.msg(2, t, g.round, g.idx, sender, g.pickHash())
	case c < 84 && len(g.prev) > 0: // old round / index, mostly precommits
		p := g.prev[g.r.Intn(len(g.prev))]
		st := 0
		if p[0] == g.round {
			st = 1
		}
		if g.r.Chance(70) {
			t = 1
		}
		g.msg(st, t, p[0], uint32(p[1]), sender, g.pickHash())
	case c < 88:
		g.msg(3, t, g.round+uint64(g.r.Intn(2)), g.idx+1+uint32(g.r.Intn(2)), sender, g.pickHash())
	case c < 90:
		g.msg(4, t, g.round, g.idx, sender, g.pickHash())
	case c < 94: // same status but for another context: dropped by the voter's own check
		g.msg(2, t, g.round+uint64(g.r.Intn(2)), g.idx+uint32(g.r.Intn(3)), sender, g.pickHash())
	default: // status chosen freely (the message handler's context may differ from the voter's)
		g.msg(g.r.Intn(5), t, g.round, g.idx, sender, g.pickHash())
	}
}

func (g *genState) advance() {
	g.prev = append(g.prev, [2]uint64{g.round, uint64(g.idx)})
	if len(g.prev) > 6 {
		g.prev = g.prev[1:]
	}
	switch g.r.Intn(10) {
	case 0, 1, 2, 3, 4:
		g.idx++
	case 5, 6, 7:
		g.round++
		g.idx = 1
	case 8:
		if len(g.prev) > 1 { // back to an earlier context
			p := g.prev[g.r.Intn(len(g.prev))]
			g.round, g.idx = p[0], uint32(p[1])
		}
	default:
		g.idx += uint32(1 + g.r.Intn(3))
	}
	if g.r.Chance(30) {
		g.lead = 1 + g.r.Intn(nBlocks)
	}
}

func genHistory(r *vf.Rng) History {
	h := History{Consistent: r.Chance(70)}
	g := &genState{r: r, h: &h, credMem: map[string]int{}}
	h.Env.CertpOk = !r.Chance(6)
	h.Env.EvidOn = r.Chance(50)
	g.round = []uint64{32766, 32767, 32768, 32768, 65535, 7, 1}[r.Intn(7)]
	g.idx = 1
	if r.Chance(4) {
		g.idx = 4294967290
	}
	g.thrP, g.thrC = pickThreshold(r), pickThreshold(r)
	g.nS = 2 + r.Intn(nKeys-3)
	g.lead = 1 + r.Intn(nBlocks)
	own := [4]uint32{}
	for t := 0; t < 4; t++ {
		thr := g.thrP
		if t == 3 {
			thr = g.thrC
		}
		q := uint64(goQuorum(thr, t != 3))
		total := q
		switch r.Intn(6) {
		case 0:
			if total > 0 {
				total--
			}
		case 1:
			total++
		case 2:
			total += uint64(r.Intn(10))
		}
		// the voter's own seats are part of the total in half of the cases
		n := g.nS
		withOwn := r.Chance(50)
		if withOwn {
			n++
		}
		s := splitSeats(r, n, total)
		if r.Chance(8) && n > 0 { // one whale
			s[0] = uint32(minU(q+uint64(r.Intn(3)), 1<<32-1))
		}
		g.seats[t] = append([]uint32{0}, s[:g.nS]...)
		for len(g.seats[t]) < nKeys {
			g.seats[t] = append(g.seats[t], uint32(r.Intn(4)))
		}
		if withOwn {
			own[t] = s[g.nS]
		} else {
			own[t] = uint32(r.Intn(3))
		}
	}
	ownOn := [4]bool{r.Chance(80), r.Chance(80), r.Chance(80), r.Chance(75)}
	ownKind := 0
	if r.Chance(8) {
		ownKind = 1 + r.Intn(2)
	}
	nCtx := 1 + r.Heavy(24)
	budget := 6 + r.Heavy(200)
	for c := 0; c < nCtx && len(h.Ops) < budget; c++ {
		// the voter's own credentials for this context
		for t := 0; t < 4; t++ {
			if ownOn[t] && !r.Chance(10) && ownLookup(&h, g.round, g.idx, t) == nil {
				thr := g.thrP
				if t == 3 {
					thr = g.thrC
				}
				if !h.Consistent && r.Chance(5) {
					thr = pickThreshold(r)
				}
				h.Env.Own = append(h.Env.Own, OwnView{R: g.round, I: g.idx, T: t, Seats: own[t], Thr: thr, Kind: ownKind})
			}
		}
		steps := []uint32{0, 1, 2, 4}
		if g.certRound() || r.Chance(10) {
			steps = append(steps, 5)
		}
		if r.Chance(15) { // start in the middle / skip steps
			steps = steps[r.Intn(len(steps)):]
		}
		for _, st := range steps {
			if r.Chance(35) {
				h.Ops = append(h.Ops, Op{K: "cache", H: 1 + r.Intn(nBlocks), Present: !r.Chance(15)})
			}
			if st == 1 && r.Chance(70) {
				h.Ops = append(h.Ops, Op{K: "cache", H: g.lead, Present: true})
			}
			g.ctx(st)
			k := r.Heavy(3 * g.nS)
			for j := 0; j < k; j++ {
				g.randomVote()
				if r.Chance(6) {
					h.Ops = append(h.Ops, Op{K: "cache", H: 1 + r.Intn(nBlocks), Present: r.Chance(70)})
				}
				if r.Chance(3) {
					g.ctx(g.step) // the same context delivered again
				}
				if r.Chance(2) {
					g.restart()
				}
			}
		}
		g.advance()
	}
	return h
}

// a scripted flow: every sender votes for the leading block in every step, with
// one perturbation; makes sure escalations and commits are reached often
func genFlow(r *vf.Rng) History {
	h := History{Consistent: true}
	g := &genState{r: r, h: &h, credMem: map[string]int{}}
	h.Env.CertpOk = true
	h.Env.EvidOn = r.Chance(50)
	cert := r.Chance(50)
	g.round = 9
	if cert {
		g.round = 32768 * uint64(1+r.Intn(3))
	}
	g.idx = uint32(1 + r.Intn(3))
	g.thrP, g.thrC = pickThreshold(r), pickThreshold(r)
	g.nS = 3 + r.Intn(nKeys-4)
	g.lead = 1 + r.Intn(nBlocks)
	for t := 0; t < 4; t++ {
		thr := g.thrP
		if t == 3 {
			thr = g.thrC
		}
		q := uint64(goQuorum(thr, t != 3))
		own := uint32(r.Intn(3))
		tot := q
		if uint64(own) <= tot && r.Chance(70) {
			tot -= uint64(own)
		}
		if r.Chance(20) {
			tot += uint64(r.Intn(3))
		}
		s := splitSeats(r, g.nS, tot)
		g.seats[t] = append([]uint32{0}, s...)
		for len(g.seats[t]) < nKeys {
			g.seats[t] = append(g.seats[t], 1)
		}
		if r.Chance(85) {
			h.Env.Own = append(h.Env.Own, OwnView{R: g.round, I: g.idx, T: t, Seats: own, Thr: thr, Kind: 0})
		}
	}
	h.Ops = append(h.Ops, Op{K: "cache", H: g.lead, Present: true})
	other := 1 + (g.lead % nBlocks)
	if r.Chance(50) {
		h.Ops = append(h.Ops, Op{K: "cache", H: other, Present: true})
	}
	plain := func(t, sender, hash int) {
		m := &MsgOp{Status: 2, T: t, R: g.round, I: g.idx, H: hash, P: 1, Sender: sender, StakeOk: true, Kind: 0, Cred: 1, Votes: g.seats[t][sender], Thr: g.thrP}
		if t == 3 {
			m.Thr = g.thrC
		}
		if hash == g.lead && r.Chance(12) {
			resend(r, &h.Ops, *m, other)
			return
		}
		h.Ops = append(h.Ops, Op{K: "msg", M: m})
	}
	order := func() []int {
		p := make([]int, g.nS)
		for i := range p {
			p[i] = i + 1
		}
		for i := g.nS - 1; i > 0; i-- {
			j := r.Intn(i + 1)
			p[i], p[j] = p[j], p[i]
		}
		return p
	}
	g.ctx(0)
	g.ctx(2)
	h.Ops[len(h.Ops)-1].MaxP = &[2]int{1, g.lead}
	phases := []int{0, 1}
	if cert {
		phases = append(phases, 3)
	}
	if r.Chance(30) { // certificates may arrive before precommits
		phases = []int{0, 3, 1}
	}
	equivAt := -1
	if r.Chance(60) {
		equivAt = r.Intn(len(phases) + 1)
	}
	switchAt := -1
	if r.Chance(25) {
		switchAt = 1 + r.Intn(len(phases)-1)
	}
	restartAt := -1
	if r.Chance(25) {
		restartAt = r.Intn(len(phases))
	}
	duringAt := -1
	if r.Chance(35) {
		duringAt = r.Intn(len(phases))
	}
	for pi, t := range phases {
		if pi == restartAt {
			// restart in the middle of the round index and re-enter it: every vote
			// already signed must be refused, the quorums must be counted again
			h.Ops = append(h.Ops, Op{K: "restart"})
			g.ctx(2)
			h.Ops[len(h.Ops)-1].MaxP = &[2]int{1, 1 + r.Intn(nBlocks)}
			if pi > 0 {
				for _, s := range order() {
					plain(phases[pi-1], s, g.lead) // the earlier phase is delivered again
				}
			}
		}
		if pi == switchAt {
			// the round index moves on between two phases: quorums reached in the
			// old index must not count in the new one
			g.idx++
			for tt := 0; tt < 4; tt++ {
				if ov := ownLookup(&h, g.round, g.idx-1, tt); ov != nil {
					h.Env.Own = append(h.Env.Own, OwnView{R: g.round, I: g.idx, T: tt, Seats: ov.Seats, Thr: ov.Thr, Kind: 0})
				}
			}
			g.ctx([]uint32{0, 2, 4, 5}[r.Intn(4)])
		}
		if t == 1 {
			g.ctx(4)
		}
		if t == 3 && g.step < 5 && r.Chance(60) {
			g.ctx(5)
		}
		ord := order()
		for k, s := range ord {
			if r.Chance(8) && !(pi == duringAt && k == len(ord)-1) {
				continue
			}
			plain(t, s, g.lead)
			if pi == duringAt && k == len(ord)-1 {
				// the vote that (usually) crosses the quorum is still being authenticated
				// when the round-index timeout fires: the context change is requested on
				// another goroutine.  The vote must be judged in the index it belongs to.
				last := &h.Ops[len(h.Ops)-1]
				if last.K == "msg" && last.M.Status == 2 && last.M.R == g.round && last.M.I == g.idx {
					nr, ni := g.round, g.idx+1
					if r.Chance(20) {
						nr, ni = g.round+1, 1
					}
					for tt := 0; tt < 4; tt++ {
						if ov := ownLookup(&h, g.round, g.idx, tt); ov != nil {
							h.Env.Own = append(h.Env.Own, OwnView{R: nr, I: ni, T: tt, Seats: ov.Seats, Thr: ov.Thr, Kind: 0})
						}
					}
					g.prev = append(g.prev, [2]uint64{g.round, uint64(g.idx)})
					g.round, g.idx = nr, ni
					d := Op{K: "ctx", R: nr, I: ni, Step: []uint32{0, 2, 4}[r.Intn(3)], Cert: g.certRound()}
					if d.Step == 2 {
						d.MaxP = &[2]int{1, g.lead}
					}
					g.step = d.Step
					last.During = &d
				}
				continue
			}
			if r.Chance(10) {
				plain(t, s, g.lead) // duplicate
			}
			if pi == equivAt && k == len(ord)/2 {
				// a sender of an earlier phase (or this one) equivocates now
				tt := phases[r.Intn(pi+1)]
				plain(tt, ord[r.Intn(k+1)], other)
			}
		}
	}
	if equivAt == len(phases) {
		plain(phases[r.Intn(len(phases))], 1+r.Intn(g.nS), other)
	}
	for t := 0; t < 4; t++ {
		if r.Chance(40) {
			plain(t, 1+r.Intn(g.nS), g.lead)
		}
	}
	if r.Chance(50) {
		// after the (possible) commit, before the server would pack it: counted
		// members double-vote in the committed step, honest late votes arrive
		for _, t := range phases[1:] {
			for k := 0; k < 1+r.Intn(2); k++ {
				plain(t, 1+r.Intn(g.nS), other)
			}
			if r.Chance(50) {
				plain(t, 1+r.Intn(g.nS), g.lead)
			}
		}
	}
	g.ctx(4)
	g.idx++
	g.ctx(0)
	return h
}

// many contexts in a row: exercises the ring of kept vote sets (eviction after
// MaxVoteCacheCount contexts, old-round/old-index precommits for kept and for
// evicted contexts, returning to an earlier context)
func genContexts(r *vf.Rng) History {
	h := History{Consistent: true}
	g := &genState{r: r, h: &h, credMem: map[string]int{}}
	h.Env.CertpOk, h.Env.EvidOn = true, r.Chance(50)
	g.round = []uint64{32766, 32767, 9, 65534}[r.Intn(4)]
	g.idx = 1
	g.thrP, g.thrC = uint64(4+r.Intn(40)), uint64(4+r.Intn(40))
	g.nS = 3 + r.Intn(5)
	g.lead = 1 + r.Intn(nBlocks)
	for t := 0; t < 4; t++ {
		g.seats[t] = make([]uint32, nKeys)
		for j := 1; j < nKeys; j++ {
			g.seats[t][j] = uint32(1 + r.Intn(4))
		}
	}
	h.Ops = append(h.Ops, Op{K: "cache", H: g.lead, Present: true})
	var seen [][2]uint64
	plain := func(st, t int, rr uint64, ii uint32, sender, hash int) {
		m := &MsgOp{Status: st, T: t, R: rr, I: ii, H: hash, P: 1, Sender: sender, StakeOk: true, Kind: 0, Cred: 1, Votes: g.seats[t][sender], Thr: g.thrP}
		if t == 3 {
			m.Thr = g.thrC
		}
		if st == 2 && r.Chance(8) {
			resend(r, &h.Ops, *m, 1+(hash%nBlocks))
			return
		}
		h.Ops = append(h.Ops, Op{K: "msg", M: m})
	}
	n := 4 + r.Intn(5)
	for c := 0; c < n; c++ {
		g.ctx([]uint32{0, 2, 4}[r.Intn(3)])
		seen = append(seen, [2]uint64{g.round, uint64(g.idx)})
		for j := 0; j < 1+r.Intn(3); j++ {
			plain(2, r.Intn(2), g.round, g.idx, 1+r.Intn(g.nS), g.lead)
		}
		// precommits for earlier contexts, kept or already evicted
		for j := 0; j < r.Intn(3); j++ {
			p := seen[r.Intn(len(seen))]
			st := 0
			if p[0] == g.round {
				st = 1
			}
			hsh := g.lead
			if r.Chance(25) {
				hsh = 1 + (g.lead % nBlocks) // maybe a double vote in an old context
			}
			plain(st, 1, p[0], uint32(p[1]), 1+r.Intn(g.nS), hsh)
		}
		if r.Chance(20) && len(seen) > 1 { // back to an earlier context
			p := seen[r.Intn(len(seen))]
			g.round, g.idx = p[0], uint32(p[1])
		} else if r.Chance(35) {
			g.round++
			g.idx = 1
		} else {
			g.idx++
		}
	}
	return h
}

// certificate rounds with HOUSE validators next to the chamber: house votes are tallied
// apart with their own threshold and must never stand in for a chamber quorum - in
// particular a house precommit quorum that arrives while the chamber precommits are
// still short must not let the certificate quorum announce the commit
func genHouse(r *vf.Rng) History {
	h := History{Consistent: true}
	h.Env.CertpOk, h.Env.EvidOn = true, r.Chance(50)
	round := 32768 * uint64(1+r.Intn(3))
	idx := uint32(1 + r.Intn(2))
	thrC := uint64(6 + r.Intn(30)) // chamber threshold (both look-backs)
	thrH := uint64(2 + r.Intn(6))  // house threshold
	qP, qC, qH := uint64(goQuorum(thrC, true)), uint64(goQuorum(thrC, false)), uint64(goQuorum(thrH, true))
	nC, nH := 3+r.Intn(4), 2+r.Intn(3)
	lead := 1 + r.Intn(nBlocks)
	other := 1 + (lead % nBlocks)
	part := func(n int, total uint64) []uint32 { // n positive seats summing to total (or n if smaller)
		out := make([]uint32, n)
		for i := range out {
			out[i] = 1
		}
		for left := int64(total) - int64(n); left > 0; left-- {
			out[r.Intn(n)]++
		}
		return out
	}
	seatsP, seatsC := part(nC, qP), append(part(nC-1, qC), 1)
	seatsH := part(nH, qH+uint64(r.Intn(2)))
	msg := func(t, sender, hash int, votes uint32, kind int) {
		m := &MsgOp{Status: 2, T: t, R: round, I: idx, H: hash, P: 1, Sender: sender, StakeOk: true, Kind: kind, Cred: 1, Votes: votes, Thr: thrC}
		if kind == 1 {
			m.Thr = thrH
		}
		h.Ops = append(h.Ops, Op{K: "msg", M: m})
	}
	if r.Chance(50) { // the voter itself may hold chamber seats for the certificate step
		h.Env.Own = append(h.Env.Own, OwnView{R: round, I: idx, T: 3, Seats: 1, Thr: thrC, Kind: 0})
	}
	ctx := func(step uint32) {
		h.Ops = append(h.Ops, Op{K: "ctx", R: round, I: idx, Step: step, Cert: true})
	}
	h.Ops = append(h.Ops, Op{K: "cache", H: lead, Present: true})
	ctx(0)
	ctx(4)
	short := 1 + r.Intn(2) // chamber precommitters held back
	if short >= nC {
		short = nC - 1
	}
	type ev struct{ t, s, kind int }
	var first []ev
	for c := 0; c < nC-short; c++ {
		first = append(first, ev{1, 1 + c, 0})
	}
	for k := 0; k < nH; k++ {
		first = append(first, ev{1, 1 + nC + k, 1})
		if r.Chance(30) {
			first = append(first, ev{r.Intn(4), 1 + nC + k, 1}) // house members vote in the other steps too
		}
	}
	for i := len(first) - 1; i > 0; i-- {
		j := r.Intn(i + 1)
		first[i], first[j] = first[j], first[i]
	}
	send := func(e ev) {
		switch {
		case e.kind == 1:
			msg(e.t, e.s, lead, seatsH[e.s-1-nC], 1)
		case e.t == 3:
			msg(3, e.s, lead, seatsC[e.s-1], 0)
		default:
			msg(e.t, e.s, lead, seatsP[e.s-1], 0)
		}
	}
	for _, e := range first {
		send(e)
	}
	if r.Chance(60) {
		ctx(5)
	}
	// the chamber certificate votes reach their quorum: no commit yet, the chamber
	// precommits are short (one certificate voter is kept for the end)
	for c := 0; c < nC-1; c++ {
		send(ev{3, 1 + c, 0})
	}
	if r.Chance(30) {
		msg(1, 1+nC+r.Intn(nH), other, seatsH[0], 1) // a house member double-votes
	}
	// now the held-back chamber precommits and the last certificate vote
	for c := nC - short; c < nC; c++ {
		send(ev{1, 1 + c, 0})
	}
	send(ev{3, nC, 0})
	if r.Chance(40) {
		send(ev{3, 1 + r.Intn(nC), 0})
	}
	ctx(4)
	h.Ops = append(h.Ops, Op{K: "ctx", R: round, I: idx + 1, Step: 0, Cert: true})
	return h
}

// real mode: a fake chain and validator set, real VRF credentials, the real
// Server.verifySortition / getLookbackStakeInfo behind the voter and the real
// Server.verifyVotes on every commit
func genReal(r *vf.Rng, blsMode, houseMode bool) History {
	h := History{Consistent: true}
	h.Env.Real, h.Env.CertpOk, h.Env.EvidOn = true, true, r.Chance(50)
	h.Env.Bls = blsMode
	n := 3 + r.Intn(7)
	if blsMode {
		n = 3 + r.Intn(3) // every BLS vote costs a pairing: keep the committee small
	}
	heldP, heldC := -1, -1
	if houseMode {
		// the last two members are house validators; one chamber precommitter and one
		// chamber certificate voter are held back until the house quorum and the
		// certificate quorum have had their chance
		n = 5 + r.Intn(4)
		h.Env.HouseFrom = n - 1
		heldP = 1 + r.Intn(n-2)
		heldC = 1 + r.Intn(n-2)
	}
	for j := 0; j <= n; j++ {
		h.Env.Stakes = append(h.Env.Stakes, uint64(5+r.Intn(200)))
	}
	h.Env.ValThr = uint64(3 + r.Intn(40))
	h.Env.SeedTag = uint64(r.Intn(1 << 20))
	cert := r.Chance(40) || blsMode || houseMode
	round := uint64(11 + r.Intn(5))
	if cert {
		round = 32768 * uint64(1+r.Intn(2))
	}
	idx := uint32(1 + r.Intn(3))
	if blsMode {
		// a committee whose precommit and certificate seats both reach the quorum
		for try := 0; try < 40; try++ {
			var pc, ce uint64
			for j := 0; j <= n; j++ {
				_, a := realSortition(&h, j, idx, 1)
				_, b := realSortition(&h, j, idx, 3)
				pc, ce = pc+uint64(a), ce+uint64(b)
			}
			if pc >= uint64(goQuorum(h.Env.ValThr, true)) && ce >= uint64(goQuorum(h.Env.ValThr, false)) {
				break
			}
			h.Env.SeedTag = uint64(r.Intn(1 << 20))
		}
	}
	lead := 1 + r.Intn(nBlocks)
	other := 1 + (lead % nBlocks)
	for t := 0; t < 4; t++ {
		if r.Chance(85) {
			h.Env.Own = append(h.Env.Own, OwnView{R: round, I: idx, T: t})
		}
	}
	q := goQuorum(h.Env.ValThr, true)
	add := func(o Op) { h.Ops = append(h.Ops, o) }
	vote := func(t, sender, hash int, valid bool) {
		_, sub := realSortition(&h, sender, idx, t)
		m := &MsgOp{Status: 2, T: t, R: round, I: idx, H: hash, P: 1, Sender: sender, StakeOk: true, Kind: 0, Cred: 3, Votes: sub, Thr: h.Env.ValThr}
		if !valid {
			m.Cred = 2
			m.Votes = q + uint32(r.Intn(4))
			if r.Chance(30) {
				m.Votes = sub + 1 + uint32(r.Intn(3))
			}
		}
		if r.Chance(3) {
			m.Sig = 1 + r.Intn(3)
		}
		if r.Chance(3) {
			m.Sender = n + 1 + r.Intn(2) // not in the validator set: the stake look-up fails
			if m.Sender >= nKeys {
				m.Sender = nKeys - 1
			}
		}
		if valid && m.Sig == 0 && sub > 0 && r.Chance(15) {
			resend(r, &h.Ops, *m, other)
			return
		}
		add(Op{K: "msg", M: m})
	}
	add(Op{K: "cache", H: lead, Present: true})
	if r.Chance(40) {
		add(Op{K: "cache", H: other, Present: true})
	}
	srvI := idx
	add(Op{K: "srv", R: round, I: srvI})
	add(Op{K: "ctx", R: round, I: idx, Step: 0, Cert: cert})
	add(Op{K: "ctx", R: round, I: idx, Step: 2, Cert: cert, MaxP: &[2]int{1, lead}})
	phases := []int{0, 1}
	if cert {
		phases = append(phases, 3)
	}
	staleAt := -1
	if r.Chance(45) {
		staleAt = r.Intn(len(phases))
	}
	equivAt := -1
	if r.Chance(30) {
		equivAt = r.Intn(len(phases))
	}
	duringAt, duringK := -1, r.Intn(n)
	if r.Chance(30) {
		duringAt = r.Intn(len(phases))
	}
	for pi, t := range phases {
		if t == 1 {
			add(Op{K: "ctx", R: round, I: idx, Step: 4, Cert: cert})
		}
		if t == 3 && r.Chance(60) {
			add(Op{K: "ctx", R: round, I: idx, Step: 5, Cert: cert})
		}
		ord := make([]int, n)
		for i := range ord {
			ord[i] = i + 1
		}
		for i := n - 1; i > 0; i-- {
			j := r.Intn(i + 1)
			ord[i], ord[j] = ord[j], ord[i]
		}
		if houseMode { // house members first
			sort.SliceStable(ord, func(a, b int) bool { return isHouse(&h, ord[a]) && !isHouse(&h, ord[b]) })
		}
		for k, sd := range ord {
			if houseMode && ((t == 1 && sd == heldP) || (t == 3 && sd == heldC)) {
				continue
			}
			if r.Chance(10) && !houseMode {
				continue
			}
			if pi == staleAt && k == 0 {
				// the server has already moved on (its ContextChangeEvent has not reached
				// the voter yet): an invalid credential passes Server.verifySortition
				if r.Chance(70) {
					srvI = idx + 1
					add(Op{K: "srv", R: round, I: srvI})
				} else {
					add(Op{K: "srv", R: round + 1, I: 1})
				}
				vote(t, sd, lead, false)
				if r.Chance(50) {
					add(Op{K: "srv", R: round, I: idx})
				}
				continue
			}
			if r.Chance(6) {
				vote(t, sd, lead, false) // an invalid credential while the server is not ahead: rejected
				continue
			}
			vote(t, sd, lead, true)
			if pi == duringAt && k == duringK {
				// the index timeout fires while this vote is being authenticated
				last := &h.Ops[len(h.Ops)-1]
				if last.K == "msg" && last.M.Status == 2 && last.M.I == idx {
					for tt := 0; tt < 4; tt++ {
						h.Env.Own = append(h.Env.Own, OwnView{R: round, I: idx + 1, T: tt})
					}
					idx++
					d := Op{K: "ctx", R: round, I: idx, Step: []uint32{0, 2, 4}[r.Intn(3)], Cert: cert}
					if d.Step == 2 {
						d.MaxP = &[2]int{1, lead}
					}
					last.During = &d
					add(Op{K: "srv", R: round, I: idx})
					continue
				}
			}
			if r.Chance(8) {
				vote(t, sd, lead, true)
			}
			if pi == equivAt && k == n/2 {
				vote(phases[r.Intn(pi+1)], ord[r.Intn(k+1)], other, true)
			}
		}
	}
	if houseMode {
		vote(1, heldP, lead, true)
		vote(3, heldC, lead, true)
	}
	if r.Chance(50) {
		// double votes of counted members and late votes after the (possible) commit
		for _, t := range phases[1:] {
			vote(t, 1+r.Intn(n), other, true)
			if r.Chance(50) {
				vote(t, 1+r.Intn(n), lead, true)
			}
		}
	}
	add(Op{K: "ctx", R: round, I: idx, Step: 4, Cert: cert})
	add(Op{K: "srv", R: round, I: idx + 1})
	add(Op{K: "ctx", R: round, I: idx + 1, Step: 0, Cert: cert})
	return h
}

func loadCorpus(dir string) []History {
	var out []History
	files, _ := filepath.Glob(filepath.Join(dir, "*.json"))
	sort.Strings(files)
	for _, f := range files {
		b, err := ioutil.ReadFile(f)
		if err != nil {
			continue
		}
		var h History
		if json.Unmarshal(b, &h) == nil && len(h.Ops) > 0 {
			h.Comment = "corpus:" + filepath.Base(f)
			out = append(out, h)
		}
	}
	return out
}

type hit struct {
	What    string  `json:"what"`
	Detail  string  `json:"detail"`
	History History `json:"history"`
}

func whatKey(s string) string {
	if i := strings.Index(s, ":"); i > 0 {
		return s[:i]
	}
	return s
}

func gen(seed uint64, n int, outDir, corpusDir string) {
	// vf.NewRng streams of neighbouring seeds are shifted copies of each other:
	// take the stream's first (mixed) output as the real seed
	r := vf.NewRng(vf.NewRng(seed).U64())
	res := vf.NewResult("C03", seed)
	hs := loadCorpus(corpusDir)
	res.Distribution["corpus"] = len(hs)
	for len(hs) < n {
		switch {
		case r.Chance(30):
			hs = append(hs, genFlow(r))
		case r.Chance(25):
			hs = append(hs, genReal(r, false, false))
		case r.Chance(6):
			hs = append(hs, genReal(r, true, false))
		case r.Chance(15):
			hs = append(hs, genContexts(r))
		case r.Chance(12):
			hs = append(hs, genHouse(r))
		case r.Chance(6):
			hs = append(hs, genReal(r, false, true))
		default:
			hs = append(hs, genHistory(r))
		}
	}
	var sb strings.Builder
	sb.WriteString("From VF.C03 Require Import Model.\nLocal Open Scope N_scope.\nDefinition cases : list case := [\n")
	distinct := map[string]bool{}
	for i := range hs {
		h := &hs[i]
		rr := runHistory(h)
		for _, w := range rr.hits {
			res.OracleHits = append(res.OracleHits, hit{whatKey(w), w, *h})
		}
		res.Distribution["during_overtook_the_message"] += rr.overtook
		if h.Env.Bls {
			res.Count("case_bls")
		}
		if h.Env.HouseFrom > 0 {
			res.Count("case_real_with_house")
		}
		if h.Env.Real {
			res.Count("case_real")
			res.Distribution["real_verifyVotes_calls"] += rr.realVerified
		} else {
			res.Count("case_stub")
		}
		var ops, obs []string
		nontrivial := false
		for j := range h.Ops {
			o := &h.Ops[j]
			ops = append(ops, sopCoq(o))
			obs = append(obs, obsCoq(&rr.obs[j]))
			if rr.obs[j].second != nil {
				obs = append(obs, obsCoq(rr.obs[j].second))
				res.Count("during_" + o.During.K)
			}
			res.Count("op_" + o.K)
			if o.K == "msg" {
				res.Count("msg_status_" + statusCoq[o.M.Status])
				res.Count(fmt.Sprintf("msg_ret_%d", rr.obs[j].Ret))
				m := o.M
				switch {
				case m.NoVote:
					res.Count("msg_class_nil_vote")
				case m.Sig != 0:
					res.Count("msg_class_bad_signature_or_sender")
				case !m.StakeOk:
					res.Count("msg_class_stake_lookup_error")
				case m.Cred == 0 || (m.Cred == 2 && rr.obs[j].Ret == 1):
					res.Count("msg_class_credential_rejected")
				case m.Cred == 2 && rr.obs[j].recorded:
					res.Count("msg_class_stale_invalid_credential_counted")
				case m.Kind == 1:
					res.Count("msg_class_house_vote")
				case m.Kind == 2:
					res.Count("msg_class_other_kind")
				case m.Status == 3 || m.Status == 4:
					res.Count("msg_class_future_or_invalid_status")
				case m.Status == 0 || m.Status == 1:
					if rr.obs[j].recorded {
						res.Count("msg_class_old_precommit_recorded")
					} else {
						res.Count("msg_class_old_ignored")
					}
				case rr.obs[j].recorded:
					res.Count("msg_class_same_recorded_or_duplicate")
				default:
					res.Count("msg_class_same_other_context_dropped")
				}
			}
			for _, e := range rr.obs[j].Events {
				switch e.K {
				case "send":
					res.Count("send_" + vtName[e.T])
					if e.T == 1 || e.T == 3 {
						nontrivial = true
					}
				case "commit":
					nontrivial = true
					if len(e.CC) > 0 {
						res.Count("commit_with_certs")
					} else {
						res.Count("commit")
					}
				default:
					res.Count("event_" + e.K)
				}
			}
		}
		if i > 0 {
			sb.WriteString(";\n")
		}
		line := "mkCase " + envCoq(&h.Env) + "\n " + vf.List(ops) + "\n " + vf.List(obs)
		sb.WriteString(line)
		if nontrivial {
			distinct[line] = true
		}
		if len(res.Samples) < 3 && nontrivial {
			res.Samples = append(res.Samples, h)
		}
		res.CaseDescs = append(res.CaseDescs, h)
	}
	sb.WriteString("].\nDefinition M := Eval vm_compute in mismatches cases.\nPrint M.\n")
	vf.WriteFile(filepath.Join(outDir, "Cases.v"), sb.String())
	res.Cases = len(hs)
	res.Distinct = len(distinct)
	res.Extra["repair_latched_quorum_present"] = fixLatch
	res.Extra["repair_stale_credential_present"] = fixStale
	res.Rule = "histories (6-250 ops) of context changes, block-cache changes, server moves and vote messages driven through the real Voter; four generators: random interleavings (any status / signature / stake / credential outcome, seats split so that partial sums sit at quorum-1, quorum, quorum+1, thresholds 0..2^31), scripted flows with one perturbation (duplicates, equivocation before/after a latched quorum, certificates before precommits, round-index change between phases), many-context runs (ring of 4 kept vote sets, old precommits for kept and evicted contexts), and 'real' flows (fake chain + validator set, real VRF credentials, real Server.verifySortition / getLookbackStakeInfo / verifyVotes, server context ahead of the voter); non-trivial = a precommit or certificate vote or a commit was emitted; distinct by full history and observations"
	res.Write(filepath.Join(outDir, "result.json"))
}

func replay(file string) {
	b, err := ioutil.ReadFile(file)
	if err != nil {
		fmt.Println(err)
		os.Exit(2)
	}
	var rp struct {
		History *History `json:"history"`
		Env     *Env     `json:"env"`
		Ops     []Op     `json:"ops"`
		Cons    bool     `json:"consistent"`
	}
	if err := json.Unmarshal(b, &rp); err != nil {
		fmt.Println(err)
		os.Exit(2)
	}
	var h History
	if rp.History != nil {
		h = *rp.History
	} else if rp.Env != nil {
		h = History{Env: *rp.Env, Ops: rp.Ops, Consistent: rp.Cons}
	} else {
		fmt.Println("no history in file")
		os.Exit(2)
	}
	rr := runHistory(&h)
	for j := range h.Ops {
		fmt.Printf("%3d %-60s -> %s\n", j, sopCoq(&h.Ops[j]), obsCoq(&rr.obs[j]))
		if rr.obs[j].second != nil {
			fmt.Printf("    %-60s -> %s\n", "(second event of the pair)", obsCoq(rr.obs[j].second))
		}
	}
	if len(rr.hits) > 0 {
		for _, w := range rr.hits {
			fmt.Println("ORACLE VIOLATION:", w)
		}
		os.Exit(1)
	}
	fmt.Println("property holds on this history")
}

func main() {
	mode := ""
	if len(os.Args) > 1 {
		mode = os.Args[1]
		os.Args = append(os.Args[:1], os.Args[2:]...)
	}
	seed := flag.Uint64("seed", 1, "")
	n := flag.Int("n", 300, "")
	out := flag.String("out", ".", "")
	corpus := flag.String("corpus", "/verif/corpus/C03", "")
	file := flag.String("file", "", "")
	flag.Parse()
	if mode == "locks" {
		locksCmd(*out)
		return
	}
	params.InitNetworkId(params.NetworkIdForTestCase)
	logging.Root().SetHandler(logging.DiscardHandler())
	setupUniverse()
	startCollector()
	probeRepairs()
	switch mode {
	case "gen":
		gen(*seed, *n, *out, *corpus)
	case "replay":
		replay(*file)
	case "locks":
		locksCmd(*out)
	default:
		fmt.Println("usage: c03 gen|replay")
		os.Exit(2)
	}
}
