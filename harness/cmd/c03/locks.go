// Lock-discipline inventory of consensus/ucon/voter.go (translator "locks"):
// for every method of *Voter - does its body start with v.lock.Lock(); defer
// v.lock.Unlock(), how many other Lock/Unlock calls on v.lock does it contain,
// which fields of the Voter does it write / read, which Voter methods does it
// call.  Written as a Coq table (coq/gen/C03Locks.v); coq/C03/Bridge.v proves
// from it that processVoteMsg and updateContext hold v.lock from their first
// statement to their return and that every method writing Voter state runs
// under that lock - what "one op = one critical section" in Model.v rests on.
package main

import (
	"fmt"
	"go/ast"
	"go/parser"
	"go/token"
	"os"
	"path/filepath"
	"sort"
	"strings"

	"verif/harness/vf"
)

type lockInfo struct {
	name         string
	wholeBody    bool // body = v.lock.Lock(); defer v.lock.Unlock(); ...
	otherLockOps int  // further Lock/Unlock calls on v.lock anywhere in the body
	writes       map[string]bool
	reads        map[string]bool
	calls        map[string]bool
}

// isLockCall: <recv>.lock.Lock() / .Unlock()
func isLockCall(e ast.Expr, recv string) (string, bool) {
	call, ok := e.(*ast.CallExpr)
	if !ok {
		return "", false
	}
	sel, ok := call.Fun.(*ast.SelectorExpr)
	if !ok || (sel.Sel.Name != "Lock" && sel.Sel.Name != "Unlock") {
		return "", false
	}
	in, ok := sel.X.(*ast.SelectorExpr)
	if !ok || in.Sel.Name != "lock" {
		return "", false
	}
	id, ok := in.X.(*ast.Ident)
	if !ok || id.Name != recv {
		return "", false
	}
	return sel.Sel.Name, true
}

// fieldOf: v.f (possibly under index / further selection) -> f
func fieldOf(e ast.Expr, recv string) (string, bool) {
	for {
		switch x := e.(type) {
		case *ast.IndexExpr:
			e = x.X
		case *ast.StarExpr:
			e = x.X
		case *ast.ParenExpr:
			e = x.X
		case *ast.SelectorExpr:
			if id, ok := x.X.(*ast.Ident); ok && id.Name == recv {
				return x.Sel.Name, true
			}
			e = x.X
		default:
			return "", false
		}
	}
}

func locksCmd(out string) {
	repo := os.Getenv("VERIF_REPO")
	if repo == "" {
		repo = "/repo"
	}
	fset := token.NewFileSet()
	f, err := parser.ParseFile(fset, filepath.Join(repo, "consensus", "ucon", "voter.go"), nil, 0)
	if err != nil {
		fmt.Fprintln(os.Stderr, "locks:", err)
		os.Exit(2)
	}
	// the Voter's fields
	fields := map[string]bool{}
	ast.Inspect(f, func(n ast.Node) bool {
		ts, ok := n.(*ast.TypeSpec)
		if !ok || ts.Name.Name != "Voter" {
			return true
		}
		if st, ok := ts.Type.(*ast.StructType); ok {
			for _, fl := range st.Fields.List {
				for _, nm := range fl.Names {
					fields[nm.Name] = true
				}
			}
		}
		return false
	})
	var infos []*lockInfo
	methods := map[string]bool{}
	for _, d := range f.Decls {
		fd, ok := d.(*ast.FuncDecl)
		if !ok || fd.Recv == nil || fd.Body == nil || len(fd.Recv.List) != 1 {
			continue
		}
		st, ok := fd.Recv.List[0].Type.(*ast.StarExpr)
		if !ok {
			continue
		}
		if id, ok := st.X.(*ast.Ident); !ok || id.Name != "Voter" {
			continue
		}
		methods[fd.Name.Name] = true
	}
	for _, d := range f.Decls {
		fd, ok := d.(*ast.FuncDecl)
		if !ok || !methods[fd.Name.Name] || fd.Recv == nil || fd.Body == nil {
			continue
		}
		if st, ok := fd.Recv.List[0].Type.(*ast.StarExpr); !ok {
			continue
		} else if id, ok := st.X.(*ast.Ident); !ok || id.Name != "Voter" {
			continue
		}
		recv := "v"
		if len(fd.Recv.List[0].Names) == 1 {
			recv = fd.Recv.List[0].Names[0].Name
		}
		li := &lockInfo{name: fd.Name.Name, writes: map[string]bool{}, reads: map[string]bool{}, calls: map[string]bool{}}
		body := fd.Body.List
		if len(body) >= 2 {
			if es, ok := body[0].(*ast.ExprStmt); ok {
				if k, ok := isLockCall(es.X, recv); ok && k == "Lock" {
					if ds, ok := body[1].(*ast.DeferStmt); ok {
						if k, ok := isLockCall(ds.Call, recv); ok && k == "Unlock" {
							li.wholeBody = true
						}
					}
				}
			}
		}
		total := 0
		written := map[ast.Expr]bool{}
		ast.Inspect(fd.Body, func(n ast.Node) bool {
			switch x := n.(type) {
			case *ast.CallExpr:
				if _, ok := isLockCall(x, recv); ok {
					total++
				}
				if sel, ok := x.Fun.(*ast.SelectorExpr); ok {
					if id, ok := sel.X.(*ast.Ident); ok && id.Name == recv && methods[sel.Sel.Name] {
						li.calls[sel.Sel.Name] = true
					}
				}
			case *ast.AssignStmt:
				for _, l := range x.Lhs {
					if fn, ok := fieldOf(l, recv); ok && fields[fn] {
						li.writes[fn] = true
						written[l] = true
					}
				}
			case *ast.IncDecStmt:
				if fn, ok := fieldOf(x.X, recv); ok && fields[fn] {
					li.writes[fn] = true
				}
			case *ast.SelectorExpr:
				if id, ok := x.X.(*ast.Ident); ok && id.Name == recv && fields[x.Sel.Name] && x.Sel.Name != "lock" {
					li.reads[x.Sel.Name] = true
				}
			}
			return true
		})
		li.otherLockOps = total
		if li.wholeBody {
			li.otherLockOps = total - 2
		}
		infos = append(infos, li)
	}
	sort.Slice(infos, func(i, j int) bool { return infos[i].name < infos[j].name })
	keys := func(m map[string]bool) string {
		var ks []string
		for k := range m {
			ks = append(ks, "\""+k+"\"")
		}
		sort.Strings(ks)
		return "[" + strings.Join(ks, "; ") + "]"
	}
	var sb strings.Builder
	sb.WriteString("(* generated by `c03 locks` from consensus/ucon/voter.go - do not edit.\n   (method of *Voter, exported, body is v.lock.Lock(); defer v.lock.Unlock(); ..., number of other\n   Lock/Unlock calls on v.lock, Voter fields assigned, Voter fields mentioned, Voter methods called) *)\n")
	sb.WriteString("From Coq Require Import List String.\nImport ListNotations.\nOpen Scope string_scope.\n")
	sb.WriteString("Definition c03_voter_methods : list (string * bool * bool * nat * list string * list string * list string) := [\n")
	for i, li := range infos {
		if i > 0 {
			sb.WriteString(";\n")
		}
		sb.WriteString(fmt.Sprintf("  (\"%s\", %s, %s, %d%%nat, %s, %s, %s)", li.name, vf.Bool(ast.IsExported(li.name)), vf.Bool(li.wholeBody), li.otherLockOps, keys(li.writes), keys(li.reads), keys(li.calls)))
	}
	sb.WriteString("].\n")
	vf.WriteIfChanged(out, sb.String())
}
