// T3: translator from the go/ast of the opcode bodies (core/vm/instructions.go)
// and of the helpers they call (common/math/big.go, common/big.go) to terms of
// the statement language of coq/C15/Model.v.  Anything it does not understand
// makes it fail loudly (exit 3): that is a broken tie, never silence.
package main

import (
	"bytes"
	"crypto/sha256"
	"fmt"
	"go/ast"
	"go/parser"
	"go/printer"
	"go/token"
	"math/big"
	"os"
	"path/filepath"
	"reflect"
	"runtime"
	"sort"
	"strconv"
	"strings"

	"github.com/youchainhq/go-youchain/core/vm"
	"verif/harness/vf"
)

// opcode bodies that are translated (execute function names of the jump table)
var translatedOps = []string{
	"opAdd", "opSub", "opMul", "opDiv", "opSdiv", "opMod", "opSmod", "opExp", "opSignExtend",
	"opNot", "opLt", "opGt", "opSlt", "opSgt", "opEq", "opIszero", "opAnd", "opOr", "opXor",
	"opByte", "opAddmod", "opMulmod", "opSHL", "opSHR", "opSAR",
	"opPop", "opMload", "opMstore", "opMstore8", "opMsize", "opSload", "opSstore", "opStop",
}

// closure makers of instructions.go that are translated with their parameters
var translatedClosures = []string{"makePush", "makeDup", "makeSwap"}

// functions that the Coq model mirrors by hand: only their normalised source
// is fingerprinted (file, receiver-qualified name)
var fingerprinted = [][2]string{
	{"core/vm/stack.go", "Stack.push"}, {"core/vm/stack.go", "Stack.pop"}, {"core/vm/stack.go", "Stack.peek"},
	{"core/vm/stack.go", "Stack.Back"},
	{"core/vm/intpool.go", "intPool.get"}, {"core/vm/intpool.go", "intPool.getZero"}, {"core/vm/intpool.go", "intPool.put"},
	{"core/vm/memory.go", "Memory.Set32"}, {"core/vm/memory.go", "Memory.Get"}, {"core/vm/memory.go", "Memory.Resize"},
	{"core/vm/memory.go", "Memory.Len"},
	{"core/vm/interpreter.go", "EVMInterpreter.Run"},
	{"core/vm/gas_table.go", "memoryGasCost"}, {"core/vm/gas_table.go", "pureMemoryGascost"}, {"core/vm/gas_table.go", "gasExp"},
	{"core/vm/memory_table.go", "memoryMLoad"}, {"core/vm/memory_table.go", "memoryMStore"}, {"core/vm/memory_table.go", "memoryMStore8"},
	{"core/vm/common.go", "calcMemSize"}, {"core/vm/common.go", "bigUint64"}, {"core/vm/common.go", "toWordSize"},
	{"core/vm/contract.go", "Contract.GetOp"}, {"core/vm/contract.go", "Contract.GetByte"}, {"core/vm/contract.go", "Contract.UseGas"},
	{"common/math/big.go", "Exp"}, {"common/math/big.go", "ReadBits"}, {"common/math/big.go", "BigPow"},
	{"common/bytes.go", "RightPadBytes"},
	{"common/types.go", "BigToHash"}, {"common/types.go", "BytesToHash"}, {"common/types.go", "Hash.SetBytes"}, {"common/types.go", "Hash.Bytes"},
	{"core/vm/gas_table.go", "gasSStoreEIP2200"},
}

type sortT int

const (
	sPtr sortT = iota
	sInt
	sHash
	sWords // alias of x.Bits() for a *big.Int variable x
)

type varInfo struct {
	id   int
	sort sortT
	ity  string // U64 I64 U8 for ints
	of   int    // sWords: id of the *big.Int variable whose words these are
}

type pkgInfo struct {
	name    string // package name as used in selectors ("vm", "math", "common")
	funcs   map[string]*ast.FuncDecl
	globals map[string]ast.Expr // package level var initialisers
	consts  map[string]ast.Expr // package level const initialisers
}

type translator struct {
	fset    *token.FileSet
	pkgs    map[string]*pkgInfo
	globIdx map[string]int // "pkg.name" -> cell index
	globVal []*big.Int
	globNam []string
	nextVar int
	varName map[int]string

	// per function state
	pkg    *pkgInfo
	scopes []map[string]varInfo
	defers []string // translated deferred statements
	// names of the executionFunc parameters
	pPC, pInterp, pContract, pMemory, pStack string
	pools                                     []string // expressions denoting the interpreter's integer pool
	where                                     string
}

func (t *translator) fail(n ast.Node, format string, a ...interface{}) {
	pos := ""
	if n != nil {
		pos = t.fset.Position(n.Pos()).String() + ": "
	}
	fmt.Fprintf(os.Stderr, "c15 ops: %s%s: %s\n", pos, t.where, fmt.Sprintf(format, a...))
	os.Exit(3)
}

func (t *translator) str(n ast.Node) string {
	var b bytes.Buffer
	printer.Fprint(&b, t.fset, n)
	return b.String()
}

func (t *translator) parsePkg(name string, files ...string) {
	p := &pkgInfo{name: name, funcs: map[string]*ast.FuncDecl{}, globals: map[string]ast.Expr{}, consts: map[string]ast.Expr{}}
	for _, f := range files {
		af, err := parser.ParseFile(t.fset, f, nil, 0)
		if err != nil {
			fmt.Fprintln(os.Stderr, "c15 ops: cannot parse", f, err)
			os.Exit(3)
		}
		for _, d := range af.Decls {
			switch d := d.(type) {
			case *ast.FuncDecl:
				n := d.Name.Name
				if d.Recv != nil && len(d.Recv.List) == 1 {
					rt := d.Recv.List[0].Type
					if st, ok := rt.(*ast.StarExpr); ok {
						rt = st.X
					}
					if id, ok := rt.(*ast.Ident); ok {
						n = id.Name + "." + n
					}
				}
				p.funcs[n] = d
			case *ast.GenDecl:
				if d.Tok != token.VAR && d.Tok != token.CONST {
					continue
				}
				for _, s := range d.Specs {
					vs := s.(*ast.ValueSpec)
					if len(vs.Values) == len(vs.Names) {
						for i, nm := range vs.Names {
							if d.Tok == token.VAR {
								p.globals[nm.Name] = vs.Values[i]
							} else {
								p.consts[nm.Name] = vs.Values[i]
							}
						}
					}
				}
			}
		}
	}
	if old, ok := t.pkgs[name]; ok {
		for k, v := range p.funcs {
			old.funcs[k] = v
		}
		for k, v := range p.globals {
			old.globals[k] = v
		}
		for k, v := range p.consts {
			old.consts[k] = v
		}
		return
	}
	t.pkgs[name] = p
}

// ---- package level big.Int variables ------------------------------------

func (t *translator) constBig(p *pkgInfo, e ast.Expr) *big.Int {
	v := t.tryConstBig(p, e)
	if v == nil {
		t.fail(e, "cannot evaluate package level initialiser %s", t.str(e))
	}
	return v
}

// preregister gives every evaluable package level *big.Int variable of the
// translated packages a cell, in sorted order, so that cell numbers do not
// depend on which bodies use them.
func (t *translator) preregister() {
	for _, pn := range []string{"math", "vm"} {
		p := t.pkgs[pn]
		var names []string
		for n := range p.globals {
			names = append(names, n)
		}
		sort.Strings(names)
		for _, n := range names {
			if v := t.tryConstBig(p, p.globals[n]); v != nil {
				key := p.name + "." + n
				t.globIdx[key] = len(t.globVal)
				t.globVal = append(t.globVal, v)
				t.globNam = append(t.globNam, key)
			}
		}
	}
}

func (t *translator) tryConstBig(p *pkgInfo, e ast.Expr) *big.Int {
	switch e := e.(type) {
	case *ast.ParenExpr:
		return t.tryConstBig(p, e.X)
	case *ast.Ident:
		init, ok := p.globals[e.Name]
		if !ok {
			return nil
		}
		return t.tryConstBig(p, init)
	case *ast.CallExpr:
		fn := t.str(e.Fun)
		switch {
		case fn == "new" && len(e.Args) == 1 && t.str(e.Args[0]) == "big.Int":
			return new(big.Int)
		case fn == "big.NewInt" && len(e.Args) == 1:
			if k, ok := t.tryConstInt(e.Args[0]); ok {
				return big.NewInt(k)
			}
			return nil
		case (fn == "BigPow" || fn == "math.BigPow") && len(e.Args) == 2:
			// fingerprinted: r := big.NewInt(a); return r.Exp(r, big.NewInt(b), nil)
			a, ok1 := t.tryConstInt(e.Args[0])
			b, ok2 := t.tryConstInt(e.Args[1])
			if !ok1 || !ok2 {
				return nil
			}
			r := big.NewInt(a)
			return r.Exp(r, big.NewInt(b), nil)
		}
		if sel, ok := e.Fun.(*ast.SelectorExpr); ok {
			if _, isPkg := isPkgIdent(sel.X, "big", "math", "common", "errors", "fmt"); isPkg {
				return nil
			}
			if t.tryConstBig(p, sel.X) == nil {
				return nil
			}
			args := make([]*big.Int, len(e.Args))
			for i, a := range e.Args {
				if args[i] = t.tryConstBig(p, a); args[i] == nil {
					return nil
				}
			}
			switch {
			case sel.Sel.Name == "Sub" && len(args) == 2:
				return new(big.Int).Sub(args[0], args[1])
			case sel.Sel.Name == "Add" && len(args) == 2:
				return new(big.Int).Add(args[0], args[1])
			case sel.Sel.Name == "Set" && len(args) == 1:
				return new(big.Int).Set(args[0])
			}
		}
	}
	return nil
}

func (t *translator) tryConstInt(e ast.Expr) (int64, bool) {
	if bl, ok := e.(*ast.BasicLit); ok && bl.Kind == token.INT {
		v, err := strconv.ParseInt(bl.Value, 0, 64)
		if err == nil {
			return v, true
		}
	}
	return 0, false
}

func (t *translator) global(p *pkgInfo, name string, at ast.Node) int {
	key := p.name + "." + name
	if i, ok := t.globIdx[key]; ok {
		return i
	}
	init, ok := p.globals[name]
	if !ok {
		t.fail(at, "unknown identifier %s", name)
	}
	v := t.constBig(p, init)
	i := len(t.globVal)
	t.globIdx[key] = i
	t.globVal = append(t.globVal, v)
	t.globNam = append(t.globNam, key)
	return i
}

// ---- scopes ---------------------------------------------------------------

func (t *translator) push() { t.scopes = append(t.scopes, map[string]varInfo{}) }
func (t *translator) popScope() { t.scopes = t.scopes[:len(t.scopes)-1] }
func (t *translator) lookupVar(name string) (varInfo, bool) {
	for i := len(t.scopes) - 1; i >= 0; i-- {
		if v, ok := t.scopes[i][name]; ok {
			return v, true
		}
	}
	return varInfo{}, false
}
func (t *translator) declare(name string, s sortT, ity string) varInfo {
	v := varInfo{id: t.nextVar, sort: s, ity: ity}
	t.nextVar++
	t.varName[v.id] = name
	t.scopes[len(t.scopes)-1][name] = v
	return v
}

// ---- expressions ------------------------------------------------------------

var binops = map[string]string{"Add": "Add", "Sub": "Sub", "Mul": "Mul", "Div": "Div", "Mod": "Mod",
	"Quo": "Quo", "Rem": "Rem", "And": "And", "Or": "Or", "Xor": "Xor"}
var unops = map[string]string{"Not": "Not", "Abs": "Abs", "Neg": "Neg", "Set": "SetV"}
var shops = map[string]string{"Lsh": "Lsh", "Rsh": "Rsh"}

func isPkgIdent(e ast.Expr, names ...string) (string, bool) {
	if id, ok := e.(*ast.Ident); ok {
		for _, n := range names {
			if id.Name == n {
				return n, true
			}
		}
	}
	return "", false
}

// isPtr decides syntactically whether an expression has type *big.Int.
func (t *translator) isPtr(e ast.Expr) bool {
	switch e := e.(type) {
	case *ast.ParenExpr:
		return t.isPtr(e.X)
	case *ast.Ident:
		if v, ok := t.lookupVar(e.Name); ok {
			return v.sort == sPtr
		}
		_, ok := t.pkg.globals[e.Name]
		return ok
	case *ast.IndexExpr:
		return t.str(e.X) == t.pStack+".data"
	case *ast.CallExpr:
		fn := t.str(e.Fun)
		switch fn {
		case t.pStack + ".pop", t.pStack + ".peek", t.poolFn("get", fn), t.poolFn("getZero", fn),
			"big.NewInt", "math.Exp":
			return true
		case "new":
			return len(e.Args) == 1 && t.str(e.Args[0]) == "big.Int"
		}
		if sel, ok := e.Fun.(*ast.SelectorExpr); ok {
			if pk, ok := isPkgIdent(sel.X, "math", "common"); ok {
				if t.lookupShadow(pk) {
					return false
				}
				if p := t.pkgs[pk]; p != nil {
					if fd := p.funcs[sel.Sel.Name]; fd != nil {
						return t.returnsBig(fd)
					}
				}
				return false
			}
			m := sel.Sel.Name
			if binops[m] != "" || unops[m] != "" || shops[m] != "" || m == "SetUint64" || m == "SetInt64" || m == "SetBytes" {
				return t.isPtr(sel.X)
			}
			return false
		}
		if id, ok := e.Fun.(*ast.Ident); ok {
			if fd := t.pkg.funcs[id.Name]; fd != nil {
				return t.returnsBig(fd)
			}
		}
	}
	return false
}

// poolFn returns fn itself if fn is "<pool>.<method>" for one of the expressions
// that denote the integer pool, and an impossible name otherwise (for use in switch cases).
func (t *translator) poolFn(method, fn string) string {
	for _, p := range t.pools {
		if fn == p+"."+method {
			return fn
		}
	}
	return "\x00no-pool"
}

func (t *translator) lookupShadow(name string) bool { _, ok := t.lookupVar(name); return ok }

func (t *translator) returnsBig(fd *ast.FuncDecl) bool {
	r := fd.Type.Results
	return r != nil && len(r.List) == 1 && len(r.List[0].Names) <= 1 && t.str(r.List[0].Type) == "*big.Int"
}

// inline translates a call of a "simple" function: all parameters *big.Int,
// body = { if c { return e } }* return e.
func (t *translator) inline(p *pkgInfo, fd *ast.FuncDecl, call *ast.CallExpr) string {
	if !t.returnsBig(fd) || fd.Recv != nil {
		t.fail(call, "cannot inline %s: not a plain function returning *big.Int", fd.Name.Name)
	}
	var params []string
	for _, f := range fd.Type.Params.List {
		if t.str(f.Type) != "*big.Int" {
			t.fail(call, "cannot inline %s: parameter of type %s", fd.Name.Name, t.str(f.Type))
		}
		for _, n := range f.Names {
			params = append(params, n.Name)
		}
	}
	if len(params) != len(call.Args) {
		t.fail(call, "cannot inline %s: arity", fd.Name.Name)
	}
	// arguments are evaluated in the caller's scope
	args := make([]string, len(call.Args))
	for i, a := range call.Args {
		args[i] = t.transP(a)
	}
	savedPkg, savedScopes := t.pkg, t.scopes
	t.pkg, t.scopes = p, nil
	t.push()
	ids := make([]int, len(params))
	for i, n := range params {
		ids[i] = t.declare(n, sPtr, "").id
	}
	body := t.inlineBody(fd, fd.Body.List)
	t.pkg, t.scopes = savedPkg, savedScopes
	for i := len(params) - 1; i >= 0; i-- {
		body = fmt.Sprintf("(PLet %d (* %s.%s *) %s %s)", ids[i], fd.Name.Name, params[i], args[i], body)
	}
	return body
}

func (t *translator) inlineBody(fd *ast.FuncDecl, stmts []ast.Stmt) string {
	if len(stmts) == 0 {
		t.fail(fd, "cannot inline %s: body does not end in a return", fd.Name.Name)
	}
	switch s := stmts[0].(type) {
	case *ast.ReturnStmt:
		if len(s.Results) != 1 {
			t.fail(s, "cannot inline %s: return arity", fd.Name.Name)
		}
		return t.transP(s.Results[0])
	case *ast.IfStmt:
		if s.Init != nil || s.Else != nil || len(s.Body.List) != 1 {
			t.fail(s, "cannot inline %s: unsupported if", fd.Name.Name)
		}
		r, ok := s.Body.List[0].(*ast.ReturnStmt)
		if !ok || len(r.Results) != 1 {
			t.fail(s, "cannot inline %s: if body is not a single return", fd.Name.Name)
		}
		c := t.transC(s.Cond)
		a := t.transP(r.Results[0])
		b := t.inlineBody(fd, stmts[1:])
		return fmt.Sprintf("(PIf %s %s %s)", c, a, b)
	}
	t.fail(stmts[0], "cannot inline %s: unsupported statement %s", fd.Name.Name, t.str(stmts[0]))
	return ""
}

func (t *translator) transP(e ast.Expr) string {
	switch e := e.(type) {
	case *ast.ParenExpr:
		return t.transP(e.X)
	case *ast.IndexExpr:
		if t.str(e.X) == t.pStack+".data" {
			i, ty := t.transI(e.Index)
			if ty != "I64" && ty != "" {
				t.fail(e, "stack index of type %s", ty)
			}
			return fmt.Sprintf("(PStackAt %s)", i)
		}
	case *ast.Ident:
		if v, ok := t.lookupVar(e.Name); ok {
			if v.sort != sPtr {
				t.fail(e, "%s is not a *big.Int", e.Name)
			}
			return fmt.Sprintf("(PVar %d (* %s *))", v.id, e.Name)
		}
		g := t.global(t.pkg, e.Name, e)
		return fmt.Sprintf("(PGlob %d (* %s *))", g, t.globNam[g])
	case *ast.CallExpr:
		fn := t.str(e.Fun)
		noArgs := func() {
			if len(e.Args) != 0 {
				t.fail(e, "%s takes no argument", fn)
			}
		}
		switch fn {
		case t.pStack + ".pop":
			noArgs()
			return "PPop"
		case t.pStack + ".peek":
			noArgs()
			return "PPeek"
		case t.poolFn("get", fn):
			noArgs()
			return "PGet"
		case t.poolFn("getZero", fn):
			noArgs()
			return "PGetZero"
		case "big.NewInt":
			if len(e.Args) != 1 {
				t.fail(e, "big.NewInt arity")
			}
			s, _ := t.transI(e.Args[0])
			return fmt.Sprintf("(PNew %s)", s)
		case "new":
			if len(e.Args) == 1 && t.str(e.Args[0]) == "big.Int" {
				return "(PNew (IConst 0))"
			}
		case "math.Exp":
			if len(e.Args) != 2 {
				t.fail(e, "math.Exp arity")
			}
			return fmt.Sprintf("(PExp %s %s)", t.transP(e.Args[0]), t.transP(e.Args[1]))
		}
		if sel, ok := e.Fun.(*ast.SelectorExpr); ok {
			if pk, ok := isPkgIdent(sel.X, "math", "common"); ok && !t.lookupShadow(pk) {
				p := t.pkgs[pk]
				if p == nil || p.funcs[sel.Sel.Name] == nil {
					t.fail(e, "unknown function %s", fn)
				}
				return t.inline(p, p.funcs[sel.Sel.Name], e)
			}
			m := sel.Sel.Name
			recv := func() string { return t.transP(sel.X) }
			switch {
			case binops[m] != "":
				if len(e.Args) != 2 {
					t.fail(e, "%s arity", m)
				}
				r := recv()
				return fmt.Sprintf("(PBin %s %s %s %s)", binops[m], r, t.transP(e.Args[0]), t.transP(e.Args[1]))
			case unops[m] != "":
				if len(e.Args) != 1 {
					t.fail(e, "%s arity", m)
				}
				r := recv()
				return fmt.Sprintf("(PUn %s %s %s)", unops[m], r, t.transP(e.Args[0]))
			case shops[m] != "":
				if len(e.Args) != 2 {
					t.fail(e, "%s arity", m)
				}
				r := recv()
				x := t.transP(e.Args[0])
				n, ty := t.transI(e.Args[1])
				if ty != "U64" && ty != "" {
					t.fail(e, "shift count of type %s", ty)
				}
				return fmt.Sprintf("(PShift %s %s %s %s)", shops[m], r, x, n)
			case m == "SetUint64" || m == "SetInt64":
				if len(e.Args) != 1 {
					t.fail(e, "%s arity", m)
				}
				r := recv()
				n, ty := t.transI(e.Args[0])
				want, ctor := "U64", "PSetU"
				if m == "SetInt64" {
					want, ctor = "I64", "PSetI"
				}
				if ty != want && ty != "" {
					t.fail(e, "%s applied to a %s", m, ty)
				}
				return fmt.Sprintf("(%s %s %s)", ctor, r, n)
			case m == "SetBytes":
				if len(e.Args) != 1 {
					t.fail(e, "SetBytes arity")
				}
				r := recv()
				return fmt.Sprintf("(PSetBytes %s %s)", r, t.transB(e.Args[0]))
			}
		}
		if id, ok := e.Fun.(*ast.Ident); ok && !t.lookupShadow(id.Name) {
			if fd := t.pkg.funcs[id.Name]; fd != nil {
				return t.inline(t.pkg, fd, e)
			}
		}
	}
	t.fail(e, "unsupported *big.Int expression %s", t.str(e))
	return ""
}

// isHash decides syntactically whether an expression has type common.Hash.
func (t *translator) isHash(e ast.Expr) bool {
	switch e := e.(type) {
	case *ast.ParenExpr:
		return t.isHash(e.X)
	case *ast.Ident:
		v, ok := t.lookupVar(e.Name)
		return ok && v.sort == sHash
	case *ast.CallExpr:
		fn := t.str(e.Fun)
		return (fn == "common.BigToHash" && !t.lookupShadow("common")) || fn == t.pInterp+".evm.StateDB.GetState"
	}
	return false
}

// contractAddr checks that the account argument of a StateDB call is the
// executing contract (the model has one storage: the contract's own).
func (t *translator) contractAddr(e ast.Expr) {
	if t.str(e) != t.pContract+".Address()" {
		t.fail(e, "state access of an account other than the executing contract: %s", t.str(e))
	}
}

func (t *translator) transH(e ast.Expr) string {
	switch e := e.(type) {
	case *ast.ParenExpr:
		return t.transH(e.X)
	case *ast.Ident:
		if v, ok := t.lookupVar(e.Name); ok && v.sort == sHash {
			return fmt.Sprintf("(HVar %d (* %s *))", v.id, e.Name)
		}
	case *ast.CallExpr:
		fn := t.str(e.Fun)
		switch {
		case fn == "common.BigToHash" && !t.lookupShadow("common") && len(e.Args) == 1:
			// fingerprinted: BytesToHash(b.Bytes())
			return fmt.Sprintf("(HOfBig %s)", t.transP(e.Args[0]))
		case fn == t.pInterp+".evm.StateDB.GetState" && len(e.Args) == 2:
			t.contractAddr(e.Args[0])
			return fmt.Sprintf("(HGetState %s)", t.transH(e.Args[1]))
		}
	}
	t.fail(e, "unsupported common.Hash expression %s", t.str(e))
	return ""
}

func (t *translator) transB(e ast.Expr) string {
	if sl, ok := e.(*ast.SliceExpr); ok && t.str(sl.X) == t.pContract+".Code" && sl.Low != nil && sl.High != nil && !sl.Slice3 {
		a, ta := t.transI(sl.Low)
		b, tb := t.transI(sl.High)
		if (ta != "I64" && ta != "") || (tb != "I64" && tb != "") {
			t.fail(e, "slice bounds of types %s %s", ta, tb)
		}
		return fmt.Sprintf("(BCodeSlice %s %s)", a, b)
	}
	if c, ok := e.(*ast.CallExpr); ok && t.str(c.Fun) == "common.RightPadBytes" && len(c.Args) == 2 && !t.lookupShadow("common") {
		// fingerprinted: pads with zero bytes on the right up to the length
		b := t.transB(c.Args[0])
		n, tn := t.transI(c.Args[1])
		if tn != "I64" && tn != "" {
			t.fail(e, "pad length of type %s", tn)
		}
		return fmt.Sprintf("(BRightPad %s %s)", b, n)
	}
	if c, ok := e.(*ast.CallExpr); ok && len(c.Args) == 0 {
		if sel, ok := c.Fun.(*ast.SelectorExpr); ok && sel.Sel.Name == "Bytes" && t.isHash(sel.X) {
			return fmt.Sprintf("(BHashBytes %s)", t.transH(sel.X))
		}
	}
	if c, ok := e.(*ast.CallExpr); ok && t.str(c.Fun) == t.pMemory+".Get" && len(c.Args) == 2 {
		o, ty1 := t.transI(c.Args[0])
		s, ty2 := t.transI(c.Args[1])
		if (ty1 != "I64" && ty1 != "") || (ty2 != "I64" && ty2 != "") {
			t.fail(e, "memory.Get argument types %s %s", ty1, ty2)
		}
		return fmt.Sprintf("(BMemGet %s %s)", o, s)
	}
	t.fail(e, "unsupported []byte expression %s", t.str(e))
	return ""
}

func unify(a, b string) (string, bool) {
	if a == "" {
		return b, true
	}
	if b == "" || a == b {
		return a, true
	}
	return "", false
}

var convs = map[string]string{"uint": "U64", "uint64": "U64", "int": "I64", "int64": "I64", "byte": "U8", "uint8": "U8"}

// transI returns the term and the machine type ("" = untyped constant)
func (t *translator) transI(e ast.Expr) (string, string) {
	switch e := e.(type) {
	case *ast.ParenExpr:
		return t.transI(e.X)
	case *ast.BasicLit:
		if e.Kind == token.INT {
			v, ok := new(big.Int).SetString(e.Value, 0)
			if ok {
				return fmt.Sprintf("(IConst (%s))", v.String()), ""
			}
		}
	case *ast.UnaryExpr:
		if e.Op == token.SUB {
			if bl, ok := e.X.(*ast.BasicLit); ok && bl.Kind == token.INT {
				v, ok := new(big.Int).SetString(bl.Value, 0)
				if ok {
					return fmt.Sprintf("(IConst (-%s))", v.String()), ""
				}
			}
		}
	case *ast.Ident:
		if v, ok := t.lookupVar(e.Name); ok && v.sort == sInt {
			return fmt.Sprintf("(IVar %d (* %s *))", v.id, e.Name), v.ity
		}
		if _, shadow := t.lookupVar(e.Name); !shadow {
			if k, ok := t.pkgConst(e.Name); ok {
				return fmt.Sprintf("(IConst (%d) (* %s *))", k, e.Name), ""
			}
		}
	case *ast.StarExpr:
		if id, ok := e.X.(*ast.Ident); ok && id.Name == t.pPC {
			return "(IVar pcvar (* *pc *))", "U64"
		}
	case *ast.IndexExpr:
		if id, ok := e.X.(*ast.Ident); ok {
			if v, ok := t.lookupVar(id.Name); ok && v.sort == sWords {
				i, ti := t.transI(e.Index)
				if ti != "I64" && ti != "" {
					t.fail(e, "word index of type %s", ti)
				}
				return fmt.Sprintf("(IWordAt (PVar %d) %s)", v.of, i), "U64"
			}
		}
	case *ast.BinaryExpr:
		if e.Op == token.QUO || e.Op == token.REM {
			a, ta := t.transI(e.X)
			b, tb := t.transI(e.Y)
			ty, ok := unify(ta, tb)
			if !ok || ty == "" {
				t.fail(e, "division of %s by %s", ta, tb)
			}
			return fmt.Sprintf("(%s %s %s %s)", map[token.Token]string{token.QUO: "IDiv", token.REM: "IMod"}[e.Op], ty, a, b), ty
		}
		if e.Op == token.SHR {
			a, ta := t.transI(e.X)
			b, tb := t.transI(e.Y)
			if ta != "U64" || (tb != "U64" && tb != "") {
				t.fail(e, "shift of a %s by a %s", ta, tb)
			}
			return fmt.Sprintf("(IShr %s %s)", a, b), "U64"
		}
		ctor := map[token.Token]string{token.ADD: "IAdd", token.SUB: "ISub", token.MUL: "IMul", token.AND: "IAnd"}[e.Op]
		if ctor != "" {
			a, ta := t.transI(e.X)
			b, tb := t.transI(e.Y)
			ty, ok := unify(ta, tb)
			if !ok {
				t.fail(e, "mismatched integer types %s and %s", ta, tb)
			}
			if ctor == "IAnd" {
				return fmt.Sprintf("(IAnd %s %s)", a, b), ty
			}
			if ty == "" {
				t.fail(e, "constant arithmetic is not supported: %s", t.str(e))
			}
			return fmt.Sprintf("(%s %s %s %s)", ctor, ty, a, b), ty
		}
	case *ast.CallExpr:
		fn := t.str(e.Fun)
		if ty, ok := convs[fn]; ok && len(e.Args) == 1 && !t.lookupShadow(fn) {
			a, _ := t.transI(e.Args[0])
			return fmt.Sprintf("(IConv %s %s)", ty, a), ty
		}
		if fn == t.pStack+".len" && len(e.Args) == 0 {
			return "IStackLen", "I64"
		}
		if fn == "len" && len(e.Args) == 1 && !t.lookupShadow("len") {
			if t.str(e.Args[0]) == t.pContract+".Code" {
				return "ICodeLen", "I64"
			}
			if id, ok := e.Args[0].(*ast.Ident); ok {
				if v, ok := t.lookupVar(id.Name); ok && v.sort == sWords {
					return fmt.Sprintf("(IBitsLen (PVar %d))", v.of), "I64"
				}
			}
		}
		// calls of integer-valued functions of the translated packages are inlined
		if sel, ok := e.Fun.(*ast.SelectorExpr); ok {
			if pk, ok := isPkgIdent(sel.X, "math", "common"); ok && !t.lookupShadow(pk) {
				if p := t.pkgs[pk]; p != nil && p.funcs[sel.Sel.Name] != nil {
					return t.inlineInt(p, p.funcs[sel.Sel.Name], e)
				}
			}
		}
		if id, ok := e.Fun.(*ast.Ident); ok && !t.lookupShadow(id.Name) {
			if fd := t.pkg.funcs[id.Name]; fd != nil && !t.returnsBig(fd) {
				return t.inlineInt(t.pkg, fd, e)
			}
		}
		if fn == t.pMemory+".Len" && len(e.Args) == 0 {
			return "IMemLen", "I64"
		}
		if sel, ok := e.Fun.(*ast.SelectorExpr); ok && t.isPtr(sel.X) {
			switch sel.Sel.Name {
			case "Cmp":
				if len(e.Args) == 1 {
					x := t.transP(sel.X)
					return fmt.Sprintf("(ICmp %s %s)", x, t.transP(e.Args[0])), "I64"
				}
			case "Sign":
				if len(e.Args) == 0 {
					return fmt.Sprintf("(ISign %s)", t.transP(sel.X)), "I64"
				}
			case "Uint64":
				if len(e.Args) == 0 {
					return fmt.Sprintf("(IUint64 %s)", t.transP(sel.X)), "U64"
				}
			case "Int64":
				if len(e.Args) == 0 {
					return fmt.Sprintf("(IInt64 %s)", t.transP(sel.X)), "I64"
				}
			case "BitLen":
				if len(e.Args) == 0 {
					return fmt.Sprintf("(IBitLen %s)", t.transP(sel.X)), "I64"
				}
			case "Bit":
				if len(e.Args) == 1 {
					x := t.transP(sel.X)
					i, ti := t.transI(e.Args[0])
					if ti != "I64" && ti != "" {
						t.fail(e, "Bit index of type %s", ti)
					}
					return fmt.Sprintf("(IBit %s %s)", x, i), "U64"
				}
			}
		}
	}
	t.fail(e, "unsupported integer expression %s", t.str(e))
	return "", ""
}

func (t *translator) transC(e ast.Expr) string {
	switch e := e.(type) {
	case *ast.ParenExpr:
		return t.transC(e.X)
	case *ast.UnaryExpr:
		if e.Op == token.NOT {
			return fmt.Sprintf("(CNot %s)", t.transC(e.X))
		}
	case *ast.BinaryExpr:
		switch e.Op {
		case token.LAND:
			return fmt.Sprintf("(CAnd %s %s)", t.transC(e.X), t.transC(e.Y))
		case token.LOR:
			return fmt.Sprintf("(COr %s %s)", t.transC(e.X), t.transC(e.Y))
		}
		r := map[token.Token]string{token.LSS: "RLt", token.LEQ: "RLe", token.GTR: "RGt", token.GEQ: "RGe", token.EQL: "REq", token.NEQ: "RNe"}[e.Op]
		if r != "" {
			a, ta := t.transI(e.X)
			b, tb := t.transI(e.Y)
			if _, ok := unify(ta, tb); !ok {
				t.fail(e, "comparison of %s with %s", ta, tb)
			}
			return fmt.Sprintf("(CRel %s %s %s)", r, a, b)
		}
	}
	t.fail(e, "unsupported condition %s", t.str(e))
	return ""
}

// pkgConst evaluates an integer constant of the current package.  The only
// platform dependent one the translated code uses is the size of a big.Word
// (common/math: wordBits = 32 << (uint64(^big.Word(0)) >> 63)), which is
// evaluated for the platform the harness runs on.
func (t *translator) pkgConst(name string) (int64, bool) {
	e, ok := t.pkg.consts[name]
	if !ok {
		return 0, false
	}
	return t.constExpr(e)
}

func (t *translator) constExpr(e ast.Expr) (int64, bool) {
	switch e := e.(type) {
	case *ast.ParenExpr:
		return t.constExpr(e.X)
	case *ast.BasicLit:
		return t.tryConstInt(e)
	case *ast.Ident:
		return t.pkgConst(e.Name)
	case *ast.BinaryExpr:
		if t.str(e) == "32 << (uint64(^big.Word(0)) >> 63)" {
			return int64(32 << (uint64(^big.Word(0)) >> 63)), true
		}
		a, ok1 := t.constExpr(e.X)
		b, ok2 := t.constExpr(e.Y)
		if ok1 && ok2 {
			switch e.Op {
			case token.QUO:
				if b != 0 {
					return a / b, true
				}
			case token.MUL:
				return a * b, true
			case token.ADD:
				return a + b, true
			case token.SUB:
				return a - b, true
			}
		}
	}
	return 0, false
}

func goIty(typ string) string {
	switch typ {
	case "uint", "uint64", "big.Word":
		return "U64"
	case "int", "int64":
		return "I64"
	case "byte", "uint8":
		return "U8"
	}
	return ""
}

// inlineInt translates a call of an integer-valued function whose body is
//   { x := e | words := p.Bits() | if c { return e } }* return e
// with *big.Int parameters (the arguments must be variables) and integer ones.
func (t *translator) inlineInt(p *pkgInfo, fd *ast.FuncDecl, call *ast.CallExpr) (string, string) {
	if fd.Recv != nil || fd.Type.Results == nil || len(fd.Type.Results.List) != 1 {
		t.fail(call, "cannot inline %s", fd.Name.Name)
	}
	rty := goIty(t.str(fd.Type.Results.List[0].Type))
	if rty == "" {
		t.fail(call, "cannot inline %s: result type %s", fd.Name.Name, t.str(fd.Type.Results.List[0].Type))
	}
	type par struct {
		name, typ string
	}
	var params []par
	for _, f := range fd.Type.Params.List {
		for _, n := range f.Names {
			params = append(params, par{n.Name, t.str(f.Type)})
		}
	}
	if len(params) != len(call.Args) {
		t.fail(call, "cannot inline %s: arity", fd.Name.Name)
	}
	// arguments in the caller's scope
	type bound struct {
		ptrID int
		term  string
		ity   string
	}
	args := make([]bound, len(params))
	for i, a := range call.Args {
		if params[i].typ == "*big.Int" {
			id, ok := a.(*ast.Ident)
			v, ok2 := varInfo{}, false
			if ok {
				v, ok2 = t.lookupVar(id.Name)
			}
			if !ok || !ok2 || v.sort != sPtr {
				t.fail(call, "cannot inline %s: *big.Int argument %s is not a variable", fd.Name.Name, t.str(a))
			}
			args[i] = bound{ptrID: v.id}
		} else {
			ity := goIty(params[i].typ)
			if ity == "" {
				t.fail(call, "cannot inline %s: parameter type %s", fd.Name.Name, params[i].typ)
			}
			term, ta := t.transI(a)
			if ta != "" && ta != ity {
				t.fail(call, "cannot inline %s: argument of type %s for a %s", fd.Name.Name, ta, ity)
			}
			args[i] = bound{ptrID: -1, term: term, ity: ity}
		}
	}
	savedPkg, savedScopes := t.pkg, t.scopes
	t.pkg, t.scopes = p, nil
	t.push()
	ids := make([]int, len(params))
	for i, pr := range params {
		if args[i].ptrID >= 0 {
			t.scopes[0][pr.name] = varInfo{id: args[i].ptrID, sort: sPtr}
		} else {
			ids[i] = t.declare(pr.name, sInt, args[i].ity).id
		}
	}
	body := t.intBody(fd, fd.Body.List, rty)
	t.pkg, t.scopes = savedPkg, savedScopes
	for i := len(params) - 1; i >= 0; i-- {
		if args[i].ptrID < 0 {
			body = fmt.Sprintf("(ILet %d (* %s.%s *) %s %s)", ids[i], fd.Name.Name, params[i].name, args[i].term, body)
		}
	}
	return body, rty
}

func (t *translator) intBody(fd *ast.FuncDecl, stmts []ast.Stmt, rty string) string {
	if len(stmts) == 0 {
		t.fail(fd, "cannot inline %s: body does not end in a return", fd.Name.Name)
	}
	ret := func(r *ast.ReturnStmt) string {
		if len(r.Results) != 1 {
			t.fail(r, "cannot inline %s: return arity", fd.Name.Name)
		}
		e, ty := t.transI(r.Results[0])
		if ty != "" && ty != rty {
			t.fail(r, "cannot inline %s: returns a %s, declared %s", fd.Name.Name, ty, rty)
		}
		return e
	}
	switch s := stmts[0].(type) {
	case *ast.ReturnStmt:
		return ret(s)
	case *ast.IfStmt:
		if s.Init != nil || s.Else != nil || len(s.Body.List) != 1 {
			t.fail(s, "cannot inline %s: unsupported if", fd.Name.Name)
		}
		r, ok := s.Body.List[0].(*ast.ReturnStmt)
		if !ok {
			t.fail(s, "cannot inline %s: if body is not a single return", fd.Name.Name)
		}
		c := t.transC(s.Cond)
		a := ret(r)
		return fmt.Sprintf("(IIf %s %s %s)", c, a, t.intBody(fd, stmts[1:], rty))
	case *ast.AssignStmt:
		if s.Tok == token.DEFINE && len(s.Lhs) == 1 && len(s.Rhs) == 1 {
			id, ok := s.Lhs[0].(*ast.Ident)
			if !ok {
				break
			}
			// words := x.Bits()
			if c, ok := s.Rhs[0].(*ast.CallExpr); ok && len(c.Args) == 0 {
				if sel, ok := c.Fun.(*ast.SelectorExpr); ok && sel.Sel.Name == "Bits" {
					if x, ok := sel.X.(*ast.Ident); ok {
						if v, ok := t.lookupVar(x.Name); ok && v.sort == sPtr {
							t.scopes[len(t.scopes)-1][id.Name] = varInfo{sort: sWords, of: v.id}
							return t.intBody(fd, stmts[1:], rty)
						}
					}
				}
			}
			e, ty := t.transI(s.Rhs[0])
			if ty == "" {
				ty = "I64"
			}
			v := t.declare(id.Name, sInt, ty)
			return fmt.Sprintf("(ILet %d (* %s *) %s %s)", v.id, id.Name, e, t.intBody(fd, stmts[1:], rty))
		}
	}
	t.fail(stmts[0], "cannot inline %s: unsupported statement %s", fd.Name.Name, t.str(stmts[0]))
	return ""
}

// inlineStackMethod translates a call st.m(args) of a method of Stack declared
// in stack.go: the receiver stays the EVM stack, a *intPool argument must be
// the interpreter's pool, int arguments are bound to fresh variables.
func (t *translator) inlineStackMethod(method string, call *ast.CallExpr) []string {
	fd := t.pkgs["vm"].funcs["Stack."+method]
	if fd == nil || fd.Type.Results != nil {
		t.fail(call, "unknown stack method %s", method)
	}
	recv := fd.Recv.List[0].Names[0].Name
	var pre []string
	type bind struct {
		name string
		v    varInfo
	}
	var binds []bind
	var newPools []string
	i := 0
	for _, f := range fd.Type.Params.List {
		for _, n := range f.Names {
			if i >= len(call.Args) {
				t.fail(call, "%s arity", method)
			}
			a := call.Args[i]
			i++
			switch typ := t.str(f.Type); typ {
			case "*intPool":
				if t.poolFn("x", t.str(a)+".x") == "\x00no-pool" {
					t.fail(call, "argument %s is not the interpreter's integer pool", t.str(a))
				}
				newPools = append(newPools, n.Name)
			default:
				ity := goIty(typ)
				if ity == "" {
					t.fail(call, "%s: parameter of type %s", method, typ)
				}
				term, ta := t.transI(a)
				if ta != "" && ta != ity {
					t.fail(call, "%s: argument of type %s for a %s", method, ta, ity)
				}
				v := varInfo{id: t.nextVar, sort: sInt, ity: ity}
				t.nextVar++
				t.varName[v.id] = n.Name
				pre = append(pre, fmt.Sprintf("(SDefI %d (* %s.%s *) %s)", v.id, method, n.Name, term))
				binds = append(binds, bind{n.Name, v})
			}
		}
	}
	if i != len(call.Args) {
		t.fail(call, "%s arity", method)
	}
	savedStack, savedPools, savedScopes, savedDefers := t.pStack, t.pools, t.scopes, t.defers
	t.pStack, t.pools, t.scopes = recv, append(append([]string{}, t.pools...), newPools...), nil
	t.push()
	for _, b := range binds {
		t.scopes[0][b.name] = b.v
	}
	out := pre
	for _, st := range fd.Body.List {
		if _, isRet := st.(*ast.ReturnStmt); isRet {
			t.fail(st, "return inside stack method %s", method)
		}
		out = append(out, t.stmt(st)...)
	}
	t.pStack, t.pools, t.scopes, t.defers = savedStack, savedPools, savedScopes, savedDefers
	return out
}

// ---- statements -------------------------------------------------------------

func seq(ss []string) string {
	if len(ss) == 0 {
		return "SSkip"
	}
	if len(ss) == 1 {
		return ss[0]
	}
	return "(SSeq " + ss[0] + "\n  " + seq(ss[1:]) + ")"
}

func (t *translator) block(b *ast.BlockStmt) string {
	t.push()
	defer t.popScope()
	var out []string
	for _, s := range b.List {
		out = append(out, t.stmt(s)...)
	}
	return seq(out)
}

func (t *translator) mentions(e ast.Expr, name string) bool {
	found := false
	ast.Inspect(e, func(n ast.Node) bool {
		if id, ok := n.(*ast.Ident); ok && id.Name == name {
			found = true
		}
		return true
	})
	return found
}

func (t *translator) stmt(s ast.Stmt) []string {
	switch s := s.(type) {
	case *ast.EmptyStmt:
		return nil
	case *ast.BlockStmt:
		return []string{t.block(s)}
	case *ast.AssignStmt:
		if s.Tok == token.DEFINE {
			if len(s.Lhs) != len(s.Rhs) {
				t.fail(s, "multi-value definition")
			}
			// the right-hand sides are evaluated first, left to right; they must not
			// mention the names being defined
			type def struct {
				name string
				ptr  bool
				term string
				ity  string
				hash bool
			}
			var defs []def
			for i, l := range s.Lhs {
				id, ok := l.(*ast.Ident)
				if !ok || id.Name == "_" {
					t.fail(s, "unsupported left-hand side %s", t.str(l))
				}
				for _, l2 := range s.Lhs {
					if l2id, ok := l2.(*ast.Ident); ok && t.mentions(s.Rhs[i], l2id.Name) {
						t.fail(s, "definition refers to a name it defines")
					}
				}
				if t.isHash(s.Rhs[i]) {
					defs = append(defs, def{id.Name, false, t.transH(s.Rhs[i]), "", true})
				} else if t.isPtr(s.Rhs[i]) {
					defs = append(defs, def{id.Name, true, t.transP(s.Rhs[i]), "", false})
				} else {
					term, ty := t.transI(s.Rhs[i])
					if ty == "" {
						ty = "I64"
					}
					defs = append(defs, def{id.Name, false, term, ty, false})
				}
			}
			var out []string
			for _, d := range defs {
				if d.hash {
					v := t.declare(d.name, sHash, "")
					out = append(out, fmt.Sprintf("(SDefH %d (* %s *) %s)", v.id, d.name, d.term))
				} else if d.ptr {
					v := t.declare(d.name, sPtr, "")
					out = append(out, fmt.Sprintf("(SDefP %d (* %s *) %s)", v.id, d.name, d.term))
				} else {
					v := t.declare(d.name, sInt, d.ity)
					out = append(out, fmt.Sprintf("(SDefI %d (* %s *) %s)", v.id, d.name, d.term))
				}
			}
			return out
		}
		// st.data[i], st.data[j] = st.data[j], st.data[i]
		if s.Tok == token.ASSIGN && len(s.Lhs) == 2 && len(s.Rhs) == 2 &&
			t.str(s.Lhs[0]) == t.str(s.Rhs[1]) && t.str(s.Lhs[1]) == t.str(s.Rhs[0]) {
			a, ok1 := s.Lhs[0].(*ast.IndexExpr)
			b, ok2 := s.Lhs[1].(*ast.IndexExpr)
			if ok1 && ok2 && t.str(a.X) == t.pStack+".data" && t.str(b.X) == t.pStack+".data" {
				i, ti := t.transI(a.Index)
				j, tj := t.transI(b.Index)
				if (ti != "I64" && ti != "") || (tj != "I64" && tj != "") {
					t.fail(s, "stack indexes of types %s %s", ti, tj)
				}
				return []string{fmt.Sprintf("(SStackSwap %s %s)", i, j)}
			}
		}
		// *pc += e
		if s.Tok == token.ADD_ASSIGN && len(s.Lhs) == 1 && len(s.Rhs) == 1 {
			if st, ok := s.Lhs[0].(*ast.StarExpr); ok && t.str(st.X) == t.pPC {
				e, ty := t.transI(s.Rhs[0])
				if ty != "U64" && ty != "" {
					t.fail(s, "*pc += a %s", ty)
				}
				return []string{fmt.Sprintf("(SDefI pcvar (* *pc *) (IAdd U64 (IVar pcvar) %s))", e)}
			}
		}
		// assignment to an integer variable
		if s.Tok == token.ASSIGN && len(s.Lhs) == 1 && len(s.Rhs) == 1 {
			if id, ok := s.Lhs[0].(*ast.Ident); ok {
				if v, ok := t.lookupVar(id.Name); ok && v.sort == sInt {
					e, ty := t.transI(s.Rhs[0])
					if ty != "" && ty != v.ity {
						t.fail(s, "assignment of a %s to a %s", ty, v.ity)
					}
					return []string{fmt.Sprintf("(SDefI %d (* %s = *) %s)", v.id, id.Name, e)}
				}
			}
		}
		if s.Tok == token.ASSIGN && len(s.Lhs) == 1 && len(s.Rhs) == 1 {
			if ix, ok := s.Lhs[0].(*ast.IndexExpr); ok && t.str(ix.X) == t.pMemory+".store" {
				o, to := t.transI(ix.Index)
				if to != "I64" && to != "" {
					t.fail(s, "memory index of type %s", to)
				}
				v, tv := t.transI(s.Rhs[0])
				if tv != "U8" {
					t.fail(s, "stored value of type %s", tv)
				}
				return []string{fmt.Sprintf("(SMemStore8 %s %s)", o, v)}
			}
		}
	case *ast.IncDecStmt:
		if id, ok := s.X.(*ast.Ident); ok {
			if v, ok := t.lookupVar(id.Name); ok && v.sort == sInt {
				op := "IAdd"
				if s.Tok == token.DEC {
					op = "ISub"
				}
				return []string{fmt.Sprintf("(SDefI %d (* %s%s *) (%s %s (IVar %d) (IConst (1))))", v.id, id.Name, s.Tok.String(), op, v.ity, v.id)}
			}
		}
	case *ast.ExprStmt:
		call, ok := s.X.(*ast.CallExpr)
		if !ok {
			break
		}
		fn := t.str(call.Fun)
		if sel, ok := call.Fun.(*ast.SelectorExpr); ok && t.str(sel.X) == t.pStack {
			switch sel.Sel.Name {
			case "push", "pop", "peek", "len":
			default:
				return t.inlineStackMethod(sel.Sel.Name, call)
			}
		}
		switch fn {
		case t.pStack + ".push":
			if len(call.Args) != 1 {
				t.fail(s, "push arity")
			}
			return []string{fmt.Sprintf("(SPush %s)", t.transP(call.Args[0]))}
		case t.poolFn("put", fn):
			if call.Ellipsis != token.NoPos {
				t.fail(s, "put(slice...) is not supported")
			}
			var as []string
			for _, a := range call.Args {
				as = append(as, t.transP(a))
			}
			return []string{fmt.Sprintf("(SPut %s)", vf.List(as))}
		case t.pInterp + ".evm.StateDB.SetState":
			if len(call.Args) != 3 {
				t.fail(s, "SetState arity")
			}
			t.contractAddr(call.Args[0])
			k := t.transH(call.Args[1])
			return []string{fmt.Sprintf("(SSetState %s %s)", k, t.transH(call.Args[2]))}
		case t.pMemory + ".Set32":
			if len(call.Args) != 2 {
				t.fail(s, "Set32 arity")
			}
			o, to := t.transI(call.Args[0])
			if to != "U64" {
				t.fail(s, "Set32 offset of type %s", to)
			}
			return []string{fmt.Sprintf("(SMemSet32 %s %s)", o, t.transP(call.Args[1]))}
		}
		if t.isPtr(call) {
			return []string{fmt.Sprintf("(SDo %s)", t.transP(call))}
		}
	case *ast.IfStmt:
		if s.Init != nil {
			t.fail(s, "if with an init statement")
		}
		c := t.transC(s.Cond)
		a := t.block(s.Body)
		b := "SSkip"
		switch el := s.Else.(type) {
		case nil:
		case *ast.BlockStmt:
			b = t.block(el)
		case *ast.IfStmt:
			b = seq(t.stmt(el))
		default:
			t.fail(s, "unsupported else")
		}
		return []string{fmt.Sprintf("(SIf %s\n  %s\n  %s)", c, a, b)}
	case *ast.SwitchStmt:
		if s.Init != nil || s.Tag != nil {
			t.fail(s, "only tagless switch statements are supported")
		}
		type arm struct{ c, body string }
		var arms []arm
		def := "SSkip"
		for _, cs := range s.Body.List {
			cc := cs.(*ast.CaseClause)
			t.push()
			var out []string
			for _, st := range cc.Body {
				if br, ok := st.(*ast.BranchStmt); ok {
					t.fail(br, "branch statement in switch")
				}
				out = append(out, t.stmt(st)...)
			}
			t.popScope()
			if cc.List == nil {
				def = seq(out)
				continue
			}
			c := t.transC(cc.List[0])
			for _, e := range cc.List[1:] {
				c = fmt.Sprintf("(COr %s %s)", c, t.transC(e))
			}
			arms = append(arms, arm{c, seq(out)})
		}
		res := def
		for i := len(arms) - 1; i >= 0; i-- {
			res = fmt.Sprintf("(SIf %s\n  %s\n  %s)", arms[i].c, arms[i].body, res)
		}
		return []string{res}
	case *ast.DeferStmt:
		if fn := t.str(s.Call.Fun); fn != t.poolFn("put", fn) || s.Call.Ellipsis != token.NoPos {
			t.fail(s, "only 'defer intPool.put(variables)' is supported")
		}
		var as []string
		for _, a := range s.Call.Args {
			if _, ok := a.(*ast.Ident); !ok {
				t.fail(s, "deferred put of a non-variable")
			}
			as = append(as, t.transP(a))
		}
		if len(t.scopes) != 1 {
			t.fail(s, "defer inside a nested block")
		}
		t.defers = append(t.defers, fmt.Sprintf("(SPut %s)", vf.List(as)))
		return nil
	case *ast.ReturnStmt:
		if len(s.Results) != 2 || t.str(s.Results[0]) != "nil" || t.str(s.Results[1]) != "nil" {
			t.fail(s, "only 'return nil, nil' is supported")
		}
		var out []string
		for i := len(t.defers) - 1; i >= 0; i-- {
			out = append(out, t.defers[i])
		}
		return append(out, "SReturn")
	}
	t.fail(s, "unsupported statement %s", t.str(s))
	return nil
}

func (t *translator) resetFunc(where string) {
	t.where = where
	t.pkg = t.pkgs["vm"]
	t.scopes = nil
	t.defers = nil
	t.nextVar = 0
}

// execBody translates the statements of an executionFunc (declared or literal).
func (t *translator) execBody(at ast.Node, typ *ast.FuncType, body *ast.BlockStmt) []string {
	var names []string
	for _, f := range typ.Params.List {
		for _, n := range f.Names {
			names = append(names, n.Name)
		}
	}
	if len(names) != 5 {
		t.fail(at, "not an executionFunc")
	}
	t.pPC, t.pInterp, t.pContract, t.pMemory, t.pStack = names[0], names[1], names[2], names[3], names[4]
	t.pools = []string{t.pInterp + ".intPool"}
	t.push()
	var out []string
	for _, s := range body.List {
		out = append(out, t.stmt(s)...)
	}
	if len(out) == 0 || out[len(out)-1] != "SReturn" {
		t.fail(at, "body does not end in 'return nil, nil'")
	}
	return out
}

func (t *translator) opBody(name string) string {
	fd := t.pkgs["vm"].funcs[name]
	if fd == nil {
		t.fail(nil, "function %s not found in core/vm/instructions.go", name)
	}
	t.resetFunc(name)
	return seq(t.execBody(fd, fd.Type, fd.Body))
}

// closure translates a function  func makeX(p1 T1, ...) executionFunc { pre...; return func(...) {...} }
// into a body parameterised by p1, ... (Coq variables a0, a1, ...).
func (t *translator) closure(name string) (nparams int, body string) {
	fd := t.pkgs["vm"].funcs[name]
	if fd == nil || fd.Recv != nil {
		t.fail(nil, "function %s not found in core/vm/instructions.go", name)
	}
	t.resetFunc(name)
	t.pPC, t.pInterp, t.pContract, t.pMemory, t.pStack = "\x00", "\x00", "\x00", "\x00", "\x00"
	t.push()
	var out []string
	for _, f := range fd.Type.Params.List {
		ity := goIty(t.str(f.Type))
		if ity == "" {
			t.fail(fd, "closure parameter of type %s", t.str(f.Type))
		}
		for _, n := range f.Names {
			v := t.declare(n.Name, sInt, ity)
			out = append(out, fmt.Sprintf("(SDefI %d (* %s *) (IConst a%d))", v.id, n.Name, nparams))
			nparams++
		}
	}
	for i, s := range fd.Body.List {
		if r, ok := s.(*ast.ReturnStmt); ok {
			if i != len(fd.Body.List)-1 || len(r.Results) != 1 {
				t.fail(r, "unsupported return")
			}
			fl, ok := r.Results[0].(*ast.FuncLit)
			if !ok {
				t.fail(r, "closure maker does not return a function literal")
			}
			outer := t.scopes
			inner := t.execBody(fl, fl.Type, fl.Body)
			_ = outer
			return nparams, seq(append(out, inner...))
		}
		out = append(out, t.stmt(s)...)
	}
	t.fail(fd, "closure maker does not end in a return")
	return 0, ""
}

// closureArgs reads, from the composite literals of jump_table.go, the literal
// arguments of the closure makers:  PUSH1: {execute: makePush(1, 1), ...}
func closureArgs(t *translator, file string) map[string][]string {
	af, err := parser.ParseFile(t.fset, file, nil, 0)
	if err != nil {
		fmt.Fprintln(os.Stderr, "c15 ops: cannot parse", file, err)
		os.Exit(3)
	}
	res := map[string][]string{}
	ast.Inspect(af, func(n ast.Node) bool {
		kv, ok := n.(*ast.KeyValueExpr)
		if !ok {
			return true
		}
		key, ok := kv.Key.(*ast.Ident)
		cl, ok2 := kv.Value.(*ast.CompositeLit)
		if !ok || !ok2 {
			return true
		}
		for _, el := range cl.Elts {
			f, ok := el.(*ast.KeyValueExpr)
			if !ok || t.str(f.Key) != "execute" {
				continue
			}
			call, ok := f.Value.(*ast.CallExpr)
			if !ok {
				continue
			}
			args := []string{t.str(call.Fun)}
			for _, a := range call.Args {
				k, ok := t.tryConstInt(a)
				if !ok {
					args = nil
					break
				}
				args = append(args, fmt.Sprint(k))
			}
			if args != nil {
				if old, dup := res[key.Name]; dup && strings.Join(old, ",") != strings.Join(args, ",") {
					fmt.Fprintln(os.Stderr, "c15 ops: opcode", key.Name, "has two different closure entries in jump_table.go")
					os.Exit(3)
				}
				res[key.Name] = args
			}
		}
		return true
	})
	return res
}

func (t *translator) fingerprint(p *pkgInfo, name string) string {
	fd := p.funcs[name]
	if fd == nil {
		return "missing"
	}
	cp := *fd
	cp.Doc = nil
	h := sha256.Sum256([]byte(t.str(&cp)))
	return fmt.Sprintf("%x", h[:8])
}

// repoRoot finds the source tree the binary was compiled from.
func repoRoot(flagRepo string) string {
	if flagRepo != "" {
		return flagRepo
	}
	fn := runtime.FuncForPC(reflect.ValueOf(vm.NewEVM).Pointer())
	if fn != nil {
		file, _ := fn.FileLine(fn.Entry())
		if i := strings.Index(file, "/core/vm/"); i >= 0 {
			return file[:i]
		}
	}
	if r := os.Getenv("VERIF_REPO"); r != "" {
		return r
	}
	return "/repo"
}

func newTranslator(root string) *translator {
	t := &translator{fset: token.NewFileSet(), pkgs: map[string]*pkgInfo{}, globIdx: map[string]int{}, varName: map[int]string{}}
	t.parsePkg("vm", filepath.Join(root, "core/vm/instructions.go"), filepath.Join(root, "core/vm/stack.go"))
	t.parsePkg("math", filepath.Join(root, "common/math/big.go"))
	t.parsePkg("common", filepath.Join(root, "common/big.go"))
	t.preregister()
	return t
}

func ops(out, flagRepo string) {
	root := repoRoot(flagRepo)
	t := newTranslator(root)
	var sb strings.Builder
	sb.WriteString("(* GENERATED by harness/cmd/c15 (ops) from the go/ast of core/vm/instructions.go,\n   common/math/big.go and common/big.go of the working tree. Do not edit. *)\n")
	sb.WriteString("From VF.C15 Require Import Model.\nLocal Open Scope N_scope.\nLocal Open Scope string_scope.\n\n")
	translated := map[string]bool{}
	for _, name := range translatedOps {
		body := t.opBody(name)
		sb.WriteString(fmt.Sprintf("Definition body_%s : stmt :=\n  %s.\n\n", name, body))
		translated[name] = true
	}
	closureParams := map[string]int{}
	for _, name := range translatedClosures {
		n, body := t.closure(name)
		var ps []string
		for i := 0; i < n; i++ {
			ps = append(ps, fmt.Sprintf("a%d", i))
		}
		sb.WriteString(fmt.Sprintf("Definition body_%s (%s : Z) : stmt :=\n  %s.\n\n", name, strings.Join(ps, " "), body))
		closureParams[name] = n
	}
	// the statement each opcode executes: by the execute function of the running
	// jump table; closures with the literal arguments written in jump_table.go
	cargs := closureArgs(t, filepath.Join(root, "core/vm/jump_table.go"))
	var defs []string
	for op, o := range jumpTable() {
		if !o.Valid {
			continue
		}
		switch {
		case translated[o.Execute]:
			defs = append(defs, fmt.Sprintf("(%d, (\"%s\", body_%s))", op, o.Execute, o.Execute))
		case closureParams[o.Execute] > 0:
			a := cargs[o.Name]
			if len(a) == 0 || a[0] != o.Execute || len(a)-1 != closureParams[o.Execute] {
				fmt.Fprintf(os.Stderr, "c15 ops: no literal arguments of %s found for opcode %s in jump_table.go\n", o.Execute, o.Name)
				os.Exit(3)
			}
			defs = append(defs, fmt.Sprintf("(%d, (\"%s\", body_%s %s))", op, o.Execute, o.Execute, strings.Join(a[1:], " ")))
		}
	}
	sb.WriteString("Definition op_bodies : list (N * (string * stmt)) :=\n  " + strings.Join(strings.Split(vf.List(defs), "; "), ";\n   ") + ".\n\n")
	sb.WriteString("(* package level *big.Int variables read by the bodies: cell i holds globals[i] *)\n")
	var gs []string
	for i, v := range t.globVal {
		gs = append(gs, fmt.Sprintf("(* %d %s *) (%s)%%Z", i, t.globNam[i], v.String()))
	}
	sb.WriteString("Definition globals : list Z :=\n  " + vf.List(gs) + ".\n\n")
	// fingerprints of the hand-modelled functions
	fp := newTranslator(root)
	parsed := map[string]bool{}
	var fps []string
	for _, f := range fingerprinted {
		key := "fp:" + f[0]
		if !parsed[key] {
			fp.parsePkg(key, filepath.Join(root, f[0]))
			parsed[key] = true
		}
		fps = append(fps, fmt.Sprintf("(\"%s:%s\", \"%s\")", f[0], f[1], fp.fingerprint(fp.pkgs[key], f[1])))
	}
	sort.Strings(fps)
	sb.WriteString("(* normalised-source fingerprints of the functions Model.v mirrors by hand *)\n")
	sb.WriteString("Definition fingerprints : list (string * string) :=\n  " + strings.Join(strings.Split(vf.List(fps), "; "), ";\n   ") + ".\n")
	vf.WriteIfChanged(out, sb.String())
}
