// The property oracle: an independent, purely functional statement of what
// the computational opcodes must do (EVM specification modulo 2^256), evaluated
// on the implementation's own observations.  It shares no code with core/vm and
// none with the Coq model.
package main

import (
	"fmt"
	"math/big"
)

var (
	oM256  = new(big.Int).Lsh(big.NewInt(1), 256)
	oM255  = new(big.Int).Lsh(big.NewInt(1), 255)
	oMask  = new(big.Int).Sub(oM256, big.NewInt(1))
	oZero  = big.NewInt(0)
	oOne   = big.NewInt(1)
)

func oMod(x *big.Int) *big.Int { // into [0, 2^256)
	r := new(big.Int).Mod(x, oM256)
	return r
}
func oSigned(x *big.Int) *big.Int {
	if x.Cmp(oM255) < 0 {
		return new(big.Int).Set(x)
	}
	return new(big.Int).Sub(x, oM256)
}
func oBool(b bool) *big.Int {
	if b {
		return big.NewInt(1)
	}
	return big.NewInt(0)
}

var opNames = map[byte]string{0x00: "STOP", 0x01: "ADD", 0x02: "MUL", 0x03: "SUB", 0x04: "DIV", 0x05: "SDIV", 0x06: "MOD", 0x07: "SMOD",
	0x08: "ADDMOD", 0x09: "MULMOD", 0x0a: "EXP", 0x0b: "SIGNEXTEND", 0x10: "LT", 0x11: "GT", 0x12: "SLT", 0x13: "SGT",
	0x14: "EQ", 0x15: "ISZERO", 0x16: "AND", 0x17: "OR", 0x18: "XOR", 0x19: "NOT", 0x1a: "BYTE", 0x1b: "SHL", 0x1c: "SHR", 0x1d: "SAR",
	0x50: "POP", 0x51: "MLOAD", 0x52: "MSTORE", 0x53: "MSTORE8", 0x54: "SLOAD", 0x55: "SSTORE", 0x59: "MSIZE"}

func opName(op byte) string {
	if n, ok := opNames[op]; ok {
		return n
	}
	switch {
	case op >= 0x60 && op <= 0x7f:
		return fmt.Sprintf("PUSH%d", op-0x5f)
	case op >= 0x80 && op <= 0x8f:
		return fmt.Sprintf("DUP%d", op-0x7f)
	case op >= 0x90 && op <= 0x9f:
		return fmt.Sprintf("SWAP%d", op-0x8f)
	}
	return fmt.Sprintf("0x%02x", op)
}

// arity, static gas and function of the pure computational opcodes
type compOp struct {
	arity int
	gas   uint64
	f     func(a []*big.Int) *big.Int
}

var compOps = map[byte]compOp{
	0x01: {2, 3, func(a []*big.Int) *big.Int { return oMod(new(big.Int).Add(a[0], a[1])) }},
	0x02: {2, 5, func(a []*big.Int) *big.Int { return oMod(new(big.Int).Mul(a[0], a[1])) }},
	0x03: {2, 3, func(a []*big.Int) *big.Int { return oMod(new(big.Int).Sub(a[0], a[1])) }},
	0x04: {2, 5, func(a []*big.Int) *big.Int {
		if a[1].Sign() == 0 {
			return big.NewInt(0)
		}
		return new(big.Int).Quo(a[0], a[1])
	}},
	0x05: {2, 5, func(a []*big.Int) *big.Int {
		if a[1].Sign() == 0 {
			return big.NewInt(0)
		}
		return oMod(new(big.Int).Quo(oSigned(a[0]), oSigned(a[1]))) // truncated
	}},
	0x06: {2, 5, func(a []*big.Int) *big.Int {
		if a[1].Sign() == 0 {
			return big.NewInt(0)
		}
		return new(big.Int).Rem(a[0], a[1])
	}},
	0x07: {2, 5, func(a []*big.Int) *big.Int {
		if a[1].Sign() == 0 {
			return big.NewInt(0)
		}
		return oMod(new(big.Int).Rem(oSigned(a[0]), oSigned(a[1]))) // sign of the dividend
	}},
	0x08: {3, 8, func(a []*big.Int) *big.Int {
		if a[2].Sign() == 0 {
			return big.NewInt(0)
		}
		return new(big.Int).Rem(new(big.Int).Add(a[0], a[1]), a[2])
	}},
	0x09: {3, 8, func(a []*big.Int) *big.Int {
		if a[2].Sign() == 0 {
			return big.NewInt(0)
		}
		return new(big.Int).Rem(new(big.Int).Mul(a[0], a[1]), a[2])
	}},
	0x0b: {2, 5, func(a []*big.Int) *big.Int {
		if a[0].Cmp(big.NewInt(31)) >= 0 {
			return new(big.Int).Set(a[1])
		}
		t := uint(a[0].Uint64()*8 + 7)
		lo := new(big.Int).Rem(a[1], new(big.Int).Lsh(oOne, t+1))
		if a[1].Bit(int(t)) == 1 {
			hi := new(big.Int).Sub(oM256, new(big.Int).Lsh(oOne, t+1))
			return lo.Add(lo, hi)
		}
		return lo
	}},
	0x10: {2, 3, func(a []*big.Int) *big.Int { return oBool(a[0].Cmp(a[1]) < 0) }},
	0x11: {2, 3, func(a []*big.Int) *big.Int { return oBool(a[0].Cmp(a[1]) > 0) }},
	0x12: {2, 3, func(a []*big.Int) *big.Int { return oBool(oSigned(a[0]).Cmp(oSigned(a[1])) < 0) }},
	0x13: {2, 3, func(a []*big.Int) *big.Int { return oBool(oSigned(a[0]).Cmp(oSigned(a[1])) > 0) }},
	0x14: {2, 3, func(a []*big.Int) *big.Int { return oBool(a[0].Cmp(a[1]) == 0) }},
	0x15: {1, 3, func(a []*big.Int) *big.Int { return oBool(a[0].Sign() == 0) }},
	0x16: {2, 3, func(a []*big.Int) *big.Int { return new(big.Int).And(a[0], a[1]) }},
	0x17: {2, 3, func(a []*big.Int) *big.Int { return new(big.Int).Or(a[0], a[1]) }},
	0x18: {2, 3, func(a []*big.Int) *big.Int { return new(big.Int).Xor(a[0], a[1]) }},
	0x19: {1, 3, func(a []*big.Int) *big.Int { return new(big.Int).Sub(oMask, a[0]) }},
	0x1a: {2, 3, func(a []*big.Int) *big.Int {
		if a[0].Cmp(big.NewInt(32)) >= 0 {
			return big.NewInt(0)
		}
		sh := uint(8 * (31 - a[0].Uint64()))
		return new(big.Int).And(new(big.Int).Rsh(a[1], sh), big.NewInt(255))
	}},
	0x1b: {2, 3, func(a []*big.Int) *big.Int {
		if a[0].Cmp(big.NewInt(256)) >= 0 {
			return big.NewInt(0)
		}
		return oMod(new(big.Int).Lsh(a[1], uint(a[0].Uint64())))
	}},
	0x1c: {2, 3, func(a []*big.Int) *big.Int {
		if a[0].Cmp(big.NewInt(256)) >= 0 {
			return big.NewInt(0)
		}
		return new(big.Int).Rsh(a[1], uint(a[0].Uint64()))
	}},
	0x1d: {2, 3, func(a []*big.Int) *big.Int {
		s := oSigned(a[1])
		if a[0].Cmp(big.NewInt(256)) >= 0 {
			if s.Sign() < 0 {
				return new(big.Int).Set(oMask)
			}
			return big.NewInt(0)
		}
		// floor division by 2^shift
		d := new(big.Int).Lsh(oOne, uint(a[0].Uint64()))
		q := new(big.Int).Div(s, d) // Euclidean = floor for positive divisor
		return oMod(q)
	}},
}

// unassigned opcodes of the Istanbul set as configured in this repository
func oInvalid(op byte) bool {
	switch {
	case op >= 0x0c && op <= 0x0f, op == 0x1e, op == 0x1f, op >= 0x21 && op <= 0x2f, op >= 0x48 && op <= 0x4f,
		op >= 0x5c && op <= 0x5f, op >= 0xa5 && op <= 0xef, op >= 0xf6 && op <= 0xf9, op == 0xfb, op == 0xfc, op == 0xfe:
		return true
	}
	return false
}

type specResult struct {
	OK        bool       // normal halt
	Supported bool       // false: met an opcode outside the computational groups
	GasLeft   uint64
	Stack     []*big.Int // top first, at the halting step
	Mem       []byte
	Tops      []*big.Int // top of stack before each executed step (nil = empty)
	Ops       []byte     // opcode executed at each step
	StorKeys  []*big.Int // storage keys in the order of their first write
	Stor      map[string]*big.Int
}

func cMem(words uint64) *big.Int {
	w := new(big.Int).SetUint64(words)
	sq := new(big.Int).Mul(w, w)
	sq.Quo(sq, big.NewInt(512))
	return sq.Add(sq, new(big.Int).Mul(w, big.NewInt(3)))
}

// specRun is the specification machine: stack of 256-bit words, byte memory,
// gas.  Any exceptional condition consumes all gas.
func specRun(code []byte, gas uint64) specResult {
	res := specResult{Supported: true, Stor: map[string]*big.Int{}}
	sget := func(k *big.Int) *big.Int {
		if v, ok := res.Stor[k.String()]; ok {
			return v
		}
		return big.NewInt(0)
	}
	var st []*big.Int // bottom first
	var mem []byte
	pc := 0
	exc := func() specResult { res.OK = false; res.GasLeft = 0; res.Stack = nil; res.Mem = nil; return res }
	for steps := 0; steps <= len(code)+1; steps++ {
		var op byte
		if pc < len(code) {
			op = code[pc]
		}
		top := func() *big.Int {
			if len(st) == 0 {
				return nil
			}
			return st[len(st)-1]
		}
		record := func() { res.Tops = append(res.Tops, top()); res.Ops = append(res.Ops, op) }
		// charge: checks stack bounds and gas in one go
		charge := func(pops, pushes int, cost *big.Int) bool {
			if len(st) < pops || len(st)-pops+pushes > 1024 {
				return false
			}
			if cost.Cmp(new(big.Int).SetUint64(gas)) > 0 {
				return false
			}
			gas -= cost.Uint64()
			return true
		}
		arg := func(i int) *big.Int { return st[len(st)-1-i] }
		expand := func(off *big.Int, n uint64) (uint64, *big.Int, bool) { // new words, cost
			cur := uint64(len(mem)) / 32
			end := new(big.Int).Add(off, new(big.Int).SetUint64(n))
			if end.BitLen() > 62 {
				return 0, nil, false
			}
			w := (end.Uint64() + 31) / 32
			if w < cur {
				w = cur
			}
			return w, new(big.Int).Sub(cMem(w), cMem(cur)), true
		}
		grow := func(w uint64) {
			for uint64(len(mem)) < w*32 {
				mem = append(mem, 0)
			}
		}
		if c, ok := compOps[op]; ok {
			if !charge(c.arity, 1, new(big.Int).SetUint64(c.gas)) {
				return exc()
			}
			record()
			args := make([]*big.Int, c.arity)
			for i := range args {
				args[i] = arg(i)
			}
			r := c.f(args)
			st = append(st[:len(st)-c.arity], r)
			pc++
			continue
		}
		switch {
		case op == 0x00:
			record()
			res.OK = true
			res.GasLeft = gas
			for i := len(st) - 1; i >= 0; i-- {
				res.Stack = append(res.Stack, st[i])
			}
			res.Mem = mem
			return res
		case op == 0x0a: // EXP
			if len(st) < 2 {
				return exc()
			}
			bl := uint64((arg(1).BitLen() + 7) / 8)
			if !charge(2, 1, new(big.Int).SetUint64(10+50*bl)) {
				return exc()
			}
			record()
			r := new(big.Int).Exp(arg(0), arg(1), oM256)
			st = append(st[:len(st)-2], r)
			pc++
		case op == 0x50:
			if !charge(1, 0, big.NewInt(2)) {
				return exc()
			}
			record()
			st = st[:len(st)-1]
			pc++
		case op == 0x51, op == 0x52, op == 0x53:
			need := 2
			n := uint64(32)
			if op == 0x51 {
				need = 1
			}
			if op == 0x53 {
				n = 1
			}
			if len(st) < need {
				return exc()
			}
			w, cost, ok := expand(arg(0), n)
			if !ok {
				return exc()
			}
			pushes := 0
			if op == 0x51 {
				pushes = 1
			}
			if !charge(need, pushes, cost.Add(cost, big.NewInt(3))) {
				return exc()
			}
			grow(w)
			record()
			off := arg(0).Uint64()
			switch op {
			case 0x51:
				v := new(big.Int).SetBytes(mem[off : off+32])
				st = append(st[:len(st)-1], v)
			case 0x52:
				b := arg(1).Bytes()
				for i := uint64(0); i < 32; i++ {
					mem[off+i] = 0
				}
				copy(mem[off+32-uint64(len(b)):off+32], b)
				st = st[:len(st)-2]
			case 0x53:
				mem[off] = byte(new(big.Int).And(arg(1), big.NewInt(255)).Uint64())
				st = st[:len(st)-2]
			}
			pc++
		case op == 0x54: // SLOAD (Istanbul: 800)
			if !charge(1, 1, big.NewInt(800)) {
				return exc()
			}
			record()
			st[len(st)-1] = sget(arg(0))
			pc++
		case op == 0x55: // SSTORE, EIP-2200 with an empty committed storage, refunds not observable here
			if len(st) < 2 || gas <= 2300 {
				return exc()
			}
			cur, val := sget(arg(0)), arg(1)
			cost := int64(800) // dirty slot, or no-op
			if cur.Cmp(val) != 0 && cur.Sign() == 0 {
				cost = 20000 // fresh slot
			}
			if !charge(2, 0, big.NewInt(cost)) {
				return exc()
			}
			record()
			k := arg(0)
			if _, ok := res.Stor[k.String()]; !ok {
				res.StorKeys = append(res.StorKeys, k)
			}
			res.Stor[k.String()] = val
			st = st[:len(st)-2]
			pc++
		case op == 0x59:
			if !charge(0, 1, big.NewInt(2)) {
				return exc()
			}
			record()
			st = append(st, new(big.Int).SetUint64(uint64(len(mem))))
			pc++
		case op >= 0x60 && op <= 0x7f:
			n := int(op - 0x5f)
			if !charge(0, 1, big.NewInt(3)) {
				return exc()
			}
			record()
			buf := make([]byte, n)
			for i := 0; i < n; i++ {
				if pc+1+i < len(code) {
					buf[i] = code[pc+1+i]
				}
			}
			st = append(st, new(big.Int).SetBytes(buf))
			pc += n + 1
		case op >= 0x80 && op <= 0x8f:
			n := int(op - 0x7f)
			if !charge(n, n+1, big.NewInt(3)) {
				return exc()
			}
			record()
			st = append(st, arg(n-1))
			pc++
		case op >= 0x90 && op <= 0x9f:
			n := int(op - 0x8f)
			if !charge(n+1, n+1, big.NewInt(3)) {
				return exc()
			}
			record()
			i, j := len(st)-1, len(st)-1-n
			st[i], st[j] = st[j], st[i]
			pc++
		case oInvalid(op):
			return exc()
		default:
			res.Supported = false
			return res
		}
	}
	return exc()
}
