package main

import (
	"fmt"
	"math/big"
)

func gen(seed uint64, n int, out, corpus string) {}

func replay(file string)                         {}
func probe() {
	// PUSH1 3 PUSH1 4 ADD PUSH1 0 MSTORE PUSH1 32 PUSH1 0 RETURN
	code := []byte{0x60, 3, 0x60, 4, 0x01, 0x60, 0, 0x52, 0x60, 32, 0x60, 0, 0xf3}
	o := runImpl(code, 100000, []*big.Int{big.NewInt(-42), big.NewInt(77)})
	fmt.Printf("%+v\n", o)
	o = runImpl([]byte{0x01}, 100000, nil)
	fmt.Printf("%+v\n", o)
	o = runImpl([]byte{0x60, 1, 0x60, 0, 0x04, 0x60, 5}, 100000, nil)
	fmt.Printf("%+v\n", o)
}
