// memgas: reproduction helper for fixes/C15_memory_gas_uint64_wrap.md.  Compares
// memoryGasCost of the working tree with C_mem of the specification for
// expansions of an empty memory to large sizes (nothing is allocated).
package main

import (
	"fmt"
	"math/big"
	"os"

	"github.com/youchainhq/go-youchain/core/vm"
)

func memgas() {
	bad := 0
	for _, size := range []uint64{1 << 20, 1 << 30, (1 << 37) - 32, 1 << 37, 1 << 38, (1 << 38) + 32, 1 << 39, (1 << 40) - 32} {
		fee, _, err := vm.VerifC15MemoryGasCost(0, 0, size)
		words := (size + 31) / 32
		want := cMem(words)
		got := new(big.Int).SetUint64(fee)
		status := "ok"
		if err != nil {
			status = "error: " + err.Error()
		} else if got.Cmp(want) != 0 {
			status = "MISMATCH"
			bad++
		}
		fmt.Printf("newMemSize=%d words=%d memoryGasCost=%d C_mem=%s %s\n", size, words, fee, want.String(), status)
	}
	if bad > 0 {
		fmt.Println("ORACLE VIOLATION: memoryGasCost charges less than C_mem for", bad, "of the sizes above (uint64 wrap of words*words)")
		os.Exit(1)
	}
}
