// Case generation, the Coq case file, the oracle comparison and replay.
package main

import (
	"encoding/hex"
	"encoding/json"
	"fmt"
	"io/ioutil"
	"math/big"
	"os"
	"path/filepath"
	"sort"
	"strings"

	"verif/harness/vf"
)

// Input is one program with its environment (also the replay / corpus format).
type Input struct {
	Code    string   `json:"code"` // hex
	Gas     uint64   `json:"gas"`
	Pool    []string `json:"pool"` // decimal values of the seeded pool cells, bottom first
	Class   string   `json:"class,omitempty"`
	Comment string   `json:"comment,omitempty"`
}

func (in Input) code() []byte {
	b, err := hex.DecodeString(in.Code)
	if err != nil {
		return nil
	}
	return b
}
func (in Input) pool() []*big.Int {
	var out []*big.Int
	for _, s := range in.Pool {
		v, ok := new(big.Int).SetString(s, 10)
		if !ok {
			v = new(big.Int)
		}
		out = append(out, v)
	}
	return out
}

type Hit struct {
	What     string `json:"what"`
	Detail   string `json:"detail"`
	Input    Input  `json:"input"`
	Disasm   string `json:"disasm"`
	Observed Obs    `json:"observed"`
}

func pow2(n uint) *big.Int { return new(big.Int).Lsh(big.NewInt(1), n) }

func boundaryValues() []*big.Int {
	var out []*big.Int
	for _, k := range []int64{0, 1, 2, 3, 7, 8, 15, 16, 30, 31, 32, 33, 63, 64, 65, 127, 128, 255, 256, 257, 1023, 65535} {
		out = append(out, big.NewInt(k))
	}
	for _, n := range []uint{63, 64, 128, 248, 254, 255, 256} {
		p := pow2(n)
		out = append(out, new(big.Int).Sub(p, big.NewInt(1)))
		if n < 256 {
			out = append(out, p, new(big.Int).Add(p, big.NewInt(1)))
		}
	}
	out = append(out, new(big.Int).Sub(pow2(256), big.NewInt(2)))
	// -1 .. -3 and the most negative numbers in two's complement
	out = append(out, new(big.Int).Sub(pow2(256), big.NewInt(3)), new(big.Int).Add(pow2(255), big.NewInt(2)))
	return out
}

var boundary = boundaryValues()

func randWord(r *vf.Rng) *big.Int {
	switch r.Intn(10) {
	case 0, 1, 2, 3:
		return new(big.Int).Set(boundary[r.Intn(len(boundary))])
	case 4:
		return big.NewInt(int64(r.Intn(300)))
	case 5: // random of random byte length
		return new(big.Int).SetBytes(r.Bytes(1 + r.Intn(32)))
	case 6: // near a power of two
		p := pow2(uint(r.Intn(257)))
		d := big.NewInt(int64(r.Intn(5) - 2))
		v := p.Add(p, d)
		if v.Sign() < 0 {
			v.SetInt64(0)
		}
		return v.And(v, oMask)
	case 7: // sparse bit pattern
		v := new(big.Int)
		for i := 0; i < 1+r.Intn(6); i++ {
			v.SetBit(v, r.Intn(256), 1)
		}
		return v
	case 8: // negative small number
		return new(big.Int).Sub(pow2(256), big.NewInt(int64(1+r.Intn(300))))
	default:
		return new(big.Int).SetBytes(r.Bytes(32))
	}
}

// pushOf emits the shortest PUSH for v (or a wider one with leading zeros).
func pushOf(r *vf.Rng, v *big.Int) []byte {
	b := v.Bytes()
	if len(b) == 0 {
		b = []byte{0}
	}
	if r != nil && r.Chance(10) && len(b) < 32 {
		pad := 1 + r.Intn(32-len(b))
		b = append(make([]byte, pad), b...)
	}
	return append([]byte{byte(0x5f + len(b))}, b...)
}

var compOpcodes = []byte{0x01, 0x02, 0x03, 0x04, 0x05, 0x06, 0x07, 0x08, 0x09, 0x0a, 0x0b,
	0x10, 0x11, 0x12, 0x13, 0x14, 0x15, 0x16, 0x17, 0x18, 0x19, 0x1a, 0x1b, 0x1c, 0x1d}

func arityOf(op byte) int {
	if c, ok := compOps[op]; ok {
		return c.arity
	}
	if op == 0x0a {
		return 2
	}
	return 0
}

// operands with a bias to what is interesting for the opcode
func operandFor(r *vf.Rng, op byte, idx int) *big.Int {
	small := func() *big.Int {
		xs := []int64{0, 1, 2, 7, 8, 15, 16, 29, 30, 31, 32, 33, 63, 64, 127, 128, 254, 255, 256, 257, 300, 1 << 20}
		return big.NewInt(xs[r.Intn(len(xs))])
	}
	signedEdge := func() *big.Int {
		xs := []*big.Int{pow2(255), new(big.Int).Sub(pow2(255), big.NewInt(1)), new(big.Int).Add(pow2(255), big.NewInt(1)),
			new(big.Int).Sub(pow2(256), big.NewInt(1)), big.NewInt(0), big.NewInt(1), new(big.Int).Sub(pow2(256), big.NewInt(2))}
		return new(big.Int).Set(xs[r.Intn(len(xs))])
	}
	signedOp := op == 0x05 || op == 0x07 || op == 0x12 || op == 0x13 || (op == 0x1d && idx == 1) || (op == 0x0b && idx == 1)
	switch {
	case signedOp && r.Chance(35):
		return signedEdge()
	case (op == 0x1b || op == 0x1c || op == 0x1d || op == 0x0b || op == 0x1a) && idx == 0 && r.Chance(70):
		return small()
	case op == 0x0a && idx == 1 && r.Chance(60):
		return small()
	case op == 0x0a && idx == 0 && r.Chance(40):
		return small()
	case (op == 0x08 || op == 0x09) && idx == 2 && r.Chance(20):
		return big.NewInt(int64(r.Intn(3)))
	}
	return randWord(r)
}

func randPool(r *vf.Rng) []string {
	n := 0
	switch r.Intn(10) {
	case 0, 1, 2, 3:
		n = 0
	case 4, 5, 6, 7:
		n = 1 + r.Intn(6)
	case 8:
		n = 250 + r.Intn(12) // around poolLimit
	default:
		n = r.Intn(40)
	}
	junk := []string{"-42", "0", "1", "-1", "77", "-42", "255", "-9", "65536", "-300", "3", "1152921504606846975", "-1152921504606846975"}
	out := make([]string, n)
	for i := range out {
		if r.Chance(94) {
			out[i] = junk[r.Intn(len(junk))]
		} else {
			out[i] = bigSeeds[r.Intn(len(bigSeeds))].String()
		}
	}
	return out
}

// single opcode applied to an operand tuple, with sentinels below
func genSingle(r *vf.Rng, op byte) Input {
	var code []byte
	ns := r.Intn(4)
	for i := 0; i < ns; i++ {
		code = append(code, pushOf(r, randWord(r))...)
	}
	ar := arityOf(op)
	ops := make([]*big.Int, ar)
	for i := range ops {
		ops[i] = operandFor(r, op, i)
	}
	if ar == 2 && r.Chance(8) { // equal operands
		ops[1] = new(big.Int).Set(ops[0])
	}
	for i := ar - 1; i >= 0; i-- {
		code = append(code, pushOf(r, ops[i])...)
	}
	code = append(code, op)
	if r.Chance(50) {
		code = append(code, 0x00)
	}
	return Input{Code: hex.EncodeToString(code), Gas: 100000, Pool: randPool(r), Class: "single"}
}

// random straight-line program that keeps and reuses results
func genProgram(r *vf.Rng, maxLen int) Input {
	var code []byte
	depth := 0
	n := 3 + r.Heavy(maxLen)
	memUsed := false
	for i := 0; i < n; i++ {
		k := r.Intn(100)
		switch {
		case depth < 2 || k < 22:
			code = append(code, pushOf(r, randWord(r))...)
			depth++
		case k < 62:
			op := compOpcodes[r.Intn(len(compOpcodes))]
			ar := arityOf(op)
			if depth < ar {
				code = append(code, pushOf(r, randWord(r))...)
				depth++
				continue
			}
			if (op == 0x1b || op == 0x1c || op == 0x1d || op == 0x0b || op == 0x1a) && r.Chance(60) {
				// make the first operand small
				code = append(code, pushOf(r, operandFor(r, op, 0))...)
				depth++
			}
			code = append(code, op)
			depth -= ar - 1
		case k < 76: // DUP
			m := 1 + r.Intn(16)
			if m > depth {
				m = 1 + r.Intn(depth)
			}
			code = append(code, byte(0x7f+m))
			depth++
		case k < 86: // SWAP
			m := 1 + r.Intn(16)
			if m >= depth {
				m = 1 + r.Intn(depth-1)
			}
			code = append(code, byte(0x8f+m))
		case k < 90:
			code = append(code, 0x50)
			depth--
		case k < 94: // MSTORE / MSTORE8 at a small offset
			off := big.NewInt(int64(r.Intn(200)))
			code = append(code, pushOf(r, off)...)
			if r.Chance(75) {
				code = append(code, 0x52)
			} else {
				code = append(code, 0x53)
			}
			depth--
			memUsed = true
		case k < 98: // MLOAD
			off := big.NewInt(int64(r.Intn(200)))
			code = append(code, pushOf(r, off)...)
			code = append(code, 0x51)
			depth++
		case k < 99:
			code = append(code, 0x59)
			depth++
		default: // storage: write the top under a small key, or read a small key
			key := big.NewInt(int64(r.Intn(3)))
			code = append(code, pushOf(r, key)...)
			if r.Bool() {
				code = append(code, 0x55)
				depth--
			} else {
				code = append(code, 0x54)
				depth++
			}
		}
		if depth > 1000 {
			break
		}
	}
	_ = memUsed
	if r.Chance(50) {
		code = append(code, 0x00)
	}
	return Input{Code: hex.EncodeToString(code), Gas: 10000000, Pool: randPool(r), Class: "program"}
}

// write then read back
func genMemory(r *vf.Rng) Input {
	var code []byte
	k := 1 + r.Intn(5)
	for i := 0; i < k; i++ {
		off := int64(r.Intn(300))
		if r.Chance(15) {
			off = int64(r.Intn(5000))
		}
		v := randWord(r)
		code = append(code, pushOf(r, v)...)
		code = append(code, pushOf(r, big.NewInt(off))...)
		if r.Chance(70) {
			code = append(code, 0x52)
		} else {
			code = append(code, 0x53)
		}
		if r.Chance(70) {
			d := int64(0)
			if r.Chance(30) {
				d = int64(r.Intn(40)) - 20
			}
			if off+d < 0 {
				d = 0
			}
			code = append(code, pushOf(r, big.NewInt(off+d))...)
			code = append(code, 0x51)
		}
		if r.Chance(30) {
			code = append(code, 0x59)
		}
	}
	gas := uint64(100000)
	if r.Chance(15) {
		gas = uint64(1 + r.Intn(400))
	}
	return Input{Code: hex.EncodeToString(code), Gas: gas, Pool: randPool(r), Class: "memory"}
}

// SSTORE / SLOAD sequences: same slot, different slots, overwrites, zero values,
// interleaved with arithmetic on what was read back
func genStorage(r *vf.Rng) Input {
	var code []byte
	nk := 1 + r.Intn(4)
	keys := make([]*big.Int, nk)
	for i := range keys {
		switch r.Intn(4) {
		case 0:
			keys[i] = big.NewInt(int64(r.Intn(4)))
		case 1:
			keys[i] = randWord(r)
		case 2:
			keys[i] = new(big.Int).Sub(pow2(256), big.NewInt(int64(1+r.Intn(3))))
		default:
			keys[i] = new(big.Int).SetBytes(r.Bytes(32))
		}
	}
	depth := 0
	n := 2 + r.Intn(14)
	for i := 0; i < n; i++ {
		k := keys[r.Intn(nk)]
		switch x := r.Intn(100); {
		case x < 45: // store
			v := randWord(r)
			if r.Chance(25) {
				v = big.NewInt(0)
			}
			if depth > 0 && r.Chance(30) { // store something computed
				code = append(code, 0x80) // DUP1
			} else {
				code = append(code, pushOf(r, v)...)
			}
			code = append(code, pushOf(r, k)...)
			code = append(code, 0x55)
		case x < 85: // load
			code = append(code, pushOf(r, k)...)
			code = append(code, 0x54)
			depth++
		case x < 93 && depth >= 2:
			code = append(code, compOpcodes[r.Intn(len(compOpcodes))])
			if arityOf(code[len(code)-1]) == 3 && depth < 3 {
				code[len(code)-1] = 0x01
			}
			depth -= arityOf(code[len(code)-1]) - 1
		default: // load a never written slot
			code = append(code, pushOf(r, randWord(r))...)
			code = append(code, 0x54)
			depth++
		}
	}
	gas := uint64(1000000)
	switch r.Intn(12) {
	case 0:
		gas = uint64(2200 + r.Intn(200)) // around the 2300 sentry
	case 1:
		gas = uint64(20000 + r.Intn(3000))
	case 2:
		gas = uint64(1 + r.Intn(60000))
	}
	return Input{Code: hex.EncodeToString(code), Gas: gas, Pool: randPool(r), Class: "storage"}
}

// malformed / exceptional streams
func genMalformed(r *vf.Rng) Input {
	var code []byte
	gas := uint64(100000)
	class := "malformed"
	switch r.Intn(8) {
	case 0: // stack underflow
		for i := 0; i < r.Intn(3); i++ {
			code = append(code, pushOf(r, randWord(r))...)
		}
		ops := []byte{0x08, 0x09, 0x01, 0x0a, 0x50, 0x51, 0x52, 0x53, 0x54, 0x55, 0x80, 0x8f, 0x90, 0x9f, 0x15, 0x19}
		code = append(code, ops[r.Intn(len(ops))])
		class = "underflow"
	case 1: // invalid opcode after some work
		in := genProgram(r, 20)
		code = in.code()
		inv := []byte{0x0c, 0x0f, 0x1e, 0x1f, 0x21, 0x2f, 0x48, 0x4f, 0x5c, 0x5f, 0xa5, 0xef, 0xf6, 0xfb, 0xfc, 0xfe}
		code = append(code, inv[r.Intn(len(inv))])
		code = append(code, pushOf(r, randWord(r))...)
		class = "invalid"
	case 2: // out of gas somewhere
		in := genProgram(r, 40)
		code = in.code()
		gas = uint64(1 + r.Intn(120)) // 0 would mean "unlimited" to runtime.Call
		class = "oog"
	case 3: // truncated push at the end of the code
		in := genProgram(r, 10)
		code = in.code()
		n := 2 + r.Intn(31)
		code = append(code, byte(0x5f+n))
		code = append(code, r.Bytes(r.Intn(n))...)
		class = "truncated_push"
	case 4: // memory at a huge offset
		offs := []*big.Int{pow2(64), new(big.Int).Sub(pow2(64), big.NewInt(1)), new(big.Int).Sub(pow2(64), big.NewInt(32)), new(big.Int).Sub(pow2(64), big.NewInt(33)),
			pow2(40), new(big.Int).Sub(pow2(40), big.NewInt(32)), new(big.Int).Sub(pow2(40), big.NewInt(64)), pow2(255), oMask, pow2(32), big.NewInt(1 << 22)}
		code = append(code, pushOf(r, randWord(r))...)
		code = append(code, pushOf(r, offs[r.Intn(len(offs))])...)
		code = append(code, []byte{0x51, 0x52, 0x53}[r.Intn(3)])
		class = "huge_offset"
	case 5: // stack limit (long: 1023 pushes, kept rare)
		if r.Chance(8) {
			for i := 0; i < 1023; i++ {
				code = append(code, 0x60, byte(i))
			}
			tail := [][]byte{{0x60, 1, 0x60, 2}, {0x80, 0x80}, {0x60, 1, 0x01, 0x80, 0x59}, {0x60, 9, 0x90, 0x59}}
			code = append(code, tail[r.Intn(len(tail))]...)
			class = "stack_limit"
		} else {
			in := genProgram(r, 30)
			code = in.code()
			class = "program"
		}
	case 6: // exact gas boundary: run once with plenty, then with used, used-1
		in := genProgram(r, 25)
		code = in.code()
		o := runImpl(code, 10000000, nil)
		used := 10000000 - o.GasLeft
		if o.Status == StOK && used > 0 {
			gas = used - uint64(r.Intn(2))
			if gas == 0 {
				gas = 1
			}
			class = "gas_boundary"
		}
	default: // random bytes restricted to the modelled alphabet
		n := 1 + r.Intn(40)
		for i := 0; i < n; i++ {
			b := byte(r.U64())
			sr := specRun([]byte{b}, 1000)
			if !sr.Supported {
				b = compOpcodes[r.Intn(len(compOpcodes))]
			}
			code = append(code, b)
		}
		class = "random_bytes"
	}
	return Input{Code: hex.EncodeToString(code), Gas: gas, Pool: randPool(r), Class: class}
}

func disasm(code []byte) string {
	var sb strings.Builder
	for pc := 0; pc < len(code); pc++ {
		op := code[pc]
		sb.WriteString(opName(op))
		if op >= 0x60 && op <= 0x7f {
			n := int(op - 0x5f)
			end := pc + 1 + n
			if end > len(code) {
				end = len(code)
			}
			sb.WriteString(" 0x" + hex.EncodeToString(code[pc+1:end]))
			pc += n
		}
		sb.WriteString("; ")
	}
	return sb.String()
}

// compare evaluates the oracle on one observation; "" = property holds.
func compare(in Input, o Obs) (what, detail string) {
	code := in.code()
	if o.panicked {
		return "run-time panic in the interpreter", o.Err
	}
	sr := specRun(code, in.Gas)
	if !sr.Supported {
		return "", ""
	}
	// step by step: the value on top of the stack before each executed step
	n := len(o.Tops)
	if len(sr.Tops) < n {
		n = len(sr.Tops)
	}
	for i := 0; i < n; i++ {
		exp := "-1"
		if sr.Tops[i] != nil {
			exp = sr.Tops[i].String()
		}
		if exp != o.Tops[i] {
			cul := "?"
			if i > 0 {
				cul = opName(sr.Ops[i-1])
			}
			return "wrong result of " + cul, fmt.Sprintf("step %d: top of stack is %s, specification says %s", i, o.Tops[i], exp)
		}
	}
	if o.StackAliased {
		return "two stack slots share one big integer", ""
	}
	for i, a := range o.PoolAlias {
		if a != i {
			return "a big integer was returned to the pool twice or is still on the stack", fmt.Sprintf("pool cell %d is the same pointer as cell %d", i, a)
		}
	}
	if sr.OK != (o.Status == StOK) {
		return "halting status differs from the specification", fmt.Sprintf("implementation: %s (%s); specification ok=%v", statusNames[o.Status], o.Err, sr.OK)
	}
	if len(sr.Tops) != len(o.Tops) && sr.OK {
		return "number of executed steps differs", fmt.Sprintf("%d vs %d", len(o.Tops), len(sr.Tops))
	}
	if o.GasLeft != sr.GasLeft {
		return "wrong gas charged", fmt.Sprintf("gas left %d, specification says %d", o.GasLeft, sr.GasLeft)
	}
	if sr.OK {
		if len(sr.Stack) != len(o.Stack) {
			return "final stack differs", fmt.Sprintf("height %d vs %d", len(o.Stack), len(sr.Stack))
		}
		for i := range sr.Stack {
			if sr.Stack[i].String() != o.Stack[i] {
				return "another stack item was disturbed", fmt.Sprintf("item %d from the top is %s, specification says %s", i, o.Stack[i], sr.Stack[i].String())
			}
		}
		if string(sr.Mem) != string(o.Mem) {
			return "memory differs from the specification", fmt.Sprintf("len %d vs %d", len(o.Mem), len(sr.Mem))
		}
		for i, k := range sr.StorKeys {
			want := sr.Stor[k.String()].String()
			if i >= len(o.StorVals) || o.StorVals[i] != want {
				got := "?"
				if i < len(o.StorVals) {
					got = o.StorVals[i]
				}
				return "storage does not hold what was written", fmt.Sprintf("slot %s holds %s, specification says %s", k.String(), got, want)
			}
		}
	}
	return "", ""
}

func zlist(xs []string) string {
	ys := make([]string, len(xs))
	for i, x := range xs {
		if strings.HasPrefix(x, "-") {
			ys[i] = "(" + x + ")"
		} else {
			ys[i] = x
		}
	}
	return "[" + strings.Join(ys, ";") + "]%Z"
}

// digests shared with Model.v (dmix, dlist, run_digest)
var dMask = new(big.Int).Sub(pow2(124), big.NewInt(1))

func dstep(acc, limb *big.Int, k int64) *big.Int {
	a := new(big.Int).Mul(acc, big.NewInt(33))
	a.Add(a, new(big.Int).And(limb, dMask)) // two's complement semantics, as Z.land
	a.Add(a, big.NewInt(k))
	return a.And(a, dMask)
}
func dmix(acc, v *big.Int) *big.Int {
	if v.Sign() >= 0 && v.Cmp(dMask) <= 0 {
		a := new(big.Int).Mul(acc, big.NewInt(33))
		a.Add(a, v)
		a.Add(a, big.NewInt(1))
		return a.And(a, dMask)
	}
	v1 := new(big.Int).Rsh(v, 124) // floor, as Z.shiftr
	v2 := new(big.Int).Rsh(v1, 124)
	v3 := new(big.Int).Rsh(v2, 124)
	return dstep(dstep(dstep(dstep(acc, v, 1), v1, 2), v2, 3), v3, 4)
}
func dbytes(acc *big.Int, b []byte) *big.Int {
	acc = dmix(acc, big.NewInt(int64(len(b))))
	for i := 0; i < len(b); i += 15 {
		j := i + 15
		if j > len(b) {
			j = len(b)
		}
		acc = dmix(acc, new(big.Int).SetBytes(b[i:j]))
	}
	return acc
}
func dlist(acc *big.Int, l []*big.Int) *big.Int {
	acc = dmix(acc, big.NewInt(int64(len(l))))
	for _, v := range l {
		acc = dmix(acc, v)
	}
	return acc
}
func bigs(xs []string) []*big.Int {
	out := make([]*big.Int, len(xs))
	for i, x := range xs {
		out[i], _ = new(big.Int).SetString(x, 10)
	}
	return out
}
func runDigest(o Obs) *big.Int {
	d := dlist(big.NewInt(7), bigs(o.Tops))
	if o.Status == StOK {
		d = dlist(d, bigs(o.Stack))
		d = dbytes(d, o.Mem)
		d = dlist(d, bigs(o.StorKeys))
		d = dlist(d, bigs(o.StorVals))
	}
	return d
}
func poolDigest(o Obs) *big.Int {
	d := dlist(big.NewInt(11), bigs(o.PoolOut))
	a := make([]*big.Int, len(o.PoolAlias))
	for i, x := range o.PoolAlias {
		a[i] = big.NewInt(int64(x))
	}
	return dlist(d, a)
}

// packCode: 7 bytes per 63-bit primitive integer, big-endian, zero padded
func packCode(code []byte) string {
	var xs []string
	for i := 0; i < len(code); i += 7 {
		var v uint64
		for j := 0; j < 7; j++ {
			v <<= 8
			if i+j < len(code) {
				v |= uint64(code[i+j])
			}
		}
		xs = append(xs, fmt.Sprint(v))
	}
	return "[" + strings.Join(xs, ";") + "]"
}

// big pool seeds are referred to by index (see seed_of in Model.v)
var bigSeeds = []*big.Int{pow2(300), new(big.Int).Neg(pow2(255)), pow2(256), new(big.Int).Neg(pow2(300)),
	new(big.Int).Add(pow2(256), big.NewInt(1)), pow2(255), new(big.Int).Sub(pow2(256), big.NewInt(1)), pow2(64)}

func seedCoq(s string) string {
	v, _ := new(big.Int).SetString(s, 10)
	for i, b := range bigSeeds {
		if b.Cmp(v) == 0 {
			return fmt.Sprint(i)
		}
	}
	lim := pow2(60)
	if v.CmpAbs(lim) >= 0 {
		panic("pool seed neither small nor in bigSeeds: " + s)
	}
	return new(big.Int).Add(v, pow2(61)).String()
}

func split62(d *big.Int) (string, string) {
	m := new(big.Int).Sub(pow2(62), big.NewInt(1))
	lo := new(big.Int).And(d, m)
	hi := new(big.Int).Rsh(d, 62)
	return lo.String(), hi.String()
}

func caseCoq(in Input, o Obs) string {
	code := in.code()
	seeds := make([]string, len(in.Pool))
	for i, s := range in.Pool {
		seeds[i] = seedCoq(s)
	}
	rl, rh := split62(runDigest(o))
	pl, ph := split62(poolDigest(o))
	return fmt.Sprintf("mkCaseP bigs %s %d %d [%s] %d %d %s %s %s %s",
		packCode(code), len(code), in.Gas, strings.Join(seeds, ";"), o.Status, o.GasLeft, rl, rh, pl, ph)
}

func loadCorpus(dir string) []Input {
	var out []Input
	files, _ := filepath.Glob(filepath.Join(dir, "*.json"))
	sort.Strings(files)
	for _, f := range files {
		b, err := ioutil.ReadFile(f)
		if err != nil {
			continue
		}
		var in Input
		if json.Unmarshal(b, &in) == nil && in.Code != "" {
			in.Comment = "corpus:" + filepath.Base(f)
			in.Class = "corpus"
			out = append(out, in)
		}
	}
	return out
}

func gen(seed uint64, n int, outDir, corpusDir string) {
	r := vf.NewRng(seed)
	res := vf.NewResult("C15", seed)
	type cs struct {
		in Input
		o  Obs
	}
	var cases []cs
	distinct := map[string]bool{}
	opsSeen := map[string]int{}
	add := func(in Input) {
		if in.Gas == 0 { // runtime.Call reads 0 as "no limit"
			in.Gas = 1
		}
		if in.Pool == nil {
			in.Pool = []string{}
		}
		code := in.code()
		sr := specRun(code, in.Gas)
		if !sr.Supported {
			res.Count("skipped_unsupported_opcode")
			return
		}
		o := runImpl(code, in.Gas, in.pool())
		readStorage(&o, sr.StorKeys)
		cases = append(cases, cs{in, o})
		res.Count("class_" + in.Class)
		res.Count("status_" + statusNames[o.Status])
		nontrivial := false
		for _, op := range sr.Ops {
			if _, ok := compOps[op]; ok || op == 0x0a || (op >= 0x51 && op <= 0x55) {
				nontrivial = true
			}
			opsSeen[opName(op)]++
		}
		if nontrivial {
			distinct[in.Code+fmt.Sprint(in.Gas)+strings.Join(in.Pool, ",")] = true
		}
		if len(in.Pool) > 256 {
			res.Count("pool_over_limit")
		}
		if what, detail := compare(in, o); what != "" {
			res.OracleHits = append(res.OracleHits, Hit{what, detail, in, disasm(code), o})
		}
	}
	for _, in := range loadCorpus(corpusDir) {
		add(in)
	}
	// every opcode on boundary x boundary operands first (a fixed share), then the mix
	i := 0
	for len(cases) < n {
		k := r.Intn(100)
		switch {
		case k < 45:
			op := compOpcodes[i%len(compOpcodes)]
			i++
			add(genSingle(r, op))
		case k < 75:
			add(genProgram(r, 160))
		case k < 84:
			add(genMemory(r))
		case k < 91:
			add(genStorage(r))
		default:
			add(genMalformed(r))
		}
	}
	var sb strings.Builder
	sb.WriteString("From Coq Require Import Uint63.\nFrom VF.C15 Require Import Model Transport.\nFrom VF.gen Require Import C15Table C15Ops.\n")
	var bs []string
	for _, b := range bigSeeds {
		bs = append(bs, vf.BigZ(b))
	}
	sb.WriteString("Definition bigs : list Z := " + vf.List(bs) + ".\nLocal Open Scope uint63_scope.\n")
	sb.WriteString("Definition cases : list case := [\n")
	for i, c := range cases {
		if i > 0 {
			sb.WriteString(";\n")
		}
		sb.WriteString(caseCoq(c.in, c.o))
	}
	sb.WriteString("].\nDefinition M := Eval vm_compute in mismatches jump_table op_bodies globals cases.\nPrint M.\n")
	vf.WriteFile(filepath.Join(outDir, "Cases.v"), sb.String())
	res.Cases = len(cases)
	res.Distinct = len(distinct)
	res.Rule = "bytecode programs over the computational, stack and memory opcodes run through runtime.Call on a fresh state with a seeded integer pool: (a) every arithmetic/comparison/bitwise/shift/byte opcode alone on boundary x random operand tuples above 0-3 sentinel items, (b) random straight-line programs up to ~160 instructions that DUP/SWAP and reuse results, (c) MSTORE/MSTORE8 then MLOAD at equal and overlapping offsets, (d) exceptional streams (underflow, invalid opcode, out of gas, exact gas boundary, truncated PUSH, huge memory offsets, stack limit, random bytes); a case = (code, gas, pool seed) with status, gas left, top of stack before every step, final stack, memory, returned pool cells and their pointer-alias pattern; non-trivial = executes at least one computational or memory opcode; distinct by full input"
	for k, v := range opsSeen {
		res.Distribution["op_"+k] = v
	}
	for i, c := range cases {
		res.CaseDescs = append(res.CaseDescs, map[string]interface{}{"input": c.in, "disasm": disasm(c.in.code()), "status": statusNames[c.o.Status], "gas_left": c.o.GasLeft})
		if i < 3 || (len(res.Samples) < 8 && i%97 == 0) {
			res.Samples = append(res.Samples, map[string]interface{}{"disasm": disasm(c.in.code()), "gas": c.in.Gas, "pool": c.in.Pool, "status": statusNames[c.o.Status], "gas_left": c.o.GasLeft, "stack": c.o.Stack})
		}
	}
	res.Write(filepath.Join(outDir, "result.json"))
}

func replay(file string) {
	b, err := ioutil.ReadFile(file)
	if err != nil {
		fmt.Println(err)
		os.Exit(2)
	}
	var h struct {
		Input *Input `json:"input"`
		Code  string `json:"code"`
		Gas   uint64 `json:"gas"`
		Pool  []string `json:"pool"`
	}
	if err := json.Unmarshal(b, &h); err != nil {
		fmt.Println(err)
		os.Exit(2)
	}
	in := Input{Code: h.Code, Gas: h.Gas, Pool: h.Pool}
	if h.Input != nil && h.Input.Code != "" {
		in = *h.Input
	}
	if in.Gas == 0 { // runtime.Call reads 0 as "no limit"
		in.Gas = 1
	}
	code := in.code()
	fmt.Println("program:", disasm(code))
	fmt.Println("gas:", in.Gas, "pool seed:", in.Pool)
	o := runImpl(code, in.Gas, in.pool())
	readStorage(&o, specRun(code, in.Gas).StorKeys)
	fmt.Printf("implementation: status=%s gas_left=%d steps=%d stack=%v\n", statusNames[o.Status], o.GasLeft, o.Steps, o.Stack)
	sr := specRun(code, in.Gas)
	var ss []string
	for _, v := range sr.Stack {
		ss = append(ss, v.String())
	}
	fmt.Printf("specification:  ok=%v gas_left=%d steps=%d stack=%v\n", sr.OK, sr.GasLeft, len(sr.Tops), ss)
	if what, detail := compare(in, o); what != "" {
		fmt.Println("ORACLE VIOLATION:", what, "-", detail)
		os.Exit(1)
	}
	fmt.Println("property holds on this input")
}
