// Running one bytecode program on the real EVM of the working tree.
package main

import (
	"fmt"
	"math/big"
	"strings"
	"time"

	"github.com/youchainhq/go-youchain/common"
	"github.com/youchainhq/go-youchain/core/state"
	"github.com/youchainhq/go-youchain/core/vm"
	"github.com/youchainhq/go-youchain/core/vm/runtime"
	"github.com/youchainhq/go-youchain/params"
	"github.com/youchainhq/go-youchain/youdb"
)

// status enum shared with the Coq model (Model.v: status_code)
const (
	StOK        = 0 // STOP / RETURN / end of code
	StOutOfGas  = 1
	StUnderflow = 2
	StOverflow  = 3 // stack limit reached
	StInvalid   = 4 // invalid opcode
	StGasUint   = 5 // gas uint64 overflow (memory size too large)
	StOther     = 6
)

var statusNames = []string{"ok", "out_of_gas", "stack_underflow", "stack_limit", "invalid_opcode", "gas_uint_overflow", "other_error"}

// Obs is everything the harness observes of one run.
type Obs struct {
	Status   int      `json:"status"`
	Err      string   `json:"err,omitempty"`
	GasLeft  uint64   `json:"gas_left"`
	Ret      []byte   `json:"ret"`
	Steps    int      `json:"steps"`
	Tops     []string `json:"tops"`      // decimal value of the top of stack before each step ("-1" = empty)
	Stack    []string `json:"stack"`     // stack before the last step, top first (decimal)
	Mem      []byte   `json:"mem"`       // memory before the last step
	PoolOut  []string `json:"pool_out"`  // values of the pool cells handed back, bottom first
	PoolAlias []int   `json:"pool_alias"` // index of the first cell of pool_out that is the same pointer
	StackAliased bool `json:"stack_aliased"` // two stack slots (or a stack slot and a pool cell) shared a pointer at some step
	StorKeys []string `json:"stor_keys,omitempty"` // keys the specification wrote, in order of first write
	StorVals []string `json:"stor_vals,omitempty"` // what StateDB.GetState returns for them after the run
	panicked bool
	state    *state.StateDB
}

type tracer struct {
	obs      *Obs
	maxSteps int
}

func (t *tracer) CaptureStart(from common.Address, to common.Address, call bool, input []byte, gas uint64, value *big.Int) error {
	return nil
}
func (t *tracer) CaptureState(env *vm.EVM, pc uint64, op vm.OpCode, gas, cost uint64, memory *vm.Memory, stack *vm.Stack, contract *vm.Contract, depth int, err error) error {
	if err != nil {
		return nil // the deferred capture of a failing step
	}
	o := t.obs
	o.Steps++
	d := stack.Data()
	if len(d) == 0 {
		o.Tops = append(o.Tops, "-1")
	} else {
		o.Tops = append(o.Tops, d[len(d)-1].String())
	}
	seen := make(map[*big.Int]bool, len(d))
	for _, p := range d {
		if seen[p] {
			o.StackAliased = true
		}
		seen[p] = true
	}
	o.Stack = o.Stack[:0]
	for i := len(d) - 1; i >= 0; i-- {
		o.Stack = append(o.Stack, d[i].String())
	}
	o.Mem = append(o.Mem[:0], memory.Data()...)
	return nil
}
func (t *tracer) CaptureFault(env *vm.EVM, pc uint64, op vm.OpCode, gas, cost uint64, memory *vm.Memory, stack *vm.Stack, contract *vm.Contract, depth int, err error) error {
	return nil
}
func (t *tracer) CaptureEnd(output []byte, gasUsed uint64, tm time.Duration, err error) error {
	return nil
}

func classify(err error) int {
	if err == nil {
		return StOK
	}
	s := err.Error()
	switch {
	case err == vm.ErrOutOfGas:
		return StOutOfGas
	case strings.HasPrefix(s, "stack underflow"):
		return StUnderflow
	case strings.HasPrefix(s, "stack limit reached"):
		return StOverflow
	case strings.HasPrefix(s, "invalid opcode"):
		return StInvalid
	case s == "gas uint64 overflow":
		return StGasUint
	}
	return StOther
}

var contractAddr = common.BytesToAddress([]byte("contract"))

func evmConfig(tr vm.Tracer) *vm.Config {
	p := params.Versions[params.YouCurrentVersion]
	return &vm.Config{
		RuntimeConfig: vm.RuntimeConfig{CurrYouParams: &p, JumpTable: vm.GetJumpTable(p.EVMVersion)},
		LocalConfig:   vm.LocalConfig{Debug: tr != nil, Tracer: tr},
	}
}

// runImpl executes code with the given gas on a fresh state, with the shared
// integer pool seeded with cells holding poolInit (bottom first).
func runImpl(code []byte, gas uint64, poolInit []*big.Int) (obs Obs) {
	cells := make([]*big.Int, len(poolInit))
	for i, v := range poolInit {
		cells[i] = new(big.Int).Set(v)
	}
	vm.VerifC15SetPool(cells)
	obs.Tops = []string{}
	obs.Stack = []string{}
	obs.Mem = []byte{}
	tr := &tracer{obs: &obs}
	st, _ := state.New(common.Hash{}, common.Hash{}, common.Hash{}, state.NewDatabase(youdb.NewMemDatabase()))
	st.CreateAccount(contractAddr)
	st.SetCode(contractAddr, code)
	cfg := &runtime.Config{GasLimit: gas, State: st, EVMConfig: evmConfig(tr), Time: big.NewInt(1), BlockNumber: big.NewInt(1)}
	obs.state = st
	defer func() {
		if r := recover(); r != nil {
			obs.Status = StOther
			obs.Err = fmt.Sprint("panic: ", r)
			obs.panicked = true
		}
	}()
	ret, left, err := runtime.Call(contractAddr, nil, cfg)
	obs.Status = classify(err)
	if err != nil {
		obs.Err = err.Error()
	}
	obs.GasLeft = left
	obs.Ret = append([]byte{}, ret...)
	pool := vm.VerifC15GetPool()
	first := map[*big.Int]int{}
	for i, p := range pool {
		obs.PoolOut = append(obs.PoolOut, p.String())
		if j, ok := first[p]; ok {
			obs.PoolAlias = append(obs.PoolAlias, j)
		} else {
			first[p] = i
			obs.PoolAlias = append(obs.PoolAlias, i)
		}
	}
	obs.state = st
	return obs
}

// readStorage fills StorKeys/StorVals: the contract's storage as StateDB presents
// it after the run, at the keys the specification machine wrote.
func readStorage(o *Obs, keys []*big.Int) {
	o.StorKeys, o.StorVals = []string{}, []string{}
	if o.state == nil || o.Status != StOK {
		return
	}
	for _, k := range keys {
		v := o.state.GetState(contractAddr, common.BigToHash(k))
		o.StorKeys = append(o.StorKeys, k.String())
		o.StorVals = append(o.StorVals, new(big.Int).SetBytes(v.Bytes()).String())
	}
}
