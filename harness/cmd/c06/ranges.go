// C06 translator (T5-i): inventory of every iteration over a Go map (or
// sync.Map) in the files of the block-execution path, by go/ast.
//
// Scope: core/state_processor.go, every non-test file of staking/ and of
// core/state/.  For every `for ... range X` the type of X is resolved
// syntactically (local declarations, struct fields, function results, named
// types of the package).  X that resolves to a map => inventory entry; to a
// slice/array/string/channel/integer => ignored; anything the resolver does
// not understand makes the translator FAIL (a broken tie, never silence).
// Calls `X.Range(func...)` on a sync.Map are listed as well.
//
// An entry is (file, function, ranged expression, ordinal of that expression
// inside the function) - no line numbers, so harmless edits elsewhere in the
// file do not change the inventory.
package main

import (
	"fmt"
	"go/ast"
	"go/parser"
	"go/printer"
	"go/token"
	"os"
	"path/filepath"
	"sort"
	"strings"

	"verif/harness/vf"
)

type kind int

const (
	kUnknown kind = iota
	kMap
	kSeq     // slice, array, string, chan, integer: ordered iteration
	kSyncMap // sync.Map
	kStruct  // a struct type (named) of package ty.pi, carried in ty.name
	kOther
)

// ty is a resolved type; elem/name are interpreted in package pi.
type ty struct {
	k    kind
	name string
	elem ast.Expr
	pi   *pkgInfo
	anon *ast.StructType // anonymous struct type
}

type pkgInfo struct {
	dir     string
	fset    *token.FileSet
	types   map[string]ast.Expr            // named type -> underlying type expr
	fields  map[string]map[string]ast.Expr // struct name -> field -> type expr
	funcs   map[string]*ast.FuncType       // func name or Recv.Method -> type
	vars    map[string]ast.Expr            // package-level var -> type expr (or nil)
	varVals map[string]ast.Expr            // package-level var -> value expr
	imports map[string]string              // import name -> directory under the repo ("" = outside)
	files   []*ast.File
	fnames  []string
}

// named types outside the repository (or leaf types) the resolver knows
var external = map[string]kind{
	"sync.Map": kSyncMap, "big.Int": kOther, "atomic.Value": kOther,
}

var (
	repoRoot string
	pkgCache = map[string]*pkgInfo{}
)

const modPath = "github.com/youchainhq/go-youchain/"

func exprStr(fset *token.FileSet, e ast.Node) string {
	var sb strings.Builder
	printer.Fprint(&sb, fset, e)
	return strings.Join(strings.Fields(sb.String()), " ")
}

func loadPkg(dir string) *pkgInfo {
	if p, ok := pkgCache[dir]; ok {
		return p
	}
	fset := token.NewFileSet()
	pi := &pkgInfo{dir: dir, fset: fset, types: map[string]ast.Expr{}, fields: map[string]map[string]ast.Expr{}, funcs: map[string]*ast.FuncType{},
		vars: map[string]ast.Expr{}, varVals: map[string]ast.Expr{}, imports: map[string]string{}}
	pkgCache[dir] = pi
	names, _ := filepath.Glob(filepath.Join(repoRoot, dir, "*.go"))
	sort.Strings(names)
	for _, n := range names {
		base := filepath.Base(n)
		if strings.HasSuffix(base, "_test.go") || strings.HasPrefix(base, "zz_verif") {
			continue
		}
		f, err := parser.ParseFile(fset, n, nil, 0)
		if err != nil {
			fail("cannot parse " + n + ": " + err.Error())
		}
		for _, im := range f.Imports {
			path := strings.Trim(im.Path.Value, "\"")
			name := path[strings.LastIndex(path, "/")+1:]
			if im.Name != nil {
				name = im.Name.Name
			}
			if strings.HasPrefix(path, modPath) {
				pi.imports[name] = strings.TrimPrefix(path, modPath)
			} else if _, ok := pi.imports[name]; !ok {
				pi.imports[name] = ""
			}
		}
		for _, d := range f.Decls {
			switch d := d.(type) {
			case *ast.GenDecl:
				for _, s := range d.Specs {
					switch s := s.(type) {
					case *ast.TypeSpec:
						pi.types[s.Name.Name] = s.Type
						if st, ok := s.Type.(*ast.StructType); ok {
							m := map[string]ast.Expr{}
							for _, fl := range st.Fields.List {
								if len(fl.Names) == 0 { // embedded
									m["~"+exprStr(fset, fl.Type)] = fl.Type
								}
								for _, nm := range fl.Names {
									m[nm.Name] = fl.Type
								}
							}
							pi.fields[s.Name.Name] = m
						}
					case *ast.ValueSpec:
						for i, nm := range s.Names {
							pi.vars[nm.Name] = s.Type
							if i < len(s.Values) {
								pi.varVals[nm.Name] = s.Values[i]
							}
						}
					}
				}
			case *ast.FuncDecl:
				key := d.Name.Name
				if d.Recv != nil && len(d.Recv.List) > 0 {
					key = recvName(d.Recv.List[0].Type) + "." + key
				}
				pi.funcs[key] = d.Type
			}
		}
		pi.files = append(pi.files, f)
		pi.fnames = append(pi.fnames, base)
	}
	return pi
}

func recvName(e ast.Expr) string {
	switch e := e.(type) {
	case *ast.StarExpr:
		return recvName(e.X)
	case *ast.Ident:
		return e.Name
	}
	return "?"
}

func fail(msg string) {
	fmt.Fprintln(os.Stderr, "c06 ranges: "+msg)
	os.Exit(3)
}

type scope struct {
	pi    *pkgInfo
	local map[string]ast.Expr // name -> type expr
	vals  map[string]ast.Expr // name -> defining value expr (when no type is known)
	ext   map[string]ty       // name -> type resolved in another package
	depth int
}

// ofType classifies a type expression written in package pi.
func ofType(pi *pkgInfo, e ast.Expr) ty {
	switch e := e.(type) {
	case nil:
		return ty{k: kUnknown}
	case *ast.MapType:
		return ty{k: kMap, elem: e.Value, pi: pi}
	case *ast.ArrayType:
		return ty{k: kSeq, elem: e.Elt, pi: pi}
	case *ast.ChanType:
		return ty{k: kSeq}
	case *ast.StarExpr:
		return ofType(pi, e.X)
	case *ast.ParenExpr:
		return ofType(pi, e.X)
	case *ast.Ellipsis:
		return ty{k: kSeq, elem: e.Elt, pi: pi}
	case *ast.StructType:
		return ty{k: kStruct, anon: e, pi: pi}
	case *ast.InterfaceType, *ast.FuncType:
		return ty{k: kOther}
	case *ast.Ident:
		switch e.Name {
		case "string", "int", "uint64", "int64", "uint", "uint32", "uint16", "uint8", "byte":
			return ty{k: kSeq}
		case "bool", "error":
			return ty{k: kOther}
		}
		if u, ok := pi.types[e.Name]; ok {
			switch u.(type) {
			case *ast.StructType:
				return ty{k: kStruct, name: e.Name, pi: pi}
			case *ast.InterfaceType:
				return ty{k: kStruct, name: e.Name, pi: pi} // methods are looked up by name
			}
			t := ofType(pi, u)
			if t.k == kSeq || t.k == kMap { // named slice/map type with methods
				t.name = e.Name
			}
			return t
		}
		return ty{k: kUnknown}
	case *ast.SelectorExpr:
		q := exprStr(pi.fset, e)
		if k, ok := external[q]; ok {
			return ty{k: k}
		}
		if id, ok := e.X.(*ast.Ident); ok {
			if dir, ok := pi.imports[id.Name]; ok {
				if dir == "" {
					return ty{k: kOther}
				}
				return ofType(loadPkg(dir), e.Sel)
			}
		}
		return ty{k: kUnknown}
	}
	return ty{k: kUnknown}
}

func resultOf(pi *pkgInfo, ft *ast.FuncType) ty {
	if ft.Results != nil && len(ft.Results.List) > 0 {
		return ofType(pi, ft.Results.List[0].Type)
	}
	return ty{k: kOther}
}

// methodOf looks up a method of a named type (struct, interface, named slice/map)
func methodOf(t ty, m string) (ty, bool) {
	if t.pi == nil || t.name == "" {
		return ty{}, false
	}
	if ft, ok := t.pi.funcs[t.name+"."+m]; ok {
		return resultOf(t.pi, ft), true
	}
	if it, ok := t.pi.types[t.name].(*ast.InterfaceType); ok {
		for _, f := range it.Methods.List {
			for _, nm := range f.Names {
				if nm.Name == m {
					if ft, ok := f.Type.(*ast.FuncType); ok {
						return resultOf(t.pi, ft), true
					}
				}
			}
		}
	}
	// promoted through embedded fields
	if fm, ok := t.pi.fields[t.name]; ok {
		for k, ft := range fm {
			if strings.HasPrefix(k, "~") {
				if r, ok := methodOf(ofType(t.pi, ft), m); ok {
					return r, true
				}
			}
		}
	}
	return ty{}, false
}

func fieldOf(t ty, field string) (ty, bool) {
	if t.pi == nil {
		return ty{}, false
	}
	if t.anon != nil {
		for _, fl := range t.anon.Fields.List {
			for _, nm := range fl.Names {
				if nm.Name == field {
					return ofType(t.pi, fl.Type), true
				}
			}
		}
		return ty{}, false
	}
	m, ok := t.pi.fields[t.name]
	if !ok {
		return ty{}, false
	}
	if ft, ok := m[field]; ok {
		return ofType(t.pi, ft), true
	}
	for k, ft := range m {
		if strings.HasPrefix(k, "~") {
			if r, ok := fieldOf(ofType(t.pi, ft), field); ok {
				return r, true
			}
		}
	}
	return ty{}, false
}

// infer the type of a value expression
func (s *scope) infer(e ast.Expr) ty {
	s.depth++
	defer func() { s.depth-- }()
	if s.depth > 16 {
		return ty{k: kUnknown}
	}
	switch e := e.(type) {
	case *ast.ParenExpr:
		return s.infer(e.X)
	case *ast.StarExpr:
		return s.infer(e.X)
	case *ast.UnaryExpr:
		return s.infer(e.X)
	case *ast.CompositeLit:
		return ofType(s.pi, e.Type)
	case *ast.BasicLit:
		return ty{k: kSeq}
	case *ast.Ident:
		if t, ok := s.ext[e.Name]; ok {
			return t
		}
		if t, ok := s.local[e.Name]; ok && t != nil {
			return ofType(s.pi, t)
		}
		if v, ok := s.vals[e.Name]; ok && v != nil {
			return s.infer(v)
		}
		if t, ok := s.pi.vars[e.Name]; ok {
			if t != nil {
				return ofType(s.pi, t)
			}
			return s.infer(s.pi.varVals[e.Name])
		}
		return ty{k: kUnknown}
	case *ast.SelectorExpr:
		if id, ok := e.X.(*ast.Ident); ok {
			if _, isLocal := s.local[id.Name]; !isLocal {
				if _, isVal := s.vals[id.Name]; !isVal {
					if dir, ok := s.pi.imports[id.Name]; ok && dir != "" { // pkg.Var
						q := loadPkg(dir)
						if t, ok := q.vars[e.Sel.Name]; ok && t != nil {
							return ofType(q, t)
						}
						return ty{k: kUnknown}
					}
				}
			}
		}
		base := s.infer(e.X)
		if base.k == kStruct {
			if ft, ok := fieldOf(base, e.Sel.Name); ok {
				return ft
			}
		}
		return ty{k: kUnknown}
	case *ast.IndexExpr:
		base := s.infer(e.X)
		if (base.k == kMap || base.k == kSeq) && base.elem != nil {
			return ofType(base.pi, base.elem)
		}
		if base.k == kSeq {
			return ty{k: kOther}
		}
		return ty{k: kUnknown}
	case *ast.SliceExpr:
		return s.infer(e.X)
	case *ast.TypeAssertExpr:
		return ofType(s.pi, e.Type)
	case *ast.CallExpr:
		switch f := e.Fun.(type) {
		case *ast.Ident:
			switch f.Name {
			case "make", "new":
				if len(e.Args) > 0 {
					return ofType(s.pi, e.Args[0])
				}
			case "append":
				if len(e.Args) > 0 {
					return s.infer(e.Args[0])
				}
			case "len", "cap":
				return ty{k: kSeq}
			}
			if ft, ok := s.pi.funcs[f.Name]; ok {
				return resultOf(s.pi, ft)
			}
			if _, ok := s.pi.types[f.Name]; ok { // conversion
				return ofType(s.pi, f)
			}
		case *ast.SelectorExpr:
			if id, ok := f.X.(*ast.Ident); ok {
				_, isLocal := s.local[id.Name]
				_, isVal := s.vals[id.Name]
				if dir, ok := s.pi.imports[id.Name]; ok && !isLocal && !isVal { // pkg.Func(...) or pkg.Type(...)
					if dir == "" {
						return ty{k: kOther}
					}
					q := loadPkg(dir)
					if ft, ok := q.funcs[f.Sel.Name]; ok {
						return resultOf(q, ft)
					}
					if _, ok := q.types[f.Sel.Name]; ok {
						return ofType(q, f.Sel)
					}
					return ty{k: kUnknown}
				}
			}
			base := s.infer(f.X)
			if r, ok := methodOf(base, f.Sel.Name); ok {
				return r
			}
		case *ast.ArrayType, *ast.MapType:
			return ofType(s.pi, f)
		}
		return ty{k: kUnknown}
	}
	return ty{k: kUnknown}
}

type site struct {
	file, fn, expr string
	ord            int
	syncMap        bool
}

func (x site) key() string {
	k := "range"
	if x.syncMap {
		k = "syncmap"
	}
	return fmt.Sprintf("%s|%s|%s|%s#%d", k, x.file, x.fn, x.expr, x.ord)
}

func scanFunc(pi *pkgInfo, rel string, fd *ast.FuncDecl, out *[]site) {
	if fd.Body == nil {
		return
	}
	fn := fd.Name.Name
	s := &scope{pi: pi, local: map[string]ast.Expr{}, vals: map[string]ast.Expr{}, ext: map[string]ty{}}
	addFields := func(fl *ast.FieldList) {
		if fl == nil {
			return
		}
		for _, f := range fl.List {
			for _, nm := range f.Names {
				s.local[nm.Name] = f.Type
			}
		}
	}
	if fd.Recv != nil {
		fn = recvName(fd.Recv.List[0].Type) + "." + fn
		addFields(fd.Recv)
	}
	addFields(fd.Type.Params)
	addFields(fd.Type.Results)
	seen := map[string]int{}
	var walk func(n ast.Node) bool
	walk = func(n ast.Node) bool {
		switch n := n.(type) {
		case *ast.FuncLit:
			addFields(n.Type.Params)
		case *ast.AssignStmt:
			if n.Tok == token.DEFINE || n.Tok == token.ASSIGN {
				for i, l := range n.Lhs {
					id, ok := l.(*ast.Ident)
					if !ok || id.Name == "_" {
						continue
					}
					if _, known := s.local[id.Name]; known && n.Tok == token.ASSIGN {
						continue
					}
					if len(n.Rhs) == len(n.Lhs) {
						if _, had := s.vals[id.Name]; !had || n.Tok == token.DEFINE {
							s.vals[id.Name] = n.Rhs[i]
							delete(s.local, id.Name)
							delete(s.ext, id.Name)
						}
					} else if len(n.Rhs) == 1 && i == 0 {
						s.vals[id.Name] = n.Rhs[0] // first result of a call
						delete(s.local, id.Name)
					}
				}
			}
		case *ast.DeclStmt:
			if gd, ok := n.Decl.(*ast.GenDecl); ok {
				for _, sp := range gd.Specs {
					if vs, ok := sp.(*ast.ValueSpec); ok {
						for i, nm := range vs.Names {
							if vs.Type != nil {
								s.local[nm.Name] = vs.Type
							} else if i < len(vs.Values) {
								s.vals[nm.Name] = vs.Values[i]
							}
						}
					}
				}
			}
		case *ast.RangeStmt:
			t := s.infer(n.X)
			es := exprStr(pi.fset, n.X)
			switch t.k {
			case kMap:
				seen[es]++
				*out = append(*out, site{file: rel, fn: fn, expr: es, ord: seen[es]})
			case kSeq:
			default:
				fail(fmt.Sprintf("%s: %s: cannot tell whether `range %s` iterates a map (line %d); teach harness/cmd/c06/ranges.go", rel, fn, es, pi.fset.Position(n.Pos()).Line))
			}
			// range variables (only when the element type is written in this package)
			if id, ok := n.Value.(*ast.Ident); ok && id != nil && id.Name != "_" {
				delete(s.vals, id.Name)
				delete(s.local, id.Name)
				if t.elem != nil && t.pi == pi {
					s.local[id.Name] = t.elem
				} else if t.elem != nil {
					s.ext[id.Name] = ofType(t.pi, t.elem)
				}
			}
		case *ast.CallExpr:
			if sel, ok := n.Fun.(*ast.SelectorExpr); ok && sel.Sel.Name == "Range" && len(n.Args) == 1 {
				if _, isLit := n.Args[0].(*ast.FuncLit); isLit {
					t := s.infer(sel.X)
					es := exprStr(pi.fset, sel.X)
					switch t.k {
					case kSyncMap:
						seen["~"+es]++
						*out = append(*out, site{file: rel, fn: fn, expr: es, ord: seen["~"+es], syncMap: true})
					case kStruct: // a method named Range of a package type: look inside that method instead
					default:
						fail(fmt.Sprintf("%s: %s: cannot classify `%s.Range(...)`", rel, fn, es))
					}
				}
			}
		}
		return true
	}
	ast.Inspect(fd.Body, walk)
}

func inventory(repo string) []site {
	var out []site
	repoRoot = repo
	scan := func(dir, only string) {
		pi := loadPkg(dir)
		for i, f := range pi.files {
			if only != "" && pi.fnames[i] != only {
				continue
			}
			rel := dir + "/" + pi.fnames[i]
			for _, d := range f.Decls {
				if fd, ok := d.(*ast.FuncDecl); ok {
					scanFunc(pi, rel, fd, &out)
				}
			}
		}
	}
	scan("core", "state_processor.go")
	scan("staking", "")
	scan("core/state", "")
	return out
}

func repoDir() string {
	if r := os.Getenv("VERIF_REPO"); r != "" {
		return r
	}
	return "/repo"
}

// ranges writes coq/gen/C06MapRanges.v
func ranges(out string) {
	sites := inventory(repoDir())
	var sb strings.Builder
	sb.WriteString("(* GENERATED by `c06 ranges` from the working tree (go/ast inventory of every map / sync.Map\n   iteration in core/state_processor.go, staking/*.go, core/state/*.go). Do not edit. *)\n")
	sb.WriteString("From Coq Require Import String List.\nImport ListNotations.\nOpen Scope string_scope.\n")
	sb.WriteString("Definition map_ranges : list string := [\n")
	for i, s := range sites {
		if i > 0 {
			sb.WriteString(";\n")
		}
		sb.WriteString("  \"" + strings.ReplaceAll(s.key(), "\"", "'") + "\"")
	}
	sb.WriteString("].\n")
	if out == "" || out == "." {
		fmt.Print(sb.String())
		return
	}
	vf.WriteIfChanged(out, sb.String())
}
